// C10 - the optimiser's probe is an evaluation (spec/ExprProbe.tla, ExprProbeScn.tla).
//
// A scenario is a PROCESS: compile the expression p (its compilation probes it when the compiler optimises) and the
// witness w, evaluate both on a few lines one goroutine after the other, then from several goroutines at once.  The
// sub-context pool of the array helpers is process-wide, so every scenario runs in two FRESH child processes of this
// driver - one with the optimising compiler, one with the plain one - and the parent compares every value with the value
// the specification (ExprArray!EvalT, printed by ExprProbe_Gen) gives it, and the two processes with each other.
package main

import (
	"encoding/json"
	"flag"
	"fmt"
	"os"
	"os/exec"
	"sort"
	"strconv"
	"strings"
	"sync"
	"time"

	"rare/pkg/expressions"

	"verifharness/vh"
)

// ---------------------------------------------------------------------------- trees of ExprArray.tla as template text

type xnode struct {
	T string   `json:"t"`
	F string   `json:"f"`
	V []int    `json:"v"`
	A []*xnode `json:"a"`
}

// text of the tree; ok = false when it cannot be written without escapes (not generated)
func (x *xnode) text(top bool) (string, bool) {
	wrap := func(s string) (string, bool) {
		// a blank inside a statement does not end the argument: only a blank at brace depth 0 (or the empty text) needs quotes
		depth, open0 := 0, false
		for _, c := range s {
			switch c {
			case '{':
				depth++
			case '}':
				depth--
			case ' ':
				if depth == 0 {
					open0 = true
				}
			}
		}
		if top || (s != "" && !open0) {
			return s, true
		}
		if strings.Contains(s, "\"") {
			return s, false
		}
		return "\"" + s + "\"", true
	}
	switch x.T {
	case "lit":
		s := str(x.V)
		if strings.ContainsAny(s, "\"{}\\\x00") {
			return s, false
		}
		return wrap(s)
	case "arg":
		if len(x.V) != 1 {
			return "", false
		}
		return "{" + strconv.Itoa(x.V[0]) + "}", true
	case "key":
		return "{" + str(x.V) + "}", true
	case "cat":
		var sb strings.Builder
		for _, a := range x.A {
			s, ok := a.text(true)
			if !ok {
				return "", false
			}
			sb.WriteString(s)
		}
		return wrap(sb.String())
	case "call":
		var sb strings.Builder
		sb.WriteString("{" + x.F)
		for _, a := range x.A {
			s, ok := a.text(false)
			if !ok {
				return "", false
			}
			sb.WriteString(" " + s)
		}
		sb.WriteString("}")
		return sb.String(), true
	}
	return "", false
}

// ---------------------------------------------------------------------------- one process

type probeLine struct {
	M  []string    `json:"m"`
	Ks [][2]string `json:"ks"`
}
type probeJob struct {
	P      string      `json:"p"`
	W      string      `json:"w"`
	Lines  []probeLine `json:"lines"`
	Opt    bool        `json:"opt"`
	G      int         `json:"g"`
	Rounds int         `json:"rounds"`
}
type probeVal struct {
	Got   string `json:"got"`
	Panic string `json:"panic"`
}
type probeOut struct {
	CerrP string       `json:"cerr_p"`
	CerrW string       `json:"cerr_w"`
	SeqP  [][]probeVal `json:"seq_p"` // [pass][line]
	SeqW  [][]probeVal `json:"seq_w"`
	ConcP [][]probeVal `json:"conc_p"` // [goroutine] distinct values seen (goroutine g works on line g % len(lines))
	ConcW [][]probeVal `json:"conc_w"`
	Evals int          `json:"evals"`
}

func pv(o outcome) probeVal { return probeVal{Got: o.got, Panic: o.panic} }

// c10 probechild -job file : the process of one scenario in one mode; the result goes to stdout
func c10ProbeChild(argv []string) error {
	fs := flag.NewFlagSet("probechild", flag.ExitOnError)
	jobP := fs.String("job", "", "job (json)")
	fs.Parse(argv)
	b, err := os.ReadFile(*jobP)
	if err != nil {
		return err
	}
	var job probeJob
	if err := json.Unmarshal(b, &job); err != nil {
		return err
	}
	startWatchdog(90 * time.Second)
	e := loadEnv("none", "")
	out := probeOut{}
	cp := e.compile(job.P, job.Opt)
	cw := e.compile(job.W, job.Opt)
	out.CerrP, out.CerrW = cp.cerr+cp.panic, cw.cerr+cw.panic
	ctx := func(l probeLine) *expressions.KeyBuilderContextArray { return mkctx(l.M, l.Ks) }
	for pass := 0; pass < 2; pass++ {
		var sp, sw []probeVal
		for _, l := range job.Lines {
			wdEnter("probe seq " + job.P + " | " + job.W)
			sp = append(sp, pv(cp.eval(ctx(l))))
			sw = append(sw, pv(cw.eval(ctx(l))))
			wdLeave()
			out.Evals += 2
		}
		out.SeqP, out.SeqW = append(out.SeqP, sp), append(out.SeqW, sw)
	}
	if job.G > 0 && job.Rounds > 0 {
		out.ConcP, out.ConcW = make([][]probeVal, job.G), make([][]probeVal, job.G)
		var wg sync.WaitGroup
		start := make(chan bool)
		wdEnter("probe conc " + job.P + " | " + job.W)
		for g := 0; g < job.G; g++ {
			wg.Add(1)
			go func(g int) {
				defer wg.Done()
				l := job.Lines[g%len(job.Lines)]
				seenW, seenP := map[probeVal]bool{}, map[probeVal]bool{}
				<-start
				for r := 0; r < job.Rounds; r++ {
					v := pv(cw.eval(ctx(l)))
					if !seenW[v] && len(seenW) < 6 {
						seenW[v] = true
						out.ConcW[g] = append(out.ConcW[g], v)
					}
					if r%8 == 0 {
						v := pv(cp.eval(ctx(l)))
						if !seenP[v] && len(seenP) < 6 {
							seenP[v] = true
							out.ConcP[g] = append(out.ConcP[g], v)
						}
					}
				}
			}(g)
		}
		close(start)
		wg.Wait()
		wdLeave()
		out.Evals += job.G * (job.Rounds + job.Rounds/8)
	}
	enc, _ := json.Marshal(out)
	fmt.Printf("PROBEOUT %s\n", enc)
	return nil
}

// runProbeChild starts this driver again as `probechild` (a fresh process: fresh pools)
func runProbeChild(dir string, id string, job probeJob) (*probeOut, string) {
	jp := fmt.Sprintf("%s/probe-%s-%v.json", dir, id, job.Opt)
	b, _ := json.Marshal(job)
	if err := os.WriteFile(jp, b, 0o644); err != nil {
		return nil, "harness: " + err.Error()
	}
	cmd := exec.Command(os.Args[0], "probechild", "-job", jp)
	var so, se strings.Builder
	cmd.Stdout, cmd.Stderr = &so, &se
	if err := cmd.Start(); err != nil {
		return nil, "harness: " + err.Error()
	}
	done := make(chan error, 1)
	go func() { done <- cmd.Wait() }()
	var werr error
	select {
	case werr = <-done:
	case <-time.After(240 * time.Second):
		cmd.Process.Kill()
		return nil, "harness: child timeout"
	}
	for _, ln := range strings.Split(so.String(), "\n") {
		if strings.HasPrefix(ln, "PROBEOUT ") {
			var po probeOut
			if err := json.Unmarshal([]byte(ln[9:]), &po); err != nil {
				return nil, "harness: " + err.Error()
			}
			return &po, ""
		}
		if strings.HasPrefix(ln, "HANG ") {
			return nil, "hang: " + ln[5:]
		}
	}
	// the process died: a Go runtime fatal error (stack overflow of a look-up that never ends, concurrent map access ..)
	msg := se.String()
	first := ""
	for _, ln := range strings.Split(msg, "\n") {
		if strings.HasPrefix(ln, "fatal error:") || strings.HasPrefix(ln, "panic:") || strings.HasPrefix(ln, "runtime:") {
			first = ln
			break
		}
	}
	if first == "" {
		return nil, fmt.Sprintf("harness: child failed without a result (%v): %s", werr, tail(msg, 400))
	}
	frames := []string{}
	for _, ln := range strings.Split(msg, "\n") {
		if strings.HasPrefix(ln, "rare/pkg/") && len(frames) < 4 {
			frames = append(frames, strings.TrimSpace(ln))
		}
	}
	return nil, "crash: " + first + " " + strings.Join(frames, " <- ")
}

func tail(s string, n int) string {
	if len(s) > n {
		return s[len(s)-n:]
	}
	return s
}

// ---------------------------------------------------------------------------- B1: the scenarios of ExprProbe_Gen

type probeExp struct {
	K string `json:"k"`
	V []int  `json:"v"`
}
type probeRecLine struct {
	M  [][]int   `json:"m"`
	Ks [][][]int `json:"ks"`
	Ep probeExp  `json:"ep"`
	Ew probeExp  `json:"ew"`
}
type probeRec struct {
	Kind  string         `json:"kind"`
	Id    int            `json:"id"`
	Pi    int            `json:"pi"`
	Wi    int            `json:"wi"`
	P     *xnode         `json:"p"`
	W     *xnode         `json:"w"`
	Inf   bool           `json:"inf"`
	Zero  bool           `json:"zero"`
	Depth int            `json:"depth"`
	Lines []probeRecLine `json:"lines"`
}

type probeSummary struct {
	scenarios, processes, evals, decided, skipped, infScn, bothCrash int
	harness                                                         []string
}

// replayProbe runs every scenario in an optimising and a plain process and compares with the specification's values
func replayProbe(recs []*probeRec, dir string, rounds int, st *replayState) probeSummary {
	var sum probeSummary
	type res struct {
		out  [2]*probeOut
		fail [2]string
		job  probeJob
	}
	results := make([]*res, len(recs))
	var wg sync.WaitGroup
	sem := make(chan bool, 5)
	for i, r := range recs {
		pt, ok1 := r.P.text(true)
		wt, ok2 := r.W.text(true)
		if !ok1 || !ok2 {
			sum.skipped++
			continue
		}
		job := probeJob{P: pt, W: wt, G: 2 * len(r.Lines), Rounds: rounds}
		for _, l := range r.Lines {
			pl := probeLine{}
			for _, g := range l.M {
				pl.M = append(pl.M, str(g))
			}
			for _, kv := range l.Ks {
				pl.Ks = append(pl.Ks, [2]string{str(kv[0]), str(kv[1])})
			}
			job.Lines = append(job.Lines, pl)
		}
		results[i] = &res{job: job}
		for k, opt := range []bool{true, false} {
			wg.Add(1)
			sem <- true
			go func(i, k int, opt bool) {
				defer wg.Done()
				defer func() { <-sem }()
				j := results[i].job
				j.Opt = opt
				results[i].out[k], results[i].fail[k] = runProbeChild(dir, strconv.Itoa(recs[i].Id), j)
			}(i, k, opt)
		}
	}
	wg.Wait()
	modes := []string{"optimised", "unoptimised"}
	reported := map[string]bool{}
	for i, r := range recs {
		rs := results[i]
		if rs == nil {
			continue
		}
		sum.scenarios++
		if r.Inf {
			sum.infScn++
		}
		base := func() M {
			return M{"g": "probe", "f": fmt.Sprintf("p%dw%d", r.Pi, r.Wi), "where": "probe", "template": rs.job.P, "witness": rs.job.W, "probe_runs_away": r.Inf}
		}
		harness := false
		for k := range modes {
			if strings.HasPrefix(rs.fail[k], "harness:") {
				sum.harness = append(sum.harness, rs.fail[k])
				harness = true
			}
		}
		if harness {
			continue
		}
		sum.processes += 2
		if rs.fail[0] != "" && rs.fail[1] != "" {
			sum.bothCrash++ // optimisation does not influence it: not this property
			continue
		}
		if rs.fail[0] != "" || rs.fail[1] != "" {
			k := 0
			if rs.fail[1] != "" {
				k = 1
			}
			m := base()
			m["class"], m["mode"], m["got"], m["expect_kind"] = "process-dies", modes[k], rs.fail[k], "the "+modes[1-k]+" process evaluates every line"
			st.mismatch(m)
			continue
		}
		// every value against the specification, in both processes
		for k, po := range rs.out {
			sum.evals += po.Evals
			check := func(which, phase string, line int, exp probeExp, v probeVal, tpl string) {
				st.runs++
				if exp.K != "out" && v.Panic == "" {
					return
				}
				st.decided++
				sum.decided++
				st.distinct[fmt.Sprint("probe", r.Id, which, phase, line, k)] = true
				if v.Panic != "" || v.Got != str(exp.V) {
					key := fmt.Sprint(r.Id, k, which, phase)
					if reported[key] {
						return
					}
					reported[key] = true
					m := base()
					m["class"], m["mode"], m["which"], m["phase"] = "value", modes[k], which, phase
					m["m"], m["ks"] = rs.job.Lines[line].M, rs.job.Lines[line].Ks
					m["got"], m["panic"], m["expect_kind"], m["expect"], m["evaluated"] = v.Got, v.Panic, exp.K, str(exp.V), tpl
					st.mismatch(m)
				}
			}
			for pass := range po.SeqP {
				for li, l := range r.Lines {
					check("p", "sequential", li, l.Ep, po.SeqP[pass][li], rs.job.P)
					check("w", "sequential", li, l.Ew, po.SeqW[pass][li], rs.job.W)
				}
			}
			for g := range po.ConcW {
				li := g % len(r.Lines)
				for _, v := range po.ConcW[g] {
					check("w", "concurrent", li, r.Lines[li].Ew, v, rs.job.W)
				}
				for _, v := range po.ConcP[g] {
					check("p", "concurrent", li, r.Lines[li].Ep, v, rs.job.P)
				}
			}
		}
		// the two processes with each other (the relation of the property, also where the specification leaves the value open)
		flat := func(po *probeOut) []string {
			var out []string
			for pass := range po.SeqP {
				for li := range po.SeqP[pass] {
					out = append(out, fmt.Sprintf("p/seq/%d=%q%s", li, po.SeqP[pass][li].Got, po.SeqP[pass][li].Panic),
						fmt.Sprintf("w/seq/%d=%q%s", li, po.SeqW[pass][li].Got, po.SeqW[pass][li].Panic))
				}
			}
			for g := range po.ConcW {
				var vs []string
				for _, v := range po.ConcW[g] {
					vs = append(vs, fmt.Sprintf("%q%s", v.Got, v.Panic))
				}
				sort.Strings(vs)
				out = append(out, fmt.Sprintf("w/conc/%d=%s", g, strings.Join(vs, "|")))
			}
			return out
		}
		a, b := flat(rs.out[0]), flat(rs.out[1])
		st.relRuns += len(a)
		for j := range a {
			if j < len(b) && a[j] != b[j] {
				m := base()
				m["class"], m["mode"], m["got"], m["got_other"], m["expect_kind"] = "opt-noopt", "both", a[j], b[j], "optimised process = unoptimised process"
				st.mismatch(m)
				break
			}
		}
	}
	return sum
}

// ---------------------------------------------------------------------------- B2: random hostile expressions, optimising process = plain process

// lawProbe: n random processes.  p is an expression whose loop is bounded by the DATA (start value / bound from the match),
// so the probe with the all-empty context runs it to the iteration cap; w nests array helpers and reads {0} and keys after
// the nested helper.  Law (judged by ExprOpt_Trace): every value of the optimising process = the value of the plain process.
type eqEmitter interface {
	eq(what, f string, a, b outcome, info M)
}

type pendingEq struct {
	what, f string
	a, b    outcome
	info    M
}
type pendingWriter struct{ pending []pendingEq }

func (p *pendingWriter) eq(what, f string, a, b outcome, info M) {
	p.pending = append(p.pending, pendingEq{what, f, a, b, info})
}

func lawProbe(w eqEmitter, dir string, n, rounds int) M {
	r := vh.NewRand(40)
	pick := func(xs ...string) string { return xs[r.Intn(len(xs))] }
	procs, items, crashes := 0, 0, 0
	type scn struct {
		job  probeJob
		out  [2]*probeOut
		fail [2]string
	}
	scns := make([]*scn, n)
	var wg sync.WaitGroup
	sem := make(chan bool, 4)
	for i := 0; i < n; i++ {
		N := 4 + r.Intn(3)
		start := pick("{0}", "{k0}", "{coalesce {0} \"\"}", "{sumi {0} 0}", "1")
		cond := pick("{lt {0} %d}", "{lte {0} {k1}}", "{and {lt {0} %d} 1}", "{lt {sumi {0} 0} %d}", "{neq {0} %d}", "{not {gte {0} %d}}")
		if strings.Contains(cond, "%d") {
			cond = fmt.Sprintf(cond, N)
		}
		if start == "1" && !strings.Contains(cond, "k1") { // constant start: the bound must come from the match, or nothing runs away
			cond = "{lte {0} {k1}}"
		}
		incr := pick("{sumi {0} 1}", "{sumi 1 {0}}", "{multi {sumi {0} 1} 1}", "{sumi {0} {if {k0} 1 1}}")
		loop := "{@for " + start + " " + cond + " " + incr + "}"
		p := fmt.Sprintf(pick("{@join %s ,}", "{@len %s}", "{@join {@map %s {sumi {0} 1}} +}", "<%s>", "{@join {@filter %s {gt {0} 1}} ,}:{@join %s -}",
			"{@reduce %s {sumi {0} {1}}}"), loop, loop)
		if strings.Contains(p, "%!") {
			p = strings.Split(p, "%!")[0]
		}
		inner := pick("{@join {@map {@split {0} .} {sumi {0} 1}} +}", "{@reduce {@split {0} .} {sumi {0} {1}}}", "{@join {@filter {@split {0} .} {gt {0} {k1}}} +}{k0}",
			"{@join {@map {@split {0} .} {@reduce {@split {0} -} {sumi {0} {1}}}} +}")
		wt := fmt.Sprintf(pick("{@join {@map {@split {1} ,} \"%s:{0}\"} ;}", "{@join {@map {@split {1} ,} \"{k0}%s={0}{k0}\"} ;}",
			"{@reduce {@split {1} ,} \"{0}|%s:{1}\" \"\"}"), inner)
		job := probeJob{P: p, W: wt, G: 6, Rounds: rounds}
		for l := 0; l < 3; l++ {
			var parts []string
			for a := 0; a < 2+r.Intn(2); a++ {
				var q []string
				for b := 0; b < 1+r.Intn(3); b++ {
					q = append(q, strconv.Itoa(r.Intn(9)+1)+pick("", "", "-"+strconv.Itoa(r.Intn(5))))
				}
				parts = append(parts, strings.Join(q, "."))
			}
			job.Lines = append(job.Lines, probeLine{M: []string{strconv.Itoa(r.Intn(4)), strings.Join(parts, ",")},
				Ks: [][2]string{{"k0", strconv.Itoa(r.Intn(4))}, {"k1", strconv.Itoa(N + r.Intn(2))}}})
		}
		scns[i] = &scn{job: job}
		for k, opt := range []bool{true, false} {
			wg.Add(1)
			sem <- true
			go func(i, k int, opt bool) {
				defer wg.Done()
				defer func() { <-sem }()
				j := scns[i].job
				j.Opt = opt
				scns[i].out[k], scns[i].fail[k] = runProbeChild(dir, "law"+strconv.Itoa(i), j)
			}(i, k, opt)
		}
	}
	wg.Wait()
	var harness []string
	for _, s := range scns {
		info := func(what string, li int) M {
			m := M{"template": s.job.P, "witness": s.job.W, "what_evaluated": what}
			if li >= 0 {
				m["m"], m["ks"] = s.job.Lines[li].M, s.job.Lines[li].Ks
			}
			return m
		}
		if strings.HasPrefix(s.fail[0], "harness:") || strings.HasPrefix(s.fail[1], "harness:") {
			harness = append(harness, s.fail[0]+s.fail[1])
			continue
		}
		procs += 2
		if s.fail[0] != "" || s.fail[1] != "" {
			crashes++
			w.eq("proc-opt-noopt", "process", outcome{panic: s.fail[0]}, outcome{panic: s.fail[1]}, info("the whole process", -1))
			continue
		}
		a, b := s.out[0], s.out[1]
		for pass := range a.SeqP {
			for li := range a.SeqP[pass] {
				w.eq("proc-opt-noopt", "p-sequential", outcome{got: a.SeqP[pass][li].Got, panic: a.SeqP[pass][li].Panic},
					outcome{got: b.SeqP[pass][li].Got, panic: b.SeqP[pass][li].Panic}, info("p", li))
				w.eq("proc-opt-noopt", "w-sequential", outcome{got: a.SeqW[pass][li].Got, panic: a.SeqW[pass][li].Panic},
					outcome{got: b.SeqW[pass][li].Got, panic: b.SeqW[pass][li].Panic}, info("w", li))
				items += 2
			}
		}
		join := func(vs []probeVal) (string, string) {
			var g, p []string
			for _, v := range vs {
				g = append(g, v.Got)
				if v.Panic != "" {
					p = append(p, v.Panic)
				}
			}
			sort.Strings(g)
			return strings.Join(g, " | "), strings.Join(p, " | ")
		}
		for g := range a.ConcW {
			ag, ap := join(a.ConcW[g])
			bg, bp := join(b.ConcW[g])
			w.eq("proc-opt-noopt", "w-concurrent", outcome{got: ag, panic: ap}, outcome{got: bg, panic: bp}, info("w, every distinct value one goroutine saw", g%len(s.job.Lines)))
			items++
		}
	}
	return M{"processes": procs, "compared": items, "died": crashes, "harness_failures": harness}
}

package main

// C10 - optimisation and user-defined (funcs-file) functions never change an expression's value.
//   c10 replay : B1. Performs the TLC-generated vectors (ExprOpt_Gen) on the real code: every template is
//                compiled with NewKeyBuilderEx(true) and (false) and evaluated on every listed match context
//                (one compiled expression, a history of contexts); the expectation is the value of the
//                abstract specification (clock readings are symbolic and checked against the real clock,
//                again after a sleep: a frozen {time live}/{time delta} disagrees).  Funcs files are written
//                to disk in every generated layout, loaded with funcfile.LoadDefinitionsFile, and every call
//                vector is evaluated with every layout; the substituted body text must give the same value.
//                A sample runs through the CLI (`rare --funcs f expression`, with and without --no-optimize).
//   c10 law    : B2. Law records for ExprOpt_Trace (see law.go).
//   c10 eval   : one template, for debugging and replay files.

import (
	"encoding/json"
	"flag"
	"fmt"
	"os"
	"os/exec"
	"path/filepath"
	"runtime"
	"sort"
	"strings"
	"sync"
	"time"

	"rare/pkg/color"
	"rare/pkg/expressions"
	"rare/pkg/expressions/funcfile"
	"rare/pkg/expressions/funclib"
	"rare/pkg/humanize"
	"rare/pkg/logger"

	"verifharness/vh"
)

func main() {
	humanize.Enabled = true
	color.Enabled = false
	logger.DeferLogs() // "Missing expression" etc. from the loader are not wanted on stderr
	vh.Main(vh.Commands{"replay": c10Replay, "law": c10Law, "eval": c10Eval, "probechild": c10ProbeChild, "startup": c10Startup, "sitechild": c10SiteChild})
}

type M = vh.M

// ---------------------------------------------------------------------------- watchdog
var (
	wdMu    sync.Mutex
	wdWhat  string
	wdStart time.Time
)

func wdEnter(what string) {
	wdMu.Lock()
	wdWhat, wdStart = what, time.Now()
	wdMu.Unlock()
}
func wdLeave() {
	wdMu.Lock()
	wdWhat = ""
	wdMu.Unlock()
}
func startWatchdog(limit time.Duration) {
	go func() {
		var ms runtime.MemStats
		for {
			time.Sleep(200 * time.Millisecond)
			runtime.ReadMemStats(&ms)
			wdMu.Lock()
			what, since := wdWhat, time.Since(wdStart)
			wdMu.Unlock()
			if what != "" && (since > limit || ms.HeapAlloc > 6<<30) {
				b, _ := json.Marshal(M{"what": what, "seconds": since.Seconds(), "heap_mb": ms.HeapAlloc >> 20})
				fmt.Printf("HANG %s\n", b)
				os.Exit(5)
			}
		}
	}()
}

// ---------------------------------------------------------------------------- environments (loaded funcs files)

type env struct {
	name     string
	path     string
	funcs    map[string]expressions.KeyBuilderFunction
	names    []string
	loadErr  string
	panicMsg string
	lb, la   int64 // unix seconds before / after loading (start of {time delta} inside a body)
}

// loadEnv loads a funcs file the way main.go does (an optimising compiler with the builtins)
func loadEnv(name, path string) *env {
	e := &env{name: name, path: path, funcs: map[string]expressions.KeyBuilderFunction{}}
	if path == "" {
		e.lb = time.Now().Unix()
		e.la = e.lb
		return e
	}
	defer func() {
		if r := recover(); r != nil {
			e.panicMsg = fmt.Sprint(r)
		}
	}()
	e.lb = time.Now().Unix()
	cmplr := funclib.NewKeyBuilder()
	funcs, err := funcfile.LoadDefinitionsFile(cmplr, path)
	e.la = time.Now().Unix()
	if err != nil {
		e.loadErr = err.Error()
	}
	if funcs != nil {
		e.funcs = funcs
	}
	for k := range e.funcs {
		e.names = append(e.names, k)
	}
	sort.Strings(e.names)
	return e
}

func (e *env) builder(opt bool) *expressions.KeyBuilder {
	kb := funclib.NewKeyBuilderEx(opt)
	kb.Funcs(e.funcs)
	return kb
}

type compiled struct {
	tpl    string
	opt    bool
	kb     *expressions.CompiledKeyBuilder
	cerr   string
	panic  string
	cb, ca int64 // unix seconds before / after compiling
	e      *env
}

func (e *env) compile(tpl string, opt bool) (c *compiled) {
	c = &compiled{tpl: tpl, opt: opt, e: e}
	defer func() {
		if r := recover(); r != nil {
			c.panic = "compile: " + fmt.Sprint(r)
			c.kb = nil
		}
	}()
	wdEnter("compile " + tpl)
	defer wdLeave()
	c.cb = time.Now().Unix()
	kb, err := e.builder(opt).Compile(tpl)
	c.ca = time.Now().Unix()
	c.kb = kb
	if err != nil {
		c.cerr = err.Error()
	}
	if kb == nil {
		c.panic = "compile returned no builder"
	}
	return
}

type outcome struct {
	got    string
	panic  string
	eb, ea int64 // unix seconds before / after the evaluation
}

func (c *compiled) eval(ctx expressions.KeyBuilderContext) (o outcome) {
	if c.kb == nil {
		o.panic = c.panic
		return
	}
	defer func() {
		if r := recover(); r != nil {
			o.panic = fmt.Sprint(r)
		}
	}()
	o.eb = time.Now().Unix()
	o.got = c.kb.BuildKey(ctx)
	o.ea = time.Now().Unix()
	return
}

func mkctx(m []string, ks [][2]string) *expressions.KeyBuilderContextArray {
	ctx := &expressions.KeyBuilderContextArray{Elements: m, Keys: map[string]string{}}
	for _, kv := range ks {
		ctx.Keys[kv[0]] = kv[1]
	}
	return ctx
}

// ---------------------------------------------------------------------------- vectors from TLC

type expectT struct {
	K string `json:"k"`
	V []int  `json:"v"`
}
type caseT struct {
	M  [][]int   `json:"m"`
	Ks [][][]int `json:"ks"`
	E  expectT   `json:"e"`
}
type defT struct {
	Name []int `json:"name"`
	Body []int `json:"body"`
}
type recT struct {
	Kind    string  `json:"kind"`
	G       string  `json:"g"`
	F       string  `json:"f"`
	Tpl     []int   `json:"tpl"`
	Udf     bool    `json:"udf"`
	Clock   bool    `json:"clock"`
	Sub     []int   `json:"sub"`
	Cases   []caseT `json:"cases"`
	Id      int     `json:"id"`
	Doc     bool    `json:"doc"`
	Bytes   []int   `json:"bytes"`
	Nlines  int     `json:"nlines"`
	Loaded  []defT  `json:"loaded"`
	Ok      bool    `json:"ok"`
	Defs    []defT  `json:"defs"`
	Docdefs []defT  `json:"docdefs"`
	Abs     bool    `json:"abs"`    // the value itself is demanded; otherwise only the relations of the property
	Rt      bool    `json:"rt"`     // the model reads the text back to the tree (else the vector is unusable)
	Maxrun  int     `json:"maxrun"` // file: the longest run of backslashes a physical line ends in
	Sty     M       `json:"sty"`
	Bad     bool    `json:"bad"`   // file: some definitions do not compile; Loaded = the definitions the specified loader delivers
	Nfail   int     `json:"nfail"` // file: definitions that do not compile
}

func str(a []int) string { return string(vh.FromInts(a)) }

func (c *caseT) ctx() (m []string, ks [][2]string) {
	m = make([]string, len(c.M))
	for i, g := range c.M {
		m[i] = str(g)
	}
	for _, kv := range c.Ks {
		ks = append(ks, [2]string{str(kv[0]), str(kv[1])})
	}
	return
}

var markers = map[string]bool{"<BAD-TYPE>": true, "<PARSE-ERROR>": true, "<ARGN>": true, "<CONST>": true, "<ENUM>": true,
	"<NAME>": true, "<EMPTY>": true, "<FILE>": true, "<VALUE>": true}

func truthClass(s string) string {
	if s == "" {
		return "empty"
	}
	allSpace, printable := true, false
	for i := 0; i < len(s); i++ {
		c := s[i]
		if !(c == 9 || c == 10 || c == 11 || c == 12 || c == 13 || c == 32) {
			allSpace = false
		}
		if c >= 33 && c <= 126 {
			printable = true
		}
	}
	if allSpace {
		return "blank"
	}
	if printable {
		return "true"
	}
	return "unknown"
}

// clock windows for the symbolic clock readings in an expectation
type window struct {
	nowLo, nowHi     int64
	liveLo, liveHi   int64
	deltaLo, deltaHi int64
}

func windowOf(c *compiled, o outcome) window {
	start := c.cb
	if c.e != nil && c.e.lb < start {
		start = c.e.lb
	}
	return window{nowLo: start, nowHi: c.ca, liveLo: o.eb, liveHi: o.ea, deltaLo: o.eb - c.ca, deltaHi: o.ea - start}
}

// matchSym: exp contains the bytes 1 (now), 2 (live), 3 (delta) where a decimal clock reading must stand
func matchSym(exp []int, got string, w window) bool {
	if len(exp) == 0 {
		return got == ""
	}
	b := exp[0]
	if b != 1 && b != 2 && b != 3 {
		return len(got) > 0 && int(got[0]) == b && matchSym(exp[1:], got[1:], w)
	}
	// a run of digits (delta may be negative only through a defect; no sign accepted)
	for n := 1; n <= len(got) && n <= 12; n++ {
		ch := got[n-1]
		if ch < '0' || ch > '9' {
			break
		}
		var v int64
		for _, d := range got[:n] {
			v = v*10 + int64(d-'0')
		}
		ok := false
		switch b {
		case 1:
			ok = v >= w.nowLo && v <= w.nowHi
		case 2:
			ok = v >= w.liveLo && v <= w.liveHi
		case 3:
			ok = v >= w.deltaLo && v <= w.deltaHi
		}
		if ok && matchSym(exp[1:], got[n:], w) {
			return true
		}
	}
	return false
}

func hasSym(exp []int) bool {
	for _, b := range exp {
		if b == 1 || b == 2 || b == 3 {
			return true
		}
	}
	return false
}

// decide: does the observation satisfy the specification's expectation ?  (ok, decided)
func decide(e expectT, c *compiled, o outcome) (bool, bool) {
	if o.panic != "" {
		return false, true
	}
	switch e.K {
	case "any":
		return true, false
	case "out":
		if hasSym(e.V) {
			return matchSym(e.V, o.got, windowOf(c, o)), true
		}
		return o.got == str(e.V), true
	case "truthy":
		return truthClass(o.got) == "true", true
	case "falsy":
		t := truthClass(o.got)
		return t == "empty" || t == "blank", true
	case "marker":
		return markers[o.got], true
	}
	return true, false
}

func classOf(e expectT, o outcome) string {
	if o.panic != "" {
		return "panic"
	}
	if e.K == "out" && hasSym(e.V) {
		return "volatile"
	}
	if e.K == "out" {
		return "value"
	}
	return e.K
}

func symText(a []int) string {
	var sb strings.Builder
	for _, b := range a {
		switch b {
		case 1:
			sb.WriteString("<now>")
		case 2:
			sb.WriteString("<live>")
		case 3:
			sb.WriteString("<delta>")
		default:
			sb.WriteByte(byte(b))
		}
	}
	return sb.String()
}

// ---------------------------------------------------------------------------- replay

type replayState struct {
	mismatches []M
	nmis       int
	runs       int
	relRuns    int
	decided    int
	perGroup   map[string]int
	perFunc    map[string]int
	distinct   map[string]bool
	samples    []M
	mu         sync.Mutex
}

func (st *replayState) mismatch(m M) {
	st.mu.Lock()
	st.nmis++
	if len(st.mismatches) < 400 {
		st.mismatches = append(st.mismatches, m)
	}
	st.mu.Unlock()
}

type kept struct {
	r     *recT
	c     *compiled
	where string
}

func c10Replay(argv []string) error {
	fs := flag.NewFlagSet("replay", flag.ExitOnError)
	in := fs.String("in", "", "vectors (ndjson)")
	out := fs.String("out", "replay.json", "result")
	dir := fs.String("dir", ".", "directory for the funcs files")
	cli := fs.String("cli", "", "rare binary")
	clin := fs.Int("clin", 150, "CLI sample size")
	nfiles := fs.Int("files", 1000000, "use at most this many layout files")
	probeRounds := fs.Int("proberounds", 300, "rounds per goroutine in the concurrent phase of a probe scenario")
	fs.Parse(argv)
	startWatchdog(60 * time.Second)

	var recs []*recT
	var probes []*probeRec
	if err := vh.ReadNd(*in, func(raw json.RawMessage) error {
		var k struct {
			Kind string `json:"kind"`
		}
		json.Unmarshal(raw, &k)
		if k.Kind == "probe" {
			pr := &probeRec{}
			if err := json.Unmarshal(raw, pr); err != nil {
				return err
			}
			probes = append(probes, pr)
			return nil
		}
		r := &recT{}
		if err := json.Unmarshal(raw, r); err != nil {
			return err
		}
		recs = append(recs, r)
		return nil
	}); err != nil {
		return err
	}
	st := &replayState{perGroup: map[string]int{}, perFunc: map[string]int{}, distinct: map[string]bool{}}
	var defs *recT
	var files []*recT
	var vecs []*recT
	for _, r := range recs {
		switch r.Kind {
		case "defs":
			defs = r
		case "file":
			files = append(files, r)
		case "vec":
			vecs = append(vecs, r)
		}
	}
	if len(recs) == 0 && len(probes) > 0 { // debugging: the probe scenarios alone
		st := &replayState{perGroup: map[string]int{}, perFunc: map[string]int{}, distinct: map[string]bool{}}
		ps := replayProbe(probes, *dir, *probeRounds, st)
		vh.WriteJSON(*out, M{"probe": fmt.Sprintf("%+v", ps), "mismatches": st.mismatches, "n_mismatches": st.nmis})
		return nil
	}
	if defs == nil || len(vecs) == 0 {
		return fmt.Errorf("no definitions / vectors in %s", *in)
	}
	sort.Slice(files, func(i, j int) bool { return files[i].Id < files[j].Id })
	sort.SliceStable(vecs, func(i, j int) bool { return str(vecs[i].Tpl) < str(vecs[j].Tpl) })

	// ---- the canonical funcs file: one definition per line
	var sb strings.Builder
	for _, d := range defs.Defs {
		sb.WriteString(str(d.Name) + " " + str(d.Body) + "\n")
	}
	canonPath := filepath.Join(*dir, "canon.funcs")
	if err := os.WriteFile(canonPath, []byte(sb.String()), 0o644); err != nil {
		return err
	}
	canon := loadEnv("canon", canonPath)
	checkLoad := func(e *env, want []defT, what string, errOK bool) {
		var names []string
		seen := map[string]bool{}
		for _, d := range want {
			if !seen[str(d.Name)] {
				seen[str(d.Name)] = true
				names = append(names, str(d.Name))
			}
		}
		sort.Strings(names)
		if e.panicMsg != "" || (e.loadErr != "" && !errOK) || strings.Join(names, ",") != strings.Join(e.names, ",") {
			b, _ := os.ReadFile(e.path)
			st.mismatch(M{"g": "load", "f": what, "class": "names", "file": string(b), "env": e.name, "got_names": e.names, "want_names": names,
				"load_error": e.loadErr, "panic": e.panicMsg})
		}
	}
	checkLoad(canon, defs.Defs, "canon", false)

	var doc *env
	var layouts, badFiles []*env
	nFailing := 0
	genNotOk, maxRun, runGe2 := 0, 0, 0
	for _, f := range files {
		if !f.Ok {
			genNotOk++
			continue
		}
		p := filepath.Join(*dir, fmt.Sprintf("layout-%d.funcs", f.Id))
		if err := os.WriteFile(p, vh.FromInts(f.Bytes), 0o644); err != nil {
			return err
		}
		if !f.Doc && f.Maxrun > maxRun {
			maxRun = f.Maxrun
		}
		if !f.Doc && f.Maxrun >= 2 {
			runGe2++
		}
		if f.Doc {
			doc = loadEnv("doc", p)
			checkLoad(doc, f.Loaded, "doc", false)
		} else if f.Bad {
			// some definitions of this file do not compile: the others must be delivered all the same (an error may be reported)
			e := loadEnv(fmt.Sprintf("badfile-%d", f.Id), p)
			checkLoad(e, f.Loaded, "file-with-failing-definitions", true)
			layouts = append(layouts, e)
			badFiles = append(badFiles, e)
			nFailing += f.Nfail
		} else if len(layouts) < *nfiles+len(badFiles) {
			e := loadEnv(fmt.Sprintf("layout-%d", f.Id), p)
			checkLoad(e, f.Loaded, "layout", false)
			layouts = append(layouts, e)
		}
	}
	if doc == nil {
		doc = loadEnv("none", "")
	}

	var keep []kept
	// rel: two evaluations of what the property declares equal (optimised / unoptimised, call / inlined body,
	// a layout of the funcs file / one definition per line), case by case
	rel := func(r *recT, class string, whereA, whereB string, tplA, tplB string, a, b []outcome, e *env) {
		if r.Clock || a == nil || b == nil {
			return
		}
		for i := range a {
			if a[i].got != b[i].got || (a[i].panic != "") != (b[i].panic != "") {
				m, ks := r.Cases[i].ctx()
				st.mismatch(M{"g": r.G, "f": r.F, "class": class, "where": "rel", "template": tplA, "other": tplB, "call": str(r.Tpl), "m": m, "ks": ks,
					"env": e.name, "step": i, "got": a[i].got, "got_other": b[i].got, "panic": a[i].panic + b[i].panic, "expect_kind": whereA + " = " + whereB,
					"expect": b[i].got, "style": r.Sty})
			}
			st.relRuns++
		}
	}
	evalVec := func(r *recT, e *env, tpl string, where string, opt bool, reverse bool) []outcome {
		outs := make([]outcome, len(r.Cases))
		c := e.compile(tpl, opt)
		if r.Clock && !reverse {
			keep = append(keep, kept{r, c, where})
		}
		n := len(r.Cases)
		for k := 0; k < n; k++ {
			i := k
			if reverse {
				i = n - 1 - k
			}
			cs := &r.Cases[i]
			m, ks := cs.ctx()
			wdEnter("eval " + tpl)
			o := c.eval(mkctx(m, ks))
			wdLeave()
			outs[i] = o
			st.runs++
			exp := cs.E
			if !r.Abs && o.panic == "" {
				exp = expectT{K: "any"}
			}
			ok, decided := decide(exp, c, o)
			if decided {
				st.decided++
				st.distinct[tpl+"\x00"+strings.Join(m, "\x01")+"\x00"+fmt.Sprint(ks)] = true
			}
			if !ok {
				st.mismatch(M{"g": r.G, "f": r.F, "class": classOf(cs.E, o), "where": where, "template": tpl, "call": str(r.Tpl), "m": m, "ks": ks,
					"opt": opt, "env": e.name, "step": k, "reverse": reverse, "got": o.got, "panic": o.panic, "expect_kind": cs.E.K, "expect": symText(cs.E.V),
					"cerr": c.cerr})
			}
		}
		return outs
	}
	canonOut := map[*recT][]outcome{}
	notRead := 0
	for _, r := range vecs {
		if !r.Rt {
			notRead++
			continue
		}
		e := canon
		if r.G == "doc" {
			e = doc
		}
		tpl := str(r.Tpl)
		st.perGroup[r.G]++
		st.perFunc[r.F]++
		oo := evalVec(r, e, tpl, "expr", true, false)
		on := evalVec(r, e, tpl, "expr", false, false)
		or := evalVec(r, e, tpl, "expr", true, true)
		canonOut[r] = oo
		rel(r, "opt-noopt", "optimised", "unoptimised", tpl, tpl, oo, on, e)
		rel(r, "hist", "first history", "reverse history", tpl, tpl, oo, or, e)
		if len(r.Sub) > 0 { // the body with the arguments substituted, written inline
			io := evalVec(r, e, str(r.Sub), "inline", true, false)
			in := evalVec(r, e, str(r.Sub), "inline", false, false)
			rel(r, "call-inline", "call", "inlined body (optimised)", tpl, str(r.Sub), oo, io, e)
			rel(r, "call-inline", "call", "inlined body (unoptimised)", tpl, str(r.Sub), oo, in, e)
		}
		if len(st.samples) < 3 && len(r.Sub) > 0 && r.G == "d2c" {
			for ci := range r.Cases {
				if cs := &r.Cases[ci]; cs.E.K == "out" && len(cs.E.V) > 2 && len(cs.M) > 0 {
					m, ks := cs.ctx()
					o := e.compile(tpl, true).eval(mkctx(m, ks))
					st.samples = append(st.samples, M{"template": tpl, "inlined": str(r.Sub), "m": m, "ks": ks, "got": o.got, "expect": symText(cs.E.V)})
					break
				}
			}
		}
	}
	// ---- every layout of the funcs file
	layoutRuns := 0
	for _, e := range layouts {
		for _, r := range vecs {
			if !r.Rt || !r.Udf || !(r.G == "d1" && len(r.Sub) > 0 || r.G == "eu") {
				continue
			}
			if r.G == "eu" && fmt.Sprint(r.Sty["q"]) != "auto" { // one writing style of the call is enough per layout
				continue
			}
			before := st.runs
			fo := evalVec(r, e, str(r.Tpl), "file", true, false)
			fn := evalVec(r, e, str(r.Tpl), "file", false, false)
			rel(r, "layout-canon", "this layout", "one definition per line", str(r.Tpl), str(r.Tpl), fo, canonOut[r], e)
			rel(r, "layout-canon", "this layout (unoptimised call)", "one definition per line", str(r.Tpl), str(r.Tpl), fn, canonOut[r], e)
			layoutRuns += st.runs - before
		}
	}
	// ---- the clock moves: every clock-reading expression again, 1.2 s later, on its compiled form
	time.Sleep(1200 * time.Millisecond)
	clockRuns := 0
	for _, k := range keep {
		for i := range k.r.Cases {
			cs := &k.r.Cases[i]
			if cs.E.K != "out" || !hasSym(cs.E.V) {
				continue
			}
			m, ks := cs.ctx()
			o := k.c.eval(mkctx(m, ks))
			clockRuns++
			st.runs++
			st.decided++
			if ok, _ := decide(cs.E, k.c, o); !ok {
				st.mismatch(M{"g": k.r.G, "f": k.r.F, "class": "volatile-later", "where": k.where, "template": k.c.tpl, "call": str(k.r.Tpl), "m": m, "ks": ks,
					"opt": k.c.opt, "env": k.c.e.name, "step": i, "got": o.got, "panic": o.panic, "expect_kind": cs.E.K, "expect": symText(cs.E.V),
					"now": time.Now().Unix(), "compiled_at": k.c.ca})
			}
		}
	}
	// ---- CLI
	cliRuns := 0
	if *cli != "" {
		cliRuns = replayCLI(*cli, canonPath, vecs, *clin, st)
		cliRuns += replayCLIBad(*cli, badFiles, vecs, st)
	}
	// ---- the optimiser's probe is an evaluation: scenarios of ExprProbe_Gen, each in two fresh processes
	ps := replayProbe(probes, *dir, *probeRounds, st)

	sort.Slice(st.mismatches, func(i, j int) bool {
		return fmt.Sprint(st.mismatches[i]["g"], st.mismatches[i]["f"], st.mismatches[i]["class"]) < fmt.Sprint(st.mismatches[j]["g"], st.mismatches[j]["f"], st.mismatches[j]["class"])
	})
	vh.WriteJSON(*out, M{"vectors": len(vecs), "runs": st.runs, "decided": st.decided, "distinct_nontrivial": len(st.distinct),
		"layout_files": len(layouts), "layout_runs": layoutRuns, "clock_runs": clockRuns, "clock_expressions": len(keep), "cli_runs": cliRuns,
		"gen_not_ok": genNotOk + notRead, "rel_comparisons": st.relRuns, "max_backslash_run": maxRun, "files_with_run_ge2": runGe2, "per_group": st.perGroup, "per_func": st.perFunc, "mismatches": st.mismatches, "n_mismatches": st.nmis,
		"samples": st.samples, "bad_files": len(badFiles), "failing_definitions": nFailing,
		"probe": M{"scenarios": ps.scenarios, "processes": ps.processes, "evaluations": ps.evals, "decided": ps.decided, "skipped": ps.skipped,
			"runaway_scenarios": ps.infScn, "both_crash": ps.bothCrash, "harness_failures": ps.harness}})
	return nil
}

// replayCLIBad: `rare --funcs <file with failing definitions> expression <call>` (and the same file through RARE_FUNC_FILES)
// must answer what the specification says the call is worth - the failing definitions are as if they were not written
func replayCLIBad(bin string, bad []*env, vecs []*recT, st *replayState) int {
	type job struct {
		e  *env
		r  *recT
		ci int
		ev bool
	}
	var jobs []job
	var pool []*recT
	for _, r := range vecs {
		if r.Rt && r.Udf && r.Abs && !r.Clock && r.G == "d1" && len(r.Sub) > 0 {
			pool = append(pool, r)
		}
	}
	if len(pool) == 0 {
		return 0
	}
	for bi, e := range bad {
		if bi >= 12 {
			break
		}
		for k := 0; k < 3; k++ {
			r := pool[(bi*7+k*len(pool)/3)%len(pool)]
			for ci := range r.Cases {
				c := (ci + bi) % len(r.Cases)
				m, ks := r.Cases[c].ctx()
				if cliUsable(str(r.Tpl), m, ks) && len(m) > 0 && r.Cases[c].E.K == "out" {
					jobs = append(jobs, job{e, r, c, k == 2})
					break
				}
			}
		}
	}
	var wg sync.WaitGroup
	sem := make(chan bool, 6)
	for _, j := range jobs {
		wg.Add(1)
		sem <- true
		go func(j job) {
			defer wg.Done()
			defer func() { <-sem }()
			cs := &j.r.Cases[j.ci]
			m, ks := cs.ctx()
			tpl := str(j.r.Tpl)
			for _, noopt := range []bool{false, true} {
				got, err := runCLIx(bin, j.e.path, j.ev, noopt, m, ks, tpl)
				if err != nil || got != str(cs.E.V)+"\n" && got != str(cs.E.V) {
					b, _ := os.ReadFile(j.e.path)
					st.mismatch(M{"g": "cli", "f": j.r.F, "class": "file-with-failing-definitions", "template": tpl, "m": m, "ks": ks, "got": got, "opt": !noopt,
						"err": fmt.Sprint(err), "expect_kind": cs.E.K, "expect": symText(cs.E.V), "env": j.e.name, "via_environment": j.ev, "file": string(b)})
				}
			}
		}(j)
	}
	wg.Wait()
	return 2 * len(jobs)
}

// runCLI: rare [--funcs f] expression [--no-optimize] -d .. -k .. -- template
func runCLI(bin, funcs string, noopt bool, m []string, ks [][2]string, tpl string) (string, error) {
	return runCLIx(bin, funcs, false, noopt, m, ks, tpl)
}

// viaEnv: the funcs file is named by RARE_FUNC_FILES instead of --funcs
func runCLIx(bin, funcs string, viaEnv bool, noopt bool, m []string, ks [][2]string, tpl string) (string, error) {
	args := []string{}
	envFuncs := ""
	if funcs != "" && viaEnv {
		envFuncs = funcs
	} else if funcs != "" {
		args = append(args, "--funcs", funcs)
	}
	args = append(args, "expression", "-n", "-r")
	if noopt {
		args = append(args, "--no-optimize")
	}
	for _, g := range m {
		args = append(args, "-d", g)
	}
	for _, kv := range ks {
		args = append(args, "-k", kv[0]+"="+kv[1])
	}
	args = append(args, tpl)
	cmd := exec.Command(bin, args...)
	cmd.Env = append(os.Environ(), "RARE_FUNC_FILES="+envFuncs)
	var so, se strings.Builder
	cmd.Stdout, cmd.Stderr = &so, &se
	done := make(chan error, 1)
	if err := cmd.Start(); err != nil {
		return "", err
	}
	go func() { done <- cmd.Wait() }()
	select {
	case err := <-done:
		if err != nil {
			return so.String(), fmt.Errorf("%v: %s", err, se.String())
		}
	case <-time.After(60 * time.Second):
		cmd.Process.Kill()
		return "", fmt.Errorf("timeout")
	}
	return so.String(), nil
}

func cliUsable(tpl string, m []string, ks [][2]string) bool {
	if tpl == "" || tpl[0] == '-' {
		return false
	}
	for _, g := range m {
		if g == "" || strings.ContainsAny(g, ",") || strings.TrimSpace(g) != g { // urfave/cli splits, trims and drops: not the subject
			return false
		}
	}
	for _, kv := range ks {
		if strings.ContainsAny(kv[1], ",") || strings.TrimSpace(kv[1]) != kv[1] {
			return false
		}
	}
	return true
}

func replayCLI(bin, canon string, vecs []*recT, n int, st *replayState) int {
	type job struct {
		r  *recT
		ci int
	}
	var jobs []job
	stride := len(vecs)/n + 1
	nesc := 0
	for i := 0; i < len(vecs); i++ {
		r := vecs[i]
		esc := len(r.G) == 2 && r.G[0] == 'e' // the escape groups: every 10th vector besides the stride sample
		if esc {
			nesc++
		}
		if !(i%stride == 0 || esc && nesc%10 == 0) {
			continue
		}
		if r.G == "doc" || !r.Rt {
			continue
		}
		for ci := range r.Cases {
			m, ks := r.Cases[(ci+i)%len(r.Cases)].ctx()
			if cliUsable(str(r.Tpl), m, ks) && len(m) > 0 {
				jobs = append(jobs, job{r, (ci + i) % len(r.Cases)})
				break
			}
		}
	}
	var wg sync.WaitGroup
	sem := make(chan bool, 6)
	runs := 0
	for _, j := range jobs {
		wg.Add(1)
		sem <- true
		runs += 2
		go func(j job) {
			defer wg.Done()
			defer func() { <-sem }()
			cs := &j.r.Cases[j.ci]
			if !j.r.Abs {
				cs = &caseT{M: cs.M, Ks: cs.Ks, E: expectT{K: "any"}}
			}
			m, ks := cs.ctx()
			tpl := str(j.r.Tpl)
			t0 := time.Now().Unix()
			a, errA := runCLI(bin, canon, false, m, ks, tpl)
			b, errB := runCLI(bin, canon, true, m, ks, tpl)
			t1 := time.Now().Unix()
			if errA != nil && errB != nil {
				return // a compile error ends the command with a message instead of a value: both forms agree
			}
			if errA != nil || errB != nil {
				st.mismatch(M{"g": "cli", "f": j.r.F, "class": "error", "template": tpl, "m": m, "ks": ks, "got": a, "got_noopt": b,
					"err": fmt.Sprint(errA), "err_noopt": fmt.Sprint(errB), "expect_kind": cs.E.K, "expect": symText(cs.E.V)})
				return
			}
			fake := &compiled{cb: t0, ca: t1}
			for k, got := range []string{a, b} {
				ok, _ := decide(cs.E, fake, outcome{got: got, eb: t0, ea: t1})
				if !ok {
					st.mismatch(M{"g": "cli", "f": j.r.F, "class": classOf(cs.E, outcome{got: got}), "template": tpl, "m": m, "ks": ks, "got": got,
						"opt": k == 0, "expect_kind": cs.E.K, "expect": symText(cs.E.V)})
				}
			}
			if a != b && !j.r.Clock {
				st.mismatch(M{"g": "cli", "f": j.r.F, "class": "opt-noopt", "template": tpl, "m": m, "ks": ks, "got": a, "got_noopt": b,
					"expect_kind": cs.E.K, "expect": symText(cs.E.V)})
			}
		}(j)
	}
	wg.Wait()
	return runs
}

// ---------------------------------------------------------------------------- eval (debugging)

type multi []string

func (m *multi) String() string     { return fmt.Sprint(*m) }
func (m *multi) Set(s string) error { *m = append(*m, s); return nil }

func c10Eval(argv []string) error {
	fs := flag.NewFlagSet("eval", flag.ExitOnError)
	tpl := fs.String("tpl", "", "template")
	funcs := fs.String("funcs", "", "funcs file")
	var d, k multi
	fs.Var(&d, "d", "group value")
	fs.Var(&k, "k", "key=value")
	fs.Parse(argv)
	e := loadEnv("f", *funcs)
	var ks [][2]string
	for _, kv := range k {
		i := strings.IndexByte(kv, '=')
		ks = append(ks, [2]string{kv[:i], kv[i+1:]})
	}
	fmt.Printf("loaded %v err=%q\n", e.names, e.loadErr)
	for _, opt := range []bool{true, false} {
		c := e.compile(*tpl, opt)
		o := c.eval(mkctx(d, ks))
		fmt.Printf("opt=%v stages=%d cerr=%q got=%q panic=%q\n", opt, func() int {
			if c.kb != nil {
				return c.kb.StageCount()
			}
			return -1
		}(), c.cerr, o.got, o.panic)
	}
	return nil
}

package main

// c10 startup : B1 for ExprStartup.tla - the moment a funcs-file definition is compiled.
//   Every scenario TLC printed (global switches x funcs files x expression x match, with the value of the abstract
//   layer = the inlined expression evaluated in the run's environment) is performed on the real code:
//     * through the real command line: `rare <switches> --funcs f1 [--funcs f2] expression [--no-optimize] -d .. EXPR`
//       (also with RARE_FUNC_FILES=f1,f2), and the inlined text without any funcs file under the same switches;
//     * in this process (default switches only) the way main.go does it: ONE compiler for all files, in order, the
//       results merged into the function table of a fresh compiler (optimising / plain).
//   The `site` record is one funcs-file call site with its value on 16 lines: a child process loads the file, compiles
//   the call once and evaluates it from G goroutines (each on its own line) for a fixed number of rounds; every value
//   must be the one TLC printed for that goroutine's line; a child that dies is reported with its first rare frame.

import (
	"crypto/sha1"
	"encoding/json"
	"flag"
	"fmt"
	"os"
	"os/exec"
	"path/filepath"
	"strings"
	"sync"
	"sync/atomic"
	"time"

	"rare/pkg/expressions"
	"rare/pkg/expressions/funcfile"
	"rare/pkg/expressions/funclib"

	"verifharness/vh"
)

type suDef struct {
	Name string `json:"name"`
	Body *xnode `json:"body"`
}
type suExp struct {
	K string `json:"k"`
	V []int  `json:"v"`
}
type suLine struct {
	M   [][]int `json:"m"`
	Exp suExp   `json:"exp"`
}
type suRec struct {
	Kind  string     `json:"kind"`
	G     string     `json:"g"`
	Flags []string   `json:"flags"`
	Files [][]suDef  `json:"files"`
	Expr  *xnode     `json:"expr"`
	Inl   *xnode     `json:"inl"`
	InlOK bool       `json:"inlok"`
	M     [][]int    `json:"m"`
	Exp   suExp      `json:"exp"`
	Lines []suLine   `json:"lines"`
	paths []string
	texts []string
}

const secretName, secretText = "c10sec.txt", "secret"

// fileText writes one file's definitions: a comment, a blank line, one definition per line, the longest one continued
func fileText(i int, defs []suDef) (string, bool) {
	var sb strings.Builder
	fmt.Fprintf(&sb, "# funcs file %d\n\n", i+1)
	for k, d := range defs {
		body, ok := d.Body.text(true)
		if !ok || strings.ContainsAny(body, "#\n") || strings.HasSuffix(body, "\\") || body == "" || body != strings.TrimSpace(body) {
			return "", false
		}
		if k%2 == 1 {
			sb.WriteString(d.Name + " \\   # continued\n    " + body + "\n")
		} else {
			sb.WriteString(d.Name + " " + body + "\n")
		}
	}
	return sb.String(), true
}

func (r *suRec) materialise(dir string) bool {
	for i, f := range r.Files {
		txt, ok := fileText(i, f)
		if !ok {
			return false
		}
		sum := sha1.Sum([]byte(txt))
		p := filepath.Join(dir, fmt.Sprintf("su-%x.funcs", sum[:6]))
		if _, err := os.Stat(p); err != nil {
			if err := os.WriteFile(p, []byte(txt), 0o644); err != nil {
				return false
			}
		}
		r.paths = append(r.paths, p)
		r.texts = append(r.texts, txt)
	}
	return true
}

type cliRes struct {
	out  string
	fail bool
	err  string
}

func runStartupCLI(bin, dir string, flags []string, files []string, viaEnv bool, noopt bool, m []string, tpl string) cliRes {
	args := []string{}
	for _, f := range flags {
		args = append(args, "--"+f)
	}
	if !viaEnv {
		for _, f := range files {
			args = append(args, "--funcs", f)
		}
	}
	args = append(args, "expression", "-n", "-r")
	if noopt {
		args = append(args, "--no-optimize")
	}
	for _, g := range m {
		args = append(args, "-d", g)
	}
	args = append(args, tpl)
	cmd := exec.Command(bin, args...)
	cmd.Dir = dir
	env := []string{}
	for _, e := range os.Environ() {
		if !strings.HasPrefix(e, "RARE_FUNC_FILES=") && !strings.HasPrefix(e, "NO_COLOR=") {
			env = append(env, e)
		}
	}
	if viaEnv {
		env = append(env, "RARE_FUNC_FILES="+strings.Join(files, ","))
	}
	cmd.Env = env
	var so, se strings.Builder
	cmd.Stdout, cmd.Stderr = &so, &se
	if err := cmd.Start(); err != nil {
		return cliRes{fail: true, err: "harness: " + err.Error()}
	}
	done := make(chan error, 1)
	go func() { done <- cmd.Wait() }()
	select {
	case err := <-done:
		if err != nil {
			return cliRes{out: so.String(), fail: true, err: tail(se.String(), 300)}
		}
	case <-time.After(120 * time.Second):
		cmd.Process.Kill()
		return cliRes{fail: true, err: "harness: timeout"}
	}
	return cliRes{out: so.String()}
}

// loadAsMain loads the files the way main.go's Before hook does and returns the resulting function table
func loadAsMain(paths []string) (tab map[string]expressions.KeyBuilderFunction, perr string) {
	tab = map[string]expressions.KeyBuilderFunction{}
	defer func() {
		if r := recover(); r != nil {
			perr = fmt.Sprint(r)
		}
	}()
	// main.go, app.Before: one compiler, every file in order, each result registered through funclib.TryAddFunctions
	funclib.Additional = make(funclib.FunctionSet)
	cmplr := funclib.NewKeyBuilder()
	for _, p := range paths {
		funclib.TryAddFunctions(funcfile.LoadDefinitionsFile(cmplr, p))
	}
	for k, v := range funclib.Additional {
		tab[k] = v
	}
	funclib.Additional = make(funclib.FunctionSet)
	return
}

func strs(m [][]int) []string {
	out := make([]string, len(m))
	for i, x := range m {
		out[i] = str(x)
	}
	return out
}

type siteJob struct {
	Paths  []string   `json:"paths"`
	Tpl    string     `json:"tpl"`
	Lines  [][]string `json:"lines"`
	Exp    []string   `json:"exp"`
	Opt    bool       `json:"opt"`
	G      int        `json:"g"`
	Rounds int        `json:"rounds"`
}
type siteBad struct {
	G     int    `json:"g"`
	Round int    `json:"round"`
	Line  int    `json:"line"`
	Got   string `json:"got"`
	Panic string `json:"panic"`
	Exp   string `json:"exp"`
}
type siteOut struct {
	Cerr  string    `json:"cerr"`
	Evals int64     `json:"evals"`
	Bad   []siteBad `json:"bad"`
	NBad  int64     `json:"nbad"`
}

// c10 sitechild -job file
func c10SiteChild(argv []string) error {
	fs := flag.NewFlagSet("sitechild", flag.ExitOnError)
	jobP := fs.String("job", "", "job (json)")
	fs.Parse(argv)
	b, err := os.ReadFile(*jobP)
	if err != nil {
		return err
	}
	var job siteJob
	if err := json.Unmarshal(b, &job); err != nil {
		return err
	}
	startWatchdog(150 * time.Second)
	tab, perr := loadAsMain(job.Paths)
	e := &env{name: "site", funcs: tab}
	c := e.compile(job.Tpl, job.Opt)
	out := siteOut{Cerr: perr + c.cerr + c.panic}
	var mu sync.Mutex
	var wg sync.WaitGroup
	var evals, nbad int64
	start := make(chan bool)
	wdEnter("site " + job.Tpl)
	for g := 0; g < job.G; g++ {
		wg.Add(1)
		go func(g int) {
			defer wg.Done()
			li := g % len(job.Lines)
			ctx := mkctx(job.Lines[li], nil)
			<-start
			for r := 0; r < job.Rounds; r++ {
				o := c.eval(ctx)
				if o.panic != "" || o.got != job.Exp[li] {
					if atomic.AddInt64(&nbad, 1) <= 6 {
						mu.Lock()
						out.Bad = append(out.Bad, siteBad{G: g, Round: r, Line: li, Got: o.got, Panic: o.panic, Exp: job.Exp[li]})
						mu.Unlock()
					}
					if atomic.LoadInt64(&nbad) > 50 {
						atomic.AddInt64(&evals, int64(r+1))
						return
					}
				}
			}
			atomic.AddInt64(&evals, int64(job.Rounds))
		}(g)
	}
	close(start)
	wg.Wait()
	wdLeave()
	out.Evals, out.NBad = evals, nbad
	enc, _ := json.Marshal(out)
	fmt.Printf("SITEOUT %s\n", enc)
	return nil
}

func runSiteChild(dir string, id string, job siteJob) (*siteOut, string) {
	jp := filepath.Join(dir, "site-"+id+".json")
	b, _ := json.Marshal(job)
	if err := os.WriteFile(jp, b, 0o644); err != nil {
		return nil, "harness: " + err.Error()
	}
	self, err := os.Executable()
	if err != nil {
		return nil, "harness: " + err.Error()
	}
	cmd := exec.Command(self, "sitechild", "-job", jp)
	cmd.Dir = dir
	var so, se strings.Builder
	cmd.Stdout, cmd.Stderr = &so, &se
	if err := cmd.Start(); err != nil {
		return nil, "harness: " + err.Error()
	}
	done := make(chan error, 1)
	go func() { done <- cmd.Wait() }()
	var werr error
	select {
	case werr = <-done:
	case <-time.After(300 * time.Second):
		cmd.Process.Kill()
		return nil, "harness: child timeout"
	}
	for _, ln := range strings.Split(so.String(), "\n") {
		if strings.HasPrefix(ln, "SITEOUT ") {
			var po siteOut
			if err := json.Unmarshal([]byte(ln[8:]), &po); err != nil {
				return nil, "harness: " + err.Error()
			}
			return &po, ""
		}
		if strings.HasPrefix(ln, "HANG ") {
			return nil, "harness: hang: " + ln[5:]
		}
	}
	msg := se.String()
	first := ""
	for _, ln := range strings.Split(msg, "\n") {
		if strings.HasPrefix(ln, "fatal error:") || strings.HasPrefix(ln, "panic:") || strings.HasPrefix(ln, "runtime:") {
			first = ln
			break
		}
	}
	frames := []string{}
	for _, ln := range strings.Split(msg, "\n") {
		if strings.HasPrefix(ln, "rare/pkg/") && len(frames) < 4 {
			frames = append(frames, strings.TrimSpace(ln))
		}
	}
	if first == "" || len(frames) == 0 {
		return nil, fmt.Sprintf("harness: child failed without a result (%v): %s", werr, tail(msg, 400))
	}
	return nil, "crash: " + first + " " + strings.Join(frames, " <- ")
}

func c10Startup(argv []string) error {
	fs := flag.NewFlagSet("startup", flag.ExitOnError)
	in := fs.String("in", "", "vectors (ndjson)")
	outP := fs.String("out", "startup.json", "result")
	dirP := fs.String("dir", ".", "directory for the funcs files")
	cli := fs.String("cli", "", "rare binary")
	rounds := fs.Int("rounds", 20000, "rounds per goroutine at the call site")
	par := fs.Int("par", 4, "command lines at a time")
	envEvery := fs.Int("envevery", 3, "every n-th scenario also through RARE_FUNC_FILES")
	genEvery := fs.Int("genevery", 4, "every n-th scenario of the generated definition histories goes through the command line (all run in-process)")
	fs.Parse(argv)
	startWatchdog(120 * time.Second)
	dir, err := filepath.Abs(*dirP)
	if err != nil {
		return err
	}
	*in, _ = filepath.Abs(*in)
	*outP, _ = filepath.Abs(*outP)
	if *cli != "" {
		*cli, _ = filepath.Abs(*cli)
	}
	if err := os.MkdirAll(dir, 0o755); err != nil {
		return err
	}
	if err := os.WriteFile(filepath.Join(dir, secretName), []byte(secretText), 0o644); err != nil {
		return err
	}
	if err := os.Chdir(dir); err != nil {
		return err
	}
	var recs []*suRec
	var site *suRec
	if err := vh.ReadNd(*in, func(raw json.RawMessage) error {
		r := &suRec{}
		if err := json.Unmarshal(raw, r); err != nil {
			return err
		}
		if r.Kind == "site" {
			site = r
		} else if r.Kind == "startup" {
			recs = append(recs, r)
		}
		return nil
	}); err != nil {
		return err
	}
	var mu sync.Mutex
	mism := []M{}
	nmis := 0
	harness := []string{}
	add := func(m M) {
		mu.Lock()
		nmis++
		if len(mism) < 60 {
			mism = append(mism, m)
		}
		mu.Unlock()
	}
	var cliRuns, inlRuns, inproc, skipped, redefScn, envScn int64
	perGroup := map[string]int{}

	// ---- in this process (default switches)
	for _, r := range recs {
		if !r.materialise(dir) {
			skipped++
			continue
		}
		perGroup[r.G]++
		if len(r.Files) > 1 || r.G == "one" || r.G == "gen" {
			redefScn++
		}
		if len(r.Flags) == 0 {
			tpl, ok := r.Expr.text(true)
			if !ok {
				continue
			}
			tab, perr := loadAsMain(r.paths)
			for _, opt := range []bool{true, false} {
				e := &env{name: "su", funcs: tab}
				c := e.compile(tpl, opt)
				inproc++
				o := c.eval(mkctx(strs(r.M), nil))
				iserr := c.cerr != ""
				bad := false
				if r.Exp.K == "err" {
					bad = !iserr
				} else {
					bad = iserr || o.panic != "" || perr != "" || o.got != str(r.Exp.V)
				}
				if bad {
					add(M{"class": "inproc", "g": r.G, "flags": r.Flags, "files": r.texts, "template": tpl, "m": strs(r.M), "opt": opt,
						"got": o.got, "err": c.cerr + perr, "panic": o.panic, "expect": str(r.Exp.V), "expect_kind": r.Exp.K})
				}
			}
		}
	}

	// ---- through the command line
	type job struct {
		r      *suRec
		tpl    string
		files  []string
		viaEnv bool
		noopt  bool
		class  string
	}
	var jobs []job
	for i, r := range recs {
		if r.paths == nil {
			continue
		}
		tpl, ok := r.Expr.text(true)
		if !ok {
			skipped++
			continue
		}
		if r.G == "gen" && i%*genEvery != 0 {
			continue
		}
		if len(r.Flags) > 0 {
			envScn++
		}
		for _, noopt := range []bool{false, true} {
			jobs = append(jobs, job{r, tpl, r.paths, false, noopt, "call"})
		}
		if i%*envEvery == 0 {
			jobs = append(jobs, job{r, tpl, r.paths, true, false, "call-env"})
		}
		if r.InlOK {
			if itpl, ok := r.Inl.text(true); ok && itpl != "" {
				jobs = append(jobs, job{r, itpl, nil, false, i%2 == 0, "inline"})
			}
		}
	}
	ch := make(chan job)
	var wg sync.WaitGroup
	for w := 0; w < *par; w++ {
		wg.Add(1)
		go func() {
			defer wg.Done()
			for j := range ch {
				res := runStartupCLI(*cli, dir, j.r.Flags, j.files, j.viaEnv, j.noopt, strs(j.r.M), j.tpl)
				if strings.HasPrefix(res.err, "harness:") {
					mu.Lock()
					harness = append(harness, res.err)
					mu.Unlock()
					continue
				}
				if j.class == "inline" {
					atomic.AddInt64(&inlRuns, 1)
				} else {
					atomic.AddInt64(&cliRuns, 1)
				}
				bad := false
				if j.r.Exp.K == "err" {
					bad = !res.fail
				} else {
					bad = res.fail || res.out != str(j.r.Exp.V)
				}
				if bad {
					add(M{"class": j.class, "g": j.r.G, "flags": j.r.Flags, "files": j.r.texts, "template": j.tpl, "m": strs(j.r.M), "opt": !j.noopt,
						"got": res.out, "failed": res.fail, "err": res.err, "expect": str(j.r.Exp.V), "expect_kind": j.r.Exp.K, "via_environment": j.viaEnv})
				}
			}
		}()
	}
	for _, j := range jobs {
		ch <- j
	}
	close(ch)
	wg.Wait()

	// ---- one call site, many evaluators
	siteSum := M{"children": 0, "evaluations": int64(0), "goroutines": []int{}}
	if site != nil && site.materialise(dir) {
		tpl, ok := site.Expr.text(true)
		itpl, ok2 := site.Inl.text(true)
		if !ok || !ok2 {
			return fmt.Errorf("site scenario cannot be written as text")
		}
		var lines [][]string
		var exp []string
		for _, l := range site.Lines {
			if l.Exp.K != "out" {
				return fmt.Errorf("site scenario without a value")
			}
			lines = append(lines, strs(l.M))
			exp = append(exp, str(l.Exp.V))
		}
		children, evals := 0, int64(0)
		gs := []int{}
		for _, which := range []struct {
			name, tpl string
			paths     []string
		}{{"call", tpl, site.paths}, {"inline", itpl, nil}} {
			for _, opt := range []bool{true, false} {
				for _, g := range []int{16, 64} {
					if which.name == "inline" && (g != 16 || !opt) {
						continue
					}
					rr := *rounds
					if which.name == "inline" {
						rr = 200
					}
					po, fail := runSiteChild(dir, fmt.Sprintf("%s-%v-%d", which.name, opt, g), siteJob{Paths: which.paths, Tpl: which.tpl, Lines: lines, Exp: exp, Opt: opt, G: g, Rounds: rr})
					children++
					if fail != "" {
						if strings.HasPrefix(fail, "crash:") {
							add(M{"class": "site-process-dies", "which": which.name, "files": site.texts, "template": which.tpl, "opt": opt, "goroutines": g, "rounds": rr, "got": fail})
						} else {
							harness = append(harness, fail)
						}
						continue
					}
					evals += po.Evals
					gs = append(gs, g)
					if po.Cerr != "" {
						add(M{"class": "site-compile", "which": which.name, "files": site.texts, "template": which.tpl, "opt": opt, "goroutines": g, "err": po.Cerr})
					}
					if po.NBad > 0 {
						b := po.Bad[0]
						add(M{"class": "site-value", "which": which.name, "files": site.texts, "template": which.tpl, "opt": opt, "goroutines": g, "rounds": rr,
							"goroutine": b.G, "round": b.Round, "m": lines[b.Line], "got": b.Got, "panic": b.Panic, "expect": b.Exp, "wrong_values": po.NBad, "first": po.Bad})
					}
				}
			}
		}
		siteSum = M{"children": children, "evaluations": evals, "goroutines": gs, "template": tpl, "inlined": itpl, "lines": len(lines)}
	}
	vh.WriteJSON(*outP, M{"scenarios": len(recs), "skipped": skipped, "per_group": perGroup, "cli_runs": cliRuns, "inline_cli_runs": inlRuns, "inproc_runs": inproc,
		"scenarios_with_switches": envScn, "scenarios_with_redefinitions": redefScn, "site": siteSum,
		"mismatches": mism, "n_mismatches": nmis, "harness_failures": harness})
	return nil
}

package main

// C06 - named inputs: expansion, decoding, failure reporting, exit status.
//   replay : materialises TLC-enumerated scenarios (Inputs_Gen) in scratch directories, runs the REAL
//            rare binary (and the batcher library in-process) on them, compares with the outcome the
//            specification demands (B1) and records every observation for Inputs_Trace
//   random : seeded random larger trees / argument lists; observations recorded for Inputs_Trace (B2)
//   fdlimit: more inputs than descriptors, reader slots held by FIFOs (fd.go)
// Inputs with transport "pipe" are FIFOs fed by the driver (relative paths) or inherited descriptors
// (/dev/stdin, /dev/fd/3) fed from a pipe or a regular file.

import (
	"bytes"
	"compress/gzip"
	"encoding/csv"
	"encoding/json"
	"flag"
	"fmt"
	"io"
	"math/rand"
	"os"
	"os/exec"
	"path/filepath"
	"regexp"
	"sort"
	"strconv"
	"strings"
	"sync"
	"syscall"
	"time"

	"rare/pkg/extractor/batchers"
	"rare/pkg/extractor/dirwalk"
	"rare/pkg/logger"

	"verifharness/vh"
)

func main() {
	vh.Main(vh.Commands{"replay": c06Replay, "random": c06Random, "fdlimit": c06Fdlimit, "big": c06Big})
}

type Node struct {
	P    []int  `json:"p"` // path as the bytes of "d/e/f"
	K    string `json:"k"`
	Data []int  `json:"data"`
	Tr   string `json:"tr"`  // "reg" | "pipe"
	Mem  []int  `json:"mem"` // "mgz": plain sizes of the gzip members
}

type End struct {
	Exit int    `json:"exit"`
	Msg  string `json:"msg"`
}

type Stdin struct {
	K    string `json:"k"`
	Data []int  `json:"data"`
}

type Row struct {
	R []int `json:"r"`
	N int   `json:"n"`
}

type Partial struct {
	Name []int `json:"name"`
	Full []int `json:"full"`
}

type Expect struct {
	Rows    []Row     `json:"rows"`
	Nerr    int       `json:"nerr"`
	Exit    int       `json:"exit"`
	Msg     string    `json:"msg"`
	Matched int       `json:"matched"`
	Read    int       `json:"read"`
	Parse   int       `json:"parse"`
	Partial []Partial `json:"partial"`
	MaxOpen int       `json:"maxopen"`
	// non-regular entries passed by a -R walk: rows under these names are not judged, each may add a read error
	Free  [][]int `json:"free"`
	Nfree int     `json:"nfree"`
	Ends  []End   `json:"ends"` // the (exit status, final message) pairs the specification allows
}

type Scenario struct {
	Tree    []Node  `json:"tree"`
	Stdin   Stdin   `json:"stdin"`
	Argv    [][]int `json:"argv"`
	Rec     bool    `json:"rec"`
	Gz      bool    `json:"gz"`
	Readers int     `json:"readers"`
	Cmd     string  `json:"cmd"`
	Nofile  int     `json:"nofile"` // descriptor limit of the process under test (0 = inherited)
	Exp     *Expect `json:"exp,omitempty"`
	// the names of the mentions (from the model; used only to see which FIFOs will be opened)
	Mentions [][]int `json:"mentions,omitempty"`
	// chosen by the driver (not part of the model)
	Batch  int `json:"batch"`
	CutSel int `json:"cutsel"` // where a truncated gzip is cut / which trailer byte is corrupted
	Hold   int `json:"hold"`   // number of FIFOs whose readers are kept waiting while the open inputs are counted
	Window int `json:"window"` // ... for this many milliseconds
	// the same for the in-process run of the library (these runs are serialised: fewer and shorter)
	LibHold   int `json:"libhold"`
	LibWindow int `json:"libwindow"`
}

type Obs struct {
	Rows    []Row  `json:"rows"`
	Exit    int    `json:"exit"`
	Msg     string `json:"msg"`
	Nlog    int    `json:"nlog"` // [Log] lines in today's wording of a per-input failure report
	Nunk    int    `json:"nunk"` // other [Log] lines that are not the final message (informational lines, or reports in a wording this driver does not know)
	Matched int    `json:"matched"`
	Read    int    `json:"read"`
	Hang    bool   `json:"hang"`
	Crash   bool   `json:"crash"` // the Go runtime aborted the process (panic / fatal error)
	Peak    int    `json:"peak"`  // largest number of inputs seen open at the same time (-1: not sampled)
	Stderr  string `json:"-"`
}

type LibObs struct {
	Ran  bool  `json:"ran"`
	Rows []Row `json:"rows"`
	Nerr int   `json:"nerr"`
	Hang bool  `json:"hang"`
	Peak int   `json:"peak"`
}

// ---------------------------------------------------------------- materialisation

func gzBytes(data []byte) []byte {
	var b bytes.Buffer
	w := gzip.NewWriter(&b)
	w.Write(data)
	w.Close()
	return b.Bytes()
}

// fileBytes: the bytes on disk of a node of the given kind.
func fileBytes(n *Node, cutSel int) []byte {
	data := vh.FromInts(n.Data)
	switch n.K {
	case "file":
		return data
	case "gz":
		return gzBytes(data)
	case "mgz": // cat a.gz b.gz ...: one gzip member per entry of Mem
		var out []byte
		at := 0
		for _, m := range n.Mem {
			out = append(out, gzBytes(data[at:at+m])...)
			at += m
		}
		return out
	case "truncgz":
		z := gzBytes(data)
		body := len(z) - 18 // deflate stream
		var cut int
		switch cutSel % 5 {
		case 0:
			cut = 10 // header only
		case 1:
			cut = 10 + body/2
		case 2:
			cut = len(z) - 8 // complete deflate stream, no trailer
		case 3:
			cut = len(z) - 3 // inside the trailer
		default:
			cut = 10 + (cutSel/5)%(len(z)-10)
		}
		if cut < 10 {
			cut = 10
		}
		if cut >= len(z) {
			cut = len(z) - 1
		}
		return z[:cut]
	case "crcgz":
		z := gzBytes(data)
		z[len(z)-8+cutSel%8] ^= 0x5a // CRC32 or ISIZE
		return z
	case "badgz":
		z := gzBytes(nil)
		return append(append([]byte{}, z[:10]...), 0xff, 0xff, 0xff, 0xff) // reserved block type
	}
	panic("kind " + n.K)
}

func materialise(root string, sc *Scenario) error {
	if err := os.MkdirAll(root, 0o755); err != nil {
		return err
	}
	for i := range sc.Tree {
		n := &sc.Tree[i]
		if isAbsNode(n) {
			// an inherited descriptor: its bytes wait in a file outside the tree
			if err := os.WriteFile(extFile(root, n), fileBytes(n, sc.CutSel), 0o644); err != nil {
				return err
			}
			continue
		}
		p := filepath.Join(root, string(vh.FromInts(n.P)))
		if n.K == "dir" {
			if err := os.MkdirAll(p, 0o755); err != nil {
				return err
			}
			continue
		}
		if err := os.MkdirAll(filepath.Dir(p), 0o755); err != nil {
			return err
		}
		if n.Tr == "pipe" {
			if err := syscall.Mkfifo(p, 0o644); err != nil {
				return err
			}
			continue
		}
		if special, err := makeSpecial(root, p, n.K); special {
			if err != nil {
				return err
			}
			continue
		}
		if err := os.WriteFile(p, fileBytes(n, sc.CutSel), 0o644); err != nil {
			return err
		}
	}
	return nil
}

// makeSpecial creates a directory entry that is neither a directory nor a regular file (nor a FIFO)
func makeSpecial(root, p, kind string) (bool, error) {
	switch kind {
	case "sock":
		return true, syscall.Mknod(p, syscall.S_IFSOCK|0o644, 0)
	case "dev":
		// the null device; where device nodes cannot be created, another entry nobody can open
		if err := syscall.Mknod(p, syscall.S_IFCHR|0o644, 1<<8|3); err != nil {
			return true, syscall.Mknod(p, syscall.S_IFSOCK|0o644, 0)
		}
		return true, nil
	case "symfile":
		t := root + ".symfile"
		if err := os.WriteFile(t, []byte("sym 1\n"), 0o644); err != nil {
			return true, err
		}
		return true, os.Symlink(t, p)
	case "symdir":
		t := root + ".symdir"
		if err := os.MkdirAll(t, 0o755); err != nil {
			return true, err
		}
		return true, os.Symlink(t, p)
	case "dangling":
		return true, os.Symlink(root+".nothing", p)
	}
	return false, nil
}

func cleanup(root string, sc *Scenario) {
	os.RemoveAll(root)
	os.Remove(root + ".symfile")
	os.Remove(root + ".symdir")
	for i := range sc.Tree {
		if isAbsNode(&sc.Tree[i]) {
			os.Remove(extFile(root, &sc.Tree[i]))
		}
	}
}

// ---------------------------------------------------------------- running the real binary

var summaryRe = regexp.MustCompile(`Matched: ([\d,]+) / ([\d,]+)`)

func tallyRows(t map[string]int) []Row {
	keys := make([]string, 0, len(t))
	for k := range t {
		keys = append(keys, k)
	}
	sort.Strings(keys)
	out := make([]Row, 0, len(keys))
	for _, k := range keys {
		out = append(out, Row{R: vh.BS(k), N: t[k]})
	}
	return out
}

func cliArgs(sc *Scenario) []string {
	var a []string
	if sc.Cmd == "filter" {
		a = []string{"filter", "-m", "^.+$", "-e", "{src}:{line}:{0}"}
	} else {
		a = []string{"histogram", "-m", `^(\w+) (\w+)$`, "-e", "{src}:{line}:{1}", "-e", "{2}", "--csv", "-"}
	}
	a = append(a, "--readers", strconv.Itoa(sc.Readers), "--batch", strconv.Itoa(sc.Batch))
	if sc.Rec {
		a = append(a, "-R")
	}
	if sc.Gz {
		a = append(a, "-z")
	}
	for _, x := range sc.Argv {
		a = append(a, string(vh.FromInts(x)))
	}
	return a
}

func usesStdin(sc *Scenario) bool {
	return len(sc.Argv) == 0 || string(vh.FromInts(sc.Argv[0])) == "-"
}

func runCLI(rare, root string, sc *Scenario, deadline time.Duration) (Obs, error) {
	obs := Obs{Rows: []Row{}, Matched: -1, Read: -1, Peak: -1}
	cmd := exec.Command(rare, cliArgs(sc)...)
	if sc.Nofile > 0 {
		// the limit is set by a wrapper shell (soft and hard, so that the Go runtime cannot raise it)
		cmd = exec.Command("/bin/sh", append([]string{"-c", `ulimit -n "$1" || exit 97; shift; exec "$@"`, "sh",
			strconv.Itoa(sc.Nofile), rare}, cliArgs(sc)...)...)
	}
	cmd.Dir = root
	var env []string
	for _, e := range os.Environ() {
		if !strings.HasPrefix(e, "RARE_") {
			env = append(env, e)
		}
	}
	cmd.Env = env
	var so, se bytes.Buffer
	cmd.Stdout, cmd.Stderr = &so, &se
	if usesStdin(sc) {
		if sc.Stdin.K == "dir" {
			f, err := os.Open(root)
			if err != nil {
				return obs, err
			}
			defer f.Close()
			cmd.Stdin = f
		} else {
			cmd.Stdin = bytes.NewReader(vh.FromInts(sc.Stdin.Data))
		}
	}
	// inherited descriptors: /dev/stdin and /dev/fd/3, from a pipe or from a regular file
	var closers []io.Closer
	defer func() {
		for _, c := range closers {
			c.Close()
		}
	}()
	for i := range sc.Tree {
		n := &sc.Tree[i]
		if !isAbsNode(n) {
			continue
		}
		var rd *os.File
		if n.Tr == "pipe" {
			r, w, err := os.Pipe()
			if err != nil {
				return obs, err
			}
			data := fileBytes(n, sc.CutSel)
			go func() {
				w.Write(data)
				w.Close()
			}()
			rd = r
		} else {
			f, err := os.Open(extFile(root, n))
			if err != nil {
				return obs, err
			}
			rd = f
		}
		closers = append(closers, rd)
		switch string(vh.FromInts(n.P)) {
		case "/dev/stdin":
			cmd.Stdin = rd
		case "/dev/fd/3":
			cmd.ExtraFiles = []*os.File{rd}
		default:
			return obs, fmt.Errorf("external input %q is not supported by the driver", string(vh.FromInts(n.P)))
		}
	}
	fd := startFeeders(root, sc, sc.Hold > 0)
	defer fd.finish()
	if err := cmd.Start(); err != nil {
		return obs, err
	}
	done := make(chan error, 1)
	go func() { done <- cmd.Wait() }()
	stopWatch := make(chan struct{})
	peakc := make(chan int, 1)
	if sc.Hold > 0 {
		go func() {
			peakc <- watch(cmd.Process.Pid, inputSet(root, sc), fd, sc.Hold, time.Duration(sc.Window)*time.Millisecond, stopWatch)
		}()
	} else {
		peakc <- -1
	}
	select {
	case <-done:
		close(stopWatch)
		obs.Peak = <-peakc
	case <-time.After(deadline):
		cmd.Process.Kill()
		<-done
		close(stopWatch)
		<-peakc
		obs.Hang = true
		obs.Exit = -1
		obs.Msg = "none"
		return obs, nil
	}
	obs.Exit = cmd.ProcessState.ExitCode()
	if sc.Nofile > 0 && obs.Exit == 97 {
		return obs, fmt.Errorf("the wrapper shell could not set the descriptor limit %d: %s", sc.Nofile, se.String())
	}
	obs.Stderr = se.String()
	obs.Msg = "none"
	for _, line := range strings.Split(se.String(), "\n") {
		if strings.HasPrefix(line, "panic: ") || strings.HasPrefix(line, "fatal error: ") {
			obs.Crash = true
		}
		switch {
		case strings.HasPrefix(line, "[Log] Error opening file "), strings.HasPrefix(line, "[Log] Error reading "):
			obs.Nlog++
		case line == "[Log] Read errors":
			obs.Msg = "read"
		case line == "[Log] Parse errors":
			obs.Msg = "parse"
		case strings.HasPrefix(line, "[Log] "):
			obs.Nunk++
		}
		if m := summaryRe.FindStringSubmatch(line); m != nil {
			obs.Matched, _ = strconv.Atoi(strings.ReplaceAll(m[1], ",", ""))
			obs.Read, _ = strconv.Atoi(strings.ReplaceAll(m[2], ",", ""))
		}
	}
	tally := map[string]int{}
	if sc.Cmd == "filter" {
		out := so.String()
		if strings.HasSuffix(out, "\n") {
			out = out[:len(out)-1]
		}
		if so.Len() > 0 {
			for _, line := range strings.Split(out, "\n") {
				tally[line]++
			}
		}
	} else {
		r := csv.NewReader(bytes.NewReader(so.Bytes()))
		r.FieldsPerRecord = -1
		recs, err := r.ReadAll()
		if err != nil || len(recs) == 0 || len(recs[0]) != 2 || recs[0][0] != "group" {
			// not the CSV the command promises: hand the raw lines to the comparison
			for _, line := range strings.Split(so.String(), "\n") {
				if line != "" {
					tally["<non-csv>"+line]++
				}
			}
		} else {
			for _, rec := range recs[1:] {
				if len(rec) != 2 {
					tally["<bad-row>"+strings.Join(rec, ",")]++
					continue
				}
				v, err := strconv.Atoi(rec[1])
				if err != nil {
					tally["<bad-value>"+strings.Join(rec, ",")]++
					continue
				}
				tally[rec[0]] += v
			}
		}
	}
	obs.Rows = tallyRows(tally)
	return obs, nil
}

// ---------------------------------------------------------------- the batcher library, in-process

var libMu sync.Mutex

func runLib(root, work string, sc *Scenario) LibObs {
	if usesStdin(sc) {
		return LibObs{Rows: []Row{}, Peak: -1}
	}
	for i := range sc.Tree {
		if isAbsNode(&sc.Tree[i]) { // the driver's own standard input is not the scenario's
			return LibObs{Rows: []Row{}, Peak: -1}
		}
	}
	libMu.Lock()
	defer libMu.Unlock()
	defer os.Chdir(work)
	if err := os.Chdir(root); err != nil {
		return LibObs{Rows: []Row{}, Peak: -1}
	}
	fd := startFeeders(root, sc, sc.LibHold > 0)
	defer fd.finish()
	stopWatch := make(chan struct{})
	peakc := make(chan int, 1)
	if sc.LibHold > 0 {
		go func() {
			peakc <- watch(os.Getpid(), inputSet(root, sc), fd, sc.LibHold, time.Duration(sc.LibWindow)*time.Millisecond, stopWatch)
		}()
	} else {
		peakc <- -1
	}
	names := make([]string, len(sc.Argv))
	for i, a := range sc.Argv {
		names[i] = string(vh.FromInts(a))
	}
	done := make(chan LibObs, 1)
	go func() {
		tally := map[string]int{}
		b := batchers.OpenFilesToChan(dirwalk.GlobExpand(names, sc.Rec), sc.Gz, sc.Readers, sc.Batch, 2)
		for batch := range b.BatchChan() {
			for i, line := range batch.Batch {
				tally[fmt.Sprintf("%s:%d:%s", batch.Source, batch.BatchStart+uint64(i), string(line))]++
			}
		}
		done <- LibObs{Ran: true, Rows: tallyRows(tally), Nerr: b.ReadErrors()}
	}()
	select {
	case o := <-done:
		close(stopWatch)
		o.Peak = <-peakc
		return o
	case <-time.After(25 * time.Second):
		close(stopWatch)
		<-peakc
		return LibObs{Ran: true, Rows: []Row{}, Hang: true, Peak: -1}
	}
}

// ---------------------------------------------------------------- records for Inputs_Trace

func comps(p []int) [][]int {
	parts := strings.Split(string(vh.FromInts(p)), "/")
	out := make([][]int, len(parts))
	for i, s := range parts {
		out[i] = vh.BS(s)
	}
	return out
}

func record(t int, sc *Scenario, obs *Obs, lib *LibObs) vh.M {
	tree := make([]vh.M, 0, len(sc.Tree))
	for _, n := range sc.Tree {
		d := n.Data
		if d == nil {
			d = []int{}
		}
		tr := n.Tr
		if tr == "" {
			tr = "reg"
		}
		mem := n.Mem
		if mem == nil {
			mem = []int{}
		}
		tree = append(tree, vh.M{"p": comps(n.P), "k": n.K, "data": d, "tr": tr, "mem": mem})
	}
	args := make([][][]int, 0, len(sc.Argv))
	for _, a := range sc.Argv {
		args = append(args, comps(a))
	}
	sd := sc.Stdin.Data
	if sd == nil {
		sd = []int{}
	}
	return vh.M{"event": "run", "t": t, "tree": tree, "stdin": vh.M{"k": sc.Stdin.K, "data": sd}, "args": args,
		"rec": sc.Rec, "gz": sc.Gz, "readers": sc.Readers, "cmd": sc.Cmd, "nofile": sc.Nofile, "batch": sc.Batch,
		"cutsel": sc.CutSel, "hold": sc.Hold,
		"obs": obs, "lib": lib}
}

// ---------------------------------------------------------------- executing a list of scenarios

type result struct {
	obs     Obs
	lib     LibObs
	err     error
	skipped bool
}

// hang policy: a run gets 15 s (it needs milliseconds); a run that exceeds it is repeated with 75 s before
// it counts as a hang.  After the first confirmed hang the remaining runs get 10 s without repetition, and
// after eight hangs the rest of the list is abandoned (the verdict is decided; the check must still end).
var (
	hangMu      sync.Mutex
	hangs       int
	libDisabled bool
)

func execAll(scs []*Scenario, rare, work string, par int, skipLib bool) []result {
	res := make([]result, len(scs))
	var wg sync.WaitGroup
	idx := make(chan int, 64)
	for w := 0; w < par; w++ {
		wg.Add(1)
		go func() {
			defer wg.Done()
			for i := range idx {
				sc := scs[i]
				root := filepath.Join(work, fmt.Sprintf("s%06d", i))
				if err := materialise(root, sc); err != nil {
					res[i].err = err
					cleanup(root, sc)
					continue
				}
				hangMu.Lock()
				h, noLib := hangs, libDisabled
				hangMu.Unlock()
				if h >= 8 {
					res[i].skipped = true
					cleanup(root, sc)
					continue
				}
				deadline := 15 * time.Second
				if h >= 1 {
					deadline = 10 * time.Second
				}
				obs, err := runCLI(rare, root, sc, deadline)
				if err == nil && obs.Hang && h < 1 {
					// a loaded machine must not look like a hang: once more, with a long deadline
					obs, err = runCLI(rare, root, sc, 75*time.Second)
				}
				if obs.Hang {
					hangMu.Lock()
					hangs++
					hangMu.Unlock()
				}
				res[i].obs, res[i].err = obs, err
				if !skipLib && !noLib {
					res[i].lib = runLib(root, work, sc)
					if res[i].lib.Hang {
						hangMu.Lock()
						libDisabled = true
						hangMu.Unlock()
					}
				} else {
					res[i].lib = LibObs{Rows: []Row{}, Peak: -1}
				}
				cleanup(root, sc)
			}
		}()
	}
	for i := range scs {
		idx <- i
	}
	close(idx)
	wg.Wait()
	return res
}

// ---------------------------------------------------------------- B1: comparison with the model's outcome

type Mismatch struct {
	T      int       `json:"t"`
	Kind   string    `json:"kind"`
	Class  string    `json:"class"`
	Detail string    `json:"detail"`
	Argv   []string  `json:"argv"`
	Sc     *Scenario `json:"scenario"`
	Obs    *Obs      `json:"obs"`
	Lib    *LibObs   `json:"lib"`
	Stderr string    `json:"stderr"`
}

func rowsMap(rows []Row) map[string]int {
	m := map[string]int{}
	for _, r := range rows {
		m[string(vh.FromInts(r.R))] += r.N
	}
	return m
}

func diffMaps(exp, got map[string]int) string {
	var d []string
	for k, v := range exp {
		if g, ok := got[k]; !ok {
			d = append(d, fmt.Sprintf("missing %q", k))
		} else if g != v {
			d = append(d, fmt.Sprintf("%q: spec %d, got %d", k, v, g))
		}
	}
	for k, g := range got {
		if _, ok := exp[k]; !ok {
			d = append(d, fmt.Sprintf("unexpected %q x%d", k, g))
		}
	}
	sort.Strings(d)
	if len(d) > 6 {
		d = append(d[:6], fmt.Sprintf("... %d more", len(d)-6))
	}
	return strings.Join(d, "; ")
}

func classOf(sc *Scenario) string {
	tags := []string{}
	seen := map[string]bool{}
	for _, n := range sc.Tree {
		if n.K != "file" && n.K != "dir" && !seen[n.K] {
			seen[n.K] = true
			tags = append(tags, n.K)
		}
		if n.Tr == "pipe" && !seen["pipe"] {
			seen["pipe"] = true
			tags = append(tags, "pipe")
		}
	}
	sort.Strings(tags)
	if len(tags) == 0 {
		tags = []string{"plain"}
	}
	if usesStdin(sc) {
		tags = []string{"stdin-" + sc.Stdin.K}
	}
	s := strings.Join(tags, "+")
	if sc.Gz {
		s += ",z"
	}
	if sc.Rec {
		s += ",R"
	}
	return s
}

func compare(t int, sc *Scenario, r *result) []Mismatch {
	var out []Mismatch
	exp := sc.Exp
	add := func(kind, detail string) {
		out = append(out, Mismatch{T: t, Kind: kind, Class: classOf(sc), Detail: detail, Argv: cliArgs(sc),
			Sc: sc, Obs: &r.obs, Lib: &r.lib, Stderr: r.obs.Stderr})
	}
	obs := &r.obs
	if obs.Hang {
		add("hang", "the run did not terminate (killed after the deadline, see hang policy)")
		return out
	}
	if obs.Crash {
		first := ""
		for _, line := range strings.Split(obs.Stderr, "\n") {
			if strings.HasPrefix(line, "panic: ") || strings.HasPrefix(line, "fatal error: ") {
				first = line
				break
			}
		}
		add("crash", "the process was aborted by the Go runtime: "+first)
		return out
	}
	partial := map[string]bool{}
	for _, p := range exp.Partial {
		partial[string(vh.FromInts(p.Name))+":"] = true
	}
	for _, f := range exp.Free { // rows of non-regular entries below a -R directory are not judged
		partial[string(vh.FromInts(f))+":"] = true
	}
	strip := func(m map[string]int) map[string]int {
		if len(partial) == 0 {
			return m
		}
		o := map[string]int{}
		for k, v := range m {
			keep := true
			for p := range partial {
				if strings.HasPrefix(k, p) {
					keep = false
				}
			}
			if keep {
				o[k] = v
			}
		}
		return o
	}
	em := rowsMap(exp.Rows)
	if d := diffMaps(em, strip(rowsMap(obs.Rows))); d != "" {
		add("rows", d)
	}
	if exp.Nfree == 0 {
		if obs.Exit != exp.Exit {
			add("exit", fmt.Sprintf("exit status: spec %d, got %d", exp.Exit, obs.Exit))
		}
		if obs.Msg != exp.Msg {
			add("msg", fmt.Sprintf("final message: spec %q, got %q", exp.Msg, obs.Msg))
		}
	} else {
		ok := false
		for _, e := range exp.Ends {
			ok = ok || (e.Exit == obs.Exit && e.Msg == obs.Msg)
		}
		if !ok {
			add("exit", fmt.Sprintf("exit status / final message: spec one of %v, got %d %q", exp.Ends, obs.Exit, obs.Msg))
		}
	}
	// every failing input is reported on stderr; the wording of a report is not part of the property, so [Log] lines the
	// driver does not recognise may stand for reports (never more recognised reports than failures, never fewer lines than failures)
	if obs.Nlog > exp.Nerr+exp.Nfree || obs.Nlog+obs.Nunk < exp.Nerr {
		add("nlog", fmt.Sprintf("reported read errors: spec %d, got %d (+%d other [Log] lines)", exp.Nerr, obs.Nlog, obs.Nunk))
	}
	if sc.Cmd == "filter" && len(exp.Partial) == 0 && exp.Nfree > 0 {
		if obs.Matched < exp.Matched || obs.Read < exp.Read {
			add("summary", fmt.Sprintf("summary: spec matched >= %d / read >= %d, got %d / %d", exp.Matched, exp.Read, obs.Matched, obs.Read))
		}
	} else if sc.Cmd == "filter" && len(exp.Partial) == 0 && (obs.Matched != exp.Matched || obs.Read != exp.Read) {
		add("summary", fmt.Sprintf("summary: spec matched %d / read %d, got %d / %d", exp.Matched, exp.Read, obs.Matched, obs.Read))
	}
	if obs.Peak > exp.MaxOpen {
		add("fds", fmt.Sprintf("inputs open at the same time: spec at most %d (--readers), seen %d", exp.MaxOpen, obs.Peak))
	}
	if r.lib.Ran {
		if r.lib.Hang {
			add("lib-hang", "OpenFilesToChan did not close its channel within 25 s")
		} else {
			if r.lib.Nerr < exp.Nerr || r.lib.Nerr > exp.Nerr+exp.Nfree {
				add("lib-nerr", fmt.Sprintf("Batcher.ReadErrors(): spec %d, got %d", exp.Nerr, r.lib.Nerr))
			}
			if r.lib.Peak > exp.MaxOpen {
				add("lib-fds", fmt.Sprintf("OpenFilesToChan: inputs open at the same time: spec at most %d (concurrency), seen %d", exp.MaxOpen, r.lib.Peak))
			}
		}
	}
	return out
}

func loadBinary(p string) (string, error) {
	a, err := filepath.Abs(p)
	if err != nil {
		return "", err
	}
	if _, err := os.Stat(a); err != nil {
		return "", err
	}
	return a, nil
}

func c06Replay(args []string) error {
	fs := flag.NewFlagSet("replay", flag.ExitOnError)
	in := fs.String("in", "", "vectors (ndjson from Inputs_Gen)")
	out := fs.String("out", "", "result json")
	trace := fs.String("trace", "", "ndjson records for Inputs_Trace")
	rareBin := fs.String("rare", "", "the rare binary")
	work := fs.String("work", "", "scratch directory")
	par := fs.Int("par", 8, "parallel runs")
	fs.Parse(args)
	logger.DeferLogs()
	rare, err := loadBinary(*rareBin)
	if err != nil {
		return err
	}
	wd, err := workDir(*work)
	if err != nil {
		return err
	}
	*out, _ = filepath.Abs(*out)
	*trace, _ = filepath.Abs(*trace)
	*in, _ = filepath.Abs(*in)
	var scs []*Scenario
	err = vh.ReadNd(*in, func(raw json.RawMessage) error {
		sc := &Scenario{}
		if err := json.Unmarshal(raw, sc); err != nil {
			return err
		}
		if sc.Exp == nil {
			return fmt.Errorf("vector without expectation")
		}
		scs = append(scs, sc)
		return nil
	})
	if err != nil {
		return err
	}
	// deterministic order, then driver-side choices from the seed
	sort.SliceStable(scs, func(i, j int) bool {
		a, _ := json.Marshal(scs[i])
		b, _ := json.Marshal(scs[j])
		return bytes.Compare(a, b) < 0
	})
	rng := vh.NewRand(606)
	batches := []int{1, 2, 1000}
	nhold := 0
	for _, sc := range scs {
		sc.Batch = batches[rng.Intn(len(batches))]
		sc.CutSel = rng.Intn(1000)
		// a mentioned FIFO keeps its reader waiting while the open inputs of the run are counted
		ment := map[string]bool{}
		for _, m := range sc.Mentions {
			ment[string(vh.FromInts(m))] = true
		}
		nf := 0
		for i := range sc.Tree {
			if n := &sc.Tree[i]; n.Tr == "pipe" && !isAbsNode(n) && ment[string(vh.FromInts(n.P))] {
				nf++
			}
		}
		if nf > sc.Readers {
			nf = sc.Readers
		}
		if nf > 0 && len(sc.Mentions) > 1 {
			sc.Hold, sc.Window = nf, 20
			if nhold++; nhold%4 == 0 {
				sc.LibHold, sc.LibWindow = nf, 6
			}
		}
	}
	res := execAll(scs, rare, wd, *par, false)
	tw, err := vh.NewNdWriter(*trace)
	if err != nil {
		return err
	}
	defer tw.Close()
	var mm []Mismatch
	samples := []vh.M{}
	nontrivial := 0
	ran := 0
	for i, sc := range scs {
		if res[i].skipped {
			continue
		}
		ran++
		if res[i].err != nil {
			return fmt.Errorf("scenario %d: %v", i, res[i].err)
		}
		mm = append(mm, compare(i+1, sc, &res[i])...)
		tw.Write(record(i+1, sc, &res[i].obs, &res[i].lib))
		if len(sc.Exp.Rows) > 0 || sc.Exp.Nerr > 0 {
			nontrivial++
		}
		if len(samples) < 3 && sc.Exp.Nerr > 0 && len(sc.Exp.Rows) > 0 {
			samples = append(samples, vh.M{"argv": cliArgs(sc), "exit": res[i].obs.Exit, "spec_exit": sc.Exp.Exit,
				"nerr": sc.Exp.Nerr, "rows": len(sc.Exp.Rows)})
		}
	}
	if mm == nil {
		mm = []Mismatch{}
	}
	vh.WriteJSON(*out, vh.M{"runs": ran, "vectors": len(scs), "distinct_nontrivial": nontrivial, "mismatches": mm, "samples": samples})
	return nil
}

// ---------------------------------------------------------------- B2: random larger scenarios

var namePool = []string{"a", "b", "ab", "c1", "x.log", "y.log", "z.gz", "d", "e", "sub", "k", "ab2"}
var vocab = []string{"", "k 2", "j 1", "zz", "s x", "word 10", "a b c", "x_1 7", "k 40", "plain text line"}

func randData(rng *rand.Rand, maxLines int) []int {
	n := rng.Intn(maxLines + 1)
	var sb strings.Builder
	for i := 0; i < n; i++ {
		sb.WriteString(vocab[rng.Intn(len(vocab))])
		if i < n-1 || rng.Intn(5) > 0 {
			sb.WriteByte('\n')
		}
	}
	return vh.BS(sb.String())
}

func randScenario(rng *rand.Rand) *Scenario {
	sc := &Scenario{Stdin: Stdin{K: "data", Data: []int{}}, Argv: [][]int{}}
	sc.Rec = rng.Intn(2) == 0
	sc.Gz = rng.Intn(2) == 0
	sc.Readers = []int{1, 2, 3, 8}[rng.Intn(4)]
	sc.Batch = []int{1, 2, 1000}[rng.Intn(3)]
	sc.CutSel = 4 + 5*rng.Intn(200) + rng.Intn(5)
	if rng.Intn(5) < 2 {
		sc.Cmd = "histo"
	} else {
		sc.Cmd = "filter"
	}
	// directories
	type dirT struct {
		path  string
		depth int
		used  map[string]bool
	}
	dirs := []*dirT{{path: "", depth: 0, used: map[string]bool{}}}
	nd := rng.Intn(9)
	for i := 0; i < nd; i++ {
		par := dirs[rng.Intn(len(dirs))]
		if par.depth >= 3 {
			continue
		}
		name := namePool[rng.Intn(len(namePool))]
		if par.used[name] {
			continue
		}
		par.used[name] = true
		p := name
		if par.path != "" {
			p = par.path + "/" + name
		}
		dirs = append(dirs, &dirT{path: p, depth: par.depth + 1, used: map[string]bool{}})
		sc.Tree = append(sc.Tree, Node{P: vh.BS(p), K: "dir", Data: []int{}, Tr: "reg"})
	}
	nf := rng.Intn(13)
	if rng.Intn(4) == 0 {
		nf = rng.Intn(61)
	}
	var files, all []string
	for _, d := range dirs[1:] {
		all = append(all, d.path)
	}
	truncLeft := 0
	if sc.Gz && rng.Intn(3) == 0 {
		truncLeft = 1
	}
	for i := 0; i < nf; i++ {
		par := dirs[rng.Intn(len(dirs))]
		name := namePool[rng.Intn(len(namePool))]
		if par.used[name] {
			continue
		}
		par.used[name] = true
		p := name
		if par.path != "" {
			p = par.path + "/" + name
		}
		maxLines := 6
		if rng.Intn(10) == 0 {
			maxLines = 40 // some inputs long enough for concurrent readers to overlap
		}
		n := Node{P: vh.BS(p), K: "file", Data: randData(rng, maxLines), Tr: "reg"}
		if rng.Intn(12) == 0 { // a text that starts with the gzip magic number
			n.Data = append([]int{0x1f, 0x8b}, n.Data...)
		}
		if sc.Gz {
			switch x := rng.Intn(100); {
			case x < 50:
			case x < 68:
				n.K = "gz"
			case x < 78:
				n.K, n.Mem = "mgz", randCuts(rng, len(n.Data))
			case x < 85:
				n.K = "crcgz"
			case x < 92:
				n.K = "badgz"
				n.Data = []int{}
			default:
				if truncLeft > 0 {
					truncLeft--
					n.K = "truncgz"
					n.Data = randData(rng, 9)
				}
			}
		}
		sc.Tree = append(sc.Tree, n)
		files = append(files, p)
		all = append(all, p)
	}
	// arguments
	if rng.Intn(12) == 0 {
		sc.Gz = false
		for i := range sc.Tree {
			if sc.Tree[i].K != "dir" {
				sc.Tree[i].K = "file"
			}
		}
		if rng.Intn(2) == 0 {
			sc.Argv = append(sc.Argv, vh.BS("-"))
		}
		if rng.Intn(6) == 0 {
			sc.Stdin = Stdin{K: "dir", Data: []int{}}
		} else {
			sc.Stdin = Stdin{K: "data", Data: randData(rng, 8)}
		}
		return sc
	}
	na := 1 + rng.Intn(4)
	for i := 0; i < na; i++ {
		var a string
		x := rng.Intn(100)
		switch {
		case x < 30 && len(files) > 0:
			a = files[rng.Intn(len(files))]
		case x < 45 && len(dirs) > 1:
			a = dirs[1+rng.Intn(len(dirs)-1)].path
		case x < 55:
			base := ""
			if len(all) > 0 && rng.Intn(2) == 0 {
				base = all[rng.Intn(len(all))] + "/"
			}
			a = base + []string{"nope", "missing.log", "q"}[rng.Intn(3)]
		case x < 95 && len(all) > 0:
			parts := strings.Split(all[rng.Intn(len(all))], "/")
			nw := 1 + rng.Intn(2)
			for w := 0; w < nw; w++ {
				j := rng.Intn(len(parts))
				c := parts[j]
				switch rng.Intn(5) {
				case 0:
					parts[j] = "*"
				case 1:
					parts[j] = c[:1] + "*"
				case 2:
					if len(c) == 1 {
						parts[j] = "?"
					} else {
						parts[j] = c[:len(c)-1] + "?"
					}
				case 3:
					if k := strings.LastIndex(c, "."); k >= 0 {
						parts[j] = "*" + c[k:]
					} else {
						parts[j] = "*" + c[len(c)-1:]
					}
				default:
					parts[j] = "*" + c[len(c)/2:]
				}
			}
			a = strings.Join(parts, "/")
		case len(sc.Argv) > 0:
			a = string(vh.FromInts(sc.Argv[rng.Intn(len(sc.Argv))]))
		default:
			a = "*"
		}
		sc.Argv = append(sc.Argv, vh.BS(a))
	}
	addSpecialInputs(rng, sc, &truncLeft)
	addWalkEntries(rng, sc, dirPaths(sc))
	return sc
}

// randCuts: plain sizes of 2..4 gzip members making up n bytes (members may be empty, cuts fall anywhere)
func randCuts(rng *rand.Rand, n int) []int {
	k := 2 + rng.Intn(3)
	at := make([]int, k-1)
	for i := range at {
		at[i] = rng.Intn(n + 1)
	}
	sort.Ints(at)
	cuts := make([]int, 0, k)
	prev := 0
	for _, a := range at {
		cuts = append(cuts, a-prev)
		prev = a
	}
	return append(cuts, n-prev)
}

func cutsFor(rng *rand.Rand, k string, d []int) []int {
	if k == "mgz" {
		return randCuts(rng, len(d))
	}
	return nil
}

func dirPaths(sc *Scenario) []string {
	var out []string
	for _, n := range sc.Tree {
		if n.K == "dir" {
			out = append(out, string(vh.FromInts(n.P)))
		}
	}
	return out
}

// argHits: does the glob / path argument a (component-wise * ? matching, as filepath.Glob) name path p
func argHits(a, p string) bool {
	ac, pc := strings.Split(a, "/"), strings.Split(p, "/")
	if len(ac) != len(pc) {
		return false
	}
	for i := range ac {
		if ok, _ := filepath.Match(ac[i], pc[i]); !ok {
			return false
		}
	}
	return true
}

// addWalkEntries: with -R, directory entries that are neither directories nor regular files (FIFO, socket,
// symbolic links, device node) are put among the files of directories some argument walks - with names that sort
// before, between and after the generated ones - provided no argument names them (the specification's domain:
// such entries only as passers-by of a walk; a FIFO at most once)
func addWalkEntries(rng *rand.Rand, sc *Scenario, dirs []string) {
	if !sc.Rec || len(dirs) == 0 || rng.Intn(3) == 0 {
		return
	}
	var walked []string
	for _, a := range sc.Argv {
		for _, d := range dirs {
			if string(vh.FromInts(a)) == d {
				walked = append(walked, d)
			}
		}
	}
	if len(walked) == 0 {
		return
	}
	used := map[string]bool{}
	for _, n := range sc.Tree {
		used[string(vh.FromInts(n.P))] = true
	}
	names := []string{"0first", "aa", "b0", "d.mid", "m", "x.m", "zz.last", "~"}
	kinds := []string{"fifo", "sock", "symfile", "symdir", "dangling", "dev"}
	for i, n := 0, 1+rng.Intn(3); i < n; i++ {
		under := walked[rng.Intn(len(walked))]
		// anywhere below the walked directory
		var cands []string
		for _, d := range dirs {
			if d == under || strings.HasPrefix(d, under+"/") {
				cands = append(cands, d)
			}
		}
		p := cands[rng.Intn(len(cands))] + "/" + names[rng.Intn(len(names))]
		kind := kinds[rng.Intn(len(kinds))]
		if used[p] {
			continue
		}
		hit, covers := false, 0
		for _, a := range sc.Argv {
			as := string(vh.FromInts(a))
			hit = hit || argHits(as, p)
			for _, d := range dirs {
				if as == d && strings.HasPrefix(p, d+"/") {
					covers++
				}
			}
		}
		if hit || (kind == "fifo" && covers != 1) {
			continue
		}
		used[p] = true
		if kind == "fifo" {
			sc.Tree = append(sc.Tree, Node{P: vh.BS(p), K: "file", Data: randData(rng, 3), Tr: "pipe"})
		} else {
			sc.Tree = append(sc.Tree, Node{P: vh.BS(p), K: kind, Data: []int{}, Tr: "reg"})
		}
	}
}

// addSpecialInputs: inputs that cannot be rewound and report size 0.  FIFOs live in a reserved directory
// deeper than any generated glob reaches (a pipe hands its bytes out once: the specification's domain mentions
// it at most once), each named by exactly one extra argument; /dev/stdin or /dev/fd/3 is an inherited pipe or
// regular file.
func addSpecialInputs(rng *rand.Rand, sc *Scenario, truncLeft *int) {
	kindData := func() (string, []int) {
		k, d := "file", randData(rng, 5)
		if rng.Intn(6) == 0 {
			d = append([]int{0x1f, 0x8b}, d...)
		}
		if sc.Gz {
			switch x := rng.Intn(10); {
			case x < 4:
			case x < 6:
				k = "gz"
			case x < 7:
				k = "mgz"
			case x < 8:
				k = "crcgz"
			case x < 9:
				k, d = "badgz", []int{}
			default:
				if *truncLeft > 0 {
					*truncLeft--
					k, d = "truncgz", randData(rng, 9)
				}
			}
		}
		return k, d
	}
	insert := func(a string) {
		at := rng.Intn(len(sc.Argv) + 1)
		sc.Argv = append(sc.Argv, nil)
		copy(sc.Argv[at+1:], sc.Argv[at:])
		sc.Argv[at] = vh.BS(a)
	}
	if rng.Intn(4) == 0 {
		for _, d := range []string{"pp", "pp/q", "pp/q/r", "pp/q/r/s"} {
			sc.Tree = append(sc.Tree, Node{P: vh.BS(d), K: "dir", Data: []int{}, Tr: "reg"})
		}
		np := 1 + rng.Intn(2)
		for i := 1; i <= np; i++ {
			k, d := kindData()
			sc.Tree = append(sc.Tree, Node{P: vh.BS(fmt.Sprintf("pp/q/r/s/p%d", i)), K: k, Data: d, Tr: "pipe", Mem: cutsFor(rng, k, d)})
		}
		switch rng.Intn(3) {
		case 0:
			insert("pp/q/r/s/p?")
		case 1:
			insert("pp/*/r/s/*")
		default:
			for i := 1; i <= np; i++ {
				insert(fmt.Sprintf("pp/q/r/s/p%d", i))
			}
		}
		if np > sc.Readers {
			np = sc.Readers
		}
		sc.Hold, sc.Window = np, 20
		if rng.Intn(3) == 0 {
			sc.LibHold, sc.LibWindow = np, 6
		}
	}
	if rng.Intn(8) == 0 {
		k, d := kindData()
		n := Node{P: vh.BS([]string{"/dev/stdin", "/dev/fd/3"}[rng.Intn(2)]), K: k, Data: d, Tr: []string{"pipe", "pipe", "reg"}[rng.Intn(3)], Mem: cutsFor(rng, k, d)}
		sc.Tree = append(sc.Tree, n)
		insert(string(vh.FromInts(n.P)))
		if n.Tr == "reg" && rng.Intn(3) == 0 {
			insert(string(vh.FromInts(n.P))) // a regular file behind a descriptor can be opened again
		}
	}
}

func c06Random(args []string) error {
	fs := flag.NewFlagSet("random", flag.ExitOnError)
	n := fs.Int("n", 500, "number of scenarios")
	trace := fs.String("trace", "", "ndjson records for Inputs_Trace")
	out := fs.String("out", "", "summary json")
	rareBin := fs.String("rare", "", "the rare binary")
	work := fs.String("work", "", "scratch directory")
	par := fs.Int("par", 8, "parallel runs")
	fs.Parse(args)
	logger.DeferLogs()
	rare, err := loadBinary(*rareBin)
	if err != nil {
		return err
	}
	wd, err := workDir(*work)
	if err != nil {
		return err
	}
	*out, _ = filepath.Abs(*out)
	*trace, _ = filepath.Abs(*trace)
	rng := vh.NewRand(6060)
	scs := make([]*Scenario, *n)
	for i := range scs {
		scs[i] = randScenario(rng)
	}
	res := execAll(scs, rare, wd, *par, false)
	tw, err := vh.NewNdWriter(*trace)
	if err != nil {
		return err
	}
	defer tw.Close()
	maxFiles, errRuns, ran := 0, 0, 0
	for i, sc := range scs {
		if res[i].skipped {
			continue
		}
		ran++
		if res[i].err != nil {
			return fmt.Errorf("scenario %d: %v", i, res[i].err)
		}
		tw.Write(record(i+1, sc, &res[i].obs, &res[i].lib))
		if len(sc.Tree) > maxFiles {
			maxFiles = len(sc.Tree)
		}
		if res[i].obs.Exit == 2 {
			errRuns++
		}
	}
	vh.WriteJSON(*out, vh.M{"runs": ran, "scenarios": len(scs), "max_nodes": maxFiles, "exit2_runs": errRuns})
	return nil
}

package main

// C06 - inputs that are not regular files, and the descriptors of the inputs.
//   feeders : every FIFO of a scenario gets a writer (one rendezvous per FIFO: the specification's domain
//             mentions a pipe at most once); in hold mode the writers keep their readers waiting until the
//             driver has looked at the descriptor table of the process under test
//   peak    : the largest number of READ descriptors of the process that point to a (non-directory) input of
//             the scenario - the observable Inputs.tla bounds by MaxOpen = --readers
//   fdlimit : scenarios with more inputs than the descriptor limit (ulimit -n in a wrapper shell) whose first
//             inputs are FIFOs holding every reader slot; recorded for Inputs_Trace

import (
	"flag"
	"fmt"
	"io"
	"math/rand"
	"os"
	"path/filepath"
	"strconv"
	"strings"
	"syscall"
	"time"

	"rare/pkg/logger"

	"verifharness/vh"
)

func isAbsNode(n *Node) bool { return len(n.P) > 0 && n.P[0] == '/' }

func extFile(root string, n *Node) string {
	return root + ".ext" + strings.ReplaceAll(string(vh.FromInts(n.P)), "/", "_")
}

// ---------------------------------------------------------------- FIFO writers

type feeder struct {
	path   string
	data   []byte
	opened chan struct{} // closed when the writer's open returned: a reader has opened the FIFO
	done   chan struct{}
}

type feeders struct {
	fs       []*feeder
	release  chan struct{}
	released bool
}

func startFeeders(root string, sc *Scenario, hold bool) *feeders {
	fd := &feeders{release: make(chan struct{})}
	for i := range sc.Tree {
		n := &sc.Tree[i]
		if n.Tr != "pipe" || isAbsNode(n) {
			continue
		}
		f := &feeder{path: filepath.Join(root, string(vh.FromInts(n.P))), data: fileBytes(n, sc.CutSel),
			opened: make(chan struct{}), done: make(chan struct{})}
		fd.fs = append(fd.fs, f)
		go func() {
			defer close(f.done)
			w, err := os.OpenFile(f.path, os.O_WRONLY, 0) // blocks until the FIFO is opened for reading
			if err != nil {
				return
			}
			close(f.opened)
			<-fd.release
			w.Write(f.data)
			w.Close()
		}()
	}
	if !hold {
		fd.letGo()
	}
	return fd
}

func (fd *feeders) letGo() {
	if !fd.released {
		fd.released = true
		close(fd.release)
	}
}

// nOpened: how many FIFOs have been opened by a reader so far
func (fd *feeders) nOpened() int {
	n := 0
	for _, f := range fd.fs {
		select {
		case <-f.opened:
			n++
		default:
		}
	}
	return n
}

// finish ends every writer: those whose FIFO was never opened by the process under test are unblocked by
// opening the read side here
func (fd *feeders) finish() {
	fd.letGo()
	for _, f := range fd.fs {
		select {
		case <-f.done:
			continue
		case <-time.After(20 * time.Millisecond):
		}
		r, err := os.OpenFile(f.path, os.O_RDONLY|syscall.O_NONBLOCK, 0)
		if err == nil {
			go io.Copy(io.Discard, r)
		}
		select {
		case <-f.done:
		case <-time.After(10 * time.Second):
		}
		if err == nil {
			r.Close()
		}
	}
}

// ---------------------------------------------------------------- open inputs of a process

// inputSet: the absolute paths of the non-directory nodes of the tree
func inputSet(root string, sc *Scenario) map[string]bool {
	set := map[string]bool{}
	for i := range sc.Tree {
		n := &sc.Tree[i]
		if n.K != "dir" && !isAbsNode(n) {
			set[filepath.Join(root, string(vh.FromInts(n.P)))] = true
		}
	}
	return set
}

// countOpen: read descriptors of process pid that point to a path of the set (-1: process gone)
func countOpen(pid int, set map[string]bool) int {
	dir := "/proc/" + strconv.Itoa(pid) + "/fd"
	ents, err := os.ReadDir(dir)
	if err != nil {
		return -1
	}
	n := 0
	for _, e := range ents {
		t, err := os.Readlink(dir + "/" + e.Name())
		if err != nil || !set[t] {
			continue
		}
		info, err := os.ReadFile("/proc/" + strconv.Itoa(pid) + "/fdinfo/" + e.Name())
		if err != nil {
			continue
		}
		ro := false
		for _, line := range strings.Split(string(info), "\n") {
			if strings.HasPrefix(line, "flags:") {
				v, perr := strconv.ParseInt(strings.TrimSpace(line[6:]), 8, 64)
				ro = perr == nil && v&3 == 0
			}
		}
		if ro {
			n++
		}
	}
	return n
}

// watch observes the process while the FIFO writers hold their readers: waits until `hold` FIFOs were opened
// (or the process ended, or 4 s passed), then counts the open inputs every millisecond for `window` and
// releases the writers.  /proc/<pid>/fd is not an atomic snapshot (a descriptor closed and another one opened
// between two readlinks can be counted twice), so a count only stands if three consecutive samples reach it:
// the result is the largest min(s[i], s[i+1], s[i+2]) (-1: fewer than three samples).  A held state is stable,
// so this loses nothing there.
func watch(pid int, set map[string]bool, fd *feeders, hold int, window time.Duration, stop <-chan struct{}) int {
	peak := -1
	stopped := func() bool {
		select {
		case <-stop:
			return true
		default:
			return false
		}
	}
	if hold > 0 {
		t0 := time.Now()
		for fd.nOpened() < hold && !stopped() && time.Since(t0) < 4*time.Second {
			time.Sleep(500 * time.Microsecond)
		}
		a, b := -1, -1
		t1 := time.Now()
		for n := 0; !stopped() && (time.Since(t1) < window || n < 3); n++ {
			c := countOpen(pid, set)
			if c < 0 {
				break
			}
			if n >= 2 {
				m := c
				if a < m {
					m = a
				}
				if b < m {
					m = b
				}
				if m > peak {
					peak = m
				}
			}
			a, b = b, c
			time.Sleep(time.Millisecond)
		}
	}
	fd.letGo()
	return peak
}

// ---------------------------------------------------------------- fdlimit scenarios

// fdScenario: r+1 FIFOs (r = readers), the first r of which take every reader slot (the last one has to wait
// for a slot like everything behind it), behind a few ordinary inputs and in front of MORE regular files than
// the descriptor limit allows to be open at once.
func fdScenario(rng *rand.Rand, idx int) *Scenario {
	sc := &Scenario{Stdin: Stdin{K: "data", Data: []int{}}, Argv: [][]int{}}
	sc.Readers = 1 + idx%3
	sc.Gz = rng.Intn(2) == 0
	sc.Rec = false
	sc.Batch = []int{1, 2, 1000}[rng.Intn(3)]
	sc.CutSel = rng.Intn(1000)
	sc.Cmd = "filter"
	if rng.Intn(4) == 0 {
		sc.Cmd = "histo"
	}
	sc.Nofile = sc.Readers + 16 + rng.Intn(6)
	sc.Hold, sc.Window = sc.Readers, 60
	sc.LibHold, sc.LibWindow = sc.Readers, 30
	add := func(p, k, tr string, data []int) {
		sc.Tree = append(sc.Tree, Node{P: vh.BS(p), K: k, Data: data, Tr: tr})
	}
	arg := func(a string) { sc.Argv = append(sc.Argv, vh.BS(a)) }
	// ordinary inputs first: they come and go before the FIFOs take the slots
	npre := rng.Intn(5)
	for i := 0; i < npre; i++ {
		name := fmt.Sprintf("b%d", i)
		switch x := rng.Intn(10); {
		case x < 4:
			add(name, "file", "reg", randData(rng, 4))
		case x < 7 && sc.Gz:
			add(name, "gz", "reg", randData(rng, 4))
		case x < 8 && sc.Gz:
			add(name, "crcgz", "reg", randData(rng, 4))
		case x < 9:
			add(name, "dir", "reg", []int{})
		default: // missing
		}
		arg(name)
	}
	// the FIFOs
	for i := 1; i <= sc.Readers+1; i++ {
		k := "file"
		if sc.Gz && rng.Intn(2) == 0 {
			k = "gz"
		}
		add(fmt.Sprintf("p%d", i), k, "pipe", randData(rng, 3))
	}
	if rng.Intn(2) == 0 {
		arg("p?")
	} else {
		for i := 1; i <= sc.Readers+1; i++ {
			arg(fmt.Sprintf("p%d", i))
		}
	}
	// more files than descriptors
	add("d", "dir", "reg", []int{})
	n := sc.Nofile + 8 + rng.Intn(24)
	var names []string
	for i := 0; i < n; i++ {
		name := fmt.Sprintf("d/f%02d", i)
		k := "file"
		if sc.Gz && rng.Intn(3) == 0 {
			k = "gz"
		}
		add(name, k, "reg", vh.BS(fmt.Sprintf("%s %d\n", []string{"k", "j", "w"}[i%3], i%7)))
		names = append(names, name)
	}
	switch rng.Intn(4) {
	case 0:
		arg("d/*")
	case 1:
		sc.Rec = true
		arg("d")
	case 2:
		for d := 0; d <= (n-1)/10; d++ {
			arg(fmt.Sprintf("d/f%d?", d))
		}
	default:
		for _, nm := range names {
			arg(nm)
		}
	}
	return sc
}

func c06Fdlimit(args []string) error {
	fs := flag.NewFlagSet("fdlimit", flag.ExitOnError)
	n := fs.Int("n", 12, "number of scenarios")
	trace := fs.String("trace", "", "ndjson records for Inputs_Trace")
	out := fs.String("out", "", "summary json")
	rareBin := fs.String("rare", "", "the rare binary")
	work := fs.String("work", "", "scratch directory")
	par := fs.Int("par", 4, "parallel runs")
	fs.Parse(args)
	logger.DeferLogs()
	rare, err := loadBinary(*rareBin)
	if err != nil {
		return err
	}
	wd, err := workDir(*work)
	if err != nil {
		return err
	}
	*out, _ = filepath.Abs(*out)
	*trace, _ = filepath.Abs(*trace)
	rng := vh.NewRand(60606)
	scs := make([]*Scenario, *n)
	for i := range scs {
		scs[i] = fdScenario(rng, i)
	}
	res := execAll(scs, rare, wd, *par, false)
	tw, err := vh.NewNdWriter(*trace)
	if err != nil {
		return err
	}
	defer tw.Close()
	ran, maxInputs, sampled, maxPeak := 0, 0, 0, -1
	for i, sc := range scs {
		if res[i].skipped {
			continue
		}
		ran++
		if res[i].err != nil {
			return fmt.Errorf("scenario %d: %v", i, res[i].err)
		}
		tw.Write(record(i+1, sc, &res[i].obs, &res[i].lib))
		if len(sc.Tree) > maxInputs {
			maxInputs = len(sc.Tree)
		}
		if res[i].obs.Peak >= 0 {
			sampled++
		}
		if res[i].obs.Peak > maxPeak {
			maxPeak = res[i].obs.Peak
		}
		if res[i].lib.Peak > maxPeak {
			maxPeak = res[i].lib.Peak
		}
	}
	vh.WriteJSON(*out, vh.M{"runs": ran, "scenarios": len(scs), "max_nodes": maxInputs, "sampled": sampled, "max_peak": maxPeak})
	return nil
}

func workDir(p string) (string, error) {
	wd, err := filepath.Abs(p)
	if err != nil {
		return "", err
	}
	if err := os.MkdirAll(wd, 0o755); err != nil {
		return "", err
	}
	// /proc/<pid>/fd shows resolved paths
	return filepath.EvalSymlinks(wd)
}

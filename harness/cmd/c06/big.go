package main

// C06 - inputs larger than any read buffer / probe window (InputsBig.tla).
//   big : replays the corpus enumerated by InputsBig_Gen on the REAL rare binary and on the batcher library:
//         contents are symbolic (pre line, n fixed-width numbered records, unterminated tail); the driver renders
//         them (its renderer is first checked against the byte strings TLC computed for small descriptors),
//         materialises them as regular file / gzip / multi-member gzip / FIFO / standard input, decodes every
//         output row back into (source, line number, class, record number) and logs the run-length form per
//         source: compared with the expectation of the vector (B1) and recorded for InputsBig_Trace (B2).

import (
	"bytes"
	"encoding/json"
	"flag"
	"fmt"
	"io"
	"os"
	"os/exec"
	"path/filepath"
	"sort"
	"strconv"
	"strings"
	"sync"
	"syscall"
	"time"

	"rare/pkg/extractor/batchers"
	"rare/pkg/logger"

	"verifharness/vh"
)

type Content struct {
	Pre  int `json:"pre"`
	W    int `json:"w"`
	N    int `json:"n"`
	Tail int `json:"tail"`
}

type BigIn struct {
	Name []int   `json:"name"`
	G    Content `json:"g"`
	K    string  `json:"k"`
	Mem  []int   `json:"mem"`
	Via  string  `json:"via"`
}

type BigRun struct {
	Ins     []BigIn `json:"ins"`
	Gz      bool    `json:"gz"`
	Readers int     `json:"readers"`
	Batch   int     `json:"batch"`
}

type LRun struct {
	Line int    `json:"line"`
	C    string `json:"c"`
	ID   int    `json:"id"`
	Cnt  int    `json:"cnt"`
}

type SrcRuns struct {
	Name []int  `json:"name"`
	Runs []LRun `json:"runs"`
}

type BigExp struct {
	Srcs    []SrcRuns `json:"srcs"`
	Nerr    int       `json:"nerr"`
	Matched int       `json:"matched"`
	Read    int       `json:"read"`
	Exit    int       `json:"exit"`
	Msg     string    `json:"msg"`
}

type BigVec struct {
	Run  *BigRun `json:"run"`
	Exp  *BigExp `json:"exp"`
	B    int     `json:"B"`
	On   bool    `json:"on"`
	Near bool    `json:"near"`
	// renderer conformance
	Render bool `json:"render"`
	List   []struct {
		G     Content `json:"g"`
		Bytes []int   `json:"bytes"`
	} `json:"list"`
}

type BigObs struct {
	Srcs    []SrcRuns `json:"srcs"`
	Exit    int       `json:"exit"`
	Msg     string    `json:"msg"`
	Nlog    int       `json:"nlog"`
	Nunk    int       `json:"nunk"`
	Matched int       `json:"matched"`
	Read    int       `json:"read"`
	Hang    bool      `json:"hang"`
	Crash   bool      `json:"crash"`
	Stderr  string    `json:"-"`
}

type BigLib struct {
	Ran  bool      `json:"ran"`
	Srcs []SrcRuns `json:"srcs"`
	Nerr int       `json:"nerr"`
	Hang bool      `json:"hang"`
}

// ---------------------------------------------------------------- rendering (InputsBig!BigBytes)

func recText(i, m int) []byte {
	out := bytes.Repeat([]byte{'.'}, m)
	copy(out, strconv.Itoa(i)) // truncated when the field is narrower than the digits, as Pad does
	return out
}

func render(g Content) []byte {
	var b bytes.Buffer
	b.Grow(g.Pre + g.W*g.N + g.Tail)
	if g.Pre > 0 {
		b.Write(bytes.Repeat([]byte{'p'}, g.Pre-1))
		b.WriteByte('\n')
	}
	for i := 0; i < g.N; i++ {
		b.Write(recText(i, g.W-1))
		b.WriteByte('\n')
	}
	b.Write(bytes.Repeat([]byte{'t'}, g.Tail))
	return b.Bytes()
}

// decode: class and record number of a delivered line of an input with content g ("bad": not a line of it)
func decode(g Content, text string) (string, int) {
	if g.W-1 == len(text) && len(text) > 0 && text[0] >= '0' && text[0] <= '9' {
		j := 0
		for j < len(text) && text[j] >= '0' && text[j] <= '9' {
			j++
		}
		if id, err := strconv.Atoi(text[:j]); err == nil && id < g.N && string(recText(id, g.W-1)) == text {
			return "rec", id
		}
	}
	if g.Pre > 1 && text == strings.Repeat("p", g.Pre-1) {
		return "pre", 0
	}
	if g.Tail > 0 && text == strings.Repeat("t", g.Tail) {
		return "tail", 0
	}
	return "bad", 0
}

type drow struct {
	line int
	c    string
	id   int
}

// compress: rows of one source -> run-length form (sorted by line number; a duplicate or garbled line breaks a run)
func compress(rows []drow) []LRun {
	sort.Slice(rows, func(i, j int) bool {
		if rows[i].line != rows[j].line {
			return rows[i].line < rows[j].line
		}
		if rows[i].c != rows[j].c {
			return rows[i].c < rows[j].c
		}
		return rows[i].id < rows[j].id
	})
	out := []LRun{}
	for _, r := range rows {
		if n := len(out); n > 0 {
			l := &out[n-1]
			if r.c == "rec" && l.C == "rec" && l.Line+l.Cnt == r.line && l.ID+l.Cnt == r.id {
				l.Cnt++
				continue
			}
		}
		out = append(out, LRun{Line: r.line, C: r.c, ID: r.id, Cnt: 1})
	}
	if len(out) > 40 { // a broken build can garble thousands of lines: keep the record small
		rest := 0
		for _, r := range out[40:] {
			rest += r.Cnt
		}
		out = append(out[:40], LRun{Line: -1, C: "more", ID: 0, Cnt: rest})
	}
	return out
}

// collect: "name:line:text" rows -> per source runs; every input of the run gets an entry, unknown sources too
func collect(run *BigRun, rows []string) []SrcRuns {
	byName := map[string][]drow{}
	cont := map[string]Content{}
	var order []string
	for _, in := range run.Ins {
		nm := string(vh.FromInts(in.Name))
		if in.Via == "stdin" {
			nm = "<stdin>"
		}
		cont[nm] = in.G
		byName[nm] = nil
		order = append(order, nm)
	}
	for _, row := range rows {
		i := strings.IndexByte(row, ':')
		j := -1
		if i >= 0 {
			j = strings.IndexByte(row[i+1:], ':')
		}
		nm, line, text := "<unparsable>", 0, row
		if i >= 0 && j >= 0 {
			if ln, err := strconv.Atoi(row[i+1 : i+1+j]); err == nil {
				nm, line, text = row[:i], ln, row[i+2+j:]
			}
		}
		g, known := cont[nm]
		if !known {
			if _, seen := byName[nm]; !seen {
				order = append(order, nm)
			}
			byName[nm] = append(byName[nm], drow{line, "bad", 0})
			continue
		}
		c, id := decode(g, text)
		byName[nm] = append(byName[nm], drow{line, c, id})
	}
	out := []SrcRuns{}
	for _, nm := range order {
		out = append(out, SrcRuns{Name: vh.BS(nm), Runs: compress(byName[nm])})
	}
	return out
}

// ---------------------------------------------------------------- materialisation

func bigFileBytes(in *BigIn) []byte {
	data := render(in.G)
	switch in.K {
	case "gz":
		return gzBytes(data)
	case "mgz":
		var out []byte
		at := 0
		for _, m := range in.Mem {
			out = append(out, gzBytes(data[at:at+m])...)
			at += m
		}
		return out
	}
	return data
}

type bigFeed struct {
	path string
	done chan struct{}
}

func feedFifo(path string, data []byte) *bigFeed {
	f := &bigFeed{path: path, done: make(chan struct{})}
	go func() {
		defer close(f.done)
		w, err := os.OpenFile(path, os.O_WRONLY, 0) // until a reader opens the FIFO
		if err != nil {
			return
		}
		w.Write(data)
		w.Close()
	}()
	return f
}

// finish: a writer whose FIFO nobody opened is released by opening the read side here
func (f *bigFeed) finish() {
	select {
	case <-f.done:
		return
	case <-time.After(20 * time.Millisecond):
	}
	r, err := os.OpenFile(f.path, os.O_RDONLY|syscall.O_NONBLOCK, 0)
	if err == nil {
		go io.Copy(io.Discard, r)
	}
	select {
	case <-f.done:
	case <-time.After(10 * time.Second):
	}
	if err == nil {
		r.Close()
	}
}

func bigSetup(root string, run *BigRun) (stdin []byte, feeds []*bigFeed, err error) {
	if err = os.MkdirAll(root, 0o755); err != nil {
		return
	}
	for i := range run.Ins {
		in := &run.Ins[i]
		data := bigFileBytes(in)
		p := filepath.Join(root, string(vh.FromInts(in.Name)))
		switch in.Via {
		case "stdin":
			stdin = data
		case "fifo":
			if err = syscall.Mkfifo(p, 0o644); err != nil {
				return
			}
			feeds = append(feeds, feedFifo(p, data))
		default:
			if err = os.WriteFile(p, data, 0o644); err != nil {
				return
			}
		}
	}
	return
}

func bigArgs(run *BigRun) []string {
	a := []string{"filter", "-m", "^.+$", "-e", "{src}:{line}:{0}", "--readers", strconv.Itoa(run.Readers), "--batch", strconv.Itoa(run.Batch)}
	if run.Gz {
		a = append(a, "-z")
	}
	for _, in := range run.Ins {
		if in.Via == "stdin" {
			a = append(a, "-")
		} else {
			a = append(a, string(vh.FromInts(in.Name)))
		}
	}
	return a
}

func bigCLI(rare, root string, run *BigRun, deadline time.Duration) (BigObs, error) {
	obs := BigObs{Srcs: []SrcRuns{}, Matched: -1, Read: -1, Msg: "none"}
	stdin, feeds, err := bigSetup(root, run)
	defer func() {
		for _, f := range feeds {
			f.finish()
		}
		os.RemoveAll(root)
	}()
	if err != nil {
		return obs, err
	}
	cmd := exec.Command(rare, bigArgs(run)...)
	cmd.Dir = root
	for _, e := range os.Environ() {
		if !strings.HasPrefix(e, "RARE_") {
			cmd.Env = append(cmd.Env, e)
		}
	}
	var so, se bytes.Buffer
	cmd.Stdout, cmd.Stderr = &so, &se
	if stdin != nil {
		cmd.Stdin = bytes.NewReader(stdin)
	}
	if err := cmd.Start(); err != nil {
		return obs, err
	}
	done := make(chan error, 1)
	go func() { done <- cmd.Wait() }()
	select {
	case <-done:
	case <-time.After(deadline):
		cmd.Process.Kill()
		<-done
		obs.Hang, obs.Exit = true, -1
		return obs, nil
	}
	obs.Exit = cmd.ProcessState.ExitCode()
	obs.Stderr = se.String()
	for _, line := range strings.Split(se.String(), "\n") {
		if strings.HasPrefix(line, "panic: ") || strings.HasPrefix(line, "fatal error: ") {
			obs.Crash = true
		}
		switch {
		case strings.HasPrefix(line, "[Log] Error opening file "), strings.HasPrefix(line, "[Log] Error reading "):
			obs.Nlog++
		case line == "[Log] Read errors":
			obs.Msg = "read"
		case line == "[Log] Parse errors":
			obs.Msg = "parse"
		case strings.HasPrefix(line, "[Log] "):
			obs.Nunk++
		}
		if m := summaryRe.FindStringSubmatch(line); m != nil {
			obs.Matched, _ = strconv.Atoi(strings.ReplaceAll(m[1], ",", ""))
			obs.Read, _ = strconv.Atoi(strings.ReplaceAll(m[2], ",", ""))
		}
	}
	out := so.String()
	var rows []string
	if len(out) > 0 {
		rows = strings.Split(strings.TrimSuffix(out, "\n"), "\n")
	}
	obs.Srcs = collect(run, rows)
	return obs, nil
}

// bigLib: the same run through batchers.OpenFilesToChan in this process (regular files and FIFOs)
func bigLib(root, work string, run *BigRun) BigLib {
	for _, in := range run.Ins {
		if in.Via == "stdin" {
			return BigLib{Srcs: []SrcRuns{}}
		}
	}
	libMu.Lock()
	defer libMu.Unlock()
	_, feeds, err := bigSetup(root, run)
	defer func() {
		for _, f := range feeds {
			f.finish()
		}
		os.Chdir(work)
		os.RemoveAll(root)
	}()
	if err != nil || os.Chdir(root) != nil {
		return BigLib{Srcs: []SrcRuns{}}
	}
	names := make(chan string, len(run.Ins))
	for _, in := range run.Ins {
		names <- string(vh.FromInts(in.Name))
	}
	close(names)
	done := make(chan BigLib, 1)
	go func() {
		b := batchers.OpenFilesToChan(names, run.Gz, run.Readers, run.Batch, 2)
		// the lines are looked at only after the input has been read completely: whatever the reader hands out
		// must stay what it was (the pipeline's workers may be arbitrarily late)
		type held struct {
			src  string
			line int
			b    []byte
		}
		var all []held
		for batch := range b.BatchChan() {
			for i, line := range batch.Batch {
				all = append(all, held{batch.Source, int(batch.BatchStart) + i, line})
			}
		}
		rows := make([]string, 0, len(all))
		for _, h := range all {
			if len(h.b) > 0 { // as the command: empty lines are not shown
				rows = append(rows, fmt.Sprintf("%s:%d:%s", h.src, h.line, string(h.b)))
			}
		}
		done <- BigLib{Ran: true, Srcs: collect(run, rows), Nerr: b.ReadErrors()}
	}()
	select {
	case o := <-done:
		return o
	case <-time.After(40 * time.Second):
		return BigLib{Ran: true, Srcs: []SrcRuns{}, Hang: true}
	}
}

// ---------------------------------------------------------------- comparison (B1)

func runsEqual(a, b []SrcRuns) bool {
	key := func(s []SrcRuns) []string {
		var out []string
		for _, x := range s {
			j, _ := json.Marshal(x)
			out = append(out, string(j))
		}
		sort.Strings(out)
		return out
	}
	ka, kb := key(a), key(b)
	if len(ka) != len(kb) {
		return false
	}
	for i := range ka {
		if ka[i] != kb[i] {
			return false
		}
	}
	return true
}

func showRuns(s []SrcRuns) string {
	var sb strings.Builder
	for _, x := range s {
		fmt.Fprintf(&sb, "%s:", string(vh.FromInts(x.Name)))
		for i, r := range x.Runs {
			if i == 6 {
				fmt.Fprintf(&sb, " ...(%d runs)", len(x.Runs))
				break
			}
			fmt.Fprintf(&sb, " [lines %d..%d %s %d..]", r.Line, r.Line+r.Cnt-1, r.C, r.ID)
		}
		sb.WriteString("; ")
	}
	return sb.String()
}

func bigClass(v *BigVec) string {
	var tags []string
	for _, in := range v.Run.Ins {
		tags = append(tags, in.K+"/"+in.Via)
	}
	s := strings.Join(tags, "+")
	if v.Run.Gz {
		s += ",z"
	}
	return s
}

type BigMismatch struct {
	T      int      `json:"t"`
	Kind   string   `json:"kind"`
	Class  string   `json:"class"`
	Detail string   `json:"detail"`
	Argv   []string `json:"argv"`
	Vec    *BigVec  `json:"vector"`
	Obs    *BigObs  `json:"obs"`
	Lib    *BigLib  `json:"lib"`
	Stderr string   `json:"stderr"`
}

func c06Big(args []string) error {
	fs := flag.NewFlagSet("big", flag.ExitOnError)
	in := fs.String("in", "", "vectors (ndjson from InputsBig_Gen)")
	out := fs.String("out", "", "result json")
	trace := fs.String("trace", "", "ndjson records for InputsBig_Trace")
	rareBin := fs.String("rare", "", "the rare binary")
	work := fs.String("work", "", "scratch directory")
	par := fs.Int("par", 4, "parallel runs")
	fs.Parse(args)
	logger.DeferLogs()
	rare, err := loadBinary(*rareBin)
	if err != nil {
		return err
	}
	wd, err := workDir(*work)
	if err != nil {
		return err
	}
	*out, _ = filepath.Abs(*out)
	*trace, _ = filepath.Abs(*trace)
	*in, _ = filepath.Abs(*in)
	var vecs []*BigVec
	rendered, renderBad := 0, []string{}
	err = vh.ReadNd(*in, func(raw json.RawMessage) error {
		v := &BigVec{}
		if err := json.Unmarshal(raw, v); err != nil {
			return err
		}
		if v.Render {
			if rendered > 0 {
				return nil
			}
			for _, x := range v.List {
				rendered++
				if !bytes.Equal(render(x.G), vh.FromInts(x.Bytes)) {
					renderBad = append(renderBad, fmt.Sprintf("%+v", x.G))
				}
			}
			return nil
		}
		if v.Run == nil || v.Exp == nil {
			return fmt.Errorf("vector without run / expectation")
		}
		vecs = append(vecs, v)
		return nil
	})
	if err != nil {
		return err
	}
	if rendered == 0 || len(renderBad) > 0 {
		return fmt.Errorf("the driver's renderer disagrees with InputsBig!BigBytes on %d of %d descriptors: %v", len(renderBad), rendered, renderBad)
	}
	sort.SliceStable(vecs, func(i, j int) bool {
		a, _ := json.Marshal(vecs[i])
		b, _ := json.Marshal(vecs[j])
		return bytes.Compare(a, b) < 0
	})
	type res struct {
		obs BigObs
		lib BigLib
		err error
	}
	results := make([]res, len(vecs))
	var wg sync.WaitGroup
	idx := make(chan int, 16)
	var hmu sync.Mutex
	nhang := 0
	for w := 0; w < *par; w++ {
		wg.Add(1)
		go func() {
			defer wg.Done()
			for i := range idx {
				hmu.Lock()
				h := nhang
				hmu.Unlock()
				root := filepath.Join(wd, fmt.Sprintf("b%05d", i))
				deadline := 30 * time.Second
				if h >= 3 {
					deadline = 8 * time.Second
				}
				obs, err := bigCLI(rare, root, vecs[i].Run, deadline)
				if err == nil && obs.Hang && h == 0 {
					obs, err = bigCLI(rare, root, vecs[i].Run, 90*time.Second) // a loaded machine must not look like a hang
				}
				if obs.Hang {
					hmu.Lock()
					nhang++
					hmu.Unlock()
				}
				results[i].obs, results[i].err = obs, err
				if h < 3 {
					results[i].lib = bigLib(root+"l", wd, vecs[i].Run)
				} else {
					results[i].lib = BigLib{Srcs: []SrcRuns{}}
				}
			}
		}()
	}
	for i := range vecs {
		idx <- i
	}
	close(idx)
	wg.Wait()
	tw, err := vh.NewNdWriter(*trace)
	if err != nil {
		return err
	}
	defer tw.Close()
	mm := []BigMismatch{}
	on, near, bytesRead := 0, 0, 0
	for i, v := range vecs {
		r := &results[i]
		if r.err != nil {
			return fmt.Errorf("run %d: %v", i, r.err)
		}
		if v.On {
			on++
		}
		if v.Near {
			near++
		}
		for _, x := range v.Run.Ins {
			bytesRead += x.G.Pre + x.G.W*x.G.N + x.G.Tail
		}
		for j := range v.Run.Ins {
			if v.Run.Ins[j].Mem == nil {
				v.Run.Ins[j].Mem = []int{}
			}
		}
		tw.Write(vh.M{"event": "bigrun", "t": i + 1, "ins": v.Run.Ins, "gz": v.Run.Gz, "readers": v.Run.Readers,
			"batch": v.Run.Batch, "obs": &r.obs, "lib": &r.lib})
		add := func(kind, detail string) {
			mm = append(mm, BigMismatch{T: i + 1, Kind: kind, Class: bigClass(v), Detail: detail, Argv: bigArgs(v.Run), Vec: v,
				Obs: &r.obs, Lib: &r.lib, Stderr: r.obs.Stderr})
		}
		e := v.Exp
		switch {
		case r.obs.Hang:
			add("hang", "the run did not terminate")
		case r.obs.Crash:
			add("crash", "the process was aborted by the Go runtime")
		default:
			if !runsEqual(e.Srcs, r.obs.Srcs) {
				add("rows", fmt.Sprintf("lines delivered (window %d): spec %s got %s", v.B, showRuns(e.Srcs), showRuns(r.obs.Srcs)))
			}
			if r.obs.Exit != e.Exit || r.obs.Msg != e.Msg {
				add("exit", fmt.Sprintf("exit status / final message: spec %d %q, got %d %q", e.Exit, e.Msg, r.obs.Exit, r.obs.Msg))
			}
			if r.obs.Nlog != e.Nerr {
				add("nlog", fmt.Sprintf("reported read errors: spec %d, got %d", e.Nerr, r.obs.Nlog))
			}
			if r.obs.Matched != e.Matched || r.obs.Read != e.Read {
				add("summary", fmt.Sprintf("summary: spec matched %d / read %d, got %d / %d", e.Matched, e.Read, r.obs.Matched, r.obs.Read))
			}
		}
		if r.lib.Ran {
			if r.lib.Hang {
				add("lib-hang", "OpenFilesToChan did not close its channel within 40 s")
			} else {
				if !runsEqual(e.Srcs, r.lib.Srcs) {
					add("lib-rows", fmt.Sprintf("OpenFilesToChan, lines read after the end of the input (window %d): spec %s got %s", v.B, showRuns(e.Srcs), showRuns(r.lib.Srcs)))
				}
				if r.lib.Nerr != e.Nerr {
					add("lib-nerr", fmt.Sprintf("Batcher.ReadErrors(): spec %d, got %d", e.Nerr, r.lib.Nerr))
				}
			}
		}
	}
	vh.WriteJSON(*out, vh.M{"runs": len(vecs), "rendered": rendered, "on_boundary": on, "near_boundary": near,
		"bytes": bytesRead, "mismatches": mm})
	return nil
}

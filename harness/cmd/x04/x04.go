// Command x04 is the conformance driver of Sift4.tla / FuzzyTable.tla (pkg/fuzzy, beyond the listed properties).
//
//	x04 sift -in vectors.ndjson -out result.json          (B1: TLC-computed distances against sift4.Distance / DistanceStringRatio)
//	x04 random -n K -trace trace.ndjson -out result.json   (B2: seeded histories of real FuzzyTables for FuzzyTable_Trace)
package main

import (
	"encoding/json"
	"flag"
	"fmt"
	"math"

	"rare/pkg/fuzzy"
	"rare/pkg/fuzzy/sift4"
	"verifharness/vh"
)

func main() {
	vh.Main(vh.Commands{"sift": sift, "random": random})
}

type siftVec struct {
	A  []int `json:"a"`
	B  []int `json:"b"`
	Mo int   `json:"mo"`
	D  int   `json:"d"`
	R  []int `json:"r"`
}

func sift(args []string) error {
	fs := flag.NewFlagSet("sift", flag.ExitOnError)
	in := fs.String("in", "", "vectors")
	out := fs.String("out", "", "result")
	fs.Parse(args)
	var mm []vh.M
	n := 0
	err := vh.ReadNd(*in, func(raw json.RawMessage) error {
		var v siftVec
		if e := json.Unmarshal(raw, &v); e != nil {
			return e
		}
		n++
		a, b := vh.RunesFromInts(v.A), vh.RunesFromInts(v.B)
		var got int
		var ratio float32
		func() {
			defer func() {
				if r := recover(); r != nil {
					got = -1
					ratio = -1
					mm = append(mm, vh.M{"why": "panic", "a": a, "b": b, "mo": v.Mo, "panic": fmt.Sprint(r)})
				}
			}()
			got = sift4.DistanceString(a, b, v.Mo)
			ratio = sift4.DistanceStringRatio(a, b, v.Mo)
		}()
		if got == -1 {
			return nil
		}
		if got != v.D {
			mm = append(mm, vh.M{"why": "distance", "a": a, "b": b, "mo": v.Mo, "got": got, "want": v.D})
		}
		want := float64(v.R[0]) / float64(v.R[1])
		if math.Abs(float64(ratio)-want) > 1e-5 {
			mm = append(mm, vh.M{"why": "ratio", "a": a, "b": b, "mo": v.Mo, "got": ratio, "want": want})
		}
		return nil
	})
	if err != nil {
		return err
	}
	vh.WriteJSON(*out, vh.M{"vectors": n, "mismatches": mm})
	return nil
}

type op struct {
	V     int  `json:"v"`
	M     int  `json:"m"`
	New   bool `json:"new"`
	Count int  `json:"count"`
}

type record struct {
	T    int     `json:"t"`
	Vals [][]int `json:"vals"`
	P    int     `json:"p"`
	Q    int     `json:"q"`
	Mo   int     `json:"mo"`
	Size int     `json:"size"`
	H    []op    `json:"h"`
}

func random(args []string) error {
	fs := flag.NewFlagSet("random", flag.ExitOnError)
	n := fs.Int("n", 100, "histories")
	out := fs.String("out", "", "result")
	trace := fs.String("trace", "", "trace")
	fs.Parse(args)
	tw, err := vh.NewNdWriter(*trace)
	if err != nil {
		return err
	}
	defer tw.Close()
	rnd := vh.NewRand(404)
	alphabets := []string{"ab", "abc", "abxyz", "aé"}
	calls := 0
	var crashes []vh.M
	for t := 1; t <= *n; t++ {
		// pool: a few base words and mutations of them (so that similar, non-transitively similar and alien keys meet)
		al := []rune(alphabets[rnd.Intn(len(alphabets))])
		word := func(ln int) []rune {
			w := make([]rune, ln)
			for i := range w {
				w[i] = al[rnd.Intn(len(al))]
			}
			return w
		}
		var pool []string
		seen := map[string]bool{}
		add := func(w []rune) {
			if s := string(w); !seen[s] {
				seen[s] = true
				pool = append(pool, s)
			}
		}
		for b := 1 + rnd.Intn(4); b > 0; b-- {
			base := word(rnd.Intn(7))
			add(base)
			for m := rnd.Intn(5); m > 0; m-- {
				w := append([]rune{}, base...)
				switch {
				case len(w) > 0 && rnd.Intn(3) == 0:
					w[rnd.Intn(len(w))] = al[rnd.Intn(len(al))]
				case len(w) > 0 && rnd.Intn(2) == 0:
					i := rnd.Intn(len(w))
					w = append(w[:i], w[i+1:]...)
				default:
					i := rnd.Intn(len(w) + 1)
					w = append(w[:i], append([]rune{al[rnd.Intn(len(al))]}, w[i:]...)...)
				}
				add(w)
			}
		}
		// thresholds p/20 with p odd-ish: no ratio of two keys shorter than 20 runes equals them
		p := []int{9, 11, 13, 17}[rnd.Intn(4)]
		mo := []int{0, 1, 2, 5, 10}[rnd.Intn(5)]
		size := []int{0, 1, 2, 3, 5, 100}[rnd.Intn(6)]
		rec := record{T: t, P: p, Q: 20, Mo: mo, Size: size, H: []op{}}
		for _, s := range pool {
			rec.Vals = append(rec.Vals, vh.R(s))
		}
		idx := map[string]int{}
		for i, s := range pool {
			idx[s] = i + 1
		}
		tbl := fuzzy.NewFuzzyTable(float32(p)/20, mo, size)
		nops := 5 + rnd.Intn(55)
		func() {
			defer func() {
				if r := recover(); r != nil {
					crashes = append(crashes, vh.M{"t": t, "panic": fmt.Sprint(r), "pool": pool, "size": size, "mo": mo})
				}
			}()
			last := 0
			for i := 0; i < nops; i++ {
				v := rnd.Intn(len(pool))
				if last > 0 && rnd.Intn(4) == 0 {
					v = last - 1 // ask again at once
				}
				last = v + 1
				m, isNew := tbl.GetMatchId(pool[v])
				rec.H = append(rec.H, op{V: v + 1, M: idx[m], New: isNew, Count: tbl.Count()})
				calls++
			}
		}()
		tw.Write(rec)
	}
	vh.WriteJSON(*out, vh.M{"histories": *n, "calls": calls, "crashes": crashes})
	return nil
}

package main

// PipelineRead.tla bindings: Read results that carry data AND an error.
//
//   c01 readreplay  B1: every source script of PipelineRead_Gen.tla (Read results [d, e]) is played to the
//                   real batcher as an io.Reader returning exactly these (n, err) pairs, on the stdin path
//                   (OpenReaderToChan and the hook with a short flush timer), for several batch sizes; the
//                   lines, totals and error count must be the specification's
//   genReadErr      scenario family "readerr" for `c01 trace` / `c01 cli`: streams whose last Read returns
//                   data together with an error (in the middle of a line, at a line end, right after a full
//                   batch; io.ErrUnexpectedEOF, an ordinary error, io.EOF with data) and truncated / damaged
//                   gzip files read with -z (compress/gzip hands out the last decoded window together with
//                   io.ErrUnexpectedEOF / a checksum error); the true lines are those of the bytes the
//                   source delivers (for gzip: what an independent gzip.Reader delivers)

import (
	"bytes"
	"compress/gzip"
	"encoding/json"
	"errors"
	"flag"
	"fmt"
	"io"
	"math/rand"
	"os"
	"path/filepath"
	"sync"
	"time"

	"verifharness/pipe"
	"verifharness/vh"
)

type rchunk struct {
	d       []byte
	err     error
	delayMs int
}

// failReader returns its script Read by Read: the data of a chunk and, in the same call, its error.
type failReader struct {
	mu     sync.Mutex
	chunks []rchunk
	i      int
	off    int
	closed bool
}

func (r *failReader) Read(p []byte) (int, error) {
	r.mu.Lock()
	defer r.mu.Unlock()
	if r.i >= len(r.chunks) {
		return 0, io.EOF
	}
	c := &r.chunks[r.i]
	if r.off == 0 && c.delayMs > 0 {
		time.Sleep(time.Duration(c.delayMs) * time.Millisecond)
	}
	n := copy(p, c.d[r.off:])
	r.off += n
	if r.off < len(c.d) { // the caller's buffer was too small: the rest (and the error) come with the next Read
		return n, nil
	}
	r.i++
	r.off = 0
	return n, c.err
}

func (r *failReader) Close() error {
	r.mu.Lock()
	r.closed = true
	r.mu.Unlock()
	return nil
}

var errHard = errors.New("verif: input/output error")

// ------------------------------------------------------------------ B1

type rvector struct {
	Script []struct {
		D []int  `json:"d"`
		E string `json:"e"`
	} `json:"script"`
	Lines [][]int `json:"lines"`
	Hard  int     `json:"hard"`
	Tail  int     `json:"tail"`
}

func cmdReadReplay(args []string) error {
	fs := flag.NewFlagSet("readreplay", flag.ExitOnError)
	in := fs.String("in", "", "vectors (ndjson)")
	outp := fs.String("out", "readreplay.json", "")
	par := fs.Int("par", 4, "")
	fs.Parse(args)
	type mismatch struct {
		Kind   string      `json:"kind"`
		Mode   string      `json:"mode"`
		Batch  int         `json:"batch"`
		Vector rvector     `json:"vector"`
		Got    interface{} `json:"got"`
		Want   interface{} `json:"want"`
	}
	res := struct {
		Vectors    int           `json:"vectors"`
		Runs       int           `json:"runs"`
		WithData   int           `json:"scripts_error_with_data"`
		HardData   int           `json:"scripts_hard_error_with_data"`
		Mismatches []mismatch    `json:"mismatches"`
		Samples    []interface{} `json:"samples"`
	}{Mismatches: []mismatch{}}
	var vecs []rvector
	err := vh.ReadNd(*in, func(raw json.RawMessage) error {
		var v rvector
		if err := json.Unmarshal(raw, &v); err != nil {
			return err
		}
		vecs = append(vecs, v)
		return nil
	})
	if err != nil {
		return err
	}
	null, err := pipe.NewEventLog(os.DevNull)
	if err != nil {
		return err
	}
	var mu sync.Mutex
	var firstErr error
	b := func(x []int) []byte {
		out := make([]byte, len(x))
		for i, c := range x {
			out[i] = byte(c)
		}
		return out
	}
	one := func(id int, v rvector, mode string, batch int) error {
		var out *pipe.Outcome
		for attempt := 0; attempt < 2; attempt++ {
			fr := &failReader{}
			var raw []byte
			for _, c := range v.Script {
				ch := rchunk{d: b(c.D)}
				switch c.E {
				case "eof":
					ch.err = io.EOF
				case "err":
					ch.err = []error{io.ErrUnexpectedEOF, errHard}[id%2]
				}
				raw = append(raw, ch.d...)
				fr.chunks = append(fr.chunks, ch)
			}
			src := pipe.Source{Name: "<stdin>", Raw: raw, Reader: fr}
			for _, l := range v.Lines {
				src.Lines = append(src.Lines, b(l))
			}
			s := &pipe.Scenario{ID: id, Batch: batch, Workers: 1 + id%2, Readers: 1, Buffer: 1 + id%3,
				Matcher: pipe.MatcherSpec{Kind: "always"}, Extract: `{line}:{0}`, Log: "sum", Mode: mode, FlushMs: 2,
				Deadline: 60 * time.Second, Sources: []pipe.Source{src}}
			var err error
			out, err = pipe.Run(s, null)
			if err != nil {
				return err
			}
			if !out.Hung {
				break
			}
		}
		mu.Lock()
		defer mu.Unlock()
		res.Runs++
		add := func(kind string, got, w interface{}) {
			res.Mismatches = append(res.Mismatches, mismatch{kind, mode, batch, v, got, w})
		}
		if out.Hung {
			add("hang", "no termination within the deadline (twice)", "terminates")
			return nil
		}
		want := map[string]int{}
		for i, l := range v.Lines {
			want[fmt.Sprintf("%d:%s", i+1, b(l))]++
		}
		n := len(v.Lines)
		if int(out.Read) != n || int(out.Matched) != n || out.Ignored != 0 {
			add("totals", fmt.Sprintf("Matched: %d / %d (Ignored: %d)", out.Matched, out.Read, out.Ignored),
				fmt.Sprintf("Matched: %d / %d (Ignored: 0)", n, n))
		}
		if !sameBag(out.Keys, want) {
			add("keys", bagList(out.Keys), bagList(want))
		}
		if out.Errors != v.Hard {
			add("errors", out.Errors, v.Hard)
		}
		if len(res.Samples) < 2 && v.Hard == 1 && v.Tail > 0 && len(v.Lines) > 1 {
			res.Samples = append(res.Samples, vh.M{"script": v.Script, "spec_lines": v.Lines, "mode": mode, "batch": batch,
				"real": vh.M{"read": out.Read, "keys": bagList(out.Keys), "errors": out.Errors}})
		}
		return nil
	}
	type job struct {
		vi    int
		mode  string
		batch int
	}
	var jobs []job
	for vi, v := range vecs {
		res.Vectors++
		if v.Tail > 0 {
			res.WithData++
			if v.Hard == 1 {
				res.HardData++
			}
		}
		jobs = append(jobs, job{vi, "reader", []int{1, 2, 3, 1000}[vi%4]}, job{vi, "hook", []int{2, 1, 1000, 3}[vi%4]})
	}
	sem := make(chan struct{}, *par)
	var wg sync.WaitGroup
	for _, j := range jobs {
		wg.Add(1)
		sem <- struct{}{}
		go func(j job) {
			defer func() { <-sem; wg.Done() }()
			if err := one(j.vi+1, vecs[j.vi], j.mode, j.batch); err != nil {
				mu.Lock()
				if firstErr == nil {
					firstErr = err
				}
				mu.Unlock()
			}
		}(j)
	}
	wg.Wait()
	if firstErr != nil {
		return firstErr
	}
	vh.WriteJSON(*outp, res)
	return nil
}

// ------------------------------------------------------------------ scenario family "readerr"

// gunzipPrefix returns every byte an independent gzip.Reader delivers for (possibly truncated or damaged)
// data, the bytes returned together with the error included, and that error (nil = clean end).
func gunzipPrefix(data []byte) ([]byte, error) {
	zr, err := gzip.NewReader(bytes.NewReader(data))
	if err != nil {
		return nil, err
	}
	var out []byte
	buf := make([]byte, 1777)
	for {
		n, err := zr.Read(buf)
		out = append(out, buf[:n]...)
		if err == io.EOF {
			return out, nil
		}
		if err != nil {
			return out, err
		}
	}
}

func splitLines(raw []byte) [][]byte {
	var out [][]byte
	for len(raw) > 0 {
		i := bytes.IndexByte(raw, '\n')
		if i < 0 {
			out = append(out, raw)
			break
		}
		l := raw[:i]
		if len(l) > 0 && l[len(l)-1] == '\r' {
			l = l[:len(l)-1]
		}
		out = append(out, l)
		raw = raw[i+1:]
	}
	return out
}

// genReadErr: variant%2 == 0 -> a stream whose last Read carries data and an error;
// variant%2 == 1 -> 1-3 files read with -z, one or two of them truncated / damaged gzip streams.
func genReadErr(seed int64, id int, dir string, variant int, cli bool) (*pipe.Scenario, error) {
	rng := rand.New(rand.NewSource(seed*1000003 + int64(id)*7919 + 61))
	s := &pipe.Scenario{ID: id, Family: "readerr", Mode: "files"}
	p := pickProfile(rng, s)
	binaryOK := p.m.Kind != "dissect"
	if variant%2 == 0 && !cli {
		s.Mode = []string{"reader", "hook"}[rng.Intn(2)]
		s.FlushMs = 2 + rng.Intn(3)
		s.Batch = pick(rng, []int{1, 2, 3, 5, 1000})
		n := 3 + rng.Intn(30)
		lines := make([][]byte, n)
		for i := range lines {
			lines[i] = randLine(rng, binaryOK)
		}
		if len(lines[n-1]) == 0 {
			lines[n-1] = []byte("GET 7")
		}
		raw := pipe.BuildRaw(rng, lines, pipe.ContentOpts{})
		shape := (variant / 2) % 4
		if shape == 0 { // the error arrives in the middle of the last line (no terminator follows)
			raw = raw[:len(raw)-1]
		}
		// where the last Read begins
		var cut int
		switch shape {
		case 0, 1: // anywhere (shape 1: the stream ends at a line end)
			cut = rng.Intn(len(raw))
		case 2: // the failing Read delivers whole lines only, beginning right after a full batch
			k := (n - 1) / s.Batch * s.Batch
			if k >= n {
				k = n - 1
			}
			if k == 0 {
				k = 1
			}
			cut = len(pipe.BuildRaw(rng, lines[:k], pipe.ContentOpts{}))
		default: // everything arrives with the error
			cut = 0
		}
		e := []error{io.ErrUnexpectedEOF, errHard, io.EOF}[rng.Intn(3)]
		fr := &failReader{}
		if cut > 0 {
			k := 1 + rng.Intn(3)
			prev := 0
			for i := 1; i <= k; i++ {
				end := cut * i / k
				if end > prev {
					fr.chunks = append(fr.chunks, rchunk{d: raw[prev:end], delayMs: rng.Intn(2) * rng.Intn(4)})
					prev = end
				}
			}
		}
		fr.chunks = append(fr.chunks, rchunk{d: raw[cut:], err: e})
		s.Sources = []pipe.Source{{Name: "<stdin>", Lines: lines, Raw: raw, Reader: fr}}
		return s, nil
	}
	// ---- truncated / damaged gzip files under -z
	s.Gunzip = true
	nfiles := 1 + rng.Intn(3)
	bad := rng.Intn(nfiles)
	total := 0
	for f := 0; f < nfiles; f++ {
		n := 20 + rng.Intn(400)
		if f == bad && rng.Intn(3) == 0 {
			n = 3000 + rng.Intn(3000) // more than one 32 KiB window
		}
		pool := make([][]byte, 40)
		for i := range pool {
			pool[i] = randLine(rng, binaryOK)
		}
		lines := make([][]byte, n)
		for i := range lines {
			if n > 1000 {
				lines[i] = pool[rng.Intn(len(pool))]
			} else {
				lines[i] = randLine(rng, binaryOK)
			}
		}
		raw := pipe.BuildRaw(rng, lines, pipe.ContentOpts{NoFinalNL: rng.Intn(3) == 0})
		src := pipe.Source{Name: filepath.Join(dir, fmt.Sprintf("s%d-e%d.log.gz", id, f)), Lines: lines, Raw: raw}
		if f == bad || rng.Intn(4) == 0 {
			full := pipe.Source{Raw: raw, Gz: true}
			disk, err := full.DiskBytes()
			if err != nil {
				return nil, err
			}
			if len(disk) > 40 {
				if rng.Intn(4) == 0 { // damaged: one byte of the deflate stream / the trailer flipped
					at := 20 + rng.Intn(len(disk)-20)
					disk = append([]byte(nil), disk...)
					disk[at] ^= byte(1 + rng.Intn(255))
				} else { // truncated: a file still being written, a partial copy
					disk = disk[:20+rng.Intn(len(disk)-20)]
				}
			}
			got, _ := gunzipPrefix(disk)
			src.Raw, src.Lines = got, splitLines(got)
			src.Gz = true
			if err := os.WriteFile(src.Name, disk, 0o600); err != nil {
				return nil, err
			}
		} else if rng.Intn(2) == 0 {
			src.Gz = true
			if err := src.WriteFile(); err != nil {
				return nil, err
			}
		} else {
			src.Name = filepath.Join(dir, fmt.Sprintf("s%d-e%d.log", id, f))
			if err := src.WriteFile(); err != nil {
				return nil, err
			}
		}
		total += len(src.Lines)
		s.Sources = append(s.Sources, src)
	}
	if total > 1200 {
		s.Log = "sum"
	}
	return s, nil
}

package main

// C01 - every input line is read exactly once and classified exactly once.
//   c01 trace  : seeded random scenarios on the real pipeline (files, FIFOs, scripted stdin readers,
//                timer flush), events written for Pipeline_Trace.tla (B2); two further corpus families:
//                "geometry" (PipelineBuf.tla: fixed-width lines dividing the 128 KiB read buffer, sizes
//                k x 128 KiB +- a few lines, workers that start late, so that a buffer fill ends exactly
//                on a line boundary while the pipeline still holds lines of that buffer) and "gunzip"
//                (PipelineIO.tla: plain and gzip files mixed under -z, plain sizes below / at / above the
//                4096-byte window gzip.NewReader consumes before it falls back)
//   c01 cli    : the real `rare filter` binary on generated corpora; summary line and stdout keys
//                written as `sum` records (B2)
//   c01 replay : TLC-generated behaviours of Pipeline.tla (feed order, timer ticks, consumer pace)
//                imposed on the real pipeline; the end state must equal the model's (B1)

import (
	"bytes"
	"encoding/json"
	"flag"
	"fmt"
	"math/rand"
	"os"
	"os/exec"
	"path/filepath"
	"regexp"
	"sort"
	"strconv"
	"strings"
	"sync"
	"time"

	"verifharness/pipe"
	"verifharness/vh"
)

func main() {
	vh.Main(vh.Commands{"trace": cmdTrace, "cli": cmdCLI, "replay": cmdReplay, "keyreplay": cmdKeyReplay, "readreplay": cmdReadReplay})
}

// ------------------------------------------------------------------ scenario generation

type profile struct {
	m       pipe.MatcherSpec
	extract []string
	ignore  []string
}

var profiles = []profile{
	{pipe.MatcherSpec{Kind: "regex", Expr: `(\w+) (\d+)`},
		[]string{`{1}`, `{2}`, `{1}:{2}`, `{bucket {2} 10}`, `{if {eq {1} GET} {2}}`, `{3}`},
		[]string{`{eq {1} skip}`, `{gt {2} 50}`, "\t{eq {2} 7} ", `{like {1} x}`}},
	{pipe.MatcherSpec{Kind: "always"},
		[]string{`{0}`, `{0}`, `{len {0}}`, `{if {like {0} 1} {0}}`},
		[]string{`{eq {0} "skip 7"}`, `{like {0} GET}`, " \t", `{eq {0} "#c"}`}},
	{pipe.MatcherSpec{Kind: "dissect", Expr: `%{a} %{b}`},
		[]string{`{a}`, `{b}`, `{a}-{b}`, `{if {eq {a} GET} {b}}`},
		[]string{`{eq {a} skip}`, `{gt {b} 50}`, `{eq {b} 7}`}},
	{pipe.MatcherSpec{Kind: "regex", Expr: `^(?P<word>[a-z]*) ?(?P<n>\d*)$`, IgnoreCase: true},
		[]string{`{word}`, `{n}`, `{word}{n}`},
		[]string{`{eq {word} skip}`, `{lt {n} 10}`}},
}

var words = []string{"GET", "POST", "skip", "x9", "ip", "a", "err", "GETx"}

func randLine(rng *rand.Rand, binaryOK bool) []byte {
	switch r := rng.Intn(100); {
	case r < 10:
		return []byte{}
	case r < 45:
		return []byte(fmt.Sprintf("%s %d", words[rng.Intn(len(words))], rng.Intn(120)))
	case r < 52:
		return []byte("skip 7")
	case r < 58:
		return []byte(words[rng.Intn(len(words))])
	case r < 62:
		return []byte("  ")
	case r < 66:
		return []byte("#c")
	case r < 70:
		return []byte(fmt.Sprintf("%d", rng.Intn(100)))
	case r < 74:
		return []byte("a\rb 5") // CR inside a line is content
	case r < 78:
		return []byte("\tGET 7 trailing")
	case r < 84 && binaryOK:
		n := 1 + rng.Intn(20)
		b := make([]byte, n)
		for i := range b {
			b[i] = byte(128 + rng.Intn(128))
		}
		return b
	default:
		return []byte(fmt.Sprintf("%s %d %s", words[rng.Intn(len(words))], rng.Intn(1000), words[rng.Intn(len(words))]))
	}
}

func bigLine(rng *rand.Rand) []byte {
	n := 128*1024 + rng.Intn(200*1024)
	if rng.Intn(3) == 0 {
		n = 128*1024 - 2 + rng.Intn(5) // right at the buffer boundary
	}
	b := bytes.Repeat([]byte{'a' + byte(rng.Intn(3))}, n)
	return append(b, []byte(fmt.Sprintf(" %d", rng.Intn(100)))...)
}

func pick(rng *rand.Rand, xs []int) int { return xs[rng.Intn(len(xs))] }

type genOpts struct {
	big      bool
	mode     string // "" = random among files/hook
	maxLines int
	huge     int // > 0: exactly this many lines per file drawn from a pool of 25 contents, summary logging, 8 workers
}

// genScenario builds scenario id of the seeded family; files are created under dir.
func genScenario(seed int64, id int, dir string, o genOpts) (*pipe.Scenario, error) {
	rng := rand.New(rand.NewSource(seed*1000003 + int64(id)*7919))
	p := profiles[rng.Intn(len(profiles))]
	s := &pipe.Scenario{ID: id, Matcher: p.m, Extract: p.extract[rng.Intn(len(p.extract))]}
	for _, e := range p.ignore {
		if rng.Intn(3) == 0 {
			s.Ignore = append(s.Ignore, e)
		}
	}
	if rng.Intn(2) == 0 { // order of the ignore expressions varies
		for i, j := 0, len(s.Ignore)-1; i < j; i, j = i+1, j-1 {
			s.Ignore[i], s.Ignore[j] = s.Ignore[j], s.Ignore[i]
		}
	}
	s.Batch = pick(rng, []int{1, 1, 2, 2, 3, 5, 17, 1000})
	s.Workers = pick(rng, []int{1, 2, 2, 3, 8})
	s.Readers = pick(rng, []int{1, 2, 3, 5})
	s.Buffer = pick(rng, []int{1, 1, 2, 1000})
	s.Mode = o.mode
	if s.Mode == "" {
		s.Mode = []string{"files", "files", "hook"}[rng.Intn(3)]
	}
	if rng.Intn(4) == 0 {
		s.ConsumerDelay = time.Duration(200+rng.Intn(1500)) * time.Microsecond
	}
	nfiles := 1
	if s.Mode == "files" {
		nfiles = 1 + rng.Intn(5)
	}
	var pool [][]byte
	if o.huge > 0 {
		s.Mode, s.Log, s.Workers, s.ConsumerDelay = "files", "sum", 8, 0
		s.Batch = pick(rng, []int{1, 3, 100})
		nfiles = 1 + rng.Intn(3)
		for i := 0; i < 25; i++ {
			pool = append(pool, randLine(rng, p.m.Kind != "dissect"))
		}
	}
	maxLines := o.maxLines
	if maxLines == 0 {
		maxLines = 40
	}
	// binary content is excluded for case-insensitive / dissect matchers only to keep ignore values ASCII
	binaryOK := p.m.Kind != "dissect"
	for f := 0; f < nfiles; f++ {
		n := rng.Intn(maxLines + 1)
		if rng.Intn(8) == 0 {
			n = 0
		}
		if o.huge > 0 {
			n = o.huge
		}
		lines := make([][]byte, n)
		for i := range lines {
			if pool != nil {
				lines[i] = pool[rng.Intn(len(pool))]
			} else {
				lines[i] = randLine(rng, binaryOK)
			}
		}
		if o.big && n > 0 {
			for k := 0; k < 1+rng.Intn(2); k++ {
				lines[rng.Intn(n)] = bigLine(rng)
			}
		}
		co := pipe.ContentOpts{NoFinalNL: rng.Intn(3) == 0}
		if rng.Intn(3) == 0 {
			co.CRLF = []float64{0.3, 1}[rng.Intn(2)]
		}
		src := pipe.Source{Lines: lines}
		src.Raw = pipe.BuildRaw(rng, lines, co)
		// a trailing empty line without terminator does not exist: drop it from the truth
		if co.NoFinalNL && n > 0 && len(lines[n-1]) == 0 {
			// BuildRaw terminated it (empty last line is always terminated)
		}
		switch s.Mode {
		case "files":
			src.Name = filepath.Join(dir, fmt.Sprintf("s%d-f%d.log", id, f))
			if rng.Intn(2) == 0 && o.huge == 0 {
				src.FIFO = true
				co.MaxChunks, co.MaxDelayMs, co.DelayFraction = 1+rng.Intn(8), 3, 0.3
				src.Chunks = pipe.RandomChunks(rng, len(src.Raw), co)
				if err := pipe.MakeFIFO(src.Name); err != nil {
					return nil, err
				}
			} else if err := os.WriteFile(src.Name, src.Raw, 0o600); err != nil {
				return nil, err
			}
		case "hook":
			src.Name = "<stdin>"
			s.FlushMs = 2 + rng.Intn(3)
			co.MaxChunks, co.MaxDelayMs, co.DelayFraction = 1+rng.Intn(12), 12, 0.5
			src.Chunks = pipe.RandomChunks(rng, len(src.Raw), co)
		case "reader":
			src.Name = "<stdin>"
			// real 250 ms timer: one or two long pauses in the middle of the stream
			co.MaxChunks, co.MaxDelayMs, co.DelayFraction = 3, 0, 0
			src.Chunks = pipe.RandomChunks(rng, len(src.Raw), co)
			for i := range src.Chunks {
				if i > 0 {
					src.Chunks[i].DelayMs = 300
				}
			}
		}
		s.Sources = append(s.Sources, src)
	}
	return s, nil
}

// ------------------------------------------------------------------ corpus family "geometry" (PipelineBuf.tla)

const readBuf = 128 * 1024 // batchers.ReadAheadBufferSize
const gzProbe = 4096       // what gzip.NewReader's bufio pulls out of a file before the header check fails

// fixedWidth pads (with spaces) or truncates content to exactly n bytes; the result never ends in CR.
func fixedWidth(l []byte, n int) []byte {
	out := make([]byte, n)
	for i := range out {
		out[i] = ' '
	}
	copy(out, l)
	if n > 0 && out[n-1] == '\r' {
		out[n-1] = '.'
	}
	return out
}

// pickProfile draws matcher / extract / ignore expressions and the pipeline parameters as genScenario does.
func pickProfile(rng *rand.Rand, s *pipe.Scenario) profile {
	p := profiles[rng.Intn(len(profiles))]
	s.Matcher, s.Extract = p.m, p.extract[rng.Intn(len(p.extract))]
	for _, e := range p.ignore {
		if rng.Intn(3) == 0 {
			s.Ignore = append(s.Ignore, e)
		}
	}
	s.Batch = pick(rng, []int{1, 1, 2, 2, 3, 5, 17, 1000})
	s.Workers = pick(rng, []int{1, 2, 2, 3, 8})
	s.Readers = pick(rng, []int{1, 2, 3, 5})
	s.Buffer = pick(rng, []int{1, 1, 2, 1000})
	return p
}

// lateStart returns a ProcGate that delays the very first matcher call of the run: the batches the reader
// produces meanwhile queue up in the batch channel, i.e. the pipeline holds their lines while the scanner
// goes on reading (the "slow workers" schedule of PipelineBuf.tla).
func lateStart(d time.Duration) func(int, []byte) {
	var once sync.Once
	return func(int, []byte) { once.Do(func() { time.Sleep(d) }) }
}

// genGeometry: every line of the main source has the same width w (terminator included), w divides the read
// buffer, and the source is k buffers long plus/minus a few lines - so the k-th fill of the buffer ends
// exactly on a line boundary (the buffer is full and completely consumed at the same time).  variant selects
// wide distinct lines with full event logging (variant%3 == 0) or narrow lines from a small pool with the
// summary record.  cli = for the rare binary (regular files only, no gate).
func genGeometry(seed int64, id int, dir string, variant int, cli bool) (*pipe.Scenario, error) {
	rng := rand.New(rand.NewSource(seed*1000003 + int64(id)*7919 + 17))
	s := &pipe.Scenario{ID: id, Family: "geometry", Mode: "files"}
	p := pickProfile(rng, s)
	full := variant%3 == 0 && !cli
	var w, k int
	if full {
		w = pick(rng, []int{256, 512, 1024, 2048})
		k = 1 + rng.Intn(3)
		if w == 256 {
			k = 1 + rng.Intn(2)
		}
	} else {
		w = pick(rng, []int{8, 16, 16, 32, 64, 128})
		k = 1 + rng.Intn(3)
		s.Log = "sum"
	}
	per := readBuf / w
	extra := []int{1, 3, per / 2, per/2 + 1, 0, -1}[variant%6] // lines beyond (or short of) k full buffers
	if variant >= 6 {
		extra = pick(rng, []int{1, 2, 3, 5, per / 2, per - 1, 0, -1, -3})
	}
	n := k*per + extra
	term := "\n"
	if rng.Intn(4) == 0 {
		term = "\r\n"
	}
	s.Batch = pick(rng, []int{1, 3, 100, 1000})
	s.Buffer = pick(rng, []int{1, 2, 1000, 1000})
	s.Workers = pick(rng, []int{1, 2, 8})
	if !full && s.Batch == 1 && n > 30000 {
		s.Batch = 3
	}
	if !cli {
		s.ProcGate = lateStart(time.Duration(15+rng.Intn(25)) * time.Millisecond)
		if n/s.Batch <= 60 {
			s.ConsumerDelay = time.Duration(100+rng.Intn(400)) * time.Microsecond
		}
	}
	binaryOK := p.m.Kind != "dissect"
	var pool [][]byte
	if !full {
		for i := 0; i < 16; i++ {
			pool = append(pool, fixedWidth(randLine(rng, binaryOK), w-len(term)))
		}
	}
	lines := make([][]byte, n)
	for i := range lines {
		if full {
			lines[i] = fixedWidth([]byte(fmt.Sprintf("%s %d %s", words[rng.Intn(len(words))], i%120, words[i%len(words)]+strconv.Itoa(i))), w-len(term))
		} else {
			lines[i] = pool[rng.Intn(len(pool))]
		}
	}
	src := pipe.Source{Lines: lines}
	for i, l := range lines {
		src.Raw = append(src.Raw, l...)
		if i == n-1 && extra > 0 && rng.Intn(3) == 0 {
			break // no final terminator (never on the line that completes a buffer)
		}
		src.Raw = append(src.Raw, term...)
	}
	how := rng.Intn(5)
	if cli {
		how = 0
	}
	src.Name = filepath.Join(dir, fmt.Sprintf("s%d-g0.log", id))
	switch {
	case how <= 2: // regular file: every Read fills the buffer
		if err := src.WriteFile(); err != nil {
			return nil, err
		}
	case how == 3: // FIFO: the buffer fills up in pipe-sized pieces
		src.FIFO = true
		src.Chunks = pipe.RandomChunks(rng, len(src.Raw), pipe.ContentOpts{MaxChunks: 1 + rng.Intn(6)})
		if err := pipe.MakeFIFO(src.Name); err != nil {
			return nil, err
		}
	default: // scripted reader through the timer-flush path
		s.Mode, s.FlushMs, src.Name = "hook", 2+rng.Intn(3), "<stdin>"
		src.Chunks = pipe.RandomChunks(rng, len(src.Raw), pipe.ContentOpts{MaxChunks: 1 + rng.Intn(6), MaxDelayMs: 3, DelayFraction: 0.3})
	}
	s.Sources = append(s.Sources, src)
	if s.Mode == "files" && rng.Intn(2) == 0 { // a second, ordinary source read concurrently
		m := rng.Intn(40)
		ls := make([][]byte, m)
		for i := range ls {
			ls[i] = randLine(rng, binaryOK)
			if !full {
				ls[i] = pool[rng.Intn(len(pool))]
			}
		}
		o := pipe.Source{Lines: ls, Name: filepath.Join(dir, fmt.Sprintf("s%d-g1.log", id))}
		o.Raw = pipe.BuildRaw(rng, ls, pipe.ContentOpts{})
		if err := o.WriteFile(); err != nil {
			return nil, err
		}
		s.Sources = append(s.Sources, o)
		s.Readers = 1 + rng.Intn(2)
	}
	return s, nil
}

// ------------------------------------------------------------------ corpus family "gunzip" (PipelineIO.tla)

// sizedLines returns lines whose byte stream (LF terminated, the last one unterminated when openEnd) is
// exactly target bytes long.  draw yields the ordinary lines; the last line is a filler of the remaining length.
func sizedLines(draw func() []byte, target int, openEnd bool) ([][]byte, []byte) {
	var lines [][]byte
	var raw []byte
	for target-len(raw) > 80 {
		l := draw()
		lines = append(lines, l)
		raw = append(append(raw, l...), '\n')
	}
	rem := target - len(raw)
	if rem <= 0 {
		return lines, raw
	}
	n := rem - 1
	if openEnd {
		n = rem
	}
	fill := bytes.Repeat([]byte{'7'}, n)
	copy(fill, "GET ")
	lines = append(lines, fill)
	raw = append(raw, fill...)
	if !openEnd {
		raw = append(raw, '\n')
	}
	return lines, raw
}

var gzSizes = []int{0, 1, 9, 300, gzProbe - 1, gzProbe, gzProbe + 1, gzProbe + 700, 2 * gzProbe, 2*gzProbe + 1, 3*gzProbe - 5, 20000}

var gzFirst = []int{gzProbe, gzProbe + 1, gzProbe - 1, 2 * gzProbe, 300, gzProbe + 700, 0, 20000, 9, 3*gzProbe - 5}

// genGunzip: a set of regular files, some gzip-compressed, all read with -z.  The plain ones take the
// fallback path of openFileToReader (probe, rewind, read from byte 0); their sizes straddle the probe window.
func genGunzip(seed int64, id int, dir string, variant int) (*pipe.Scenario, error) {
	rng := rand.New(rand.NewSource(seed*1000003 + int64(id)*7919 + 29))
	s := &pipe.Scenario{ID: id, Family: "gunzip", Mode: "files", Gunzip: true}
	p := pickProfile(rng, s)
	binaryOK := p.m.Kind != "dissect"
	nfiles := 2 + rng.Intn(4)
	total := 0
	// every third scenario draws its lines from a small pool and may have big files (summary record:
	// the cost of validating it grows with lines x distinct keys); the others have distinct contents
	// and files of at most three probe windows (full event log)
	pooled := variant%3 == 2
	var pool [][]byte
	for i := 0; i < 20; i++ {
		pool = append(pool, randLine(rng, binaryOK))
	}
	draw := func() []byte {
		if pooled {
			return pool[rng.Intn(len(pool))]
		}
		l := randLine(rng, binaryOK)
		if len(l) > 0 && rng.Intn(2) == 0 { // longer lines: fewer records per byte of file
			l = append(append(append([]byte{}, l...), ' '), bytes.Repeat([]byte{'p'}, rng.Intn(90))...)
		}
		return l
	}
	budget := 4 * gzProbe // bytes of distinct-content files per scenario (bounds the event log)
	for f := 0; f < nfiles; f++ {
		target := gzSizes[rng.Intn(len(gzSizes))]
		if f == 0 { // the first (always plain) file walks through the sizes around the window
			target = gzFirst[variant%len(gzFirst)]
		} else if pooled && rng.Intn(4) == 0 {
			target = readBuf + rng.Intn(3000)
		}
		if !pooled {
			if target > 3*gzProbe {
				target = 3*gzProbe - rng.Intn(100)
			}
			if target > budget {
				target = []int{0, 1, 9, 300}[rng.Intn(4)]
			}
			budget -= target
		}
		lines, raw := sizedLines(draw, target, rng.Intn(3) == 0)
		if target >= gzProbe && rng.Intn(3) == 0 && len(lines) > 3 {
			// a line boundary exactly at the end of the probe window (whole lines inside it, no fragment)
			lines, raw = sizedLines(draw, gzProbe, false)
			l2, r2 := sizedLines(draw, target-gzProbe, rng.Intn(3) == 0)
			lines, raw = append(lines, l2...), append(raw, r2...)
		}
		src := pipe.Source{Lines: lines, Raw: raw, Name: filepath.Join(dir, fmt.Sprintf("s%d-z%d.log", id, f))}
		if f > 0 && rng.Intn(5) < 2 { // the first file is always plain
			src.Gz = true
			if rng.Intn(2) == 0 { // -z goes by content, not by name
				src.Name += ".gz"
			}
			if len(raw) > 1 && rng.Intn(2) == 0 { // two concatenated gzip members
				src.GzSplit = 1 + rng.Intn(len(raw)-1)
			}
		}
		if f > 0 && rng.Intn(4) == 0 { // a named pipe: cannot be rewound after the probe (fix 0ceebc0)
			src.FIFO = true
			if !src.Gz {
				src.Chunks = pipe.RandomChunks(rng, len(raw), pipe.ContentOpts{MaxChunks: 1 + rng.Intn(4)})
			}
			if err := pipe.MakeFIFO(src.Name); err != nil {
				return nil, err
			}
		} else if err := src.WriteFile(); err != nil {
			return nil, err
		}
		total += len(lines)
		s.Sources = append(s.Sources, src)
	}
	if pooled && total > 1200 {
		s.Log = "sum"
	}
	return s, nil
}

func cleanup(s *pipe.Scenario) {
	for _, src := range s.Sources {
		if strings.HasPrefix(src.Name, "/") {
			os.Remove(src.Name)
		}
	}
}

type stats struct {
	Scenarios   int            `json:"scenarios"`
	Lines       int            `json:"lines"`
	Hung        []int          `json:"hung"`
	Modes       map[string]int `json:"modes"`
	TimerCuts   int            `json:"timer_cuts"`   // scenarios with a short batch that was not the last of its source
	BigLines    int            `json:"big_lines"`    // lines longer than the 128 KiB read buffer
	MultiWorker int            `json:"multi_worker"` // scenarios in which >= 2 worker instances processed lines
	Classes     map[string]int `json:"classes"`
	Events      int            `json:"events"`
	Samples     []interface{}  `json:"samples"`
	// corpus families of PipelineBuf.tla / PipelineIO.tla
	Geometry      int            `json:"geometry"`       // geometry scenarios
	BoundaryFills int            `json:"boundary_fills"` // fills of the read buffer that ended exactly on a line boundary with more input following
	Gunzip        int            `json:"gunzip"`         // scenarios read with -z
	GzWindow      map[string]int `json:"gz_window"`      // plain files read with -z by size: below / at / above the probe window; gz = gzip files
	// PipelineKey.tla
	LineFacts      int `json:"linefacts"`        // scenarios whose expressions read {src} / {line}
	LineFactsCuts  int `json:"linefacts_cuts"`   // ... run on the stream path with a timer-cut (short, not last) batch
	LineFactsMulti int `json:"linefacts_multi"`  // ... with >= 2 sources
	LineFactsIgn   int `json:"linefacts_ignore"` // ... in which an IGNORE expression reads {src} / {line}
	// PipelineRead.tla
	ReadErr       int `json:"readerr"`        // scenarios of the family
	ReadErrStream int `json:"readerr_stream"` // ... a stream whose last Read returns data together with an error
	ReadErrGz     int `json:"readerr_gz"`     // ... truncated / damaged gzip files whose decoder reported an error (errors counted by the batcher)
}

func describe(s *pipe.Scenario) vh.M {
	n := 0
	for _, src := range s.Sources {
		n += len(src.Lines)
	}
	return vh.M{"id": s.ID, "mode": s.Mode, "batch": s.Batch, "workers": s.Workers, "readers": s.Readers,
		"buffer": s.Buffer, "matcher": s.Matcher, "extract": s.Extract, "ignore": s.Ignore, "files": len(s.Sources), "lines": n,
		"family": s.Family, "gunzip": s.Gunzip}
}

func account(st *stats, s *pipe.Scenario, out *pipe.Outcome) {
	st.Scenarios++
	st.Modes[s.Mode]++
	if st.GzWindow == nil {
		st.GzWindow = map[string]int{}
	}
	if s.Family == "geometry" {
		st.Geometry++
		if n := len(s.Sources[0].Raw); n > 0 {
			st.BoundaryFills += (n - 1) / readBuf
		}
	}
	if s.Family == "readerr" {
		st.ReadErr++
		if s.Sources[0].Reader != nil {
			st.ReadErrStream++
		} else if out == nil || out.Errors > 0 {
			st.ReadErrGz++
		}
	}
	if s.LineFacts {
		st.LineFacts++
		if len(s.Sources) >= 2 {
			st.LineFactsMulti++
		}
		for _, e := range s.Ignore {
			if strings.Contains(e, "{line}") || strings.Contains(e, "{src}") {
				st.LineFactsIgn++
				break
			}
		}
		if out != nil {
			for f := range s.Sources {
				if f < len(out.Batches) {
					for i, n := range out.Batches[f] {
						if n < s.Batch && i < len(out.Batches[f])-1 {
							st.LineFactsCuts++
							break
						}
					}
				}
			}
		}
	}
	if s.Gunzip {
		st.Gunzip++
		for _, src := range s.Sources {
			switch n := len(src.Raw); {
			case src.FIFO && src.Gz:
				st.GzWindow["fifo-gz"]++
			case src.FIFO:
				st.GzWindow["fifo-plain"]++
			case src.Gz:
				st.GzWindow["gz"]++
			case n < gzProbe:
				st.GzWindow["below"]++
			case n == gzProbe:
				st.GzWindow["at"]++
			default:
				st.GzWindow["above"]++
			}
		}
	}
	for f, src := range s.Sources {
		st.Lines += len(src.Lines)
		for _, l := range src.Lines {
			if len(l) > 128*1024 {
				st.BigLines++
			}
		}
		if out != nil && f < len(out.Batches) {
			b := out.Batches[f]
			for i, n := range b {
				if n < s.Batch && i < len(b)-1 {
					st.TimerCuts++
					break
				}
			}
		}
	}
	if out != nil {
		st.Classes["matched"] += int(out.Matched)
		st.Classes["ignored"] += int(out.Ignored)
		st.Classes["unmatched"] += int(out.Read - out.Matched - out.Ignored)
	}
}

// runWithRetry runs a scenario; a hang is re-run once (fresh inputs) before it is reported.
func runWithRetry(seed int64, id int, dir string, o genOpts, log *pipe.EventLog, st *stats, note func(string)) error {
	return runGenWithRetry(func() (*pipe.Scenario, error) { return genScenario(seed, id, dir, o) }, seed, id, dir, log, st, note)
}

func runGenWithRetry(gen func() (*pipe.Scenario, error), seed int64, id int, dir string, log *pipe.EventLog, st *stats, note func(string)) error {
	for attempt := 0; attempt < 2; attempt++ {
		s, err := gen()
		if err != nil {
			return err
		}
		note(fmt.Sprintf("scenario %d seed %d attempt %d %v", id, seed, attempt, describe(s)))
		var out *pipe.Outcome
		if attempt == 0 {
			out, err = pipe.Run(s, log)
		} else {
			// the retry is logged to a throw-away log: the first attempt's `hang` record stays
			tmp, e2 := pipe.NewEventLog(filepath.Join(dir, "retry.ndjson"))
			if e2 != nil {
				return e2
			}
			s.Deadline = 90 * time.Second
			out, err = pipe.Run(s, tmp)
			tmp.Close()
		}
		cleanup(s)
		if err != nil {
			return err
		}
		if !out.Hung {
			if attempt == 0 {
				account(st, s, out)
				if out.Instances >= 2 {
					st.MultiWorker++
				}
				if len(st.Samples) < 3 {
					st.Samples = append(st.Samples, describe(s))
				}
			} else {
				// hang not reproduced: infrastructure trouble, reported as such
				return fmt.Errorf("scenario %d hung once and passed on retry (machine overloaded?)", id)
			}
			return nil
		}
	}
	st.Hung = append(st.Hung, id)
	st.Scenarios++
	return nil
}

func cmdTrace(args []string) error {
	fs := flag.NewFlagSet("trace", flag.ExitOnError)
	outp := fs.String("out", "trace.ndjson", "")
	resp := fs.String("result", "trace-result.json", "")
	dir := fs.String("dir", ".", "scratch directory for input files")
	n := fs.Int("n", 100, "number of scenarios")
	big := fs.Int("big", 2, "scenarios with lines longer than the read buffer")
	slow := fs.Int("slow", 1, "scenarios through OpenReaderToChan with the real 250 ms timer")
	first := fs.Int("first", 1, "first scenario id")
	huge := fs.Int("huge", 0, "scenarios with -hugelines lines per file, 8 workers, summary logging (lost counter updates)")
	hugeLines := fs.Int("hugelines", 20000, "")
	geom := fs.Int("geom", 0, "buffer-geometry scenarios (PipelineBuf.tla)")
	gz := fs.Int("gz", 0, "mixed plain/gzip file sets read with -z (PipelineIO.tla)")
	lf := fs.Int("lf", 0, "scenarios whose expressions read {src} / {line} (PipelineKey.tla)")
	re := fs.Int("re", 0, "streams failing with data / truncated and damaged gzip files under -z (PipelineRead.tla)")
	fs.Parse(args)
	log, err := pipe.NewEventLog(*outp)
	if err != nil {
		return err
	}
	defer log.Close()
	st := &stats{Modes: map[string]int{}, Classes: map[string]int{}}
	note := func(s string) { os.WriteFile(filepath.Join(*dir, "current.txt"), []byte(s+"\n"), 0o644) }
	seed := vh.Seed()
	for i := 0; i < *n; i++ {
		id := *first + i
		o := genOpts{}
		if i < *big {
			o.big, o.maxLines = true, 12
		} else if i < *big+*slow {
			o.mode, o.maxLines = "reader", 8
		} else if i%25 == 24 {
			o.maxLines = 400
		}
		if err := runWithRetry(seed, id, *dir, o, log, st, note); err != nil {
			return err
		}
	}
	for i := 0; i < *huge; i++ {
		if err := runWithRetry(seed, *first+*n+i, *dir, genOpts{huge: *hugeLines}, log, st, note); err != nil {
			return err
		}
	}
	next := *first + *n + *huge
	for i := 0; i < *geom; i++ {
		id, v := next+i, i
		if err := runGenWithRetry(func() (*pipe.Scenario, error) { return genGeometry(seed, id, *dir, v, false) }, seed, id, *dir, log, st, note); err != nil {
			return err
		}
	}
	next += *geom
	for i := 0; i < *gz; i++ {
		id, v := next+i, i
		if err := runGenWithRetry(func() (*pipe.Scenario, error) { return genGunzip(seed, id, *dir, v) }, seed, id, *dir, log, st, note); err != nil {
			return err
		}
	}
	next += *gz
	for i := 0; i < *lf; i++ {
		id, v := next+i, i
		if err := runGenWithRetry(func() (*pipe.Scenario, error) { return genLineFacts(seed, id, *dir, v, false) }, seed, id, *dir, log, st, note); err != nil {
			return err
		}
	}
	next += *lf
	for i := 0; i < *re; i++ {
		id, v := next+i, i
		if err := runGenWithRetry(func() (*pipe.Scenario, error) { return genReadErr(seed, id, *dir, v, false) }, seed, id, *dir, log, st, note); err != nil {
			return err
		}
	}
	st.Events = log.N
	vh.WriteJSON(*resp, st)
	return nil
}

// ------------------------------------------------------------------ CLI

var summaryRe = regexp.MustCompile(`^Matched: (\d+) / (\d+)(?: \(Ignored: (\d+)\))?(.*)$`)

func cmdCLI(args []string) error {
	fs := flag.NewFlagSet("cli", flag.ExitOnError)
	rare := fs.String("rare", "", "path of the rare binary")
	outp := fs.String("out", "cli.ndjson", "")
	resp := fs.String("result", "cli-result.json", "")
	dir := fs.String("dir", ".", "")
	n := fs.Int("n", 20, "")
	first := fs.Int("first", 100001, "")
	maxLines := fs.Int("maxlines", 2000, "lines per file in the big corpora")
	fs.Parse(args)
	log, err := pipe.NewEventLog(*outp)
	if err != nil {
		return err
	}
	defer log.Close()
	st := &stats{Modes: map[string]int{}, Classes: map[string]int{}}
	seed := vh.Seed()
	for i := 0; i < *n; i++ {
		id := *first + i
		o := genOpts{mode: "files", maxLines: 60}
		if i%5 == 4 {
			o.maxLines = *maxLines
		}
		if i == 1 {
			o.big, o.maxLines = true, 10
		}
		var s *pipe.Scenario
		switch {
		case i%4 == 2: // plain and gzip files mixed, read with -z
			s, err = genGunzip(seed, id, *dir, i/4)
		case i%8 == 5: // buffer geometry through the binary
			s, err = genGeometry(seed, id, *dir, 1+i/8, true)
		case i%8 == 4: // truncated / damaged gzip files under -z
			s, err = genReadErr(seed, id, *dir, 1+2*(i/8), true)
		case i%8 == 1 || i%8 == 7: // expressions reading {src} / {line}: files (i%8 == 1) and stdin (7)
			s, err = genLineFacts(seed, id, *dir, map[int]int{1: i / 8 * 3, 7: i/8*3 + 2}[i%8], true)
		default:
			s, err = genScenario(seed, id, *dir, o)
		}
		if err != nil {
			return err
		}
		stdin := i%4 == 3 // through "-" : OpenReaderToChan with the real timer
		if stdin {
			for len(s.Sources) > 1 {
				os.Remove(s.Sources[len(s.Sources)-1].Name)
				s.Sources = s.Sources[:len(s.Sources)-1]
			}
		}
		s.Log = "sum"
		mode := "cli"
		if stdin {
			mode = "cli-stdin"
		}
		if _, err := pipe.WriteHeader(log, s, mode); err != nil {
			return err
		}
		argv := []string{"--nocolor", "--noformat", "filter", "--batch", strconv.Itoa(s.Batch), "--workers", strconv.Itoa(s.Workers),
			"--readers", strconv.Itoa(s.Readers), "--batch-buffer", strconv.Itoa(s.Buffer), "-e", s.Extract}
		argv = append(argv, s.Matcher.CLIArgs()...)
		for _, ig := range s.Ignore {
			argv = append(argv, "-i", ig)
		}
		if s.Gunzip {
			argv = append(argv, "-z")
		}
		cmd := exec.Command(*rare)
		abort := make(chan struct{})
		if stdin {
			argv = append(argv, "-")
			src := s.Sources[0]
			if src.FIFO { // feed through a pipe with two long pauses instead
				src.FIFO = false
			}
			sr := &pipe.Source{Name: src.Name, Raw: src.Raw}
			if len(src.Raw) > 2 {
				k := len(src.Raw) / 2
				sr.Chunks = []pipe.Chunk{{N: k}, {N: len(src.Raw) - k, DelayMs: 320}}
			}
			cmd.Stdin = pipe.NewScriptedReader(sr)
		} else {
			for k := range s.Sources {
				argv = append(argv, s.Sources[k].Name)
				if s.Sources[k].FIFO {
					go pipe.FeedFIFO(&s.Sources[k], abort)
				}
			}
		}
		cmd.Args = append([]string{*rare}, argv...)
		var so, se bytes.Buffer
		cmd.Stdout, cmd.Stderr = &so, &se
		if err := cmd.Start(); err != nil {
			return err
		}
		done := make(chan error, 1)
		go func() { done <- cmd.Wait() }()
		select {
		case <-done:
		case <-time.After(90 * time.Second):
			cmd.Process.Kill()
			close(abort)
			cleanup(s)
			st.Hung = append(st.Hung, id)
			log.Write(vh.M{"event": "hang", "argv": argv})
			continue
		}
		cleanup(s)
		// stderr: the summary line is the last line starting with "Matched:"
		var sm []string
		for _, line := range strings.Split(se.String(), "\n") {
			if m := summaryRe.FindStringSubmatch(strings.TrimSpace(line)); m != nil {
				sm = m
			}
		}
		if sm == nil {
			log.Write(vh.M{"event": "nosummary", "argv": argv, "stderr": truncate(se.String(), 400)})
			account(st, s, nil)
			continue
		}
		matched, _ := strconv.Atoi(sm[1])
		read, _ := strconv.Atoi(sm[2])
		ignored := 0
		if sm[3] != "" {
			ignored, _ = strconv.Atoi(sm[3])
		}
		keys := map[string]int{}
		outs := so.String()
		if strings.HasSuffix(outs, "\n") {
			outs = outs[:len(outs)-1]
		}
		if len(so.String()) > 0 {
			for _, k := range strings.Split(outs, "\n") {
				keys[k]++
			}
		}
		log.Write(pipe.SumRecord(read, matched, ignored, 0, keys))
		account(st, s, &pipe.Outcome{Read: uint64(read), Matched: uint64(matched), Ignored: uint64(ignored)})
		if len(st.Samples) < 2 {
			st.Samples = append(st.Samples, vh.M{"argv": argv, "summary": sm[0]})
		}
	}
	st.Events = log.N
	vh.WriteJSON(*resp, st)
	return nil
}

func truncate(s string, n int) string {
	if len(s) > n {
		return s[:n]
	}
	return s
}

// ------------------------------------------------------------------ B1 replay

type vector struct {
	Corpus  int             `json:"corpus"`
	Kinds   [][]string      `json:"kinds"`
	Batch   int             `json:"batch"`
	Workers int             `json:"workers"`
	Readers int             `json:"readers"`
	Buf     int             `json:"buf"`
	TF      int             `json:"tf"`
	Feed    [][]interface{} `json:"feed"`
	Cuts    [][]int         `json:"cuts"`
	Full    int             `json:"full"`
	End     struct {
		Read    int     `json:"read"`
		Matched int     `json:"matched"`
		Ignored int     `json:"ignored"`
		Got     [][]int `json:"got"`
	} `json:"end"`
}

// materialisation of the model's line kinds for matcher (\w*) (\d+), extract {1},
// ignore expressions [TAB{eq {1} never}SPACE, {eq {2} 77}]  (the first is always whitespace-only, i.e. never
// truthy; only the SECOND one is ever truthy)
func kindLine(kind string, f, i int) (line string, key string) {
	switch kind {
	case "M1":
		k := fmt.Sprintf("k1f%dn%d", f, i)
		return k + " 5", k
	case "M2":
		k := fmt.Sprintf("k2f%dn%d", f, i)
		return k + " 6", k
	case "I":
		return fmt.Sprintf("k1f%dn%d 77", f, i), ""
	case "E":
		return " 5", ""
	default:
		return fmt.Sprintf("nomatch-f%dn%d", f, i), ""
	}
}

const replayFlushMs = 60

func cmdReplay(args []string) error {
	fs := flag.NewFlagSet("replay", flag.ExitOnError)
	in := fs.String("in", "", "")
	outp := fs.String("out", "replay.json", "")
	dir := fs.String("dir", ".", "")
	par := fs.Int("par", 6, "vectors replayed concurrently")
	fs.Parse(args)
	type mismatch struct {
		Kind   string      `json:"kind"`
		Vector vector      `json:"vector"`
		Got    interface{} `json:"got"`
		Want   interface{} `json:"want"`
	}
	res := struct {
		Runs       int           `json:"runs"`
		Honoured   int           `json:"cuts_honoured"`
		Timer      int           `json:"with_timer_cut"`
		Mismatches []mismatch    `json:"mismatches"`
		Samples    []interface{} `json:"samples"`
		Nontrivial int           `json:"distinct_nontrivial"`
	}{Mismatches: []mismatch{}}
	null, err := pipe.NewEventLog(os.DevNull)
	if err != nil {
		return err
	}
	var vecs []vector
	err = vh.ReadNd(*in, func(raw json.RawMessage) error {
		var v vector
		if err := json.Unmarshal(raw, &v); err != nil {
			return err
		}
		vecs = append(vecs, v)
		return nil
	})
	if err != nil {
		return err
	}
	var mu sync.Mutex
	var firstErr error
	sem := make(chan struct{}, *par)
	var wg sync.WaitGroup
	one := func(id int, v vector) error {
		var out *pipe.Outcome
		var err error
		for attempt := 0; attempt < 2; attempt++ {
			s := &pipe.Scenario{ID: id, Batch: v.Batch, Workers: v.Workers, Readers: v.Readers, Buffer: v.Buf,
				Matcher: pipe.MatcherSpec{Kind: "regex", Expr: `(\w*) (\d+)`}, Extract: `{1}`,
				Ignore: []string{"\t{eq {1} never} ", `{eq {2} 77}`}, Log: "sum", Mode: "files", Deadline: 60 * time.Second}
			if v.Full == 1 {
				s.ConsumerDelay = 2 * time.Millisecond
			}
			// per-source chunk script from the feed order: one chunk per line; the global order is imposed by
			// cumulative delays (step k of the schedule happens at about k*stepMs)
			const stepMs = 2
			clock := 0
			last := make([]int, len(v.Kinds))
			srcs := make([]pipe.Source, len(v.Kinds))
			next := make([]int, len(v.Kinds))
			for f := range v.Kinds {
				srcs[f].Name = filepath.Join(*dir, fmt.Sprintf("r%d-f%d.fifo", id, f+1))
				srcs[f].FIFO = true
				for i, k := range v.Kinds[f] {
					l, _ := kindLine(k, f+1, i+1)
					srcs[f].Lines = append(srcs[f].Lines, []byte(l))
				}
			}
			for _, st := range v.Feed {
				f := int(st[0].(float64)) - 1
				kind := st[1].(string)
				clock += stepMs
				if kind == "tick" {
					clock += 3 * replayFlushMs
				}
				if kind == "eof" {
					continue
				}
				line := srcs[f].Lines[next[f]]
				next[f]++
				srcs[f].Raw = append(srcs[f].Raw, append(append([]byte{}, line...), '\n')...)
				srcs[f].Chunks = append(srcs[f].Chunks, pipe.Chunk{N: len(line) + 1, DelayMs: clock - last[f]})
				last[f] = clock
			}
			if v.TF == 1 {
				if len(srcs) != 1 {
					return fmt.Errorf("timer flush vectors must have one source")
				}
				s.Mode, s.FlushMs = "hook", replayFlushMs
				srcs[0].Name, srcs[0].FIFO = "<stdin>", false
			} else {
				for f := range srcs {
					if err := pipe.MakeFIFO(srcs[f].Name); err != nil {
						return err
					}
				}
			}
			s.Sources = srcs
			out, err = pipe.Run(s, null)
			cleanup(s)
			if err != nil {
				return err
			}
			if !out.Hung {
				break
			}
		}
		mu.Lock()
		defer mu.Unlock()
		res.Runs++
		want := map[string]int{}
		for _, g := range v.End.Got {
			_, k := kindLine(v.Kinds[g[0]-1][g[1]-1], g[0], g[1])
			want[k]++
		}
		if len(want) > 1 {
			res.Nontrivial++
		}
		add := func(kind string, got, w interface{}) {
			res.Mismatches = append(res.Mismatches, mismatch{kind, v, got, w})
		}
		if out.Hung {
			add("hang", "no termination within the deadline (twice)", "terminates")
			return nil
		}
		if int(out.Read) != v.End.Read || int(out.Matched) != v.End.Matched || int(out.Ignored) != v.End.Ignored {
			add("totals", []uint64{out.Matched, out.Read, out.Ignored}, []int{v.End.Matched, v.End.Read, v.End.Ignored})
		}
		if !sameBag(out.Keys, want) {
			add("keys", bagList(out.Keys), bagList(want))
		}
		hon := true
		for f := range v.Cuts {
			if !vh.EqInts(nonNil(out.Batches[f]), nonNil(v.Cuts[f])) {
				hon = false
			}
		}
		if hon {
			res.Honoured++
		}
		for _, st := range v.Feed {
			if st[1].(string) == "tick" {
				res.Timer++
				break
			}
		}
		if len(res.Samples) < 2 {
			res.Samples = append(res.Samples, vh.M{"vector": v, "real_batches": out.Batches, "real_keys": bagList(out.Keys)})
		}
		return nil
	}
	for i, v := range vecs {
		wg.Add(1)
		sem <- struct{}{}
		go func(id int, v vector) {
			defer func() { <-sem; wg.Done() }()
			if err := one(id, v); err != nil {
				mu.Lock()
				if firstErr == nil {
					firstErr = err
				}
				mu.Unlock()
			}
		}(i+1, v)
	}
	wg.Wait()
	if firstErr != nil {
		return firstErr
	}
	vh.WriteJSON(*outp, res)
	return nil
}

func nonNil(a []int) []int {
	if a == nil {
		return []int{}
	}
	return a
}

func sameBag(a, b map[string]int) bool {
	if len(a) != len(b) {
		return false
	}
	for k, n := range a {
		if b[k] != n {
			return false
		}
	}
	return true
}

func bagList(a map[string]int) []string {
	var out []string
	for k, n := range a {
		out = append(out, fmt.Sprintf("%q x%d", k, n))
	}
	sort.Strings(out)
	return out
}

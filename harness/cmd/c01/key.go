package main

// PipelineKey.tla bindings: the facts of a LINE ({src}, {line}) in the key and in the ignore expressions.
//
//   genLineFacts   scenario family "linefacts" for `c01 trace` / `c01 cli`: every line of the scenario is
//                  distinct, the extract and ignore expressions read {src} / {line}; the reference facts of
//                  the header are those of the sequential reading (pipe.RefEval.EvalAt), so the unchanged
//                  trace specification decides whether the ignore set and the key builder saw the context
//                  of THAT line (ign / recv / final / sum records)
//   c01 keyreplay  B1: vectors of PipelineKey_Gen.tla (input set, ignore expressions, key expression and the
//                  class / key of every line computed by the sequential evaluation of PipelineKeyExpr.tla)
//                  replayed on the real batchers + extractor under several batch sizes, worker and reader
//                  counts, on the file path and - one-input sets - on the stream path behind timer-cut batches

import (
	"encoding/json"
	"flag"
	"fmt"
	"math/rand"
	"os"
	"path/filepath"
	"sort"
	"strconv"
	"strings"
	"sync"
	"time"

	"verifharness/pipe"
	"verifharness/vh"
)

// ------------------------------------------------------------------ scenario family "linefacts"

// pause script for the stream path: the stream is cut at line ends into a few pieces and (almost) every
// piece but the first is preceded by a pause of many flush intervals, so the line after the pause closes a
// short batch (time.Since(lastBatchFlush) >= autoFlush is tested after every append) with more input following.
func pauseChunks(rng *rand.Rand, raw []byte, pieces, pauseMs int) []pipe.Chunk {
	var ends []int
	for i, c := range raw {
		if c == '\n' && i+1 < len(raw) {
			ends = append(ends, i+1)
		}
	}
	rng.Shuffle(len(ends), func(i, j int) { ends[i], ends[j] = ends[j], ends[i] })
	if len(ends) > pieces-1 {
		ends = ends[:pieces-1]
	}
	sort.Ints(ends)
	var out []pipe.Chunk
	prev := 0
	for k, e := range append(ends, len(raw)) {
		if e == prev {
			continue
		}
		c := pipe.Chunk{N: e - prev}
		if k > 0 {
			c.DelayMs = pauseMs
		}
		out = append(out, c)
		prev = e
	}
	return out
}

// genLineFacts builds a scenario whose expressions read the facts of the line.  variant selects the shape:
// variant%3 == 2 -> one stream source through the timer-flush path, otherwise 2-4 files (some FIFOs).
func genLineFacts(seed int64, id int, dir string, variant int, cli bool) (*pipe.Scenario, error) {
	rng := rand.New(rand.NewSource(seed*1000003 + int64(id)*7919 + 43))
	s := &pipe.Scenario{ID: id, Family: "linefacts", Mode: "files", LineFacts: true,
		Matcher: pipe.MatcherSpec{Kind: "regex", Expr: `(\w*) (\d+)`}}
	stream := variant%3 == 2
	nfiles := 2 + rng.Intn(3)
	if stream {
		nfiles = 1
		s.Mode, s.FlushMs = "hook", 2+rng.Intn(3)
	}
	names := make([]string, nfiles)
	for f := range names {
		names[f] = filepath.Join(dir, fmt.Sprintf("s%d-l%d.log", id, f))
		if stream {
			names[f] = "<stdin>"
		}
	}
	maxLines := []int{6, 12, 30}[rng.Intn(3)]
	lens := make([]int, nfiles)
	longest := 0
	for f := range lens {
		lens[f] = 1 + rng.Intn(maxLines)
		if stream && lens[f] < 6 {
			lens[f] = 6
		}
		if !stream && rng.Intn(10) == 0 {
			lens[f] = 0
		}
		if lens[f] > longest {
			longest = lens[f]
		}
	}
	if longest < 3 {
		lens[0], longest = 3+rng.Intn(4), 6
	}
	name := func() string { return names[rng.Intn(len(names))] }
	num := func() int { return rng.Intn(longest) } // 0 .. longest-1: some line lies beyond it
	// ignore expressions reading a fact of the line / of the match only
	lineIgn := []string{
		fmt.Sprintf(`{gt {line} %d}`, num()), fmt.Sprintf(`{lt {line} %d}`, 1+num()), fmt.Sprintf(`{eq {line} %d}`, 1+num()),
		fmt.Sprintf(`{eq {src} %s}`, name()), fmt.Sprintf(`{not {eq {src} %s}}`, name()), fmt.Sprintf(`{neq {src} %s}`, name()),
		fmt.Sprintf(`{and {eq {src} %s} {gt {line} %d}}`, name(), num()),
		fmt.Sprintf(`{or {eq {line} %d} {eq {line} %d}}`, 1+num(), 1+num()),
		fmt.Sprintf(`{eq {modi {line} 3} %d}`, rng.Intn(3)),
		fmt.Sprintf(` {gt {line} %d}	`, num()),
	}
	matchIgn := []string{`{eq {1} skip}`, `{gt {2} 50}`, "\t ", `{eq {2} 7}`}
	extracts := []string{`{1}`, `{src}:{line}:{1}`, `{line}`, `{line} {2}`, fmt.Sprintf(`{if {eq {src} %s} {1}}`, name()),
		fmt.Sprintf(`{if {gt {line} %d} {2}}`, num()), `{1}:{2}`, `{src}`}
	switch variant % 4 {
	case 3: // only the key reads the line facts
		s.Extract = extracts[[]int{1, 2, 3, 4, 5}[rng.Intn(5)]]
		if rng.Intn(2) == 0 {
			s.Ignore = append(s.Ignore, matchIgn[rng.Intn(len(matchIgn))])
		}
	default:
		s.Extract = extracts[rng.Intn(len(extracts))]
		s.Ignore = append(s.Ignore, lineIgn[rng.Intn(len(lineIgn))])
		if rng.Intn(2) == 0 {
			s.Ignore = append(s.Ignore, matchIgn[rng.Intn(len(matchIgn))])
		}
		if rng.Intn(3) == 0 {
			s.Ignore = append(s.Ignore, lineIgn[rng.Intn(len(lineIgn))])
		}
		rng.Shuffle(len(s.Ignore), func(i, j int) { s.Ignore[i], s.Ignore[j] = s.Ignore[j], s.Ignore[i] })
	}
	s.Batch = pick(rng, []int{1, 2, 2, 3, 5, 100})
	s.Workers = pick(rng, []int{1, 1, 2, 3, 8})
	s.Readers = pick(rng, []int{1, 2, 3})
	s.Buffer = pick(rng, []int{1, 2, 1000})
	if stream {
		s.Batch = pick(rng, []int{3, 5, 100, 1000}) // > 1: a timer cut leaves a short batch
	}
	if rng.Intn(4) == 0 && !cli {
		s.ConsumerDelay = time.Duration(200+rng.Intn(800)) * time.Microsecond
	}
	for f := 0; f < nfiles; f++ {
		n := lens[f]
		lines := make([][]byte, n)
		for i := range lines {
			tag := fmt.Sprintf("u%dx%d", f, i+1) // makes every line of the scenario distinct
			switch r := rng.Intn(100); {
			case r < 60:
				lines[i] = []byte(fmt.Sprintf("%s %d %s", words[rng.Intn(len(words))], rng.Intn(100), tag))
			case r < 70:
				lines[i] = []byte(fmt.Sprintf("skip 7 %s", tag))
			case r < 78:
				lines[i] = []byte(fmt.Sprintf(" %d %s", rng.Intn(100), tag)) // empty first group
			case r < 90:
				lines[i] = []byte("#" + tag) // no match
			default:
				lines[i] = []byte(fmt.Sprintf("%s %s", tag, tag)) // no match either (no number)
			}
		}
		co := pipe.ContentOpts{NoFinalNL: rng.Intn(3) == 0}
		src := pipe.Source{Name: names[f], Lines: lines}
		src.Raw = pipe.BuildRaw(rng, lines, co)
		switch {
		case stream:
			src.Chunks = pauseChunks(rng, src.Raw, 2+rng.Intn(3), 25*s.FlushMs)
		case rng.Intn(3) == 0 && !cli:
			src.FIFO = true
			src.Chunks = pipe.RandomChunks(rng, len(src.Raw), pipe.ContentOpts{MaxChunks: 1 + rng.Intn(5), MaxDelayMs: 3, DelayFraction: 0.3})
			if err := pipe.MakeFIFO(src.Name); err != nil {
				return nil, err
			}
		default:
			if err := src.WriteFile(); err != nil {
				return nil, err
			}
		}
		s.Sources = append(s.Sources, src)
	}
	return s, nil
}

// ------------------------------------------------------------------ B1: PipelineKey_Gen vectors

type kexpr struct {
	Op string `json:"op"`
	N  int    `json:"n"`
}

type kcfg struct {
	B int `json:"b"`
	W int `json:"w"`
	R int `json:"r"`
	C int `json:"c"`
}

type kvector struct {
	FS      int        `json:"fs"`
	Kinds   [][]string `json:"kinds"`
	Ign     []kexpr    `json:"ign"`
	Key     kexpr      `json:"key"`
	Cfgs    []kcfg     `json:"cfgs"`
	Cls     [][]string `json:"cls"`
	Keys    [][][]int  `json:"keys"`
	Read    int        `json:"read"`
	Matched int        `json:"matched"`
	Ignored int        `json:"ignored"`
	Sens    int        `json:"sens"`
}

// materialisation of the abstract expressions: matcher (\w*) (\d+), group value g -> word w<g> (0 -> empty)
func kWord(g int) string {
	if g == 0 {
		return ""
	}
	return "w" + strconv.Itoa(g)
}

func kIgnText(e kexpr, names []string) (string, error) {
	nm := func(i int) string {
		if i >= 1 && i <= len(names) {
			return names[i-1]
		}
		return "no-such-input-" + strconv.Itoa(i)
	}
	switch e.Op {
	case "gtline":
		return fmt.Sprintf(`{gt {line} %d}`, e.N), nil
	case "ltline":
		return fmt.Sprintf(`{lt {line} %d}`, e.N), nil
	case "eqline":
		return fmt.Sprintf(`{eq {line} %d}`, e.N), nil
	case "eqsrc":
		return fmt.Sprintf(`{eq {src} %s}`, nm(e.N)), nil
	case "nesrc":
		return fmt.Sprintf(`{not {eq {src} %s}}`, nm(e.N)), nil
	case "eqgrp":
		return fmt.Sprintf(`{eq {1} %s}`, kWord(e.N)), nil
	case "never":
		return " \t", nil
	}
	return "", fmt.Errorf("unknown ignore expression %q", e.Op)
}

func kKeyText(e kexpr, names []string) (string, error) {
	nm := func(i int) string {
		if i >= 1 && i <= len(names) {
			return names[i-1]
		}
		return "no-such-input-" + strconv.Itoa(i)
	}
	switch e.Op {
	case "grp":
		return `{1}`, nil
	case "line":
		return `{line}`, nil
	case "src":
		return `{src}`, nil
	case "full":
		return `{src}:{line}:{1}`, nil
	case "ifsrc":
		return fmt.Sprintf(`{if {eq {src} %s} {1}}`, nm(e.N)), nil
	case "ifgtline":
		return fmt.Sprintf(`{if {gt {line} %d} {1}}`, e.N), nil
	}
	return "", fmt.Errorf("unknown key expression %q", e.Op)
}

// the text of a key value of the model (tagged tuple)
func kKeyValue(k []int, names []string) (string, error) {
	if len(k) == 0 {
		return "", nil
	}
	switch {
	case k[0] == 1 && len(k) == 2:
		return kWord(k[1]), nil
	case k[0] == 2 && len(k) == 2:
		return strconv.Itoa(k[1]), nil
	case k[0] == 3 && len(k) == 2:
		return names[k[1]-1], nil
	case k[0] == 4 && len(k) == 4:
		return names[k[1]-1] + ":" + strconv.Itoa(k[2]) + ":" + kWord(k[3]), nil
	}
	return "", fmt.Errorf("unknown key value %v", k)
}

func kLine(kind string, f, i int) (string, error) {
	switch kind {
	case "A":
		return fmt.Sprintf("w1 %d", 10+i), nil
	case "B":
		return fmt.Sprintf("w2 %d", 10+i), nil
	case "Z":
		return fmt.Sprintf(" %d", 10+i), nil
	case "U":
		return fmt.Sprintf("nomatch-f%dn%d", f, i), nil
	}
	return "", fmt.Errorf("unknown line kind %q", kind)
}

func cmdKeyReplay(args []string) error {
	fs := flag.NewFlagSet("keyreplay", flag.ExitOnError)
	in := fs.String("in", "", "vectors (ndjson)")
	outp := fs.String("out", "keyreplay.json", "")
	dir := fs.String("dir", ".", "")
	par := fs.Int("par", 4, "runs in flight")
	ncfg := fs.Int("cfgs", 2, "pipeline parameter sets per vector (0 = all)")
	fs.Parse(args)
	type mismatch struct {
		Kind   string      `json:"kind"`
		Mode   string      `json:"mode"`
		Cfg    kcfg        `json:"cfg"`
		Ignore []string    `json:"ignore"`
		Key    string      `json:"extract"`
		Vector kvector     `json:"vector"`
		Got    interface{} `json:"got"`
		Want   interface{} `json:"want"`
	}
	res := struct {
		Vectors    int            `json:"vectors"`
		Runs       int            `json:"runs"`
		Stream     int            `json:"stream_runs"`
		TimerCuts  int            `json:"stream_runs_with_timer_cut"`
		Multi      int            `json:"runs_with_2_worker_instances"`
		Sensitive  int            `json:"sensitive_vectors"`
		IgnLine    int            `json:"vectors_ignore_reads_line_facts"`
		ByKey      map[string]int `json:"by_key"`
		Mismatches []mismatch     `json:"mismatches"`
		Samples    []interface{}  `json:"samples"`
	}{Mismatches: []mismatch{}, ByKey: map[string]int{}}
	var vecs []kvector
	err := vh.ReadNd(*in, func(raw json.RawMessage) error {
		var v kvector
		if err := json.Unmarshal(raw, &v); err != nil {
			return err
		}
		vecs = append(vecs, v)
		return nil
	})
	if err != nil {
		return err
	}
	null, err := pipe.NewEventLog(os.DevNull)
	if err != nil {
		return err
	}
	var mu sync.Mutex
	var firstErr error
	fail := func(e error) {
		mu.Lock()
		if firstErr == nil {
			firstErr = e
		}
		mu.Unlock()
	}
	one := func(vi int, v kvector, ci int, stream bool) error {
		cfg := v.Cfgs[ci]
		id := vi*100 + ci*2
		if stream {
			id++
		}
		var out *pipe.Outcome
		eff := cfg.B // effective batch size
		if stream && eff < 3 {
			eff = 100 // a timer cut must leave a SHORT batch
		}
		cfg.B = eff
		var ign []string
		var key string
		var names []string
		for attempt := 0; attempt < 2; attempt++ {
			names = make([]string, len(v.Kinds))
			for f := range names {
				names[f] = filepath.Join(*dir, fmt.Sprintf("k%d-%c.log", id, 'a'+f))
				if stream {
					names[f] = "<stdin>"
				}
			}
			s := &pipe.Scenario{ID: id, Batch: eff, Workers: cfg.W, Readers: cfg.R, Buffer: cfg.C,
				Matcher: pipe.MatcherSpec{Kind: "regex", Expr: `(\w*) (\d+)`}, Log: "sum", Mode: "files",
				Deadline: 60 * time.Second}
			ign = nil
			for _, e := range v.Ign {
				t, err := kIgnText(e, names)
				if err != nil {
					return err
				}
				ign = append(ign, t)
			}
			var err error
			if key, err = kKeyText(v.Key, names); err != nil {
				return err
			}
			s.Extract, s.Ignore = key, ign
			rng := rand.New(rand.NewSource(int64(id)*31 + int64(attempt)))
			for f := range v.Kinds {
				src := pipe.Source{Name: names[f]}
				for i, k := range v.Kinds[f] {
					l, err := kLine(k, f+1, i+1)
					if err != nil {
						return err
					}
					src.Lines = append(src.Lines, []byte(l))
				}
				src.Raw = pipe.BuildRaw(rng, src.Lines, pipe.ContentOpts{NoFinalNL: rng.Intn(3) == 0})
				if stream {
					s.Mode, s.FlushMs = "hook", 2
					src.Chunks = pauseChunks(rng, src.Raw, 3, 40)
				} else if err := src.WriteFile(); err != nil {
					return err
				}
				s.Sources = append(s.Sources, src)
			}
			out, err = pipe.Run(s, null)
			cleanup(s)
			if err != nil {
				return err
			}
			if !out.Hung {
				break
			}
		}
		want := map[string]int{}
		for f := range v.Keys {
			for i := range v.Keys[f] {
				if v.Cls[f][i] == "matched" {
					k, err := kKeyValue(v.Keys[f][i], names)
					if err != nil {
						return err
					}
					want[k]++
				}
			}
		}
		mu.Lock()
		defer mu.Unlock()
		res.Runs++
		mode := "files"
		if stream {
			mode = "stream"
			res.Stream++
			for _, b := range out.Batches {
				for i, n := range b {
					if n < eff && i < len(b)-1 {
						res.TimerCuts++
						break
					}
				}
			}
		}
		if out.Instances >= 2 {
			res.Multi++
		}
		add := func(kind string, got, w interface{}) {
			res.Mismatches = append(res.Mismatches, mismatch{kind, mode, cfg, ign, key, v, got, w})
		}
		if out.Hung {
			add("hang", "no termination within the deadline (twice)", "terminates")
			return nil
		}
		if int(out.Read) != v.Read || int(out.Matched) != v.Matched || int(out.Ignored) != v.Ignored {
			add("totals", fmt.Sprintf("Matched: %d / %d (Ignored: %d)", out.Matched, out.Read, out.Ignored),
				fmt.Sprintf("Matched: %d / %d (Ignored: %d)", v.Matched, v.Read, v.Ignored))
		}
		if !sameBag(out.Keys, want) {
			add("keys", bagList(out.Keys), bagList(want))
		}
		if len(res.Samples) < 2 && v.Sens > 0 {
			res.Samples = append(res.Samples, vh.M{"kinds": v.Kinds, "ignore": ign, "extract": key, "cfg": cfg, "mode": mode,
				"spec": vh.M{"cls": v.Cls, "matched": v.Matched, "read": v.Read, "ignored": v.Ignored},
				"real": vh.M{"matched": out.Matched, "read": out.Read, "ignored": out.Ignored, "keys": bagList(out.Keys)}})
		}
		return nil
	}
	type job struct {
		vi, ci int
		stream bool
	}
	var jobs []job
	for vi, v := range vecs {
		res.Vectors++
		if v.Sens > 0 {
			res.Sensitive++
		}
		for _, e := range v.Ign {
			if strings.HasSuffix(e.Op, "line") || strings.HasSuffix(e.Op, "src") {
				res.IgnLine++
				break
			}
		}
		res.ByKey[v.Key.Op]++
		n := len(v.Cfgs)
		if *ncfg > 0 && *ncfg < n {
			n = *ncfg
		}
		for k := 0; k < n; k++ {
			jobs = append(jobs, job{vi, (vi + k*3) % len(v.Cfgs), false})
		}
		if len(v.Kinds) == 1 && vi%2 == 0 { // one input: also as a stream behind timer-cut batches
			jobs = append(jobs, job{vi, (vi / 2) % len(v.Cfgs), true})
		}
	}
	sem := make(chan struct{}, *par)
	var wg sync.WaitGroup
	for _, j := range jobs {
		wg.Add(1)
		sem <- struct{}{}
		go func(j job) {
			defer func() { <-sem; wg.Done() }()
			if err := one(j.vi+1, vecs[j.vi], j.ci, j.stream); err != nil {
				fail(err)
			}
		}(j)
	}
	wg.Wait()
	if firstErr != nil {
		return firstErr
	}
	vh.WriteJSON(*outp, res)
	return nil
}

package main

// C07 - aggregators compute the exact fold of their sample history.
//   replay : replays TLC-enumerated histories (samples / trims / observations in every order) on the
//            real aggregators - each history on ONE long-lived instance - and compares every public
//            accessor with the value the specification expects, at every "o" step and at the end (B1)
//            (split.go: the (string, delimiter) vectors of AggSplit_MC on the real stringSplitter.Splitter;
//            table histories run on a table constructed with the vector's delimiter)
//   trace  : drives the real aggregators with seeded random long histories (observations and trims
//            interleaved at random on the one instance) and records reset / sample / trim / obs
//            events for TLC (B2)
// Numerical values are reported in units of 10^-3 RELATIVE TO THE BASE the vector / trace declares
// (an exact integer subtraction after rounding; the specification folds large values relative to
// a base because TLC integers have 32 bits).

import (
	"bufio"
	"encoding/json"
	"flag"
	"fmt"
	"math"
	"math/rand"
	"os"
	"sort"
	"strconv"
	"strings"
	"sync"

	"rare/pkg/aggregation"
	"rare/pkg/aggregation/sorting"
	"rare/pkg/expressions/funclib"

	"verifharness/vh"
)

func main() {
	vh.Main(vh.Commands{"replay": c07Replay, "trace": c07Trace})
}

type M = vh.M

var BS = vh.BS

// ------------------------------------------------------------------ predicates

type pred struct {
	K string `json:"k"`
	C []int  `json:"c"`
	R []int  `json:"r"`
	V int64  `json:"v"`
}

func (p pred) fn() func(col, row string, val int64) bool {
	c, r := string(vh.FromInts(p.C)), string(vh.FromInts(p.R))
	switch p.K {
	case "all":
		return func(string, string, int64) bool { return true }
	case "none":
		return func(string, string, int64) bool { return false }
	case "col":
		return func(col, _ string, _ int64) bool { return col == c }
	case "notcol":
		return func(col, _ string, _ int64) bool { return col != c }
	case "row":
		return func(_, row string, _ int64) bool { return row == r }
	case "cell":
		return func(col, row string, _ int64) bool { return col == c && row == r }
	case "le":
		return func(_, _ string, val int64) bool { return val <= p.V }
	case "gt":
		return func(_, _ string, val int64) bool { return val > p.V }
	}
	panic("unknown predicate " + p.K)
}

// ------------------------------------------------------------- the aggregators

type accCfg struct {
	Groups [][][]int `json:"groups"` // [name, template]
	Cols   [][][]int `json:"cols"`   // [name, initial, template]
	Sort   [][]int   `json:"sort"`   // none, or one template: the --sort expression (evaluated by Groups())
}

// subject wraps one real aggregator (two for the numerical one: ascending / reversed analysis).
type subject struct {
	kind  string
	base3 int64 // numerical: the declared base in units of 10^-3
	ctr   *aggregation.MatchCounter
	sub   *aggregation.SubKeyCounter
	tbl   *aggregation.TableAggregator
	num   [2]*aggregation.MatchNumerical
	acc   *aggregation.AccumulatingGroup
}

// delim: the delimiter a table is constructed with ("" = the default NUL)
func newSubject(kind string, cfg *accCfg, delim string) (*subject, error) {
	if delim == "" {
		delim = "\x00"
	}
	s := &subject{kind: kind}
	switch kind {
	case "ctr":
		s.ctr = aggregation.NewCounter()
	case "sub":
		s.sub = aggregation.NewSubKeyCounter()
	case "tbl":
		s.tbl = aggregation.NewTable(delim)
	case "num":
		s.num[0] = aggregation.NewNumericalAggregator(&aggregation.NumericalConfig{KeepValuesForAnalysis: true})
		s.num[1] = aggregation.NewNumericalAggregator(&aggregation.NumericalConfig{KeepValuesForAnalysis: true, Reverse: true})
	case "acc":
		s.acc = aggregation.NewAccumulatingGroup(funclib.NewKeyBuilder())
		for _, g := range cfg.Groups {
			if err := s.acc.AddGroupExpr(str(g[0]), str(g[1])); err != nil {
				return nil, fmt.Errorf("group %q: %v", str(g[1]), err)
			}
		}
		for _, c := range cfg.Cols {
			if err := s.acc.AddDataExpr(str(c[0]), str(c[2]), str(c[1])); err != nil {
				return nil, fmt.Errorf("column %q: %v", str(c[2]), err)
			}
		}
		for _, e := range cfg.Sort {
			if err := s.acc.SetSort(str(e)); err != nil {
				return nil, fmt.Errorf("sort %q: %v", str(e), err)
			}
		}
	default:
		return nil, fmt.Errorf("unknown aggregator %q", kind)
	}
	return s, nil
}

func str(a []int) string { return string(vh.FromInts(a)) }

// guarded runs f; a panic of the code under test is an observation ("panic"), not the end of the driver
func guarded(f func()) (panicked string) {
	defer func() {
		if r := recover(); r != nil {
			panicked = fmt.Sprint(r)
		}
	}()
	f()
	return ""
}

func (s *subject) sample(el string) {
	switch s.kind {
	case "ctr":
		s.ctr.Sample(el)
	case "sub":
		s.sub.Sample(el)
	case "tbl":
		s.tbl.Sample(el)
	case "num":
		s.num[0].Sample(el)
		s.num[1].Sample(el)
	case "acc":
		s.acc.Sample(el)
	}
}

// milli: x in units of 10^-3 relative to base3; false if that is not a small finite number.
// sampleTyped feeds the sample through SampleValue / SampleItem / Samplef with the arguments the
// specification decoded (through Sample(el) when the specification reads no value: parse errors, acc).
func (s *subject) sampleTyped(el string, d decoded) {
	if !d.OK {
		s.sample(el)
		return
	}
	switch s.kind {
	case "ctr":
		s.ctr.SampleValue(str(d.Keys[0]), d.Inc)
	case "sub":
		s.sub.SampleValue(str(d.Keys[0]), str(d.Keys[1]), d.Inc)
	case "tbl":
		s.tbl.SampleItem(str(d.Keys[0]), str(d.Keys[1]), d.Inc)
	case "num":
		x := float64(s.base3+d.Inc) / 1000 // correctly rounded: the float64 nearest to the decimal value
		s.num[0].Samplef(x)
		s.num[1].Samplef(x)
	default:
		s.sample(el)
	}
}

func milli(x float64, base3 int64) (int64, bool) {
	y := math.Round(x * 1000)
	if math.IsNaN(y) || math.IsInf(y, 0) || math.Abs(y) > 4e15 {
		return 0, false
	}
	d := int64(y) - base3
	if d > 2000000000 || d < -2000000000 {
		return 0, false
	}
	return d, true
}

// base3Of parses a base written as decimal text in units.
func base3Of(text string) (int64, error) {
	if text == "" {
		return 0, nil
	}
	b, err := strconv.ParseInt(text, 10, 64)
	if err != nil || b > 100000000000 || b < -100000000000 {
		return 0, fmt.Errorf("bad base %q", text)
	}
	return b * 1000, nil
}

// QPoints are the quantiles asked of the numerical aggregator (p = p3 / 1000).
var QPoints = []int{0, 125, 250, 500, 750, 900, 990, 999, 1000}

type sortedBytes [][]int

func lessInts(a, b []int) bool {
	for i := 0; i < len(a) && i < len(b); i++ {
		if a[i] != b[i] {
			return a[i] < b[i]
		}
	}
	return len(a) < len(b)
}

// observe reads every public accessor.  The layout is the one of the `obs` trace event; orders are
// the ones the accessors returned (maps: canonicalised by name), alignment is left as returned.
func (s *subject) observe() (o M, panicked string) {
	defer func() {
		if r := recover(); r != nil {
			panicked = fmt.Sprint(r)
		}
	}()
	o = M{}
	switch s.kind {
	case "ctr":
		items := s.ctr.Items()
		sort.Slice(items, func(i, j int) bool { return items[i].Name < items[j].Name })
		out := make([][]interface{}, 0, len(items))
		for _, it := range items {
			out = append(out, []interface{}{BS(it.Name), it.Item.Count()})
		}
		o["items"], o["total"], o["groups"], o["errors"] = out, s.ctr.Total(), s.ctr.GroupCount(), s.ctr.ParseErrors()
	case "sub":
		keys := make([][]int, 0)
		for _, k := range s.sub.SubKeys() {
			keys = append(keys, BS(k))
		}
		items := s.sub.Items()
		sort.Slice(items, func(i, j int) bool { return items[i].Name < items[j].Name })
		rows := make([][]interface{}, 0, len(items))
		for _, it := range items {
			vec := append([]int64{}, it.Item.Items()...)
			rows = append(rows, []interface{}{BS(it.Name), it.Item.Count(), vec})
		}
		o["subkeys"], o["rows"], o["errors"] = keys, rows, s.sub.ParseErrors()
	case "tbl":
		cols := s.tbl.Columns()
		sort.Strings(cols)
		bcols := make([][]int, 0)
		coltot := make([]int64, 0)
		for _, c := range cols {
			bcols = append(bcols, BS(c))
			coltot = append(coltot, s.tbl.ColTotal(c))
		}
		trs := s.tbl.Rows()
		sort.Slice(trs, func(i, j int) bool { return trs[i].Name() < trs[j].Name() })
		rows := make([][]interface{}, 0, len(trs))
		for _, r := range trs {
			vals := make([]int64, 0, len(cols))
			for _, c := range cols {
				vals = append(vals, r.Value(c))
			}
			rows = append(rows, []interface{}{BS(r.Name()), r.Sum(), vals})
		}
		mn, mx := s.tbl.ComputeMinMax()
		o["cols"], o["rows"], o["coltot"], o["sum"], o["min"], o["max"] = bcols, rows, coltot, s.tbl.Sum(), mn, mx
		o["nrows"], o["ncols"], o["errors"] = s.tbl.RowCount(), s.tbl.ColumnCount(), s.tbl.ParseErrors()
	case "num":
		a, r := s.num[0], s.num[1]
		o["n"], o["errors"] = a.Count(), a.ParseErrors()
		finite := true
		put := func(name string, x float64) {
			v, ok := milli(x, s.base3)
			finite = finite && ok
			o[name] = v
		}
		put("mean3", a.Mean())
		sd, ok := milli(a.StdDev(), 0)
		finite = finite && ok
		o["sd3"] = sd
		put("min3", a.Min())
		put("max3", a.Max())
		if a.Count() == 0 { // min/max of nothing are +-MaxFloat64: outside the specification
			finite = true
			o["min3"], o["max3"] = 0, 0
		}
		if r.Count() != a.Count() || r.ParseErrors() != a.ParseErrors() {
			o["n"] = -1
		}
		safe := func(f func(*aggregation.StatisticalAnalysis) float64, sa *aggregation.StatisticalAnalysis) (v float64, pan bool) {
			defer func() {
				if rec := recover(); rec != nil {
					pan = true
				}
			}()
			return f(sa), false
		}
		const panicked3 = -2000000001 // stands for "the call panicked"
		two := func(f func(*aggregation.StatisticalAnalysis) float64) []int64 {
			out := []int64{0, 0}
			for i, ag := range []*aggregation.MatchNumerical{a, r} {
				v, pan := safe(f, ag.Analyze())
				if pan {
					out[i] = panicked3
					continue
				}
				x, ok := milli(v, s.base3)
				finite = finite && ok
				out[i] = x
			}
			return out
		}
		o["med3"] = two((*aggregation.StatisticalAnalysis).Median)
		o["mode3"] = two((*aggregation.StatisticalAnalysis).Mode)
		q := make([][]int64, 0, len(QPoints))
		for _, p3 := range QPoints {
			p := float64(p3) / 1000.0
			v := two(func(sa *aggregation.StatisticalAnalysis) float64 { return sa.Quantile(p) })
			q = append(q, []int64{int64(p3), v[0], v[1]})
		}
		o["q"] = q
		o["finite"] = finite
	case "acc":
		groups := s.acc.Groups(sorting.ByName)
		data := make([][]interface{}, 0, len(groups))
		nocopy := make([][]interface{}, 0, len(groups))
		for _, g := range groups {
			row, row2 := make([][]int, 0), make([][]int, 0)
			for _, c := range s.acc.Data(g) {
				row = append(row, BS(c))
			}
			for _, c := range s.acc.DataNoCopy(g) {
				row2 = append(row2, BS(c))
			}
			data = append(data, []interface{}{BS(string(g)), row})
			nocopy = append(nocopy, []interface{}{BS(string(g)), row2})
		}
		o["data"], o["nocopy"], o["ngroups"] = data, nocopy, s.acc.DataCount()
	}
	return o, ""
}

// ----------------------------------------------------------------- B1: replay

type histStep struct {
	Op   string                     `json:"op"` // "s" sample, "t" trim, "o" read every accessor
	El   []int                      `json:"el"`
	P    pred                       `json:"p"`
	NSel int                        `json:"nsel"`
	Obs  map[string]json.RawMessage `json:"obs"` // "o": what the specification expects at this point
	Dec  decoded                    `json:"dec"` // "s": how the specification reads the sample
}

// decoded: the arguments of the typed entry point that must act like Sample(el).
type decoded struct {
	OK   bool    `json:"ok"`
	Keys [][]int `json:"keys"`
	Inc  int64   `json:"inc"` // increment; numerical: the value relative to the base, in units of 10^-3
}

type vector struct {
	Agg   string                     `json:"agg"`
	Prof  int                        `json:"prof"`
	Base  []int                      `json:"base"`
	Delim []int                      `json:"delim"` // the delimiter the table is constructed with
	H     []histStep                 `json:"h"`
	Exp   map[string]json.RawMessage `json:"exp"`
	Cfg   map[string]json.RawMessage `json:"cfg"`
	// agg = "split": one Splitter{S, D}; what call i must answer (split.go)
	S     []int       `json:"s,omitempty"`
	D     []int       `json:"d,omitempty"`
	Done0 bool        `json:"done0,omitempty"`
	Calls []splitCall `json:"calls,omitempty"`
}

type mismatch struct {
	idx    int
	Agg    string      `json:"agg"`
	Kind   string      `json:"kind"`
	Hist   []string    `json:"hist"`
	Got    interface{} `json:"got"`
	Exp    interface{} `json:"exp"`
	Vector vector      `json:"vector"`
}

func anyOf(raw json.RawMessage) interface{} {
	var v interface{}
	if err := json.Unmarshal(raw, &v); err != nil {
		panic(err)
	}
	return v
}

func jsonOf(v interface{}) string {
	b, _ := json.Marshal(v)
	return string(b)
}

func normal(v interface{}) interface{} { return anyOf(json.RawMessage(jsonOf(v))) }

// sortSet orders an array that stands for a set by the JSON text of its elements.
func sortSet(v interface{}) []interface{} {
	a, _ := v.([]interface{})
	out := append([]interface{}{}, a...)
	sort.Slice(out, func(i, j int) bool { return jsonOf(out[i]) < jsonOf(out[j]) })
	return out
}

// gridRows turns rows [[name, total, X]] into a sorted set of [name, total|nil, sorted set of [colname, value]].
// aligned=true: X is a value vector aligned with names; aligned=false: X is already a set of pairs.
func gridRows(rows interface{}, names []interface{}, aligned, totals bool) (interface{}, bool) {
	out := []interface{}{}
	for _, r0 := range rows.([]interface{}) {
		r := r0.([]interface{})
		var cells interface{}
		if aligned {
			vec := r[2].([]interface{})
			if len(vec) != len(names) {
				return nil, false
			}
			cs := []interface{}{}
			for i := range vec {
				cs = append(cs, []interface{}{names[i], vec[i]})
			}
			cells = sortSet(cs)
		} else {
			cells = sortSet(r[2])
		}
		var tot interface{}
		if totals {
			tot = r[1]
		}
		out = append(out, []interface{}{r[0], tot, cells})
	}
	return sortSet(out), true
}

func member(set interface{}, x interface{}) bool {
	for _, e := range set.([]interface{}) {
		if jsonOf(e) == jsonOf(x) {
			return true
		}
	}
	return false
}

// compare returns the list of (field, got, expected) disagreements between the real observation and
// the values TLC computed from the specification.
func compare(agg string, got M, exp map[string]json.RawMessage) [][3]interface{} {
	var diffs [][3]interface{}
	g := normal(got).(map[string]interface{})
	e := map[string]interface{}{}
	for k, v := range exp {
		e[k] = anyOf(v)
	}
	eq := func(field string, a, b interface{}) {
		if jsonOf(a) != jsonOf(b) {
			diffs = append(diffs, [3]interface{}{field, a, b})
		}
	}
	plain := func(fields ...string) {
		for _, f := range fields {
			eq(f, g[f], e[f])
		}
	}
	switch agg {
	case "ctr":
		eq("items", sortSet(g["items"]), sortSet(e["items"]))
		plain("total", "groups", "errors")
	case "sub":
		names := g["subkeys"].([]interface{})
		eq("subkeys", sortSet(names), sortSet(e["subkeys"]))
		if len(sortSet(names)) > 0 {
			s := sortSet(names)
			for i := 1; i < len(s); i++ {
				if jsonOf(s[i]) == jsonOf(s[i-1]) {
					diffs = append(diffs, [3]interface{}{"subkeys-dup", names, e["subkeys"]})
				}
			}
		}
		gr, ok := gridRows(g["rows"], names, true, true)
		er, _ := gridRows(e["rows"], nil, false, true)
		if !ok {
			diffs = append(diffs, [3]interface{}{"alignment", g["rows"], e["rows"]})
		} else {
			eq("rows", gr, er)
		}
		plain("errors")
	case "tbl":
		dirty := e["dirty"] == true
		names := g["cols"].([]interface{})
		eq("cols", sortSet(names), sortSet(e["cols"]))
		gr, _ := gridRows(g["rows"], names, true, !dirty)
		er, _ := gridRows(e["rows"], nil, false, !dirty)
		eq("rows", gr, er)
		eq("nrows", g["nrows"], float64(len(e["rows"].([]interface{}))))
		eq("ncols", g["ncols"], float64(len(e["cols"].([]interface{}))))
		plain("min", "max", "errors")
		if !dirty {
			ct := []interface{}{}
			gt := g["coltot"].([]interface{})
			for i := range names {
				ct = append(ct, []interface{}{names[i], gt[i]})
			}
			eq("coltot", sortSet(ct), sortSet(e["coltot"]))
			plain("sum")
		}
	case "num":
		plain("n", "errors")
		n := int(e["n"].(float64))
		if n >= 1 {
			if g["finite"] != true {
				diffs = append(diffs, [3]interface{}{"finite", g, nil})
				break
			}
			if !member(e["mean3"], g["mean3"]) {
				diffs = append(diffs, [3]interface{}{"mean", g["mean3"], e["mean3"]})
			}
			plain("min3", "max3", "med3")
			for i, m := range g["mode3"].([]interface{}) {
				if !member(e["modes"], m) {
					diffs = append(diffs, [3]interface{}{fmt.Sprintf("mode[%d]", i), m, e["modes"]})
				}
			}
			gq := map[string]interface{}{}
			for _, t := range g["q"].([]interface{}) {
				gq[jsonOf(t.([]interface{})[0])] = t
			}
			for _, t := range e["q"].([]interface{}) { // only the points inside the specification's domain
				p := jsonOf(t.([]interface{})[0])
				if jsonOf(gq[p]) != jsonOf(t) {
					diffs = append(diffs, [3]interface{}{"quantile:" + p, gq[p], t})
				}
			}
		}
		if n >= 2 && g["finite"] == true && !member(e["sd3"], g["sd3"]) {
			diffs = append(diffs, [3]interface{}{"stddev", g["sd3"], e["sd3"]})
		}
	case "acc":
		eq("data", sortSet(g["data"]), sortSet(e["data"]))
		eq("nocopy", sortSet(g["nocopy"]), sortSet(e["data"]))
		eq("ngroups", g["ngroups"], float64(len(e["data"].([]interface{}))))
	}
	return diffs
}

func histText(h []histStep) []string {
	out := []string{}
	for _, s := range h {
		if s.Op == "t" {
			out = append(out, fmt.Sprintf("trim(%s c=%q r=%q v=%d)", s.P.K, str(s.P.C), str(s.P.R), s.P.V))
		} else if s.Op == "o" {
			out = append(out, "observe()")
		} else {
			out = append(out, fmt.Sprintf("%q", str(s.El)))
		}
	}
	return out
}

func c07Replay(args []string) error {
	fs := flag.NewFlagSet("replay", flag.ExitOnError)
	in := fs.String("in", "vectors.ndjson", "")
	outp := fs.String("out", "replay.json", "")
	workers := fs.Int("workers", 6, "vectors are independent: replayed by this many goroutines")
	fs.Parse(args)
	f, err := os.Open(*in)
	if err != nil {
		return err
	}
	defer f.Close()
	type job struct {
		idx  int
		line []byte
	}
	jobs := make(chan job, 256)
	states := make([]*replayState, *workers)
	errs := make([]error, *workers)
	var wg sync.WaitGroup
	for w := 0; w < *workers; w++ {
		states[w] = &replayState{perKind: map[string]int{}, perAgg: map[string]int{}}
		wg.Add(1)
		go func(w int) {
			defer wg.Done()
			for j := range jobs {
				if errs[w] == nil {
					errs[w] = replayVector(j.idx, j.line, states[w])
				}
			}
		}(w)
	}
	sc := bufio.NewScanner(f)
	sc.Buffer(make([]byte, 1<<20), 1<<28)
	n := 0
	for sc.Scan() {
		if len(sc.Bytes()) == 0 {
			continue
		}
		n++
		jobs <- job{n, append([]byte{}, sc.Bytes()...)}
	}
	close(jobs)
	wg.Wait()
	if err := sc.Err(); err != nil {
		return err
	}
	// merge (deterministically: by vector index)
	tot := &replayState{perKind: map[string]int{}, perAgg: map[string]int{}}
	for w, st := range states {
		if errs[w] != nil {
			return errs[w]
		}
		tot.runs += st.runs
		tot.nontrivial += st.nontrivial
		tot.nobs += st.nobs
		tot.execs += st.execs
		for k, c := range st.perAgg {
			tot.perAgg[k] += c
		}
		tot.mism = append(tot.mism, st.mism...)
		tot.samples = append(tot.samples, st.samples...)
	}
	sort.SliceStable(tot.mism, func(i, j int) bool { return tot.mism[i].idx < tot.mism[j].idx })
	var mism []mismatch
	for _, m := range tot.mism {
		k := m.Agg + ":" + m.Kind
		tot.perKind[k]++
		if tot.perKind[k] <= 25 {
			mism = append(mism, m)
		}
	}
	sort.SliceStable(tot.samples, func(i, j int) bool { return tot.samples[i].idx < tot.samples[j].idx })
	var samples []interface{}
	for i, sm := range tot.samples {
		if i < 5 {
			samples = append(samples, sm.v)
		}
	}
	vh.WriteJSON(*outp, M{"runs": tot.runs, "distinct_nontrivial": tot.nontrivial, "observations": tot.nobs, "executions": tot.execs,
		"per_agg": tot.perAgg, "per_kind": tot.perKind, "mismatches": mism, "samples": samples})
	return nil
}

// replayVector: every history is replayed twice, each time on one fresh long-lived instance: samples
// fed as text through Sample(el), and through the typed entry points with the decoded arguments.
func replayVector(idx int, raw []byte, rs *replayState) error {
	var v vector
	if err := json.Unmarshal(raw, &v); err != nil {
		return err
	}
	var cfg *accCfg
	if v.Agg == "acc" {
		cfg = &accCfg{}
		json.Unmarshal(v.Cfg["groups"], &cfg.Groups)
		json.Unmarshal(v.Cfg["cols"], &cfg.Cols)
		json.Unmarshal(v.Cfg["sort"], &cfg.Sort)
	}
	base3, err := base3Of(str(v.Base))
	if err != nil {
		return err
	}
	rs.runs++
	rs.perAgg[v.Agg]++
	if v.Agg == "split" {
		replaySplit(idx, &v, rs)
		return nil
	}
	if len(v.H) >= 2 {
		rs.nontrivial++
	}
	for _, typed := range []bool{false, true} {
		if typed && v.Agg == "acc" {
			continue
		}
		s, err := newSubject(v.Agg, cfg, str(v.Delim))
		if err != nil {
			return err
		}
		s.base3 = base3
		if err := replayOne(idx, &v, s, typed, rs); err != nil {
			return err
		}
	}
	return nil
}

type idxSample struct {
	idx int
	v   interface{}
}

type replayState struct {
	mism                          []mismatch
	perKind, perAgg               map[string]int
	samples                       []idxSample
	runs, nontrivial, nobs, execs int
}

// replayOne runs the whole history on the one instance s; every accessor is read at each "o" step
// and after the last step.
func replayOne(idx int, vp *vector, s *subject, typed bool, rs *replayState) error {
	v := *vp
	rs.execs++
	{
		add := func(kind string, got, exp interface{}) {
			if typed {
				kind = "typed:" + kind
			}
			rs.perKind[v.Agg+":"+kind]++
			if rs.perKind[v.Agg+":"+kind] > 25 {
				return
			}
			rs.mism = append(rs.mism, mismatch{idx: idx, Agg: v.Agg, Kind: kind, Hist: histText(v.H), Got: got, Exp: exp, Vector: v})
		}
		check := func(exp map[string]json.RawMessage) (M, bool) {
			got, pan := s.observe()
			if pan != "" {
				add("panic", pan, nil)
				return nil, false
			}
			for _, d := range compare(v.Agg, got, exp) {
				kind := d[0].(string)
				if v.Agg == "tbl" && anyOf(exp["dirty"]) == true {
					kind = "trim:" + kind
				}
				add(kind, d[1], d[2])
			}
			return got, true
		}
		for _, st := range v.H {
			switch st.Op {
			case "t":
				before := s.tbl.RowCount() * s.tbl.ColumnCount()
				ret := s.tbl.Trim(st.P.fn())
				if ret < st.NSel || ret > before {
					add("trim-count", ret, st.NSel)
				}
			case "o":
				rs.nobs++
				if _, ok := check(st.Obs); !ok {
					return nil
				}
			default:
				if pan := guarded(func() {
					if typed {
						s.sampleTyped(str(st.El), st.Dec)
					} else {
						s.sample(str(st.El))
					}
				}); pan != "" {
					add("panic", fmt.Sprintf("Sample(%q): %s", str(st.El), pan), nil)
					return nil
				}
			}
		}
		rs.nobs++
		got, ok := check(v.Exp)
		if !ok {
			return nil
		}
		if len(rs.samples) < 5 && len(v.H) == 3 && idx%97 == 0 {
			rs.samples = append(rs.samples, idxSample{idx, M{"agg": v.Agg, "typed": typed, "history": histText(v.H), "observed": got}})
		}
	}
	return nil
}

// ------------------------------------------------------------------ B2: trace

func randKey(r *rand.Rand, pool []string) string { return pool[r.Intn(len(pool))] }

func makePool(r *rand.Rand, n int) []string {
	specials := []string{"", " ", "a", "b", "A", "é", "日本", "\xff\xfe", "a b", "0", "10", "9", "-", "key\t1", "ab", "aa", "a\x01"}
	pool := append([]string{}, specials...)
	alpha := []rune("abcxyzXYZ019 _-.é日ü")
	for len(pool) < n {
		k := 1 + r.Intn(6)
		var sb strings.Builder
		for i := 0; i < k; i++ {
			sb.WriteRune(alpha[r.Intn(len(alpha))])
		}
		pool = append(pool, sb.String())
	}
	r.Shuffle(len(pool), func(i, j int) { pool[i], pool[j] = pool[j], pool[i] })
	return pool[:n]
}

// makePoolD: a key pool for a table constructed with the delimiter d: besides the usual keys, keys that hold the
// first byte(s) / the last byte(s) of d on their own, inside and at either end (a time 10:30 under "::", "a,b" under
// ", "), but never d itself.  A key ending in d's first byte followed by d makes the leftmost occurrence straddle the
// joint - the specification reads the TEXT, so that is a sample like any other.
func makePoolD(r *rand.Rand, n int, d string) []string {
	if len(d) < 2 {
		return makePool(r, n)
	}
	pool := makePool(r, n)
	var sp []string
	for cut := 1; cut < len(d); cut++ {
		h, t := d[:cut], d[cut:]
		sp = append(sp, h, t, "10"+h+"30", "x"+t, h+"y", "k"+h, t+t, h+h[:1]+"z")
	}
	r.Shuffle(len(sp), func(i, j int) { sp[i], sp[j] = sp[j], sp[i] })
	k := 0
	for i := range pool {
		if strings.Contains(pool[i], d) || (k < len(sp) && i%2 == 0) {
			if k < len(sp) && !strings.Contains(sp[k], d) {
				pool[i] = sp[k]
			} else {
				pool[i] = fmt.Sprintf("k%d", i)
			}
			k++
		}
	}
	return pool
}

var badIncs = []string{"", "zz", "1.5", " 1", "1 ", "0x10", "1_000", "--1", "+", "-", "1e3", "١٢", "12a"}

func randInc(r *rand.Rand) (string, bool) {
	switch x := r.Intn(20); {
	case x < 6:
		return "", false // absent
	case x < 8:
		return badIncs[r.Intn(len(badIncs))], true
	case x < 9:
		return "0", true
	case x < 10:
		return fmt.Sprintf("+%d", r.Intn(1000)), true
	case x < 11:
		return fmt.Sprintf("00%d", r.Intn(100)), true
	case x < 13:
		return fmt.Sprint(r.Intn(200001) - 100000), true
	default:
		return fmt.Sprint(r.Intn(41) - 12), true
	}
}

func obsPoints(n int) map[int]bool {
	pts := map[int]bool{1: true, 2: true, 3: true, 5: true, 8: true, 13: true, 40: true, n: true}
	for i := 1; i <= 4; i++ {
		pts[i*n/5] = true
	}
	return pts
}

func c07Trace(args []string) error {
	fs := flag.NewFlagSet("trace", flag.ExitOnError)
	outp := fs.String("out", "trace.ndjson", "")
	scale := fs.Int("scale", 1, "multiplies the history lengths")
	cfgp := fs.String("acccfg", "", "json: {profile: {groups, cols}} printed by the specification")
	fs.Parse(args)
	w, err := vh.NewNdWriter(*outp)
	if err != nil {
		return err
	}
	defer w.Close()
	cfgs := map[string]*accCfg{}
	if *cfgp != "" {
		var raw map[string]json.RawMessage
		b, err := os.ReadFile(*cfgp)
		if err != nil {
			return err
		}
		if err := json.Unmarshal(b, &raw); err != nil {
			return err
		}
		for k, v := range raw {
			c := &accCfg{}
			if err := json.Unmarshal(v, c); err != nil {
				return err
			}
			cfgs[k] = c
		}
	}
	tid := 0
	emitObs := func(s *subject) {
		o, pan := s.observe()
		if pan != "" {
			o = M{"panic": pan}
		}
		o["event"] = "obs"
		w.Write(o)
	}
	type plan struct {
		agg           string
		prof, n       int
		keys, subkeys int
		delim         string // table: the delimiter of the construction ("" = NUL)
	}
	// numerical profiles >= 4: large offset, small spread (values = base + delta)
	bigBases := []string{"1700000000", "-3000000000", "10000000000", "16777216", "4294967296", "99999999", "-16777217", "1234567890"}
	var plans []plan
	sc := *scale
	plans = append(plans,
		plan{"ctr", 0, 1500 * sc, 60, 0, ""}, plan{"ctr", 0, 400 * sc, 4, 0, ""},
		plan{"sub", 0, 1000 * sc, 25, 18, ""}, plan{"sub", 0, 400 * sc, 3, 40, ""}, plan{"sub", 0, 300 * sc, 40, 3, ""},
		plan{"tbl", 0, 1000 * sc, 20, 15, ""}, plan{"tbl", 0, 500 * sc, 5, 30, ""}, plan{"tbl", 1, 600 * sc, 12, 12, ""},
		plan{"num", 0, 2500 * sc, 400, 0, ""}, plan{"num", 1, 1200 * sc, 12, 0, ""}, plan{"num", 2, 301 * sc, 60, 0, ""}, plan{"num", 3, 64 * sc, 1000, 0, ""},
		plan{"num", 4, 300 * sc, 40, 0, ""}, plan{"num", 5, 150 * sc, 500, 0, ""}, plan{"num", 6, 40 * sc, 4, 0, ""}, plan{"num", 4, 7, 3, 0, ""},
		plan{"acc", 1, 400 * sc, 6, 0, ""}, plan{"acc", 2, 400 * sc, 5, 4, ""}, plan{"acc", 3, 300 * sc, 3, 0, ""},
		// the shared evaluation context under test (group expressions naming columns, {.}, unknown keys)
		plan{"acc", 4, 400 * sc, 5, 0, ""}, plan{"acc", 5, 300 * sc, 4, 4, ""}, plan{"acc", 6, 200 * sc, 3, 0, ""},
		// tables constructed with other delimiters (--delim): one byte, several bytes, a multi-byte character, a
		// repeated prefix; the key pools hold the delimiter's first / last bytes on their own
		plan{"tbl", 0, 300 * sc, 14, 10, "::"}, plan{"tbl", 1, 300 * sc, 10, 12, ", "}, plan{"tbl", 0, 250 * sc, 12, 9, "\u2192"},
		plan{"tbl", 0, 250 * sc, 9, 9, "aab"}, plan{"tbl", 1, 200 * sc, 10, 8, " "}, plan{"tbl", 0, 150 * sc, 8, 8, " - "},
		plan{"tbl", 0, 120 * sc, 8, 6, "\r\n"}, plan{"tbl", 0, 120 * sc, 7, 7, "abab"})
	for pi, pl := range plans {
		r := vh.NewRand(int64(7000 + pi))
		tid++
		var cfg *accCfg
		if pl.agg == "acc" {
			cfg = cfgs[fmt.Sprint(pl.prof)]
			if cfg == nil {
				return fmt.Errorf("no accumulator configuration for profile %d", pl.prof)
			}
		}
		s, err := newSubject(pl.agg, cfg, pl.delim)
		if err != nil {
			return err
		}
		delim := "\x00"
		if pl.delim != "" {
			delim = pl.delim
		}
		base := "0"
		if pl.agg == "num" && pl.prof >= 4 {
			base = bigBases[r.Intn(len(bigBases))]
		}
		if s.base3, err = base3Of(base); err != nil {
			return err
		}
		w.Write(M{"event": "reset", "t": tid, "agg": pl.agg, "prof": pl.prof, "base": BS(base), "delim": BS(delim)})
		pts := obsPoints(pl.n)
		keys := makePoolD(r, pl.keys, pl.delim)
		var subkeys []string
		if pl.subkeys > 0 {
			subkeys = makePoolD(r, pl.subkeys, pl.delim)
		}
		// numerical: a pool of values in milli units
		var vals []int
		if pl.agg == "num" {
			for i := 0; i < pl.keys; i++ {
				switch pl.prof {
				case 1:
					vals = append(vals, (r.Intn(25)-5)*1000) // few small integers: ties for the mode
				case 2:
					vals = append(vals, 99999000+r.Intn(1000)) // large mean, tiny spread
				case 4:
					vals = append(vals, int(s.base3)+r.Intn(4001)-2000) // base +- 2
				case 5:
					vals = append(vals, int(s.base3)+r.Intn(60001)) // a minute of timestamps with milliseconds
				case 6:
					vals = append(vals, int(s.base3)+1000*i) // base, base+1, base+2, ...
				default:
					vals = append(vals, r.Intn(200000001)-100000000)
				}
			}
		}
		for step := 1; step <= pl.n; step++ {
			var el string
			switch pl.agg {
			case "ctr":
				el = randKey(r, keys)
				if inc, has := randInc(r); has {
					el += "\x00" + inc
					if r.Intn(15) == 0 {
						el += "\x00" + randKey(r, keys) // surplus part: ignored
					}
				}
			case "sub", "tbl":
				el = randKey(r, keys)
				if r.Intn(25) != 0 {
					el += delim + randKey(r, subkeys)
					if inc, has := randInc(r); has {
						el += delim + inc
						if r.Intn(15) == 0 {
							el += delim + "x"
						}
					}
				}
			case "num":
				if r.Intn(12) == 0 {
					el = []string{"", "zz", "1,5", " 1", "12k", "1 2", "NaN!"}[r.Intn(7)]
				} else {
					v := vals[r.Intn(len(vals))]
					el = fmtMilli(r, v)
				}
			case "acc":
				el = randKey(r, keys)
				switch r.Intn(8) {
				case 0:
				case 1:
					el += "\x00" + []string{"zz", "", "1.5"}[r.Intn(3)]
				default:
					if pl.subkeys > 0 && r.Intn(2) == 0 {
						el += "\x00" + fmt.Sprint(r.Intn(4))
					} else {
						el += "\x00" + fmt.Sprint(r.Intn(2001)-1000)
					}
					if r.Intn(6) == 0 {
						el += "\x00tail"
					}
				}
			}
			if pan := guarded(func() { s.sample(el) }); pan != "" {
				// no action of the trace specification consumes this event: the trace is rejected here
				w.Write(M{"event": "panic", "call": "Sample", "el": BS(el), "what": pan})
				break
			}
			w.Write(M{"event": "sample", "el": BS(el)})
			// a trim at a random point; in half of the cases every accessor is read right before it, and
			// mostly right after it as well: accessor - mutator - accessor with no sample in between
			if periodic := pl.prof == 1 && r.Intn(60) == 0; pl.agg == "tbl" && (periodic || step == pl.n*3/4) {
				if !periodic || r.Intn(2) == 0 {
					emitObs(s)
				}
				var p pred
				switch r.Intn(6) {
				case 0:
					p = pred{K: "col", C: BS(randKey(r, keys))}
				case 1:
					p = pred{K: "row", R: BS(randKey(r, subkeys))}
				case 2:
					p = pred{K: "cell", C: BS(randKey(r, keys)), R: BS(randKey(r, subkeys))}
				case 3:
					p = pred{K: "le", V: int64(r.Intn(10) - 3)}
				case 4:
					p = pred{K: "gt", V: int64(r.Intn(2000))}
				default:
					p = pred{K: "notcol", C: BS(randKey(r, keys))}
				}
				if p.C == nil {
					p.C = []int{}
				}
				if p.R == nil {
					p.R = []int{}
				}
				ret := s.tbl.Trim(p.fn())
				w.Write(M{"event": "trim", "p": p, "ret": ret})
				if !periodic || r.Intn(5) != 0 {
					emitObs(s)
				}
			}
			// observations: at fixed points and at random ones (sometimes twice in a row)
			if extra := r.Intn(pl.n/6+1) == 0; pts[step] || extra {
				emitObs(s)
				if extra && r.Intn(3) == 0 {
					emitObs(s)
				}
			}
		}
	}
	splitTraces(w, &tid, *scale)
	fmt.Printf("traces=%d events=%d\n", tid, w.N)
	return nil
}

// fmtMilli prints v (milli units) as a decimal text in one of several equivalent spellings.
func fmtMilli(r *rand.Rand, v int) string {
	neg := v < 0
	if neg {
		v = -v
	}
	ip, fp := v/1000, v%1000
	var s string
	switch {
	case fp == 0 && r.Intn(3) > 0:
		s = fmt.Sprint(ip)
		if r.Intn(10) == 0 {
			s += "."
		}
	case fp%100 == 0 && r.Intn(2) == 0:
		s = fmt.Sprintf("%d.%d", ip, fp/100)
	case fp%10 == 0 && r.Intn(2) == 0:
		s = fmt.Sprintf("%d.%02d", ip, fp/10)
	default:
		s = fmt.Sprintf("%d.%03d", ip, fp)
	}
	if ip == 0 && fp != 0 && r.Intn(4) == 0 {
		s = s[1:] // ".5"
	}
	if neg {
		s = "-" + s
	} else if r.Intn(12) == 0 {
		s = "+" + s
	}
	return s
}

package main

// The field splitter of the aggregators (pkg/stringSplitter) exercised directly.
//   B1 (replaySplit): every (string, delimiter) vector of AggSplit_MC on the real Splitter, under several call
//       patterns (Next only, NextOk only, mixed, with Done read between the calls); the expected answer of
//       every call is in the vector (computed by TLC from AggSplit!Fields).
//   B2 (splitTraces): seeded random (string, delimiter) pairs - delimiters of 1..4 bytes over tiny alphabets
//       (overlaps, repeated prefixes), "::", ", ", CRLF, multi-byte UTF-8 - recorded as `split` events that
//       Aggregators_Trace judges with the same operators.

import (
	"fmt"
	"math/rand"
	"strings"

	"rare/pkg/stringSplitter"

	"verifharness/vh"
)

type splitCall struct {
	Ret  []int `json:"ret"`
	Ok   bool  `json:"ok"`
	Done bool  `json:"done"`
}

// one observed call: op is "next" or "nextok"
type splitObs struct {
	ret      string
	ok, done bool
}

// runSplitter makes n calls on a new Splitter{s, d}; pattern(i) tells whether call i (0-based) is NextOk.
// Done is read twice after every call (it is a pure read) and once before the first.
func runSplitter(s, d string, n int, nextOk func(i int) bool) (done0 bool, obs []splitObs, panicked string) {
	defer func() {
		if r := recover(); r != nil {
			panicked = fmt.Sprint(r)
		}
	}()
	sp := stringSplitter.Splitter{S: s, Delim: d}
	done0 = sp.Done()
	for i := 0; i < n; i++ {
		var o splitObs
		if nextOk(i) {
			o.ret, o.ok = sp.NextOk()
		} else {
			before := !sp.Done()
			o.ret = sp.Next()
			o.ok = before
		}
		o.done = sp.Done()
		if sp.Done() != o.done {
			o.done = !o.done // unstable Done: reported as a wrong answer either way
		}
		obs = append(obs, o)
	}
	return
}

var splitPatterns = []struct {
	name string
	f    func(i int) bool
}{
	{"next", func(int) bool { return false }},
	{"nextok", func(int) bool { return true }},
	{"mixed", func(i int) bool { return i%2 == 1 }},
	{"mixed2", func(i int) bool { return i%3 == 0 }},
}

func replaySplit(idx int, v *vector, rs *replayState) {
	s, d := str(v.S), str(v.D)
	if len(v.Calls) >= 3 {
		rs.nontrivial++
	}
	add := func(kind string, got, exp interface{}) {
		key := "split:" + kind
		rs.perKind[key]++
		if rs.perKind[key] > 25 {
			return
		}
		rs.mism = append(rs.mism, mismatch{idx: idx, Agg: "split", Kind: kind,
			Hist: []string{fmt.Sprintf("Splitter{S: %q, Delim: %q}", s, d)}, Got: got, Exp: exp, Vector: *v})
	}
	for _, pat := range splitPatterns {
		rs.execs++
		rs.nobs++
		done0, obs, pan := runSplitter(s, d, len(v.Calls), pat.f)
		if pan != "" {
			add("panic", pan, nil)
			continue
		}
		if done0 != v.Done0 {
			add("done", "Done() before the first call = "+fmt.Sprint(done0), v.Done0)
		}
		for i, o := range obs {
			e := v.Calls[i]
			call := fmt.Sprintf("call %d (%s pattern)", i+1, pat.name)
			if o.ret != str(e.Ret) {
				add("ret", M{"call": call, "ret": o.ret}, str(e.Ret))
				break
			}
			if o.ok != e.Ok {
				add("ok", M{"call": call, "ok": o.ok}, e.Ok)
				break
			}
			if o.done != e.Done {
				add("done", M{"call": call, "done": o.done}, e.Done)
				break
			}
		}
	}
	if len(rs.samples) < 5 && idx%211 == 0 && len(v.Calls) >= 4 {
		rs.samples = append(rs.samples, idxSample{idx, M{"agg": "split", "s": s, "delim": d, "calls": len(v.Calls)}})
	}
}

// ------------------------------------------------------------------ B2

var splitDelims = []string{"\x00", " ", "::", ", ", "\r\n", " - ", "→", "·", "aa", "ab", "aab", "aba", "abab", "aaa", "||", "a"}

func randSplitCase(r *rand.Rand) (s, d string) {
	switch r.Intn(4) {
	case 0: // random delimiter over the alphabet the string is made of
		alpha := "ab"
		if r.Intn(3) == 0 {
			alpha = "abc"
		}
		n := 1 + r.Intn(4)
		var sb strings.Builder
		for i := 0; i < n; i++ {
			sb.WriteByte(alpha[r.Intn(len(alpha))])
		}
		d = sb.String()
		sb.Reset()
		for i, m := 0, r.Intn(25); i < m; i++ {
			sb.WriteByte(alpha[r.Intn(len(alpha))])
		}
		return sb.String(), d
	default:
		d = splitDelims[r.Intn(len(splitDelims))]
	}
	// fields joined by the delimiter; the fields are made of ordinary text and of pieces of the delimiter
	pieces := []string{"", "x", "10", "key", "é", d[:1], d[len(d)-1:], d[:(len(d)+1)/2], d[len(d)/2:], "a", "b"}
	var sb strings.Builder
	for i, m := 0, 1+r.Intn(6); i < m; i++ {
		if i > 0 {
			sb.WriteString(d)
		}
		for j, k := 0, r.Intn(4); j < k; j++ {
			sb.WriteString(pieces[r.Intn(len(pieces))])
		}
	}
	return sb.String(), d
}

// splitTraces records batches of `split` events (each batch is a trace of its own: agg "split").
func splitTraces(w *vh.NdWriter, tid *int, scale int) {
	r := vh.NewRand(7900)
	for batch := 0; batch < 4*scale; batch++ {
		*tid++
		w.Write(M{"event": "reset", "t": *tid, "agg": "split", "prof": 0, "base": BS("0"), "delim": BS("\x00")})
		for i := 0; i < 60; i++ {
			s, d := randSplitCase(r)
			bound := len(s) + 3
			ev := M{"event": "split", "s": BS(s), "d": BS(d)}
			// Next until Done (at most len(s)+3 calls: a correct splitter needs at most len(s)+1), then two more
			n := 0
			{
				sp := stringSplitter.Splitter{S: s, Delim: d}
				func() {
					defer func() { recover() }()
					for n < bound && !sp.Done() {
						sp.Next()
						n++
					}
				}()
			}
			done0, obs, pan := runSplitter(s, d, n+2, splitPatterns[i%len(splitPatterns)].f)
			rets, oks, dones := make([][]int, 0), make([]bool, 0), make([]bool, 0)
			for _, o := range obs {
				rets = append(rets, BS(o.ret))
				oks = append(oks, o.ok)
				dones = append(dones, o.done)
			}
			ev["done0"], ev["rets"], ev["oks"], ev["dones"], ev["panic"] = done0, rets, oks, dones, pan != ""
			w.Write(ev)
		}
	}
}

// Command x03 is the conformance driver of AggLoopInt.tla (the interrupt path of RunAggregationLoop, beyond the
// listed properties): it runs the REAL rare binary (`histo`, stdout not a terminal) on a pipe it keeps open, stalls or feeds for
// ever, sends SIGINT at a chosen point and records what the process left behind.
//
//	x03 replay -rare BIN -in vectors.ndjson -out result.json -trace trace.ndjson   (B1: TLC-enumerated scenarios)
//	x03 random -rare BIN -n K -out result.json -trace trace.ndjson                 (B2: seeded scenarios)
package main

import (
	"bytes"
	"encoding/json"
	"flag"
	"fmt"
	"io"
	"os"
	"os/exec"
	"regexp"
	"strconv"
	"strings"
	"sync"
	"sync/atomic"
	"syscall"
	"time"

	"verifharness/vh"
)

func main() {
	vh.Main(vh.Commands{"replay": replay, "random": random})
}

const nKeys = 3

type record struct {
	T       int      `json:"t"`
	W       int      `json:"w"`
	Lines   []int    `json:"lines"`
	Upto    int      `json:"upto"`
	Counts  []int    `json:"counts"`
	Matched int      `json:"matched"`
	Read    int      `json:"read"`
	Code    int      `json:"code"`
	How     string   `json:"how"`
	Signal  bool     `json:"signal"`
	Exact   bool     `json:"exact"` // stalled input, batch size 1, a long settle: every line written was a full batch long ago
	Cfg     []string `json:"cfg"`
}

// scenario: the batches are written one after the other (pause between them); after `sigAfter` batches the signal is
// sent (sigAfter > len(batches): stdin is closed instead and no signal is sent).  flow: after the signal point the
// driver keeps writing lines of `tail` for ever (until the process is gone).
type scenario struct {
	W, B     int
	Batches  [][]int
	SigAfter int
	Pause    time.Duration // between batches
	Settle   time.Duration // before the signal
	Flow     bool
	CloseSig bool // close stdin and send the signal at once (race with the normal end)
}

var rowRe = regexp.MustCompile(`^k(\d+)\s+(-?[0-9,]+)\s*$`)
var summaryRe = regexp.MustCompile(`Matched: ([0-9,]+) / ([0-9,]+)`)

func lineOf(k, serial int) string {
	if k == 0 {
		return fmt.Sprintf("zz %d\n", serial)
	}
	return fmt.Sprintf("k%d %d\n", k, serial)
}

// startup: how long the process gets to install its signal handler before the first signal may be sent
func runOnce(rare string, t int, sc scenario, startup, deadline time.Duration) (rec record, junk string, err error) {
	argv := []string{"--nocolor", "histo", "-m", `^(k\d) `, "-e", "{1}", "--workers", strconv.Itoa(sc.W),
		"--batch", strconv.Itoa(sc.B)}
	cmd := exec.Command(rare, argv...)
	pr, pw, e := os.Pipe()
	if e != nil {
		err = e
		return
	}
	cmd.Stdin = pr
	var so, se bytes.Buffer
	cmd.Stdout, cmd.Stderr = &so, &se
	t0 := time.Now()
	if err = cmd.Start(); err != nil {
		pr.Close()
		pw.Close()
		return
	}
	pr.Close()
	done := make(chan error, 1)
	go func() { done <- cmd.Wait() }()
	gone := make(chan struct{})
	var mu sync.Mutex
	lines := []int{}
	serial := 0
	write := func(k int) bool {
		mu.Lock()
		defer mu.Unlock()
		serial++
		if _, e := io.WriteString(pw, lineOf(k, serial)); e != nil {
			return false
		}
		lines = append(lines, k)
		return true
	}
	rec = record{T: t, W: sc.W, Counts: make([]int, nKeys), Matched: -1, Read: -1, How: "exit",
		Cfg: []string{fmt.Sprintf("W=%d B=%d batches=%v sigAfter=%d pause=%v settle=%v flow=%v closesig=%v", sc.W, sc.B, sc.Batches,
			sc.SigAfter, sc.Pause, sc.Settle, sc.Flow, sc.CloseSig)}}
	n := len(sc.Batches)
	upto := sc.SigAfter
	if upto > n {
		upto = n
	}
	for i := 0; i < upto; i++ {
		for _, k := range sc.Batches[i] {
			write(k)
		}
		time.Sleep(sc.Pause)
	}
	rec.Signal = sc.SigAfter <= n
	rec.Exact = rec.Signal && sc.B == 1 && !sc.Flow && !sc.CloseSig && sc.Settle >= time.Second
	if !rec.Signal {
		pw.Close()
	} else {
		if d := startup - time.Since(t0); d > 0 {
			time.Sleep(d)
		}
		time.Sleep(sc.Settle)
		var fw sync.WaitGroup
		if sc.Flow {
			fw.Add(1)
			go func() {
				defer fw.Done()
				for i := 0; ; i++ {
					select {
					case <-gone:
						return
					default:
					}
					if !write(1 + i%nKeys) {
						return
					}
					if i%64 == 63 {
						time.Sleep(time.Millisecond)
					}
				}
			}()
			time.Sleep(20 * time.Millisecond)
		}
		if sc.CloseSig {
			pw.Close()
		}
		mu.Lock()
		rec.Upto = len(lines)
		mu.Unlock()
		cmd.Process.Signal(syscall.SIGINT)
		defer fw.Wait()
	}
	select {
	case <-done:
	case <-time.After(deadline):
		cmd.Process.Kill()
		<-done
		rec.How = "hang"
	}
	close(gone)
	if rec.Signal && !sc.CloseSig {
		pw.Close()
	}
	mu.Lock()
	rec.Lines = append([]int{}, lines...)
	mu.Unlock()
	if !rec.Signal {
		rec.Upto = len(rec.Lines)
	}
	if rec.How == "hang" {
		return
	}
	if ws, ok := cmd.ProcessState.Sys().(syscall.WaitStatus); ok && ws.Signaled() {
		rec.How = "killed"
		return
	}
	rec.Code = cmd.ProcessState.ExitCode()
	// stdout is not a terminal: the final picture is printed once, rows "key  count", then the summary lines
	sawSummary := false
	for _, r := range strings.Split(so.String(), "\n") {
		if m := rowRe.FindStringSubmatch(r); m != nil {
			k, _ := strconv.Atoi(m[1])
			v, _ := strconv.Atoi(strings.ReplaceAll(m[2], ",", ""))
			if k < 1 || k > nKeys || sawSummary {
				junk = fmt.Sprintf("stdout row %q is not a key of the input", r)
				continue
			}
			rec.Counts[k-1] += v
		} else if strings.HasPrefix(r, "Matched:") {
			sawSummary = true
		} else if strings.HasPrefix(r, "k") {
			junk = fmt.Sprintf("stdout row %q is not understood", r)
		}
	}
	if m := summaryRe.FindStringSubmatch(so.String() + se.String()); m != nil {
		rec.Matched, _ = strconv.Atoi(strings.ReplaceAll(m[1], ",", ""))
		rec.Read, _ = strconv.Atoi(strings.ReplaceAll(m[2], ",", ""))
	} else {
		junk = fmt.Sprintf("no summary line: stdout %q stderr %q", so.String(), se.String())
	}
	return
}

// run: a run that died of the signal (or hung) is repeated once with a long start-up allowance / the full deadline,
// so that a slow machine is not mistaken for a defect; the second observation counts.
// Once three runs were confirmed dead or hanging that way, later ones are believed at the first observation and with a
// shorter deadline (a build in which no run ever ends would otherwise take an hour to say so).
var confirmed int32

func run(rare string, t int, sc scenario) (record, string, error) {
	deadline := 20 * time.Second
	sure := atomic.LoadInt32(&confirmed) >= 3
	if sure {
		deadline = 8 * time.Second
	}
	rec, junk, err := runOnce(rare, t, sc, 800*time.Millisecond, deadline)
	if err == nil && (rec.How == "killed" || rec.How == "hang") {
		if !sure {
			rec, junk, err = runOnce(rare, t, sc, 6*time.Second, 20*time.Second)
			if err == nil && (rec.How == "killed" || rec.How == "hang") {
				atomic.AddInt32(&confirmed, 1)
			}
		}
	} else if err == nil && rec.Exact && !sameCounts(rec) {
		sc.Settle = 6 * time.Second
		rec, junk, err = runOnce(rare, t, sc, 800*time.Millisecond, deadline)
	}
	return rec, junk, err
}

func sameCounts(rec record) bool {
	c := make([]int, nKeys+1)
	for _, k := range rec.Lines {
		c[k]++
	}
	for k := 1; k <= nKeys; k++ {
		if rec.Counts[k-1] != c[k] {
			return false
		}
	}
	return true
}

type runner struct {
	rare string
	tw   *vh.NdWriter
	mu   sync.Mutex
	junk []vh.M
	recs int
}

func (r *runner) all(scs []scenario, par int, each func(i int, rec record)) error {
	var wg sync.WaitGroup
	sem := make(chan struct{}, par)
	var firstErr error
	for i := range scs {
		wg.Add(1)
		sem <- struct{}{}
		go func(i int) {
			defer wg.Done()
			defer func() { <-sem }()
			rec, junk, err := run(r.rare, i+1, scs[i])
			r.mu.Lock()
			defer r.mu.Unlock()
			if err != nil {
				if firstErr == nil {
					firstErr = err
				}
				return
			}
			if junk != "" {
				r.junk = append(r.junk, vh.M{"cfg": rec.Cfg, "junk": junk})
			}
			r.tw.Write(rec)
			r.recs++
			if each != nil {
				each(i, rec)
			}
		}(i)
	}
	wg.Wait()
	return firstErr
}

// ------------------------------------------------------------------ B1
type vector struct {
	Batches [][]int `json:"batches"`
	P       int     `json:"p"`
	W       int     `json:"w"`
	Signal  bool    `json:"signal"`
	Upper   []int   `json:"upper"`
	Total   []int   `json:"total"`
}

func replay(args []string) error {
	fs := flag.NewFlagSet("replay", flag.ExitOnError)
	rare := fs.String("rare", "", "binary")
	in := fs.String("in", "", "vectors")
	out := fs.String("out", "", "result")
	trace := fs.String("trace", "", "trace")
	every := fs.Int("every", 1, "take every n-th vector")
	fs.Parse(args)
	tw, err := vh.NewNdWriter(*trace)
	if err != nil {
		return err
	}
	defer tw.Close()
	var vs []vector
	n := 0
	err = vh.ReadNd(*in, func(raw json.RawMessage) error {
		var v vector
		if e := json.Unmarshal(raw, &v); e != nil {
			return e
		}
		n++
		if (n+int(vh.Seed()))%*every == 0 {
			vs = append(vs, v)
		}
		return nil
	})
	if err != nil {
		return err
	}
	scs := make([]scenario, len(vs))
	for i, v := range vs {
		scs[i] = scenario{W: v.W, B: 1 + i%2, Batches: v.Batches, SigAfter: v.P, Pause: 5 * time.Millisecond,
			Settle: time.Duration(i%3) * 150 * time.Millisecond}
		if i%4 == 0 {
			scs[i].B, scs[i].Settle = 1, time.Second
		}
	}
	r := &runner{rare: *rare, tw: tw}
	var mm []vh.M
	err = r.all(scs, 12, func(i int, rec record) {
		if rec.How != "exit" {
			return // judged by the trace specification
		}
		v := vs[i]
		for k := 0; k < 2; k++ {
			if rec.Counts[k] > v.Upper[k] {
				mm = append(mm, vh.M{"why": "over-released", "cfg": rec.Cfg, "counts": rec.Counts, "upper": v.Upper})
				break
			}
			if !v.Signal && rec.Counts[k] != v.Total[k] {
				mm = append(mm, vh.M{"why": "short", "cfg": rec.Cfg, "counts": rec.Counts, "total": v.Total})
				break
			}
		}
	})
	if err != nil {
		return err
	}
	vh.WriteJSON(*out, vh.M{"runs": r.recs, "mismatches": mm, "junk": r.junk})
	return nil
}

// ------------------------------------------------------------------ B2
func random(args []string) error {
	fs := flag.NewFlagSet("random", flag.ExitOnError)
	rare := fs.String("rare", "", "binary")
	n := fs.Int("n", 40, "runs")
	out := fs.String("out", "", "result")
	trace := fs.String("trace", "", "trace")
	fs.Parse(args)
	tw, err := vh.NewNdWriter(*trace)
	if err != nil {
		return err
	}
	defer tw.Close()
	rnd := vh.NewRand(303)
	scs := make([]scenario, *n)
	for i := range scs {
		nb := rnd.Intn(6)
		bs := make([][]int, nb)
		for j := range bs {
			ln := 1 + rnd.Intn(40)
			if rnd.Intn(5) == 0 {
				ln = 200 + rnd.Intn(2000)
			}
			b := make([]int, ln)
			for x := range b {
				b[x] = rnd.Intn(nKeys + 1)
			}
			bs[j] = b
		}
		sc := scenario{W: 1 + rnd.Intn(3), B: []int{1, 2, 7, 100, 1000}[rnd.Intn(5)], Batches: bs,
			Pause: time.Duration([]int{0, 2, 30, 300}[rnd.Intn(4)]) * time.Millisecond,
			Settle: time.Duration(rnd.Intn(400)) * time.Millisecond}
		switch rnd.Intn(10) {
		case 0: // control: no signal
			sc.SigAfter = nb + 1
		case 1, 2: // race with the normal end
			sc.SigAfter = nb
			sc.CloseSig = true
			sc.Settle = time.Duration(rnd.Intn(30)) * time.Millisecond
		case 3, 4, 5: // input that never ends
			sc.SigAfter = rnd.Intn(nb + 1)
			sc.Flow = true
		default: // input that stalls
			sc.SigAfter = rnd.Intn(nb + 1)
			if rnd.Intn(2) == 0 { // ... long enough for everything written to have been sampled (batch size 1)
				sc.B = 1
				sc.Settle = time.Second + time.Duration(rnd.Intn(300))*time.Millisecond
			}
		}
		if rnd.Intn(2) == 0 {
			sc.W = 1
		}
		scs[i] = sc
	}
	r := &runner{rare: *rare, tw: tw}
	if err := r.all(scs, 12, nil); err != nil {
		return err
	}
	vh.WriteJSON(*out, vh.M{"runs": r.recs, "junk": r.junk})
	return nil
}

package main

// C03 - final aggregates equal the reference aggregation, independent of parallelism.
//   c03 gen : seeded large corpus descriptors (keys with commas, quotes, spaces, UTF-8, leading '=')
//   c03 run : materialises descriptors (from TLC's Rare_Gen and from `gen`) as plain / gzip files / stdin,
//             runs the REAL rare binary for each of them under a matrix of tuning flags, file divisions
//             and GOMAXPROCS, records every run (reset/run events for Rare_Trace.tla) and, for
//             descriptors that carry TLC's expected result, compares it directly (B1; CSV parsed with
//             encoding/csv as a second, independent decoder).

import (
	"bytes"
	"compress/gzip"
	"context"
	"encoding/csv"
	"encoding/json"
	"flag"
	"fmt"
	"io"
	"math/rand"
	"os"
	"os/exec"
	"path/filepath"
	"sort"
	"strings"
	"sync"
	"time"

	"verifharness/vh"
)

func main() {
	vh.Main(vh.Commands{"gen": c03Gen, "run": c03Run})
}

type M = vh.M

const matchExpr = `^([^|]*)\|([^|]*)\|([^|]*)$`

type expect struct {
	Csv  [][][]int `json:"csv"`
	Code int       `json:"code"`
	Msg  string    `json:"msg"`
}

type desc struct {
	Pool   [][]int  `json:"pool"`
	Seq    []int    `json:"seq"` // 1-based pool indices
	Cmd    string   `json:"cmd"`
	Mt     string   `json:"mt"`    // matcher: re | ren (named groups k s v) | dis (dissect)
	Ext    []int    `json:"ext"`   // atoms: 1..3 group, 4 {line}, 5 {src}, 6 {.}, 7 {#}, 8 {.#}
	Delim  []int    `json:"delim"` // --delim (table / heatmap / spark); empty: separate -e arguments
	Ig     int      `json:"ig"`
	Iv     []int    `json:"iv"`
	Grp    int      `json:"grp"`
	Acc    []string `json:"acc"`
	Gname  []int    `json:"gname"`
	Anames [][]int  `json:"anames"`
	Expect *expect  `json:"expect,omitempty"`
	Lay    [][2]int `json:"lay,omitempty"` // TLC's layout of a descriptor using {line} / {src}: files f0.log, f1.log hold these ranges
	Big    bool     `json:"big,omitempty"`
	// test-selection hints of the seeded families (the expectation never depends on them)
	Paced int `json:"paced,omitempty"` // >0: stdin is also fed in bursts separated by pauses
	Head  int `json:"head,omitempty"`  // no new key appears after the first Head lines
	Tail  int `json:"tail,omitempty"`  // the last Tail lines are no samples
	Sched int `json:"sched,omitempty"` // >0: an all-workers-busy command line is executed Sched times (a sample of OS schedules)
	// read-buffer geometry corpora: fixed-width lines; Width = bytes per line incl. the terminator (0 = not geometric)
	Width int    `json:"width,omitempty"`
	Eol   string `json:"eol,omitempty"` // "" / "lf": lines end in LF; "crlf": in CR LF (the scanner drops the CR)
}

// the pipeline reads through a 128 KiB buffer (readahead / batchers ReadAheadBufferSize)
const readBuf = 131072

func (d *desc) layoutDep() bool {
	for _, a := range d.Ext {
		if a == 4 || a == 5 {
			return true
		}
	}
	return false
}

func (d *desc) hasJSON() bool {
	for _, a := range d.Ext {
		if a >= 6 {
			return true
		}
	}
	return false
}

func (d *desc) orderFree() bool {
	for _, a := range d.Acc {
		if a == "last" {
			return false
		}
	}
	return true
}

// ------------------------------------------------------------------ gen
var keyPool = []string{"a", "b", "a,b", `q"`, " lead", "trail ", "=x", "héllo", "日本", "x y", `""`, "'", ",", `"`,
	"-", "=1+1", "@cmd", "\tt", "10", "2", "9", "k1", "k2", "k3", "k4", "k5", "k6", "k7", "zeta", "A", "B,\"c\""}
var subPool = []string{"x", "y", "z", "", "s,1", "w w", `"`, "ü"}
var incGood = []string{"1", "2", "5", "10", "-3", "0", "100", "+4", "007", "1", "1", "3"}
var incBad = []string{"x", "", "1x"}
var junk = []string{"garbage", "a|b", "a|b|c|d", "", "   ", "|"}

func c03Gen(args []string) error {
	fs := flag.NewFlagSet("gen", flag.ExitOnError)
	out := fs.String("out", "desc.ndjson", "")
	n := fs.Int("n", 7, "descriptors")
	ngeom := fs.Int("geom", 0, "read-buffer geometry descriptors")
	nsched := fs.Int("sched", 0, "schedule-sample descriptors (dissect, all workers busy, repeated executions)")
	schedRuns := fs.Int("sched-runs", 4, "executions per schedule-sample descriptor")
	npaced := fs.Int("paced", 0, "paced-stdin descriptors")
	pacedRuns := fs.Int("paced-runs", 3, "paced executions per paced-stdin descriptor")
	minLines := fs.Int("min", 1000, "")
	maxLines := fs.Int("max", 10000, "")
	fs.Parse(args)
	rng := vh.NewRand(3)
	w, err := vh.NewNdWriter(*out)
	if err != nil {
		return err
	}
	defer w.Close()
	cmds := cmdFamily()
	genGeom(w, *ngeom)
	genSched(w, *nsched, *schedRuns)
	genPaced(w, *npaced, *pacedRuns)
	for i := 0; i < *n; i++ {
		cd := cmds[(i+7*(int(vh.Seed())-1))%len(cmds)]
		d := cd
		d.Big = true
		nkeys := 3 + rng.Intn(18)
		keys := pick(rng, keyPool, nkeys)
		subs := pick(rng, subPool, 1+rng.Intn(5))
		clean := rng.Intn(3) == 0 // no parse errors, no junk: exit status 0 family
		pool := map[string]int{}
		var plist [][]int
		add := func(s string) int {
			if ix, ok := pool[s]; ok {
				return ix
			}
			plist = append(plist, vh.BS(s))
			pool[s] = len(plist)
			return len(plist)
		}
		nlines := *minLines + rng.Intn(*maxLines-*minLines+1)
		if d.Cmd == "analyze" && nlines > 100000 {
			nlines = 100000
		}
		seq := make([]int, 0, nlines)
		for len(seq) < nlines {
			var line string
			r := rng.Intn(100)
			switch {
			case !clean && r < 4:
				line = junk[rng.Intn(len(junk))]
			case !clean && r < 7:
				line = keys[rng.Intn(len(keys))] + "|" + subs[rng.Intn(len(subs))] + "|" + incBad[rng.Intn(len(incBad))]
			case !clean && r < 9:
				line = "|" + subs[rng.Intn(len(subs))] + "|" + incGood[rng.Intn(len(incGood))]
			default:
				// skewed key distribution, so value order is interesting; equal counts happen too
				k := keys[int(float64(len(keys))*rng.Float64()*rng.Float64())]
				line = k + "|" + subs[rng.Intn(len(subs))] + "|" + incGood[rng.Intn(len(incGood))]
			}
			ix := add(line)
			if len(plist) > 400 { // keep the pool small: reuse
				ix = 1 + rng.Intn(len(plist))
			}
			seq = append(seq, ix)
		}
		if d.Ig != 0 {
			d.Iv = vh.BS(subs[0])
			if len(d.Iv) == 0 || !isWord(subs[0]) {
				d.Iv = vh.BS("y")
			}
		}
		d.Pool, d.Seq = plist, seq
		w.Write(d)
	}
	return nil
}

// genGeom: corpora whose line ends fall exactly on the ends of the 128 KiB read buffer: fixed-width lines
// whose width divides 131072, more than three buffers of them, keys cyclic over a few hundred values with
// unequal per-key counts and varying increments (so a line or key that is overwritten, lost or duplicated
// changes the aggregate); the same with the first line one byte longer (no line end on a buffer end any more)
// and with CR LF terminators.
func genGeom(w *vh.NdWriter, n int) {
	type gshape struct {
		width int
		eol   string
		shift bool
		cmd   int
	}
	mk := func(cmd string, ext []int) desc {
		return desc{Cmd: cmd, Mt: "re", Ext: ext, Delim: []int{}, Iv: []int{}, Acc: []string{}, Gname: vh.BS("k"), Anames: [][]int{}}
	}
	cmds := []desc{mk("histogram", []int{1}), mk("table", []int{1, 2, 3}), mk("histogram", []int{1, 3}),
		mk("bargraph", []int{1, 2, 3}), mk("heatmap", []int{2, 1})}
	widths := []int{16, 64, 32, 8}
	rot := int(vh.Seed()) % len(widths)
	var shapes []gshape
	for round := 0; len(shapes) < n; round++ {
		wd := widths[(round+rot)%len(widths)]
		wd2 := widths[(round+rot+1)%len(widths)]
		shapes = append(shapes,
			gshape{wd, "lf", false, round % len(cmds)},
			gshape{wd2, "crlf", false, (round + 1) % len(cmds)},
			gshape{wd, "lf", true, round % len(cmds)})
	}
	for _, g := range shapes[:n] {
		if g.eol == "crlf" && g.width == 8 {
			g.eol = "lf" // 6 bytes of content cannot hold key|sub|inc with a two digit key
		}
		d := cmds[g.cmd]
		d.Big, d.Width, d.Eol = true, g.width, g.eol
		content := g.width - 1
		if g.eol == "crlf" {
			content = g.width - 2
		}
		// a little more than three buffers
		nlines := (3*readBuf + readBuf/5) / g.width
		K, kd := 251, 3
		if content < 12 {
			K, kd = 97, 2
		}
		pool := map[string]int{}
		d.Pool, d.Seq = nil, make([]int, 0, nlines)
		for i := 0; i < nlines; i++ {
			key := fmt.Sprintf("k%0*d", kd, (i*i+i/7)%K)
			inc := fmt.Sprint(1 + i%9)
			padn := content - len(key) - len(inc) - 2
			if i == 0 && g.shift {
				padn++
			}
			sub := string("xyz"[i%3]) + strings.Repeat("p", padn-1)
			line := key + "|" + sub + "|" + inc
			ix, ok := pool[line]
			if !ok {
				d.Pool = append(d.Pool, vh.BS(line))
				ix = len(d.Pool)
				pool[line] = ix
			}
			d.Seq = append(d.Seq, ix)
		}
		w.Write(d)
	}
}

func isWord(s string) bool {
	for _, c := range s {
		if c < 'a' || c > 'z' {
			return false
		}
	}
	return s != ""
}

func pick(rng *rand.Rand, from []string, n int) []string {
	p := rng.Perm(len(from))
	if n > len(from) {
		n = len(from)
	}
	out := make([]string, n)
	for i := 0; i < n; i++ {
		out[i] = from[p[i]]
	}
	return out
}

// the command descriptors used for the large corpora (same family as Rare_Gen.tla)
func mkCmd(cmd, mt string, ext []int, delim string, ig int, grp int, acc ...string) desc {
	d := desc{Cmd: cmd, Mt: mt, Ext: ext, Delim: vh.BS(delim), Ig: ig, Iv: []int{}, Grp: grp, Acc: acc, Gname: vh.BS("k"), Anames: [][]int{}}
	if d.Acc == nil {
		d.Acc = []string{}
	}
	for _, a := range acc {
		d.Anames = append(d.Anames, vh.BS(accName(a)))
	}
	return d
}

func cmdFamily() []desc {
	mk := func(cmd string, ext []int, ig int, grp int, acc ...string) desc {
		return mkCmd(cmd, "re", ext, "", ig, grp, acc...)
	}
	return []desc{
		mk("histogram", []int{1, 3}, 0, 0),
		mk("table", []int{1, 2, 3}, 0, 0),
		mk("heatmap", []int{1, 2, 3}, 2, 0),
		mk("spark", []int{2, 1}, 0, 0),
		mk("bargraph", []int{1, 2, 3}, 0, 0),
		mk("analyze", []int{3}, 0, 0),
		mk("reduce", []int{1, 2, 3}, 0, 1, "count", "sum", "max"),
		mk("histogram", []int{1}, 2, 0),
		mk("reduce", []int{1, 2, 3}, 0, 2, "sum", "last"),
		mk("bargraph", []int{2, 1}, 0, 0),
		mk("reduce", []int{1, 2, 3}, 0, 0, "count", "sum"),
		// dissect / named groups, JSON views, --delim
		mkCmd("table", "dis", []int{1, 2, 3}, "::", 0, 0),
		mkCmd("histogram", "ren", []int{6}, "", 0, 0),
		mkCmd("heatmap", "re", []int{1, 2, 3}, " - ", 0, 0),
		mkCmd("histogram", "dis", []int{7, 3}, "", 2, 0),
		mkCmd("spark", "ren", []int{2, 1, 3}, "\u2192", 0, 0),
		mkCmd("bargraph", "dis", []int{1, 8}, "", 0, 0),
		mkCmd("table", "re", []int{1, 2, 3}, ";", 2, 0),
	}
}

// genSched: dissect corpora whose fields sit at different offsets from line to line (keys of many lengths), large
// enough to keep eight workers busy; see schedVariants
func genSched(w *vh.NdWriter, n, runs int) {
	rng := vh.NewRand(5)
	cmds := []desc{
		mkCmd("histogram", "dis", []int{1}, "", 0, 0),
		mkCmd("table", "dis", []int{1, 2, 3}, "", 0, 0),
		mkCmd("histogram", "dis", []int{2, 3}, "", 0, 0),
		mkCmd("bargraph", "dis", []int{1, 2}, "", 0, 0),
	}
	for i := 0; i < n; i++ {
		d := cmds[(i+int(vh.Seed())-1)%len(cmds)]
		d.Big, d.Sched = true, runs
		nkeys := 30 + rng.Intn(20)
		var keys []string
		for k := 0; k < nkeys; k++ {
			keys = append(keys, strings.Repeat(string(rune('a'+k%26)), 1+(k*7)%11)+fmt.Sprint(k))
		}
		pool := map[string]int{}
		nlines := 12000 + rng.Intn(4000)
		if i%2 == 1 { // a run that lasts longer than the render interval: periodic renders overlap the sampling
			nlines = 56000 + rng.Intn(8000)
		}
		d.Pool, d.Seq = nil, make([]int, 0, nlines)
		for len(d.Seq) < nlines {
			line := keys[rng.Intn(len(keys))] + "|" + subPool[rng.Intn(3)] + strings.Repeat("y", rng.Intn(6)) + "|" + incGood[rng.Intn(len(incGood))]
			if i%2 == 1 { // fewer distinct lines: the reference fold is memoised per distinct line
				line = keys[rng.Intn(len(keys))] + "|" + subPool[rng.Intn(3)] + "|" + incGood[rng.Intn(4)]
			}
			ix, ok := pool[line]
			if !ok {
				d.Pool = append(d.Pool, vh.BS(line))
				ix = len(d.Pool)
				pool[line] = ix
			}
			d.Seq = append(d.Seq, ix)
		}
		w.Write(d)
	}
}

// genPaced: small corpora for the paced-stdin executions: every key appears within the first Head lines, the
// lines after them repeat known keys (with varying increments), the last Tail lines are no samples (unmatched or
// ignored); commands of every aggregator, some using {line} / {src} (the numbering of a source must not depend
// on how its lines are cut into batches)
func genPaced(w *vh.NdWriter, n, runs int) {
	rng := vh.NewRand(7)
	cmds := []desc{
		mkCmd("histogram", "re", []int{1}, "", 0, 0),
		mkCmd("histogram", "re", []int{4}, "", 0, 0),
		mkCmd("table", "ren", []int{1, 2, 3}, "", 0, 0),
		mkCmd("histogram", "dis", []int{1, 3}, "", 2, 0),
		mkCmd("table", "re", []int{1, 4}, "::", 0, 0),
		mkCmd("bargraph", "re", []int{1, 2, 3}, "", 0, 0),
		mkCmd("histogram", "re", []int{5, 4}, "", 0, 0),
		mkCmd("reduce", "re", []int{1, 2, 3}, "", 0, 1, "count", "sum", "max"),
		mkCmd("heatmap", "re", []int{1, 2, 3}, "", 0, 0),
		mkCmd("analyze", "re", []int{3}, "", 0, 0),
		mkCmd("spark", "dis", []int{2, 1, 3}, ";", 0, 0),
		mkCmd("bargraph", "ren", []int{1, 4}, "", 0, 0),
	}
	for i := 0; i < n; i++ {
		d := cmds[(i+int(vh.Seed())-1)%len(cmds)]
		d.Paced = runs
		keys := pick(rng, keyPool, 2+rng.Intn(5))
		subs := pick(rng, subPool, 1+rng.Intn(3))
		if d.Ig != 0 {
			d.Iv = vh.BS("y")
		}
		pool := map[string]int{}
		d.Pool, d.Seq = nil, nil
		add := func(line string) {
			ix, ok := pool[line]
			if !ok {
				d.Pool = append(d.Pool, vh.BS(line))
				ix = len(d.Pool)
				pool[line] = ix
			}
			d.Seq = append(d.Seq, ix)
		}
		inc := func() string {
			if d.Cmd == "analyze" {
				return fmt.Sprint(rng.Intn(50))
			}
			return incGood[rng.Intn(len(incGood))]
		}
		for _, k := range keys { // every key and sub-key within the head
			for _, sk := range subs {
				add(k + "|" + sk + "|" + inc())
			}
		}
		d.Head = len(d.Seq)
		for j := 12 + rng.Intn(30); j > 0; j-- {
			add(keys[rng.Intn(len(keys))] + "|" + subs[rng.Intn(len(subs))] + "|" + inc())
		}
		if i%2 == 0 {
			d.Tail = 1 + rng.Intn(3)
			for j := 0; j < d.Tail; j++ {
				if d.Ig != 0 && j == 0 {
					add(keys[0] + "|y|1")
				} else {
					add(junk[rng.Intn(2)])
				}
			}
		}
		w.Write(d)
	}
}

func accName(tag string) string {
	switch tag {
	case "count":
		return "n"
	case "sum":
		return "s"
	case "max":
		return "mx"
	}
	return tag
}

func accExpr(tag string) string {
	switch tag {
	case "count":
		return "n={sumi {.} 1}"
	case "sum":
		return "s={sumi {.} {3}}"
	case "max":
		return "mx={maxi {.} {3}}"
	}
	return "last={3}"
}

// ------------------------------------------------------------------ run
type variant struct {
	Pace     [][2]int // stdin: bursts of [n lines, pause in ms after them]; the rest follows at once
	NoB1     bool     // the layout is not the one TLC's expectation of the descriptor was computed for
	Ranges   [][2]int
	Kinds    []string // plain | gzip, per range
	Stdin    bool
	Missing  int
	Workers  int
	Batch    int
	BatchBuf int
	Readers  int
	Procs    int
}

const matchExprNamed = `^(?P<k>[^|]*)\|(?P<s>[^|]*)\|(?P<v>[^|]*)$`
const dissectExpr = `%{k}|%{s}|%{v}`

func atomExpr(d *desc, a int) string {
	switch a {
	case 1, 2, 3:
		if d.Mt == "ren" || d.Mt == "dis" {
			return "{" + string("ksv"[a-1]) + "}"
		}
		return fmt.Sprintf("{%d}", a)
	case 4:
		return "{line}"
	case 5:
		return "{src}"
	case 6:
		return "{.}"
	case 7:
		return "{#}"
	case 8:
		return "{.#}"
	}
	panic("atom")
}

func cmdArgs(d *desc, kind string) []string {
	a := []string{}
	if kind == "snap" {
		a = append(a, "--nocolor", "--noformat")
	}
	a = append(a, d.Cmd)
	switch d.Mt {
	case "ren":
		a = append(a, "-m", matchExprNamed)
	case "dis":
		a = append(a, "-d", dissectExpr)
	default:
		a = append(a, "-m", matchExpr)
	}
	if d.Cmd == "reduce" {
		if d.Grp != 0 {
			a = append(a, "-g", fmt.Sprintf("k={%d}", d.Grp))
		}
		for _, t := range d.Acc {
			a = append(a, "-a", accExpr(t))
		}
	} else if len(d.Delim) > 0 {
		parts := make([]string, len(d.Ext))
		for i, g := range d.Ext {
			parts[i] = atomExpr(d, g)
		}
		dl := string(vh.FromInts(d.Delim))
		a = append(a, "-e", strings.Join(parts, dl), "--delim", dl)
	} else {
		for _, g := range d.Ext {
			a = append(a, "-e", atomExpr(d, g))
		}
	}
	if d.Ig != 0 {
		a = append(a, "-i", fmt.Sprintf("{eq %s %s}", atomExpr(d, d.Ig), string(vh.FromInts(d.Iv))))
	}
	if kind == "csv" {
		a = append(a, "--csv", "-")
	} else {
		a = append(a, "--snapshot")
		if d.Cmd == "analyze" {
			a = append(a, "-x")
		}
	}
	return a
}

// geometry corpora: one file, gzip, stdin, and two-file splits at a buffer end / away from it
func geomVariants(rng *rand.Rand, d *desc, nv int) []variant {
	n := len(d.Seq)
	tune := func(v variant) variant {
		v.Workers = []int{1, 2, 8}[rng.Intn(3)]
		v.Batch = []int{7, 1000}[rng.Intn(2)]
		v.BatchBuf = []int{1, 3}[rng.Intn(2)]
		v.Readers = []int{1, 3}[rng.Intn(2)]
		v.Procs = []int{1, 4, 16}[rng.Intn(3)]
		return v
	}
	whole := [][2]int{{1, n}}
	perBuf := readBuf / d.Width
	split := func(at int, k1, k2 string, swap bool) variant {
		v := variant{Ranges: [][2]int{{1, at}, {at + 1, n}}, Kinds: []string{k1, k2}}
		if swap {
			v.Ranges[0], v.Ranges[1] = v.Ranges[1], v.Ranges[0]
			v.Kinds[0], v.Kinds[1] = v.Kinds[1], v.Kinds[0]
		}
		return tune(v)
	}
	vs := []variant{
		{Ranges: whole, Kinds: []string{"plain"}, Workers: 1, Batch: 1000, BatchBuf: 1, Readers: 1, Procs: 1},
		split(perBuf/2+rng.Intn(perBuf/4), "plain", "plain", false), // no line end on a buffer end in either file
		tune(variant{Ranges: whole, Kinds: []string{"plain"}, Stdin: true}),
		tune(variant{Ranges: whole, Kinds: []string{"gzip"}}),
		split(perBuf, "plain", "gzip", true),          // first file is exactly one buffer
		split(2*perBuf+1+rng.Intn(50), "gzip", "plain", false),
		tune(variant{Ranges: whole, Kinds: []string{"plain"}}),
	}
	for len(vs) < nv {
		vs = append(vs, split(1+rng.Intn(n-1), []string{"plain", "gzip"}[rng.Intn(2)], "plain", rng.Intn(2) == 0))
	}
	if nv < len(vs) {
		vs = vs[:nv]
	}
	return vs
}

func tuned(rng *rand.Rand, v variant) variant {
	v.Workers = []int{1, 2, 8}[rng.Intn(3)]
	v.BatchBuf = []int{1, 3}[rng.Intn(2)]
	v.Readers = []int{1, 3}[rng.Intn(2)]
	v.Procs = []int{1, 4, 16}[rng.Intn(3)]
	return v
}

// schedVariants: one sequential execution, then Sched executions of ONE command line that keeps every worker
// busy at the same time (many small batches, more workers than readers, all processors): the executions differ
// in nothing but the OS schedule, and each of them must give the reference aggregate.
func schedVariants(rng *rand.Rand, d *desc) []variant {
	n := len(d.Seq)
	whole := [][2]int{{1, n}}
	vs := []variant{{Ranges: whole, Kinds: []string{"plain"}, Workers: 1, Batch: 1000, BatchBuf: 1, Readers: 1, Procs: 1}}
	a, b := n/3, 2*n/3
	three := [][2]int{{1, a}, {a + 1, b}, {b + 1, n}}
	for i := 0; i < d.Sched; i++ {
		v := variant{Ranges: three, Kinds: []string{"plain", "plain", "plain"}, Workers: 8, Batch: 50, BatchBuf: 16, Readers: 3, Procs: 16}
		switch i % 3 {
		case 1:
			v.Ranges, v.Kinds, v.Workers, v.Batch, v.Procs = whole, []string{"plain"}, 4, 7, 4
		case 2:
			v.Ranges, v.Kinds, v.Workers, v.Batch, v.Procs = whole, []string{"plain"}, 2, 1, 4
		}
		vs = append(vs, v)
	}
	return vs
}

// pacedVariants: the same bytes from a file, from stdin at once, and from stdin in bursts separated by pauses
// longer than the periodic render interval and than the batch auto-flush interval of the reader: the pacing of
// the input is one more thing the result must not depend on.
func pacedVariants(rng *rand.Rand, d *desc) []variant {
	n := len(d.Seq)
	whole := [][2]int{{1, n}}
	base := variant{Ranges: whole, Kinds: []string{"plain"}}
	v0 := base
	v0.Workers, v0.Batch, v0.BatchBuf, v0.Readers, v0.Procs = 1, 1000, 1, 1, 1
	v1 := tuned(rng, base)
	v1.Stdin, v1.Batch = true, 1000
	vs := []variant{v0, v1}
	head := d.Head
	if head < 1 || head >= n {
		head = 1
	}
	cutIn := func(lo, hi int) int { // a cut after a line in lo..hi (at least one line on both sides)
		if hi > n-1 {
			hi = n - 1
		}
		if lo < 1 {
			lo = 1
		}
		if hi < lo {
			return lo
		}
		return lo + rng.Intn(hi-lo+1)
	}
	mk := func(batch int, cuts []int, ms func() int) variant {
		v := tuned(rng, base)
		v.Stdin, v.Batch = true, batch
		sort.Ints(cuts)
		prev := 0
		for _, c := range cuts {
			if c <= prev || c >= n {
				continue
			}
			v.Pace = append(v.Pace, [2]int{c - prev, ms()})
			prev = c
		}
		return v
	}
	long := func() int { return 400 + rng.Intn(80) }  // > batch auto-flush interval
	tick := func() int { return 230 + rng.Intn(70) }  // > periodic render interval
	for i := 0; i < d.Paced; i++ {
		switch i % 3 {
		case 0: // default batch size: partly filled batches are flushed by the timer; later lines repeat known keys
			vs = append(vs, mk(1000, []int{cutIn(head, n-2), cutIn(head, n-1)}, long))
		case 1: // immediate batches; renders happen between the bursts; the last burst holds no sample if there is such a tail
			cuts := []int{cutIn(head, n-1), cutIn(head, n-1)}
			if d.Tail > 0 && d.Tail < n {
				cuts = append(cuts, n-d.Tail)
			}
			vs = append(vs, mk(1, cuts, tick))
		default:
			vs = append(vs, mk(7, []int{cutIn(1, head), cutIn(head, n-1), n - 1 - rng.Intn(2)}, long))
		}
	}
	return vs
}

// several sources through ONE worker, one after the other or interleaved line by line; the first source may
// hold a single line (so consecutive lines of the worker carry equal line numbers of different sources)
func oneWorkerVariant(rng *rand.Rand, d *desc) variant {
	n := len(d.Seq)
	v := variant{Workers: 1, Readers: []int{1, 3}[rng.Intn(2)], Batch: []int{1, 1000}[rng.Intn(2)], BatchBuf: []int{1, 3}[rng.Intn(2)],
		Procs: []int{1, 4}[rng.Intn(2)]}
	cuts := map[int]bool{0: true, n: true}
	if rng.Intn(2) == 0 {
		cuts[1] = true
	}
	for k := 1 + rng.Intn(3); k > 0; k-- {
		cuts[rng.Intn(n+1)] = true
	}
	if v.Batch == 1000 && n > 2100 { // a source of 1 + k*batch lines ends with a batch of one line
		cuts[1001] = true
	}
	var cs []int
	for c := range cuts {
		cs = append(cs, c)
	}
	sort.Ints(cs)
	for i := 0; i+1 < len(cs); i++ {
		v.Ranges = append(v.Ranges, [2]int{cs[i] + 1, cs[i+1]})
		v.Kinds = append(v.Kinds, "plain")
	}
	return v
}

func variants(rng *rand.Rand, d *desc, nv int) []variant {
	if d.Width > 0 {
		return geomVariants(rng, d, nv)
	}
	if d.Sched > 0 {
		return schedVariants(rng, d)
	}
	if d.Paced > 0 {
		return pacedVariants(rng, d)
	}
	n := len(d.Seq)
	seqOnly := !d.orderFree()
	whole := [][2]int{{1, n}}
	vs := []variant{{Ranges: whole, Kinds: []string{"plain"}, Workers: 1, Batch: 1000, BatchBuf: 1, Readers: 1, Procs: 1}}
	if len(d.Lay) > 0 {
		vs[0].Ranges, vs[0].Kinds = d.Lay, []string{"plain", "plain"}
	}
	for len(vs) < nv {
		v := variant{
			Workers:  []int{1, 2, 8}[rng.Intn(3)],
			Batch:    []int{1, 2, 7, 1000}[rng.Intn(4)],
			BatchBuf: []int{1, 3}[rng.Intn(2)],
			Readers:  []int{1, 3}[rng.Intn(2)],
			Procs:    []int{1, 4, 16}[rng.Intn(3)],
		}
		if d.Big && v.Batch < 7 && n > 20000 {
			v.Batch = 7
		}
		if seqOnly {
			v.Workers, v.Readers = 1, 1
		}
		shape := rng.Intn(10)
		switch {
		case d.hasJSON() && n >= 2 && len(vs) == 1 && !seqOnly:
			v = oneWorkerVariant(rng, d)
		case shape == 0 && len(vs) >= 2:
			v.Stdin = true
			v.NoB1 = len(d.Lay) > 0
			v.Ranges, v.Kinds = whole, []string{"plain"}
		case len(d.Lay) > 0:
			v.Ranges = d.Lay
			v.Kinds = []string{[]string{"plain", "gzip"}[rng.Intn(2)], "plain"}
			v.NoB1 = v.Kinds[0] == "gzip" // {src} reads f0.log.gz: judged by Rare_Trace against the layout of the run
			if shape == 1 || (d.Expect != nil && d.Expect.Code != 0 && !hasMissing(vs)) {
				v.Missing = 1
			}
		default:
			k := 1 + rng.Intn(4)
			if k > n+1 {
				k = n + 1
			}
			cuts := []int{0, n}
			for i := 1; i < k; i++ {
				cuts = append(cuts, rng.Intn(n+1))
			}
			sort.Ints(cuts)
			for i := 0; i+1 < len(cuts); i++ {
				v.Ranges = append(v.Ranges, [2]int{cuts[i] + 1, cuts[i+1]}) // may be empty (lo = hi+1)
				kind := "plain"
				if rng.Intn(3) == 0 {
					kind = "gzip"
				}
				v.Kinds = append(v.Kinds, kind)
			}
			if !seqOnly {
				rng.Shuffle(len(v.Ranges), func(i, j int) {
					v.Ranges[i], v.Ranges[j] = v.Ranges[j], v.Ranges[i]
					v.Kinds[i], v.Kinds[j] = v.Kinds[j], v.Kinds[i]
				})
			}
			// a read error must win over "no data" and over parse errors: corpora whose model exit
			// status is not 0 always get one variant with an argument that names no file
			if shape == 1 || (d.Expect != nil && d.Expect.Code != 0 && !hasMissing(vs)) {
				v.Missing = 1
			}
		}
		vs = append(vs, v)
	}
	return vs
}

func hasMissing(vs []variant) bool {
	for _, v := range vs {
		if v.Missing > 0 {
			return true
		}
	}
	return false
}

type runRec struct {
	rec  M
	kind string
}

func c03Run(args []string) error {
	fs := flag.NewFlagSet("run", flag.ExitOnError)
	in := fs.String("in", "desc.ndjson", "")
	out := fs.String("out", "trace.ndjson", "")
	res := fs.String("res", "result.json", "")
	bin := fs.String("rare", "", "rare binary")
	nv := fs.Int("variants", 3, "variants per descriptor")
	nvBig := fs.Int("variants-big", 5, "variants per big descriptor")
	nvGeom := fs.Int("variants-geom", 6, "variants per read-buffer geometry descriptor")
	par := fs.Int("par", 6, "parallel descriptors")
	work := fs.String("work", "", "scratch directory")
	fs.Parse(args)
	if *work == "" {
		*work = filepath.Join(filepath.Dir(*out), "c03-work")
	}
	os.MkdirAll(*work, 0o755)
	defer os.RemoveAll(*work)

	var descs []*desc
	if err := vh.ReadNd(*in, func(raw json.RawMessage) error {
		var d desc
		if err := json.Unmarshal(raw, &d); err != nil {
			return err
		}
		descs = append(descs, &d)
		return nil
	}); err != nil {
		return err
	}

	type group struct {
		reset M
		runs  []M
		mism  []M
		b1    int
	}
	groups := make([]group, len(descs))
	var wg sync.WaitGroup
	sem := make(chan struct{}, *par)
	for gi := range descs {
		wg.Add(1)
		sem <- struct{}{}
		go func(gi int) {
			defer wg.Done()
			defer func() { <-sem }()
			d := descs[gi]
			rng := vh.NewRand(int64(1000 + gi))
			n := *nv
			if d.Big {
				n = *nvBig
				if d.Width > 0 {
					n = *nvGeom
				}
			}
			g := &groups[gi]
			if d.Mt == "" {
				d.Mt = "re"
			}
			if d.Delim == nil {
				d.Delim = []int{}
			}
			g.reset = M{"event": "reset", "t": gi + 1, "pool": d.Pool, "seq": d.Seq, "cmd": d.Cmd, "mt": d.Mt, "ext": d.Ext,
				"delim": d.Delim, "ig": d.Ig, "iv": d.Iv, "grp": d.Grp, "acc": d.Acc, "gname": d.Gname, "anames": d.Anames}
			dir := filepath.Join(*work, fmt.Sprintf("g%d", gi))
			for vi, v := range variants(rng, d, n) {
				vdir := filepath.Join(dir, fmt.Sprintf("v%d", vi))
				files, stdin, err := materialise(d, &v, vdir)
				if err != nil {
					panic(err)
				}
				kinds := []string{"csv", "snap"}
				if d.Cmd == "analyze" {
					kinds = []string{"snap"}
				}
				for _, kind := range kinds {
					argv := cmdArgs(d, kind)
					argv = append(argv, "--workers", fmt.Sprint(v.Workers), "--batch", fmt.Sprint(v.Batch),
						"--batch-buffer", fmt.Sprint(v.BatchBuf), "--readers", fmt.Sprint(v.Readers))
					gz := false
					for _, k := range v.Kinds {
						gz = gz || k == "gzip"
					}
					if gz && !v.Stdin {
						argv = append(argv, "-z")
					}
					if !v.Stdin {
						argv = append(argv, files...)
					}
					code, stdout, stderr := execRare(*bin, argv, stdin, v.Pace, v.Procs, vdir)
					msg := "none"
					if strings.Contains(stderr, "Read errors") {
						msg = "read"
					} else if strings.Contains(stderr, "Parse errors") {
						msg = "parse"
					}
					rs := make([][]int, len(v.Ranges))
					names := make([][]int, len(v.Ranges))
					for i, r := range v.Ranges {
						rs[i] = []int{r[0], r[1]}
						if v.Stdin {
							names[i] = vh.BS("<stdin>")
						} else {
							names[i] = vh.BS(fileName(i, v.Kinds[i]))
						}
					}
					pace := make([][]int, len(v.Pace))
					for i, p := range v.Pace {
						pace[i] = []int{p[0], p[1]}
					}
					serr := stderr
					if len(serr) > 300 {
						serr = serr[:300]
					}
					rec := M{"event": "run", "kind": kind, "ranges": rs, "names": names, "pace": pace, "kinds": v.Kinds, "stdin": v.Stdin, "missing": v.Missing,
						"readers": v.Readers, "workers": v.Workers, "batch": v.Batch, "bbuf": v.BatchBuf, "gomaxprocs": v.Procs,
						"exit": code, "msg": msg, "stdout": vh.B(stdout), "argv": argv, "stderr": serr, "eol": d.Eol, "width": d.Width}
					g.runs = append(g.runs, rec)
					if d.Expect != nil && !v.NoB1 && (d.orderFree() || (v.Workers == 1 && v.Readers == 1)) {
						g.b1++
						if why := b1Compare(d, kind, v.Missing, code, msg, stdout); why != "" {
							g.mism = append(g.mism, M{"t": gi + 1, "why": why, "cmd": d.Cmd, "argv": argv, "stdout": string(stdout),
								"exit": code, "msg": msg, "expect": d.Expect})
						}
					}
				}
				os.RemoveAll(vdir)
			}
		}(gi)
	}
	wg.Wait()

	w, err := vh.NewNdWriter(*out)
	if err != nil {
		return err
	}
	nruns, b1 := 0, 0
	var mism []M
	var samples []M
	for i := range groups {
		w.Write(groups[i].reset)
		for _, r := range groups[i].runs {
			w.Write(r)
			nruns++
		}
		b1 += groups[i].b1
		mism = append(mism, groups[i].mism...)
		if len(samples) < 3 && len(groups[i].runs) > 0 {
			r := groups[i].runs[0]
			samples = append(samples, M{"argv": r["argv"], "exit": r["exit"], "stdout": string(vh.FromInts(r["stdout"].([]int)))})
		}
	}
	w.Close()
	if mism == nil {
		mism = []M{}
	}
	vh.WriteJSON(*res, M{"groups": len(groups), "runs": nruns, "b1_compared": b1, "b1_mismatches": mism, "samples": samples})
	return nil
}

func lineBytes(d *desc, lo, hi int) []byte {
	var b bytes.Buffer
	for i := lo; i <= hi; i++ {
		b.Write(vh.FromInts(d.Pool[d.Seq[i-1]-1]))
		if d.Eol == "crlf" {
			b.WriteByte('\r')
		}
		b.WriteByte('\n')
	}
	return b.Bytes()
}

// the file arguments are relative to the working directory of the run: {src} reads exactly these names
func fileName(i int, kind string) string {
	if kind == "gzip" {
		return fmt.Sprintf("f%d.log.gz", i)
	}
	return fmt.Sprintf("f%d.log", i)
}

func materialise(d *desc, v *variant, dir string) (files []string, stdin []byte, err error) {
	if err = os.MkdirAll(dir, 0o755); err != nil {
		return
	}
	if v.Stdin {
		return nil, lineBytes(d, 1, len(d.Seq)), nil
	}
	for i, r := range v.Ranges {
		data := lineBytes(d, r[0], r[1])
		name := fileName(i, v.Kinds[i])
		if v.Kinds[i] == "gzip" {
			var zb bytes.Buffer
			zw := gzip.NewWriter(&zb)
			zw.Write(data)
			zw.Close()
			data = zb.Bytes()
		}
		if err = os.WriteFile(filepath.Join(dir, name), data, 0o644); err != nil {
			return
		}
		files = append(files, name)
	}
	for i := 0; i < v.Missing; i++ {
		// a path that names no file; placed in the middle of the argument list
		p := fmt.Sprintf("missing%d.log", i)
		at := len(files) / 2
		files = append(files[:at], append([]string{p}, files[at:]...)...)
	}
	return
}

// execRare runs the binary; a run that does not finish within the (generous) deadline is retried once
// and then recorded with exit status -9.  With a pace, stdin is a pipe that receives the lines in bursts.
func execRare(bin string, argv []string, stdin []byte, pace [][2]int, procs int, dir string) (int, []byte, string) {
	for attempt := 0; ; attempt++ {
		ctx, cancel := context.WithTimeout(context.Background(), 60*time.Second)
		cmd := exec.CommandContext(ctx, bin, argv...)
		cmd.Dir = dir
		cmd.Env = append(os.Environ(), fmt.Sprintf("GOMAXPROCS=%d", procs), "TERM=dumb", "COLUMNS=80")
		var feeder func()
		if stdin != nil && len(pace) > 0 {
			pw, err := cmd.StdinPipe()
			if err != nil {
				cancel()
				return -8, nil, "EXEC " + err.Error()
			}
			feeder = func() { feedPaced(pw, stdin, pace) }
		} else if stdin != nil {
			cmd.Stdin = bytes.NewReader(stdin)
		} else {
			cmd.Stdin = nil
		}
		var so, se bytes.Buffer
		cmd.Stdout, cmd.Stderr = &so, &se
		err := cmd.Start()
		if err == nil {
			if feeder != nil {
				go feeder()
			}
			err = cmd.Wait()
		}
		timedOut := ctx.Err() != nil
		cancel()
		if timedOut {
			if attempt == 0 {
				continue
			}
			return -9, so.Bytes(), "TIMEOUT " + se.String()
		}
		code := 0
		if err != nil {
			if ee, ok := err.(*exec.ExitError); ok {
				code = ee.ExitCode()
			} else {
				return -8, so.Bytes(), "EXEC " + err.Error()
			}
		}
		return code, so.Bytes(), se.String()
	}
}

// feedPaced writes bursts of whole lines, sleeps after each of them, writes the rest and closes the pipe
func feedPaced(w io.WriteCloser, data []byte, pace [][2]int) {
	defer w.Close()
	pos := 0
	for _, p := range pace {
		end := pos
		for k := 0; k < p[0] && end < len(data); k++ {
			nl := bytes.IndexByte(data[end:], '\n')
			if nl < 0 {
				end = len(data)
				break
			}
			end += nl + 1
		}
		if _, err := w.Write(data[pos:end]); err != nil {
			return
		}
		pos = end
		time.Sleep(time.Duration(p[1]) * time.Millisecond)
	}
	w.Write(data[pos:])
}

// B1: TLC's expected result against the run, CSV parsed by encoding/csv
func b1Compare(d *desc, kind string, missing, code int, msg string, stdout []byte) string {
	e := d.Expect
	wantCode, wantMsg := e.Code, e.Msg
	if missing > 0 {
		wantCode, wantMsg = 2, "read"
	}
	if code != wantCode {
		return fmt.Sprintf("exit-status: got %d, spec %d", code, wantCode)
	}
	if msg != wantMsg {
		return fmt.Sprintf("exit-message: got %s, spec %s", msg, wantMsg)
	}
	if kind != "csv" {
		return ""
	}
	rd := csv.NewReader(bytes.NewReader(stdout))
	rd.FieldsPerRecord = -1
	got, err := rd.ReadAll()
	if err != nil {
		return "csv-malformed: " + err.Error()
	}
	var want [][]string
	for _, r := range e.Csv {
		if len(r) == 1 && len(r[0]) == 0 {
			continue // a record of one empty field is an empty line, which encoding/csv skips
		}
		row := make([]string, len(r))
		for i, f := range r {
			row[i] = string(vh.FromInts(f))
		}
		want = append(want, row)
	}
	if len(got) != len(want) {
		return fmt.Sprintf("csv-rows: %d records, spec %d", len(got), len(want))
	}
	for i := range got {
		if strings.Join(got[i], "\x01") != strings.Join(want[i], "\x01") || len(got[i]) != len(want[i]) {
			return fmt.Sprintf("csv-rows: record %d = %q, spec %q", i, got[i], want[i])
		}
	}
	return ""
}

package main

// C03 - final aggregates equal the reference aggregation, independent of parallelism.
//   c03 gen : seeded large corpus descriptors (keys with commas, quotes, spaces, UTF-8, leading '=')
//   c03 run : materialises descriptors (from TLC's Rare_Gen and from `gen`) as plain / gzip files / stdin,
//             runs the REAL rare binary for each of them under a matrix of tuning flags, file divisions
//             and GOMAXPROCS, records every run (reset/run events for Rare_Trace.tla) and, for
//             descriptors that carry TLC's expected result, compares it directly (B1; CSV parsed with
//             encoding/csv as a second, independent decoder).

import (
	"bytes"
	"compress/gzip"
	"context"
	"encoding/csv"
	"encoding/json"
	"flag"
	"fmt"
	"math/rand"
	"os"
	"os/exec"
	"path/filepath"
	"sort"
	"strings"
	"sync"
	"time"

	"verifharness/vh"
)

func main() {
	vh.Main(vh.Commands{"gen": c03Gen, "run": c03Run})
}

type M = vh.M

const matchExpr = `^([^|]*)\|([^|]*)\|([^|]*)$`

type expect struct {
	Csv  [][][]int `json:"csv"`
	Code int       `json:"code"`
	Msg  string    `json:"msg"`
}

type desc struct {
	Pool   [][]int  `json:"pool"`
	Seq    []int    `json:"seq"` // 1-based pool indices
	Cmd    string   `json:"cmd"`
	Ext    []int    `json:"ext"`
	Ig     int      `json:"ig"`
	Iv     []int    `json:"iv"`
	Grp    int      `json:"grp"`
	Acc    []string `json:"acc"`
	Gname  []int    `json:"gname"`
	Anames [][]int  `json:"anames"`
	Expect *expect  `json:"expect,omitempty"`
	Big    bool     `json:"big,omitempty"`
	// read-buffer geometry corpora: fixed-width lines; Width = bytes per line incl. the terminator (0 = not geometric)
	Width int    `json:"width,omitempty"`
	Eol   string `json:"eol,omitempty"` // "" / "lf": lines end in LF; "crlf": in CR LF (the scanner drops the CR)
}

// the pipeline reads through a 128 KiB buffer (readahead / batchers ReadAheadBufferSize)
const readBuf = 131072

func (d *desc) orderFree() bool {
	for _, a := range d.Acc {
		if a == "last" {
			return false
		}
	}
	return true
}

// ------------------------------------------------------------------ gen
var keyPool = []string{"a", "b", "a,b", `q"`, " lead", "trail ", "=x", "héllo", "日本", "x y", `""`, "'", ",", `"`,
	"-", "=1+1", "@cmd", "\tt", "10", "2", "9", "k1", "k2", "k3", "k4", "k5", "k6", "k7", "zeta", "A", "B,\"c\""}
var subPool = []string{"x", "y", "z", "", "s,1", "w w", `"`, "ü"}
var incGood = []string{"1", "2", "5", "10", "-3", "0", "100", "+4", "007", "1", "1", "3"}
var incBad = []string{"x", "", "1x"}
var junk = []string{"garbage", "a|b", "a|b|c|d", "", "   ", "|"}

func c03Gen(args []string) error {
	fs := flag.NewFlagSet("gen", flag.ExitOnError)
	out := fs.String("out", "desc.ndjson", "")
	n := fs.Int("n", 7, "descriptors")
	ngeom := fs.Int("geom", 0, "read-buffer geometry descriptors")
	minLines := fs.Int("min", 1000, "")
	maxLines := fs.Int("max", 10000, "")
	fs.Parse(args)
	rng := vh.NewRand(3)
	w, err := vh.NewNdWriter(*out)
	if err != nil {
		return err
	}
	defer w.Close()
	cmds := cmdFamily()
	genGeom(w, *ngeom)
	for i := 0; i < *n; i++ {
		cd := cmds[i%len(cmds)]
		d := cd
		d.Big = true
		nkeys := 3 + rng.Intn(18)
		keys := pick(rng, keyPool, nkeys)
		subs := pick(rng, subPool, 1+rng.Intn(5))
		clean := rng.Intn(3) == 0 // no parse errors, no junk: exit status 0 family
		pool := map[string]int{}
		var plist [][]int
		add := func(s string) int {
			if ix, ok := pool[s]; ok {
				return ix
			}
			plist = append(plist, vh.BS(s))
			pool[s] = len(plist)
			return len(plist)
		}
		nlines := *minLines + rng.Intn(*maxLines-*minLines+1)
		if d.Cmd == "analyze" && nlines > 100000 {
			nlines = 100000
		}
		seq := make([]int, 0, nlines)
		for len(seq) < nlines {
			var line string
			r := rng.Intn(100)
			switch {
			case !clean && r < 4:
				line = junk[rng.Intn(len(junk))]
			case !clean && r < 7:
				line = keys[rng.Intn(len(keys))] + "|" + subs[rng.Intn(len(subs))] + "|" + incBad[rng.Intn(len(incBad))]
			case !clean && r < 9:
				line = "|" + subs[rng.Intn(len(subs))] + "|" + incGood[rng.Intn(len(incGood))]
			default:
				// skewed key distribution, so value order is interesting; equal counts happen too
				k := keys[int(float64(len(keys))*rng.Float64()*rng.Float64())]
				line = k + "|" + subs[rng.Intn(len(subs))] + "|" + incGood[rng.Intn(len(incGood))]
			}
			ix := add(line)
			if len(plist) > 400 { // keep the pool small: reuse
				ix = 1 + rng.Intn(len(plist))
			}
			seq = append(seq, ix)
		}
		if d.Ig != 0 {
			d.Iv = vh.BS(subs[0])
			if len(d.Iv) == 0 || !isWord(subs[0]) {
				d.Iv = vh.BS("y")
			}
		}
		d.Pool, d.Seq = plist, seq
		w.Write(d)
	}
	return nil
}

// genGeom: corpora whose line ends fall exactly on the ends of the 128 KiB read buffer: fixed-width lines
// whose width divides 131072, more than three buffers of them, keys cyclic over a few hundred values with
// unequal per-key counts and varying increments (so a line or key that is overwritten, lost or duplicated
// changes the aggregate); the same with the first line one byte longer (no line end on a buffer end any more)
// and with CR LF terminators.
func genGeom(w *vh.NdWriter, n int) {
	type gshape struct {
		width int
		eol   string
		shift bool
		cmd   int
	}
	mk := func(cmd string, ext []int) desc {
		return desc{Cmd: cmd, Ext: ext, Iv: []int{}, Acc: []string{}, Gname: vh.BS("k"), Anames: [][]int{}}
	}
	cmds := []desc{mk("histogram", []int{1}), mk("table", []int{1, 2, 3}), mk("histogram", []int{1, 3}),
		mk("bargraph", []int{1, 2, 3}), mk("heatmap", []int{2, 1})}
	widths := []int{16, 64, 32, 8}
	rot := int(vh.Seed()) % len(widths)
	var shapes []gshape
	for round := 0; len(shapes) < n; round++ {
		wd := widths[(round+rot)%len(widths)]
		wd2 := widths[(round+rot+1)%len(widths)]
		shapes = append(shapes,
			gshape{wd, "lf", false, round % len(cmds)},
			gshape{wd2, "crlf", false, (round + 1) % len(cmds)},
			gshape{wd, "lf", true, round % len(cmds)})
	}
	for _, g := range shapes[:n] {
		if g.eol == "crlf" && g.width == 8 {
			g.eol = "lf" // 6 bytes of content cannot hold key|sub|inc with a two digit key
		}
		d := cmds[g.cmd]
		d.Big, d.Width, d.Eol = true, g.width, g.eol
		content := g.width - 1
		if g.eol == "crlf" {
			content = g.width - 2
		}
		// a little more than three buffers
		nlines := (3*readBuf + readBuf/5) / g.width
		K, kd := 251, 3
		if content < 12 {
			K, kd = 97, 2
		}
		pool := map[string]int{}
		d.Pool, d.Seq = nil, make([]int, 0, nlines)
		for i := 0; i < nlines; i++ {
			key := fmt.Sprintf("k%0*d", kd, (i*i+i/7)%K)
			inc := fmt.Sprint(1 + i%9)
			padn := content - len(key) - len(inc) - 2
			if i == 0 && g.shift {
				padn++
			}
			sub := string("xyz"[i%3]) + strings.Repeat("p", padn-1)
			line := key + "|" + sub + "|" + inc
			ix, ok := pool[line]
			if !ok {
				d.Pool = append(d.Pool, vh.BS(line))
				ix = len(d.Pool)
				pool[line] = ix
			}
			d.Seq = append(d.Seq, ix)
		}
		w.Write(d)
	}
}

func isWord(s string) bool {
	for _, c := range s {
		if c < 'a' || c > 'z' {
			return false
		}
	}
	return s != ""
}

func pick(rng *rand.Rand, from []string, n int) []string {
	p := rng.Perm(len(from))
	if n > len(from) {
		n = len(from)
	}
	out := make([]string, n)
	for i := 0; i < n; i++ {
		out[i] = from[p[i]]
	}
	return out
}

// the command descriptors used for the large corpora (same family as Rare_Gen.tla)
func cmdFamily() []desc {
	mk := func(cmd string, ext []int, ig int, grp int, acc ...string) desc {
		d := desc{Cmd: cmd, Ext: ext, Ig: ig, Iv: []int{}, Grp: grp, Acc: acc, Gname: vh.BS("k"), Anames: [][]int{}}
		if d.Acc == nil {
			d.Acc = []string{}
		}
		for _, a := range acc {
			d.Anames = append(d.Anames, vh.BS(accName(a)))
		}
		return d
	}
	return []desc{
		mk("histogram", []int{1, 3}, 0, 0),
		mk("table", []int{1, 2, 3}, 0, 0),
		mk("heatmap", []int{1, 2, 3}, 2, 0),
		mk("spark", []int{2, 1}, 0, 0),
		mk("bargraph", []int{1, 2, 3}, 0, 0),
		mk("analyze", []int{3}, 0, 0),
		mk("reduce", []int{1, 2, 3}, 0, 1, "count", "sum", "max"),
		mk("histogram", []int{1}, 2, 0),
		mk("reduce", []int{1, 2, 3}, 0, 2, "sum", "last"),
		mk("bargraph", []int{2, 1}, 0, 0),
		mk("reduce", []int{1, 2, 3}, 0, 0, "count", "sum"),
	}
}

func accName(tag string) string {
	switch tag {
	case "count":
		return "n"
	case "sum":
		return "s"
	case "max":
		return "mx"
	}
	return tag
}

func accExpr(tag string) string {
	switch tag {
	case "count":
		return "n={sumi {.} 1}"
	case "sum":
		return "s={sumi {.} {3}}"
	case "max":
		return "mx={maxi {.} {3}}"
	}
	return "last={3}"
}

// ------------------------------------------------------------------ run
type variant struct {
	Ranges   [][2]int
	Kinds    []string // plain | gzip, per range
	Stdin    bool
	Missing  int
	Workers  int
	Batch    int
	BatchBuf int
	Readers  int
	Procs    int
}

func cmdArgs(d *desc, kind string) []string {
	a := []string{}
	if kind == "snap" {
		a = append(a, "--nocolor", "--noformat")
	}
	a = append(a, d.Cmd, "-m", matchExpr)
	if d.Cmd == "reduce" {
		if d.Grp != 0 {
			a = append(a, "-g", fmt.Sprintf("k={%d}", d.Grp))
		}
		for _, t := range d.Acc {
			a = append(a, "-a", accExpr(t))
		}
	} else {
		for _, g := range d.Ext {
			a = append(a, "-e", fmt.Sprintf("{%d}", g))
		}
	}
	if d.Ig != 0 {
		a = append(a, "-i", fmt.Sprintf("{eq {%d} %s}", d.Ig, string(vh.FromInts(d.Iv))))
	}
	if kind == "csv" {
		a = append(a, "--csv", "-")
	} else {
		a = append(a, "--snapshot")
		if d.Cmd == "analyze" {
			a = append(a, "-x")
		}
	}
	return a
}

// geometry corpora: one file, gzip, stdin, and two-file splits at a buffer end / away from it
func geomVariants(rng *rand.Rand, d *desc, nv int) []variant {
	n := len(d.Seq)
	tune := func(v variant) variant {
		v.Workers = []int{1, 2, 8}[rng.Intn(3)]
		v.Batch = []int{7, 1000}[rng.Intn(2)]
		v.BatchBuf = []int{1, 3}[rng.Intn(2)]
		v.Readers = []int{1, 3}[rng.Intn(2)]
		v.Procs = []int{1, 4, 16}[rng.Intn(3)]
		return v
	}
	whole := [][2]int{{1, n}}
	perBuf := readBuf / d.Width
	split := func(at int, k1, k2 string, swap bool) variant {
		v := variant{Ranges: [][2]int{{1, at}, {at + 1, n}}, Kinds: []string{k1, k2}}
		if swap {
			v.Ranges[0], v.Ranges[1] = v.Ranges[1], v.Ranges[0]
			v.Kinds[0], v.Kinds[1] = v.Kinds[1], v.Kinds[0]
		}
		return tune(v)
	}
	vs := []variant{
		{Ranges: whole, Kinds: []string{"plain"}, Workers: 1, Batch: 1000, BatchBuf: 1, Readers: 1, Procs: 1},
		split(perBuf/2+rng.Intn(perBuf/4), "plain", "plain", false), // no line end on a buffer end in either file
		tune(variant{Ranges: whole, Kinds: []string{"plain"}, Stdin: true}),
		tune(variant{Ranges: whole, Kinds: []string{"gzip"}}),
		split(perBuf, "plain", "gzip", true),          // first file is exactly one buffer
		split(2*perBuf+1+rng.Intn(50), "gzip", "plain", false),
		tune(variant{Ranges: whole, Kinds: []string{"plain"}}),
	}
	for len(vs) < nv {
		vs = append(vs, split(1+rng.Intn(n-1), []string{"plain", "gzip"}[rng.Intn(2)], "plain", rng.Intn(2) == 0))
	}
	if nv < len(vs) {
		vs = vs[:nv]
	}
	return vs
}

func variants(rng *rand.Rand, d *desc, nv int) []variant {
	if d.Width > 0 {
		return geomVariants(rng, d, nv)
	}
	n := len(d.Seq)
	seqOnly := !d.orderFree()
	whole := [][2]int{{1, n}}
	vs := []variant{{Ranges: whole, Kinds: []string{"plain"}, Workers: 1, Batch: 1000, BatchBuf: 1, Readers: 1, Procs: 1}}
	for len(vs) < nv {
		v := variant{
			Workers:  []int{1, 2, 8}[rng.Intn(3)],
			Batch:    []int{1, 2, 7, 1000}[rng.Intn(4)],
			BatchBuf: []int{1, 3}[rng.Intn(2)],
			Readers:  []int{1, 3}[rng.Intn(2)],
			Procs:    []int{1, 4, 16}[rng.Intn(3)],
		}
		if d.Big && v.Batch < 7 && n > 20000 {
			v.Batch = 7
		}
		if seqOnly {
			v.Workers, v.Readers = 1, 1
		}
		shape := rng.Intn(10)
		switch {
		case shape == 0 && len(vs) >= 2:
			v.Stdin = true
			v.Ranges, v.Kinds = whole, []string{"plain"}
		default:
			k := 1 + rng.Intn(4)
			if k > n+1 {
				k = n + 1
			}
			cuts := []int{0, n}
			for i := 1; i < k; i++ {
				cuts = append(cuts, rng.Intn(n+1))
			}
			sort.Ints(cuts)
			for i := 0; i+1 < len(cuts); i++ {
				v.Ranges = append(v.Ranges, [2]int{cuts[i] + 1, cuts[i+1]}) // may be empty (lo = hi+1)
				kind := "plain"
				if rng.Intn(3) == 0 {
					kind = "gzip"
				}
				v.Kinds = append(v.Kinds, kind)
			}
			if !seqOnly {
				rng.Shuffle(len(v.Ranges), func(i, j int) {
					v.Ranges[i], v.Ranges[j] = v.Ranges[j], v.Ranges[i]
					v.Kinds[i], v.Kinds[j] = v.Kinds[j], v.Kinds[i]
				})
			}
			// a read error must win over "no data" and over parse errors: corpora whose model exit
			// status is not 0 always get one variant with an argument that names no file
			if shape == 1 || (d.Expect != nil && d.Expect.Code != 0 && !hasMissing(vs)) {
				v.Missing = 1
			}
		}
		vs = append(vs, v)
	}
	return vs
}

func hasMissing(vs []variant) bool {
	for _, v := range vs {
		if v.Missing > 0 {
			return true
		}
	}
	return false
}

type runRec struct {
	rec  M
	kind string
}

func c03Run(args []string) error {
	fs := flag.NewFlagSet("run", flag.ExitOnError)
	in := fs.String("in", "desc.ndjson", "")
	out := fs.String("out", "trace.ndjson", "")
	res := fs.String("res", "result.json", "")
	bin := fs.String("rare", "", "rare binary")
	nv := fs.Int("variants", 3, "variants per descriptor")
	nvBig := fs.Int("variants-big", 5, "variants per big descriptor")
	nvGeom := fs.Int("variants-geom", 6, "variants per read-buffer geometry descriptor")
	par := fs.Int("par", 6, "parallel descriptors")
	work := fs.String("work", "", "scratch directory")
	fs.Parse(args)
	if *work == "" {
		*work = filepath.Join(filepath.Dir(*out), "c03-work")
	}
	os.MkdirAll(*work, 0o755)
	defer os.RemoveAll(*work)

	var descs []*desc
	if err := vh.ReadNd(*in, func(raw json.RawMessage) error {
		var d desc
		if err := json.Unmarshal(raw, &d); err != nil {
			return err
		}
		descs = append(descs, &d)
		return nil
	}); err != nil {
		return err
	}

	type group struct {
		reset M
		runs  []M
		mism  []M
		b1    int
	}
	groups := make([]group, len(descs))
	var wg sync.WaitGroup
	sem := make(chan struct{}, *par)
	for gi := range descs {
		wg.Add(1)
		sem <- struct{}{}
		go func(gi int) {
			defer wg.Done()
			defer func() { <-sem }()
			d := descs[gi]
			rng := vh.NewRand(int64(1000 + gi))
			n := *nv
			if d.Big {
				n = *nvBig
				if d.Width > 0 {
					n = *nvGeom
				}
			}
			g := &groups[gi]
			g.reset = M{"event": "reset", "t": gi + 1, "pool": d.Pool, "seq": d.Seq, "cmd": d.Cmd, "ext": d.Ext, "ig": d.Ig,
				"iv": d.Iv, "grp": d.Grp, "acc": d.Acc, "gname": d.Gname, "anames": d.Anames}
			dir := filepath.Join(*work, fmt.Sprintf("g%d", gi))
			for vi, v := range variants(rng, d, n) {
				vdir := filepath.Join(dir, fmt.Sprintf("v%d", vi))
				files, stdin, err := materialise(d, &v, vdir)
				if err != nil {
					panic(err)
				}
				kinds := []string{"csv", "snap"}
				if d.Cmd == "analyze" {
					kinds = []string{"snap"}
				}
				for _, kind := range kinds {
					argv := cmdArgs(d, kind)
					argv = append(argv, "--workers", fmt.Sprint(v.Workers), "--batch", fmt.Sprint(v.Batch),
						"--batch-buffer", fmt.Sprint(v.BatchBuf), "--readers", fmt.Sprint(v.Readers))
					gz := false
					for _, k := range v.Kinds {
						gz = gz || k == "gzip"
					}
					if gz && !v.Stdin {
						argv = append(argv, "-z")
					}
					if !v.Stdin {
						argv = append(argv, files...)
					}
					code, stdout, stderr := execRare(*bin, argv, stdin, v.Procs, vdir)
					msg := "none"
					if strings.Contains(stderr, "Read errors") {
						msg = "read"
					} else if strings.Contains(stderr, "Parse errors") {
						msg = "parse"
					}
					rs := make([][]int, len(v.Ranges))
					for i, r := range v.Ranges {
						rs[i] = []int{r[0], r[1]}
					}
					serr := stderr
					if len(serr) > 300 {
						serr = serr[:300]
					}
					rec := M{"event": "run", "kind": kind, "ranges": rs, "kinds": v.Kinds, "stdin": v.Stdin, "missing": v.Missing,
						"readers": v.Readers, "workers": v.Workers, "batch": v.Batch, "bbuf": v.BatchBuf, "gomaxprocs": v.Procs,
						"exit": code, "msg": msg, "stdout": vh.B(stdout), "argv": argv, "stderr": serr, "eol": d.Eol, "width": d.Width}
					g.runs = append(g.runs, rec)
					if d.Expect != nil && (d.orderFree() || (v.Workers == 1 && v.Readers == 1)) {
						g.b1++
						if why := b1Compare(d, kind, v.Missing, code, msg, stdout); why != "" {
							g.mism = append(g.mism, M{"t": gi + 1, "why": why, "cmd": d.Cmd, "argv": argv, "stdout": string(stdout),
								"exit": code, "msg": msg, "expect": d.Expect})
						}
					}
				}
				os.RemoveAll(vdir)
			}
		}(gi)
	}
	wg.Wait()

	w, err := vh.NewNdWriter(*out)
	if err != nil {
		return err
	}
	nruns, b1 := 0, 0
	var mism []M
	var samples []M
	for i := range groups {
		w.Write(groups[i].reset)
		for _, r := range groups[i].runs {
			w.Write(r)
			nruns++
		}
		b1 += groups[i].b1
		mism = append(mism, groups[i].mism...)
		if len(samples) < 3 && len(groups[i].runs) > 0 {
			r := groups[i].runs[0]
			samples = append(samples, M{"argv": r["argv"], "exit": r["exit"], "stdout": string(vh.FromInts(r["stdout"].([]int)))})
		}
	}
	w.Close()
	if mism == nil {
		mism = []M{}
	}
	vh.WriteJSON(*res, M{"groups": len(groups), "runs": nruns, "b1_compared": b1, "b1_mismatches": mism, "samples": samples})
	return nil
}

func lineBytes(d *desc, lo, hi int) []byte {
	var b bytes.Buffer
	for i := lo; i <= hi; i++ {
		b.Write(vh.FromInts(d.Pool[d.Seq[i-1]-1]))
		if d.Eol == "crlf" {
			b.WriteByte('\r')
		}
		b.WriteByte('\n')
	}
	return b.Bytes()
}

func materialise(d *desc, v *variant, dir string) (files []string, stdin []byte, err error) {
	if err = os.MkdirAll(dir, 0o755); err != nil {
		return
	}
	if v.Stdin {
		return nil, lineBytes(d, 1, len(d.Seq)), nil
	}
	for i, r := range v.Ranges {
		data := lineBytes(d, r[0], r[1])
		name := filepath.Join(dir, fmt.Sprintf("f%d.log", i))
		if v.Kinds[i] == "gzip" {
			name += ".gz"
			var zb bytes.Buffer
			zw := gzip.NewWriter(&zb)
			zw.Write(data)
			zw.Close()
			data = zb.Bytes()
		}
		if err = os.WriteFile(name, data, 0o644); err != nil {
			return
		}
		files = append(files, name)
	}
	for i := 0; i < v.Missing; i++ {
		// a path that names no file; placed in the middle of the argument list
		p := filepath.Join(dir, fmt.Sprintf("missing%d.log", i))
		at := len(files) / 2
		files = append(files[:at], append([]string{p}, files[at:]...)...)
	}
	return
}

// execRare runs the binary; a run that does not finish within the (generous) deadline is retried once
// and then recorded with exit status -9.
func execRare(bin string, argv []string, stdin []byte, procs int, dir string) (int, []byte, string) {
	for attempt := 0; ; attempt++ {
		ctx, cancel := context.WithTimeout(context.Background(), 60*time.Second)
		cmd := exec.CommandContext(ctx, bin, argv...)
		cmd.Dir = dir
		cmd.Env = append(os.Environ(), fmt.Sprintf("GOMAXPROCS=%d", procs), "TERM=dumb", "COLUMNS=80")
		if stdin != nil {
			cmd.Stdin = bytes.NewReader(stdin)
		} else {
			cmd.Stdin = nil
		}
		var so, se bytes.Buffer
		cmd.Stdout, cmd.Stderr = &so, &se
		err := cmd.Run()
		timedOut := ctx.Err() != nil
		cancel()
		if timedOut {
			if attempt == 0 {
				continue
			}
			return -9, so.Bytes(), "TIMEOUT " + se.String()
		}
		code := 0
		if err != nil {
			if ee, ok := err.(*exec.ExitError); ok {
				code = ee.ExitCode()
			} else {
				return -8, so.Bytes(), "EXEC " + err.Error()
			}
		}
		return code, so.Bytes(), se.String()
	}
}

// B1: TLC's expected result against the run, CSV parsed by encoding/csv
func b1Compare(d *desc, kind string, missing, code int, msg string, stdout []byte) string {
	e := d.Expect
	wantCode, wantMsg := e.Code, e.Msg
	if missing > 0 {
		wantCode, wantMsg = 2, "read"
	}
	if code != wantCode {
		return fmt.Sprintf("exit-status: got %d, spec %d", code, wantCode)
	}
	if msg != wantMsg {
		return fmt.Sprintf("exit-message: got %s, spec %s", msg, wantMsg)
	}
	if kind != "csv" {
		return ""
	}
	rd := csv.NewReader(bytes.NewReader(stdout))
	rd.FieldsPerRecord = -1
	got, err := rd.ReadAll()
	if err != nil {
		return "csv-malformed: " + err.Error()
	}
	var want [][]string
	for _, r := range e.Csv {
		if len(r) == 1 && len(r[0]) == 0 {
			continue // a record of one empty field is an empty line, which encoding/csv skips
		}
		row := make([]string, len(r))
		for i, f := range r {
			row[i] = string(vh.FromInts(f))
		}
		want = append(want, row)
	}
	if len(got) != len(want) {
		return fmt.Sprintf("csv-rows: %d records, spec %d", len(got), len(want))
	}
	for i := range got {
		if strings.Join(got[i], "\x01") != strings.Join(want[i], "\x01") || len(got[i]) != len(want[i]) {
			return fmt.Sprintf("csv-rows: record %d = %q, spec %q", i, got[i], want[i])
		}
	}
	return ""
}

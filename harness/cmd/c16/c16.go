package main

// C16 - JSON views of a match ({.}, {#}, {.#}) are valid, faithful and deterministic.
//
//   replay : evaluates the TLC-enumerated inputs of MiniJson_Gen on the real code - minijson
//            directly, and extractor.New with a regex and a dissect matcher and -e {.}/{#}/{.#} -
//            many times per match (same instance, fresh instances) and records the output bytes (B1)
//   trace  : seeded random group contents (up to 200 bytes: arbitrary bytes, control characters,
//            numeric shapes, literals, UTF-8 of every length), 1..4 groups, 0..3 of them named,
//            through the extractor and the builder; plus cross-validation samples of the TLA+
//            recogniser against encoding/json (B2)
//   cli    : `rare histogram -e {.}` over identical lines, `rare filter -l -e ..` in fresh
//            processes, `rare expression -d .. -k ..` in fresh processes (B2)
//   one    : evaluates one match in this (fresh) process and prints the text as a JSON byte array
//
// Histories: every extractor run goes through runHistory - 1.. sources whose line numbers restart at 1,
// fed as batches to ONE extractor.New with 1.. workers (each worker owns one long-lived expression
// context), optionally with an ignore set that evaluates the view on the worker's context before the
// extraction does (accessor after mutator, repeated evaluation of the same match).  The probe runs
// under recover: a panic of the real code is recorded as a crash observation and the line is dropped,
// so the process survives; every set of lines is first run guarded (with the probe) and the lines that
// crash are not evaluated unguarded.
//
// The driver never decides whether a text is acceptable: every record is validated by TLC
// (MiniJson_Trace) on the recorded bytes.  `gov` (encoding/json's opinion) is recorded only to
// cross-check the specification's recogniser.

import (
	"bytes"
	"encoding/csv"
	"encoding/json"
	"flag"
	"fmt"
	"io"
	"math/rand"
	"os"
	"os/exec"
	"path/filepath"
	"regexp"
	"sort"
	"strconv"
	"strings"
	"sync"
	"unicode/utf8"

	"rare/pkg/expressions"
	"rare/pkg/extractor"
	"rare/pkg/matchers"
	"rare/pkg/matchers/dissect"
	"rare/pkg/matchers/fastregex"
	"rare/pkg/minijson"

	"verifharness/vh"
)

func main() {
	vh.Main(vh.Commands{"replay": c16Replay, "trace": c16Trace, "cli": c16Cli, "one": c16One})
}

type M = vh.M

var B = vh.B

func BB(l [][]byte) [][]int {
	out := make([][]int, len(l))
	for i, b := range l {
		out[i] = B(b)
	}
	return out
}

// ---------------------------------------------------------------------------------------------
// matchers

type matcherSpec struct {
	Kind string // regex | dissect
	Pat  string
}

var factories = map[matcherSpec]matchers.Factory{}

func (m matcherSpec) factory() (matchers.Factory, error) {
	if f, ok := factories[m]; ok {
		return f, nil
	}
	var f matchers.Factory
	if m.Kind == "regex" {
		r, err := fastregex.CompileEx(m.Pat, false)
		if err != nil {
			return nil, err
		}
		f = matchers.ToFactory(r)
	} else {
		d, err := dissect.CompileEx(m.Pat, false)
		if err != nil {
			return nil, err
		}
		f = matchers.ToFactory(d)
	}
	factories[m] = f
	return f, nil
}

// name table of a matcher instance sorted by group index: [[name bytes, index], ...]
func nameTable(f matchers.Factory) [][2]interface{} {
	tbl := f.CreateInstance().SubexpNameTable()
	type kv struct {
		k string
		v int
	}
	var l []kv
	for k, v := range tbl {
		l = append(l, kv{k, v})
	}
	sort.Slice(l, func(i, j int) bool {
		if l[i].v != l[j].v {
			return l[i].v < l[j].v
		}
		return l[i].k < l[j].k
	})
	out := make([][2]interface{}, 0, len(l))
	for _, e := range l {
		out = append(out, [2]interface{}{vh.BS(e.k), e.v})
	}
	return out
}

// the pattern for n groups separated by '|'; named[i] = name of group i+1 or "".
// regex: every position is a group; dissect: unnamed positions are skipped tokens (no group).
func buildPattern(kind string, names []string, ghost bool) string {
	var sb strings.Builder
	if kind == "regex" {
		sb.WriteString("(?s)^")
		if ghost { // a named group that never takes part in the match
			sb.WriteString("(?:(?P<zz>\\|\\|\\|))?")
		}
		for i, n := range names {
			if i > 0 {
				sb.WriteString(`\|`)
			}
			if n != "" {
				sb.WriteString("(?P<" + n + ">[^|]*)")
			} else {
				sb.WriteString("([^|]*)")
			}
		}
		sb.WriteString("$")
		return sb.String()
	}
	for i, n := range names {
		if i > 0 {
			sb.WriteString("|")
		}
		if n != "" {
			sb.WriteString("%{" + n + "}")
		} else {
			sb.WriteString("%{}")
		}
	}
	return sb.String()
}

func viewExpr(view string) string { return "{" + view + "}" }

// ---------------------------------------------------------------------------------------------
// histories

type probeEv struct {
	src, line string
	view      string
	out       string
	crash     string
}

// an ignore set that never ignores a healthy line: it evaluates the view n times on the worker's
// context (the same one the extraction uses right afterwards) and logs what it saw
type probe struct {
	mu    sync.Mutex
	views []string // evaluated in this order for every line; the last one is the view of the extraction
	log   []probeEv
}

func safeGetKey(ctx expressions.KeyBuilderContext, key string) (out string, crash string) {
	defer func() {
		if r := recover(); r != nil {
			crash = fmt.Sprint(r)
			if crash == "" {
				crash = "panic"
			}
		}
	}()
	return ctx.GetKey(key), ""
}

func (p *probe) IgnoreMatch(ctx expressions.KeyBuilderContext) bool {
	src, line := ctx.GetKey("src"), ctx.GetKey("line")
	ignore := false
	var evs []probeEv
	for _, view := range p.views {
		out, crash := safeGetKey(ctx, view)
		evs = append(evs, probeEv{src, line, view, out, crash})
		if crash != "" {
			ignore = true // the extraction would panic in the worker goroutine and take the process down
			break
		}
	}
	p.mu.Lock()
	p.log = append(p.log, evs...)
	p.mu.Unlock()
	return ignore
}

type histCfg struct {
	view      string // the view of the extraction
	probeView string // the view the ignore set evaluates ("" = same); it always ends with the extraction's view (guard)
	probes    int    // evaluations by the ignore set per line (0 = no ignore set)
	workers   int
	batch     int // lines per batch (0 = one batch per source)
}

type histEv struct {
	S      int // source (0-based), Line: 1-based line number inside the source
	Line   int
	Phase  string // ignore | extract
	View   string
	Groups [][]byte
	Out    string
	Crash  string
}

func srcName(i int) string { return "src" + strconv.Itoa(i) }

// runs the sources through a NEW extractor; returns every observed evaluation.  missing = lines that
// produced neither a match nor a crash (setup trouble for patterns that are built to match)
func runHistory(f matchers.Factory, cfg histCfg, sources [][][]byte) (evs []histEv, missing int, err error) {
	nb := 0
	for _, src := range sources {
		nb += len(src) + 1
	}
	ch := make(chan extractor.InputBatch, nb)
	for si, src := range sources {
		bs := cfg.batch
		if bs <= 0 {
			bs = len(src)
		}
		for at := 0; at < len(src); at += bs {
			end := min(at+bs, len(src))
			batch := make([]extractor.BString, 0, end-at)
			for _, l := range src[at:end] {
				batch = append(batch, extractor.BString(append([]byte{}, l...)))
			}
			ch <- extractor.InputBatch{Batch: batch, Source: srcName(si), BatchStart: uint64(at + 1)}
		}
	}
	close(ch)
	conf := &extractor.Config{Matcher: f, Extract: viewExpr(cfg.view), Workers: cfg.workers}
	var pr *probe
	if cfg.probes > 0 {
		pr = &probe{}
		if cfg.probeView != "" && cfg.probeView != cfg.view {
			for i := 0; i < cfg.probes; i++ {
				pr.views = append(pr.views, cfg.probeView)
			}
			pr.views = append(pr.views, cfg.view)
		} else {
			for i := 0; i < cfg.probes; i++ {
				pr.views = append(pr.views, cfg.view)
			}
		}
		conf.Ignore = pr
	}
	ex, err := extractor.New(ch, conf)
	if err != nil {
		return nil, 0, err
	}
	var matches []extractor.Match
	for ms := range ex.ReadChan() {
		matches = append(matches, ms...)
	}
	type key struct{ src, line string }
	probed := map[key][]probeEv{}
	var order []key
	if pr != nil {
		for _, e := range pr.log {
			k := key{e.src, e.line}
			if _, ok := probed[k]; !ok {
				order = append(order, k)
			}
			probed[k] = append(probed[k], e)
		}
	}
	locate := func(src string, line int) (int, []byte, bool) {
		if !strings.HasPrefix(src, "src") {
			return 0, nil, false
		}
		si, e := strconv.Atoi(src[3:])
		if e != nil || si < 0 || si >= len(sources) || line < 1 || line > len(sources[si]) {
			return 0, nil, false
		}
		return si, sources[si][line-1], true
	}
	seen := map[key]bool{}
	inst := f.CreateInstance()
	addProbes := func(k key, si, line int, groups [][]byte) {
		for _, e := range probed[k] {
			evs = append(evs, histEv{S: si, Line: line, Phase: "ignore", View: e.view, Groups: groups, Out: e.out, Crash: e.crash})
		}
		delete(probed, k)
	}
	for _, m := range matches {
		si, text, ok := locate(m.Source, int(m.LineNumber))
		if !ok || string(text) != m.Line {
			return nil, 0, fmt.Errorf("match %s:%d %q is not a line that was sent", m.Source, m.LineNumber, m.Line)
		}
		k := key{m.Source, strconv.FormatUint(m.LineNumber, 10)}
		if seen[k] {
			return nil, 0, fmt.Errorf("match %s:%d delivered twice", m.Source, m.LineNumber)
		}
		seen[k] = true
		g := groupsOf(m)
		addProbes(k, si, int(m.LineNumber), g)
		evs = append(evs, histEv{S: si, Line: int(m.LineNumber), Phase: "extract", View: cfg.view, Groups: g, Out: m.Extracted})
	}
	for _, k := range order { // probed lines without a match: the probe crashed (or the line was dropped)
		if _, left := probed[k]; !left {
			continue
		}
		ln, _ := strconv.Atoi(k.line)
		si, text, ok := locate(k.src, ln)
		if !ok {
			return nil, 0, fmt.Errorf("probe saw %s:%s which was never sent", k.src, k.line)
		}
		seen[k] = true
		idx := inst.FindSubmatchIndex(text)
		addProbes(k, si, ln, groupsOf(extractor.Match{Line: string(text), Indices: idx}))
	}
	for si, src := range sources {
		for li := range src {
			if !seen[key{srcName(si), strconv.Itoa(li + 1)}] {
				missing++
			}
		}
	}
	return evs, missing, nil
}

func crashOf(evs []histEv) string {
	for _, e := range evs {
		if e.Crash != "" {
			return e.Crash
		}
	}
	return ""
}

func evJSON(e histEv) M {
	return M{"s": e.S, "line": e.Line, "phase": e.Phase, "groups": BB(e.Groups),
		"named": strings.Contains(e.View, "."), "numbered": strings.Contains(e.View, "#"),
		"out": vh.BS(e.Out), "crash": e.Crash != "", "gov": e.Crash == "" && gov(e.Out)}
}

func histRecord(src string, t int, f matchers.Factory, cfg histCfg, nsrc int, evs []histEv) M {
	l := make([]M, 0, len(evs))
	msgs := []string{}
	for _, e := range evs {
		l = append(l, evJSON(e))
		if e.Crash != "" {
			msgs = append(msgs, e.Crash)
		}
	}
	return M{"k": "hist", "src": src, "t": t, "names": nameTable(f), "workers": cfg.workers, "batch": cfg.batch, "probes": cfg.probes,
		"sources": nsrc, "evs": l, "panics": msgs}
}

// runs the lines through a NEW extractor (one worker, one source, one batch) and returns the matches
// in order; only for lines that are known not to crash (see evalView)
func runExtractor(f matchers.Factory, expr string, lines [][]byte) ([]extractor.Match, error) {
	ch := make(chan extractor.InputBatch, 1)
	batch := make([]extractor.BString, len(lines))
	for i, l := range lines {
		batch[i] = extractor.BString(l)
	}
	ch <- extractor.InputBatch{Batch: batch, Source: "c16", BatchStart: 1}
	close(ch)
	ex, err := extractor.New(ch, &extractor.Config{Matcher: f, Extract: expr, Workers: 1})
	if err != nil {
		return nil, err
	}
	var out []extractor.Match
	for ms := range ex.ReadChan() {
		out = append(out, ms...)
	}
	return out, nil
}

func groupsOf(m extractor.Match) [][]byte {
	n := len(m.Indices) / 2
	out := make([][]byte, n)
	for i := 0; i < n; i++ {
		s, e := m.Indices[2*i], m.Indices[2*i+1]
		if s < 0 || e < 0 || s > e || e > len(m.Line) {
			out[i] = []byte{}
		} else {
			out[i] = []byte(m.Line[s:e])
		}
	}
	return out
}

type distinct struct {
	first string
	alts  []string
	n     int
}

func (d *distinct) add(s string) {
	d.n++
	if d.n == 1 {
		d.first = s
		return
	}
	if s == d.first {
		return
	}
	for _, a := range d.alts {
		if a == s {
			return
		}
	}
	d.alts = append(d.alts, s)
}

func (d *distinct) altBytes() [][]int {
	out := make([][]int, 0, len(d.alts))
	for _, a := range d.alts {
		out = append(out, vh.BS(a))
	}
	return out
}

// encoding/json's opinion: is text exactly one flat JSON object; its members in order
func goFlat(text []byte) (ok bool, mem [][3]interface{}) {
	mem = [][3]interface{}{}
	if !json.Valid(text) {
		return false, mem
	}
	dec := json.NewDecoder(bytes.NewReader(text))
	dec.UseNumber()
	tok, err := dec.Token()
	if err != nil || tok != json.Delim('{') {
		return false, mem
	}
	for dec.More() {
		k, err := dec.Token()
		if err != nil {
			return false, mem
		}
		ks, isStr := k.(string)
		if !isStr {
			return false, mem
		}
		v, err := dec.Token()
		if err != nil {
			return false, mem
		}
		switch x := v.(type) {
		case json.Delim:
			return false, [][3]interface{}{}
		case string:
			mem = append(mem, [3]interface{}{vh.BS(ks), "s", vh.BS(x)})
		case json.Number:
			mem = append(mem, [3]interface{}{vh.BS(ks), "n", vh.BS(string(x))})
		case bool:
			if x {
				mem = append(mem, [3]interface{}{vh.BS(ks), "t", vh.BS("true")})
			} else {
				mem = append(mem, [3]interface{}{vh.BS(ks), "f", vh.BS("false")})
			}
		case nil:
			mem = append(mem, [3]interface{}{vh.BS(ks), "z", vh.BS("null")})
		default:
			return false, [][3]interface{}{}
		}
	}
	if tok, err = dec.Token(); err != nil || tok != json.Delim('}') {
		return false, [][3]interface{}{}
	}
	if _, err = dec.Token(); err != io.EOF {
		return false, [][3]interface{}{}
	}
	return true, mem
}

func gov(text string) bool {
	ok, _ := goFlat([]byte(text))
	return ok
}

// ---------------------------------------------------------------------------------------------
// evaluation of one match

type viewEval struct {
	names  [][2]interface{}
	groups [][]byte
	d      distinct
	err    string
	crash  string // the evaluation panicked (observed by the guarded run)
}

// evaluates `line` with the matcher and the view: `reps` identical lines through one extractor
// instance and `fresh` further single-line instances
func evalView(ms matcherSpec, view string, line []byte, reps, fresh int) viewEval {
	var r viewEval
	f, err := ms.factory()
	if err != nil {
		r.err = "compile: " + err.Error()
		return r
	}
	r.names = nameTable(f)
	// guarded first: the ignore set evaluates the view under recover
	gevs, _, err := runHistory(f, histCfg{view: view, probes: 1, workers: 1}, [][][]byte{{line}})
	if err != nil {
		r.err = "extractor: " + err.Error()
		return r
	}
	if c := crashOf(gevs); c != "" {
		r.crash = c
		r.groups = gevs[0].Groups
		r.d.n = 1
		return r
	}
	for _, e := range gevs {
		if r.groups == nil {
			r.groups = e.Groups
		}
		r.d.add(e.Out)
	}
	for k := 0; k <= fresh; k++ {
		n := 1
		if k == 0 {
			n = reps
		}
		lines := make([][]byte, n)
		for i := range lines {
			lines[i] = append([]byte{}, line...)
		}
		ms, err := runExtractor(f, viewExpr(view), lines)
		if err != nil {
			r.err = "extractor: " + err.Error()
			return r
		}
		if len(ms) != n {
			r.err = fmt.Sprintf("nomatch: %d of %d lines matched", len(ms), n)
			return r
		}
		for _, m := range ms {
			g := groupsOf(m)
			if r.groups == nil {
				r.groups = g
			} else if !eqGroups(r.groups, g) {
				r.err = "groups differ between evaluations"
				return r
			}
			r.d.add(m.Extracted)
		}
	}
	return r
}

func eqGroups(a, b [][]byte) bool {
	if len(a) != len(b) {
		return false
	}
	for i := range a {
		if !bytes.Equal(a[i], b[i]) {
			return false
		}
	}
	return true
}

func viewRecord(src string, t int, view string, e viewEval) M {
	if e.crash != "" {
		return M{"k": "view", "src": src, "t": t, "names": e.names, "groups": BB(e.groups),
			"named": strings.Contains(view, "."), "numbered": strings.Contains(view, "#"),
			"out": []int{}, "alts": [][]int{}, "evals": e.d.n, "gov": false, "crash": e.crash}
	}
	return M{"k": "view", "src": src, "t": t, "names": e.names, "groups": BB(e.groups),
		"named": strings.Contains(view, "."), "numbered": strings.Contains(view, "#"),
		"out": vh.BS(e.d.first), "alts": e.d.altBytes(), "evals": e.d.n, "gov": gov(e.d.first)}
}

type op struct {
	Op  string `json:"op"`
	Key []int  `json:"key"`
	Val []int  `json:"val"`
}

func buildOps(ops []op) (out string, panicked string) {
	defer func() {
		if r := recover(); r != nil {
			panicked = fmt.Sprint(r)
		}
	}()
	var jb minijson.JsonObjectBuilder
	jb.Open()
	for _, o := range ops {
		k, v := string(vh.FromInts(o.Key)), string(vh.FromInts(o.Val))
		if o.Op == "inferred" {
			jb.WriteInferred(k, v)
		} else {
			jb.WriteString(k, v)
		}
	}
	jb.Close()
	return jb.String(), ""
}

func safeMarshal(m map[string]string) (out string, crash string) {
	defer func() {
		if r := recover(); r != nil {
			out, crash = "", fmt.Sprint(r)
		}
	}()
	return minijson.MarshalStringMapInferred(m), ""
}

func opsRecord(src string, t int, ops []op, reps int) M {
	var d distinct
	for i := 0; i < reps; i++ {
		out, p := buildOps(ops)
		if p != "" {
			return M{"k": "ops", "src": src, "t": t, "ops": ops, "det": true,
				"out": []int{}, "alts": [][]int{}, "evals": i + 1, "gov": false, "crash": p}
		}
		d.add(out)
	}
	return M{"k": "ops", "src": src, "t": t, "ops": ops, "det": true,
		"out": vh.BS(d.first), "alts": d.altBytes(), "evals": d.n, "gov": gov(d.first)}
}

// ---------------------------------------------------------------------------------------------
// replay (B1)

type vector struct {
	T      string          `json:"t"`
	V      []int           `json:"v"`
	Vals   [][]int         `json:"vals"`
	Named  []int           `json:"named"`
	View   string          `json:"view"`
	Names  [][]interface{} `json:"names"`
	Groups [][]int         `json:"groups"`
	Exp    [][][]int       `json:"exp"`
	Ref    []int           `json:"ref"`
	Refi   []int           `json:"refi"`
	Refs   []int           `json:"refs"`
	Srcs   [][]histLine    `json:"srcs"`
}

type histLine struct {
	Vals   [][]int `json:"vals"`
	Groups [][]int `json:"groups"`
	Ref    []int   `json:"ref"`
}

func namesEqual(got [][2]interface{}, want [][]interface{}) bool {
	if len(got) != len(want) {
		return false
	}
	for i := range got {
		if len(want[i]) != 2 {
			return false
		}
		wn, _ := json.Marshal(want[i][0])
		gn, _ := json.Marshal(got[i][0])
		wi, _ := want[i][1].(float64)
		if string(wn) != string(gn) || int(wi) != got[i][1].(int) {
			return false
		}
	}
	return true
}

func groupsEqual(got [][]byte, want [][]int) bool {
	if len(got) != len(want) {
		return false
	}
	for i := range got {
		if !bytes.Equal(got[i], vh.FromInts(want[i])) {
			return false
		}
	}
	return true
}

func c16Replay(args []string) error {
	fs := flag.NewFlagSet("replay", flag.ExitOnError)
	in := fs.String("in", "", "vectors (ndjson)")
	out := fs.String("out", "", "trace (ndjson)")
	statsPath := fs.String("stats", "", "stats (json)")
	reps := fs.Int("reps", 50, "evaluations of one match in one instance")
	fresh := fs.Int("fresh", 3, "further fresh instances per match")
	procEvery := fs.Int("procevery", 400, "every n-th view vector with two or more named groups is also evaluated in fresh processes")
	procs := fs.Int("procs", 12, "fresh processes for those")
	fs.Parse(args)
	w, err := vh.NewNdWriter(*out)
	if err != nil {
		return err
	}
	defer w.Close()
	self, _ := os.Executable()

	var vectors, evals, differs, multiNamed, procRuns int
	setup := []M{}
	samples := []M{}
	var valVecs, histVecs []vector
	var histRuns, histEvents, crashes int
	t := 0
	err = vh.ReadNd(*in, func(raw json.RawMessage) error {
		var v vector
		if err := json.Unmarshal(raw, &v); err != nil {
			return err
		}
		vectors++
		if v.T == "val" {
			valVecs = append(valVecs, v)
			return nil
		}
		if v.T == "hist" {
			histVecs = append(histVecs, v)
			return nil
		}
		if v.T != "view" {
			return fmt.Errorf("unknown vector type %q", v.T)
		}
		t++
		// ---- regex: exactly the vector's groups and names
		names := make([]string, len(v.Vals))
		for _, i := range v.Named {
			names[i-1] = string(rune('a' + i - 1))
		}
		vals := make([][]byte, len(v.Vals))
		for i := range v.Vals {
			vals[i] = vh.FromInts(v.Vals[i])
		}
		line := bytes.Join(vals, []byte("|"))
		r := 2
		if len(v.Named) >= 2 {
			r = *reps
			multiNamed++
		}
		e := evalView(matcherSpec{"regex", buildPattern("regex", names, false)}, v.View, line, r, *fresh)
		if e.err != "" || !namesEqual(e.names, v.Names) || !groupsEqual(e.groups, v.Groups) {
			setup = append(setup, M{"vector": v, "err": e.err, "names": e.names, "groups": BB(e.groups)})
			return nil
		}
		if e.crash == "" && len(v.Named) >= 2 && *procEvery > 0 && multiNamed%*procEvery == 1 {
			// the same match in fresh processes
			for p := 0; p < *procs; p++ {
				o, err := exec.Command(self, "one", "-kind", "regex", "-pat", buildPattern("regex", names, false),
					"-view", v.View, "-line", string(mustJSON(B(line)))).Output()
				if err != nil {
					return fmt.Errorf("fresh process: %v", err)
				}
				var ob oneOut
				if err := json.Unmarshal(bytes.TrimSpace(o), &ob); err != nil {
					return fmt.Errorf("fresh process output: %v", err)
				}
				procRuns++
				if ob.Crash != "" {
					e.crash = ob.Crash
					break
				}
				e.d.add(string(vh.FromInts(ob.Out)))
			}
		}
		evals += e.d.n
		if e.crash != "" {
			crashes++
		} else if e.d.first != string(vh.FromInts(v.Ref)) {
			differs++
		}
		w.Write(viewRecord("regex", t, v.View, e))
		if len(samples) < 3 && len(v.Named) >= 2 && t%97 == 0 {
			samples = append(samples, M{"view": v.View, "line": string(line), "pattern": buildPattern("regex", names, false),
				"out": e.d.first, "evaluations": e.d.n, "distinct_texts": 1 + len(e.d.alts)})
		}
		// ---- dissect: unnamed positions are skipped tokens, so the groups are the named ones
		ed := evalView(matcherSpec{"dissect", buildPattern("dissect", names, false)}, v.View, line, r, 1)
		if ed.err != "" {
			if !(len(line) == 0 && strings.HasPrefix(ed.err, "nomatch")) {
				setup = append(setup, M{"vector": v, "dissect": true, "err": ed.err})
			}
			return nil
		}
		evals += ed.d.n
		if ed.crash != "" {
			crashes++
		}
		w.Write(viewRecord("dissect", t, v.View, ed))
		return nil
	})
	if err != nil {
		return err
	}

	// ---- val vectors: one captured text each; all values of one view through ONE extractor
	// instance (regex: every value; dissect: every third value)
	sort.SliceStable(valVecs, func(i, j int) bool { return len(valVecs[i].V) < len(valVecs[j].V) })
	for _, kind := range []string{"regex", "dissect"} {
		pat := "(?s)^(?P<a>.*)$"
		if kind == "dissect" {
			pat = "%{a}"
		}
		ms := matcherSpec{kind, pat}
		f, err := ms.factory()
		if err != nil {
			return err
		}
		names := nameTable(f)
		for _, view := range []string{".", "#", ".#"} {
			var lines [][]byte
			var idx []int
			for i, v := range valVecs {
				if v.View != view || (kind == "dissect" && (len(v.V) == 0 || i%3 != 0)) {
					continue // (an empty line has nothing to dissect)
				}
				lines = append(lines, vh.FromInts(v.V))
				idx = append(idx, i)
			}
			if len(lines) == 0 {
				continue
			}
			// the lines become many small sources (1..3 lines, line numbers restart at 1) of ONE extractor:
			// guarded with one worker, then unguarded with one worker and with three
			var sources [][][]byte
			at := map[[2]int]int{}
			for j := 0; j < len(lines); {
				n := min([]int{1, 2, 1, 3}[len(sources)%4], len(lines)-j)
				for k := 0; k < n; k++ {
					at[[2]int{len(sources), k + 1}] = j + k
				}
				sources = append(sources, lines[j:j+n])
				j += n
			}
			res := make([]viewEval, len(lines))
			collect := func(evs []histEv) {
				for _, e := range evs {
					r := &res[at[[2]int{e.S, e.Line}]]
					if r.groups == nil {
						r.groups = e.Groups
					} else if !eqGroups(r.groups, e.Groups) {
						r.err = "groups differ between evaluations"
					}
					if e.Crash != "" {
						r.crash = e.Crash
						r.d.n++
					} else {
						r.d.add(e.Out)
					}
				}
			}
			gevs, missing, err := runHistory(f, histCfg{view: view, probes: 1, workers: 1}, sources)
			if err != nil {
				return err
			}
			if missing > 0 {
				return fmt.Errorf("%s: %d of %d value lines did not match", kind, missing, len(lines))
			}
			collect(gevs)
			// unguarded: without the lines that crash
			var clean [][][]byte
			cleanAt := map[[2]int]int{}
			for si, src := range sources {
				var keep [][]byte
				for li, l := range src {
					j := at[[2]int{si, li + 1}]
					if res[j].crash == "" {
						keep = append(keep, l)
						cleanAt[[2]int{len(clean), len(keep)}] = j
					}
				}
				if len(keep) > 0 {
					clean = append(clean, keep)
				}
			}
			at = cleanAt
			for _, wk := range []int{1, 3} {
				uevs, missing, err := runHistory(f, histCfg{view: view, workers: wk, batch: wk - 1}, clean)
				if err != nil {
					return err
				}
				if missing > 0 {
					return fmt.Errorf("%s: %d value lines did not match (unguarded)", kind, missing)
				}
				collect(uevs)
			}
			for j := range lines {
				v := valVecs[idx[j]]
				e := res[j]
				e.names = names
				if e.err != "" || !namesEqual(names, v.Names) || !groupsEqual(e.groups, v.Groups) {
					setup = append(setup, M{"vector": v, "kind": kind, "names": names, "groups": BB(e.groups), "err": e.err})
					continue
				}
				evals += e.d.n
				if e.crash != "" {
					crashes++
				} else if e.d.first != string(vh.FromInts(v.Ref)) {
					differs++
				}
				t++
				w.Write(viewRecord(kind, t, view, e))
			}
		}
	}

	// ---- hist vectors: the sources of one extractor, as the model MiniJsonCtx runs them
	for _, v := range histVecs {
		names := make([]string, 2)
		for _, i := range v.Named {
			names[i-1] = string(rune('a' + i - 1))
		}
		ms := matcherSpec{"regex", buildPattern("regex", names, false)}
		f, err := ms.factory()
		if err != nil {
			return err
		}
		var sources [][][]byte
		nl := 0
		for _, src := range v.Srcs {
			var ls [][]byte
			for _, hl := range src {
				vals := make([][]byte, len(hl.Vals))
				for i := range hl.Vals {
					vals[i] = vh.FromInts(hl.Vals[i])
				}
				ls = append(ls, bytes.Join(vals, []byte("|")))
				nl++
			}
			sources = append(sources, ls)
		}
		other := map[string]string{".": ".#", "#": ".", ".#": "#"}[v.View]
		crashed := false
		for ci, cfg := range []histCfg{
			{view: v.View, probes: 2, workers: 1, batch: 1},                   // guarded; every line its own batch
			{view: v.View, workers: 1},                                        // one batch per source, back to back
			{view: v.View, probeView: other, probes: 1, workers: 1, batch: 2}, // another view of the same match first
			{view: v.View, workers: 3, batch: 1},
		} {
			if crashed && cfg.probes == 0 {
				continue // would take the process down
			}
			evs, missing, err := runHistory(f, cfg, sources)
			if err != nil {
				return err
			}
			bad := missing > 0 || !namesEqual(nameTable(f), v.Names)
			for _, e := range evs {
				if e.S >= len(v.Srcs) || e.Line > len(v.Srcs[e.S]) || !groupsEqual(e.Groups, v.Srcs[e.S][e.Line-1].Groups) {
					bad = true
				} else if e.Crash == "" && e.View == v.View && e.Out != string(vh.FromInts(v.Srcs[e.S][e.Line-1].Ref)) {
					differs++
				}
			}
			if bad {
				setup = append(setup, M{"vector": v, "hist": ci, "missing": missing})
				break
			}
			if crashOf(evs) != "" {
				crashed = true
				crashes++
			}
			t++
			histRuns++
			histEvents += len(evs)
			evals += len(evs)
			w.Write(histRecord("regex", t, f, cfg, len(sources), evs))
		}
	}
	for i, v := range valVecs {
		t++
		ri := opsRecord("direct", t, []op{{"inferred", vh.BS("k"), v.V}}, 2)
		rs := opsRecord("direct", t, []op{{"string", vh.BS("k"), v.V}}, 2)
		evals += 4
		if !vh.EqInts(ri["out"].([]int), v.Refi) {
			differs++
		}
		if !vh.EqInts(rs["out"].([]int), v.Refs) {
			differs++
		}
		w.Write(ri)
		// the explicit string: recorded when it differs from the inferred text, and for every fifth value
		if i%5 == 0 || !vh.EqInts(ri["out"].([]int), rs["out"].([]int)) {
			w.Write(rs)
		}
		if len(samples) < 6 && len(v.V) == 3 && t%1013 == 0 {
			samples = append(samples, M{"op": "inferred", "value": string(vh.FromInts(v.V)), "out": string(vh.FromInts(ri["out"].([]int)))})
		}
	}
	vh.WriteJSON(*statsPath, M{"vectors": vectors, "val_vectors": len(valVecs), "records": w.N, "evaluations": evals,
		"differs_from_model": differs, "multi_named_vectors": multiNamed, "fresh_process_runs": procRuns,
		"hist_vectors": len(histVecs), "hist_runs": histRuns, "hist_events": histEvents, "crashes": crashes,
		"setup_mismatches": len(setup), "setup": head(setup, 5), "samples": samples})
	return nil
}

func head(l []M, n int) []M {
	if len(l) > n {
		return l[:n]
	}
	return l
}

func mustJSON(v interface{}) []byte {
	b, err := json.Marshal(v)
	if err != nil {
		panic(err)
	}
	return b
}

// one evaluation in this process
func c16One(args []string) error {
	fs := flag.NewFlagSet("one", flag.ExitOnError)
	kind := fs.String("kind", "regex", "")
	pat := fs.String("pat", "", "")
	view := fs.String("view", ".", "")
	lineJ := fs.String("line", "[]", "line as a JSON byte array")
	fs.Parse(args)
	var lb []int
	if err := json.Unmarshal([]byte(*lineJ), &lb); err != nil {
		return err
	}
	e := evalView(matcherSpec{*kind, *pat}, *view, vh.FromInts(lb), 1, 0)
	if e.err != "" {
		return fmt.Errorf("%s", e.err)
	}
	if len(e.d.alts) > 0 { // two texts inside this process: hand the other one to the parent
		e.d.first = e.d.alts[0]
	}
	fmt.Println(string(mustJSON(oneOut{Out: vh.BS(e.d.first), Crash: e.crash})))
	return nil
}

type oneOut struct {
	Out   []int  `json:"out"`
	Crash string `json:"crash"`
}

// ---------------------------------------------------------------------------------------------
// random inputs (B2)

var alphabet = [][]byte{{'a'}, {'"'}, {'\\'}, {1}, {0x1f}, {'\n'}, {0xc3, 0xa9}, {0xff}, {'0'}, {'7'}, {'.'}, {'-'}, {'e'}, {'+'}}

var numForms = []string{"0", "-0", "00", "007", "7", "10", "1.5", "1.50", "01.5", "0.5", "00.5", ".5", "5.", "1.", "-1", "+1", "1e5", "1E5",
	"1e+5", "1e-5", "1.5e3", "1e", "e5", "-", "+", ".", "1.2.3", "0x10", "1_0", "1,5", "Inf", "NaN", "12345678901234567890123", "0.000000000000000000001",
	"9007199254740993", "1e400", "-1.5", "0.0", "000", "0e0", "100", "1 ", " 1", "٣"}

var litForms = []string{"true", "false", "null", "True", "TRUE", "False", "FALSE", "tRuE", "falſe", "FALſE", "truE ", "nil", "yes", "Null", "true1", "ttrue", "tru", "fals", "Kelvin"}

func randValue(r *rand.Rand, allowBar bool) []byte {
	var b []byte
	switch k := r.Intn(20); {
	case k < 4: // arbitrary bytes, up to 200
		n := r.Intn(201)
		if r.Intn(3) > 0 {
			n = r.Intn(24)
		}
		b = make([]byte, n)
		for i := range b {
			b[i] = byte(r.Intn(256))
		}
	case k < 8: // the alphabet of the plan
		n := r.Intn(9)
		for i := 0; i < n; i++ {
			b = append(b, alphabet[r.Intn(len(alphabet))]...)
		}
	case k < 11: // numeric shapes
		s := numForms[r.Intn(len(numForms))]
		if r.Intn(3) == 0 {
			const nc = "0123456789.-+eE"
			n := 1 + r.Intn(6)
			bs := make([]byte, n)
			for i := range bs {
				bs[i] = nc[r.Intn(len(nc))]
			}
			s = string(bs)
		}
		b = []byte(s)
	case k < 13: // literals
		b = []byte(litForms[r.Intn(len(litForms))])
	case k < 16: // well-formed UTF-8 of every length, with characters that need escaping in between
		n := r.Intn(12)
		for i := 0; i < n; i++ {
			switch r.Intn(8) {
			case 0:
				b = append(b, byte(r.Intn(32)))
			case 1:
				b = append(b, "\"\\/<>&'\x7f"[r.Intn(8)])
			case 2:
				b = utf8.AppendRune(b, rune(0x80+r.Intn(0x780)))
			case 3:
				b = utf8.AppendRune(b, []rune{0x800, 0xFFFD, 0x2028, 0x2029, 0xFEFF, 0xD7FF, 0xE000, 0xFFFF, 0x20AC}[r.Intn(9)])
			case 4:
				b = utf8.AppendRune(b, rune(0x10000+r.Intn(0x100000)))
			default:
				b = append(b, byte(0x20+r.Intn(0x5f)))
			}
		}
	case k < 18: // printable text with control characters
		n := r.Intn(40)
		for i := 0; i < n; i++ {
			if r.Intn(5) == 0 {
				b = append(b, byte(r.Intn(32)))
			} else {
				b = append(b, byte(0x20+r.Intn(0x5f)))
			}
		}
	case k < 19: // ill-formed UTF-8: truncated sequences, surrogates, overlong forms
		forms := [][]byte{{0xc3}, {0xe2, 0x82}, {0xf0, 0x9f, 0x98}, {0xed, 0xa0, 0x80}, {0xc0, 0xaf}, {0xf4, 0x90, 0x80, 0x80}, {0x80}, {0xfe}, {0xef, 0xbf, 0xbd}}
		n := 1 + r.Intn(4)
		for i := 0; i < n; i++ {
			if r.Intn(3) == 0 {
				b = append(b, "a\n\"7"[r.Intn(4)])
			}
			b = append(b, forms[r.Intn(len(forms))]...)
		}
	default:
		b = []byte{}
	}
	if !allowBar {
		b = bytes.ReplaceAll(b, []byte("|"), []byte("!"))
	}
	return b
}

var groupNames = []string{"a", "b", "c", "d", "foo_1", "X", "_y", "n0", "Zz9"}

func randNames(r *rand.Rand, n int) []string {
	names := make([]string, n)
	perm := r.Perm(len(groupNames))
	for i := 0; i < n && i < len(perm); i++ {
		if r.Intn(10) < 6 {
			names[i] = groupNames[perm[i]]
		}
	}
	return names
}

var views = []string{".", "#", ".#", "#."}

func c16Trace(args []string) error {
	fs := flag.NewFlagSet("trace", flag.ExitOnError)
	out := fs.String("out", "", "trace (ndjson)")
	n := fs.Int("n", 2000, "random matches")
	nops := fs.Int("ops", 1000, "random direct uses of the builder")
	nxv := fs.Int("xv", 3000, "cross-validation samples")
	reps := fs.Int("reps", 50, "evaluations of one match in one instance")
	nhist := fs.Int("hist", 300, "random multi-source histories")
	fs.Parse(args)
	w, err := vh.NewNdWriter(*out)
	if err != nil {
		return err
	}
	defer w.Close()
	r := vh.NewRand(16)
	var evals, matched, skipped, multi int
	var outs []string
	t := 0
	for i := 0; i < *n; i++ {
		ng := 1 + r.Intn(4)
		if r.Intn(20) == 0 {
			ng = 10 + r.Intn(3) // two-digit member names
		}
		names := randNames(r, ng)
		vals := make([][]byte, ng)
		for j := range vals {
			vals[j] = randValue(r, false)
			if ng > 4 && len(vals[j]) > 6 {
				vals[j] = vals[j][:6]
			}
		}
		line := bytes.Join(vals, []byte("|"))
		kind := "regex"
		if r.Intn(3) == 0 {
			kind = "dissect"
		}
		ghost := kind == "regex" && r.Intn(6) == 0
		view := views[r.Intn(len(views))]
		nn := 0
		for _, x := range names {
			if x != "" {
				nn++
			}
		}
		k := 2
		if nn >= 2 || (ghost && nn >= 1) {
			k = *reps
			multi++
		}
		e := evalView(matcherSpec{kind, buildPattern(kind, names, ghost)}, view, line, k, 2)
		if e.err != "" {
			if strings.HasPrefix(e.err, "nomatch") {
				skipped++
				continue
			}
			return fmt.Errorf("%s %q on %q: %s", kind, buildPattern(kind, names, ghost), line, e.err)
		}
		t++
		matched++
		evals += e.d.n
		w.Write(viewRecord(kind, t, view, e))
		if len(outs) < 4000 {
			outs = append(outs, e.d.first)
		}
	}
	// ---- random histories: several sources (line numbers restart) through one extractor; lines are drawn
	// from a small pool so that the same captures turn up in different sources, at different and at equal
	// line numbers, next to other captures with the same line number
	var histRuns, histEvents, histSkipped int
	for i := 0; i < *nhist; i++ {
		ng := 1 + r.Intn(3)
		names := randNames(r, ng)
		kind := "regex"
		if r.Intn(4) == 0 {
			kind = "dissect"
		}
		f, err := matcherSpec{kind, buildPattern(kind, names, false)}.factory()
		if err != nil {
			return err
		}
		pool := make([][]byte, 1+r.Intn(4))
		for p := range pool {
			vals := make([][]byte, ng)
			for j := range vals {
				vals[j] = randValue(r, false)
				if len(vals[j]) > 24 {
					vals[j] = vals[j][:24]
				}
			}
			pool[p] = bytes.Join(vals, []byte("|"))
		}
		sources := make([][][]byte, 2+r.Intn(4))
		for si := range sources {
			sources[si] = make([][]byte, 1+r.Intn(3))
			for li := range sources[si] {
				sources[si][li] = pool[r.Intn(len(pool))]
			}
		}
		view := views[r.Intn(3)]
		guard := histCfg{view: view, probes: 1 + r.Intn(2), workers: 1, batch: r.Intn(3)}
		if r.Intn(3) == 0 {
			guard.probeView = views[r.Intn(3)]
		}
		cfgs := []histCfg{guard, {view: view, workers: 1, batch: r.Intn(3)}, {view: view, workers: 2 + r.Intn(3), batch: 1 + r.Intn(2)}}
		crashed := false
		for _, cfg := range cfgs {
			if crashed && cfg.probes == 0 {
				continue
			}
			evs, missing, err := runHistory(f, cfg, sources)
			if err != nil {
				return err
			}
			if missing > 0 { // dissect does not match every line
				histSkipped++
				break
			}
			crashed = crashed || crashOf(evs) != ""
			t++
			histRuns++
			histEvents += len(evs)
			evals += len(evs)
			w.Write(histRecord(kind, t, f, cfg, len(sources), evs))
		}
	}
	for i := 0; i < *nops; i++ {
		no := 1 + r.Intn(4)
		ops := make([]op, no)
		perm := r.Perm(6)
		for j := range ops {
			key := []string{"k1", "k2", "name", "0", "1", "12"}[perm[j]]
			o := "inferred"
			if r.Intn(3) == 0 {
				o = "string"
			}
			ops[j] = op{o, vh.BS(key), B(randValue(r, true))}
		}
		t++
		if r.Intn(5) == 0 { // MarshalStringMapInferred: member order is unspecified there
			m := map[string]string{}
			for j := range ops {
				ops[j].Op = "string"
				m[string(vh.FromInts(ops[j].Key))] = string(vh.FromInts(ops[j].Val))
			}
			o, crash := safeMarshal(m)
			evals++
			rec := M{"k": "ops", "src": "marshal", "t": t, "ops": ops, "det": false, "out": vh.BS(o), "alts": [][]int{}, "evals": 1, "gov": crash == "" && gov(o)}
			if crash != "" {
				rec["crash"] = crash
			}
			w.Write(rec)
			continue
		}
		rec := opsRecord("direct", t, ops, 3)
		evals += 3
		w.Write(rec)
		if len(outs) < 6000 {
			outs = append(outs, string(vh.FromInts(rec["out"].([]int))))
		}
	}
	// ---- cross-validation of the TLA+ recogniser / decoder against encoding/json
	nvalid := 0
	for i := 0; i < *nxv; i++ {
		var text []byte
		switch r.Intn(4) {
		case 0:
			text = randObject(r)
		case 1:
			text = mutate(r, randObject(r))
		default:
			if len(outs) > 0 {
				text = mutate(r, []byte(outs[r.Intn(len(outs))]))
			} else {
				text = mutate(r, randObject(r))
			}
		}
		if len(text) > 400 {
			text = text[:400]
		}
		ok, mem := goFlat(text)
		if ok {
			nvalid++
		}
		w.Write(M{"k": "xv", "text": B(text), "gov": ok, "cmp": ok && utf8.Valid(text), "mem": mem})
	}
	fmt.Println(string(mustJSON(M{"matches": matched, "nomatch": skipped, "evaluations": evals, "multi_named": multi,
		"records": w.N, "xv": *nxv, "xv_valid": nvalid, "hist_runs": histRuns, "hist_events": histEvents, "hist_skipped": histSkipped})))
	return nil
}

// a random flat JSON object text (valid by construction, every feature of the grammar)
func randObject(r *rand.Rand) []byte {
	var b []byte
	ws := func() {
		for r.Intn(4) == 0 {
			b = append(b, " \t\n\r"[r.Intn(4)])
		}
	}
	str := func() {
		b = append(b, '"')
		n := r.Intn(6)
		for i := 0; i < n; i++ {
			switch r.Intn(10) {
			case 0:
				b = append(b, '\\', "\"\\/bfnrt"[r.Intn(8)])
			case 1:
				b = append(b, []byte(fmt.Sprintf("\\u%04x", r.Intn(0x10000)))...)
			case 2:
				b = append(b, []byte(fmt.Sprintf("\\u%04X", []int{0xd800, 0xdbff, 0xdc00, 0xdfff, 0xd83d, 0xde00, 0x0041, 0x00e9}[r.Intn(8)]))...)
			case 3:
				b = utf8.AppendRune(b, rune(0x80+r.Intn(0x2000)))
			case 4:
				b = utf8.AppendRune(b, rune(0x10000+r.Intn(0x100000)))
			default:
				c := byte(0x20 + r.Intn(0x5f))
				if c == '"' || c == '\\' {
					c = 'x'
				}
				b = append(b, c)
			}
		}
		b = append(b, '"')
	}
	ws()
	b = append(b, '{')
	ws()
	n := r.Intn(4)
	for i := 0; i < n; i++ {
		if i > 0 {
			b = append(b, ',')
			ws()
		}
		str()
		ws()
		b = append(b, ':')
		ws()
		switch r.Intn(6) {
		case 0:
			str()
		case 1:
			b = append(b, []string{"true", "false", "null"}[r.Intn(3)]...)
		default:
			if r.Intn(2) == 0 {
				b = append(b, '-')
			}
			if r.Intn(3) == 0 {
				b = append(b, '0')
			} else {
				b = append(b, strconv.Itoa(1+r.Intn(2000))...)
			}
			if r.Intn(3) == 0 {
				b = append(b, '.')
				b = append(b, fmt.Sprintf("%03d", r.Intn(1000))[:1+r.Intn(3)]...)
			}
			if r.Intn(3) == 0 {
				b = append(b, "eE"[r.Intn(2)])
				if r.Intn(2) == 0 {
					b = append(b, "+-"[r.Intn(2)])
				}
				b = append(b, strconv.Itoa(r.Intn(40))...)
				if r.Intn(4) == 0 {
					b = append(b, '0', '7')
				}
			}
		}
		ws()
	}
	b = append(b, '}')
	ws()
	return b
}

var mutBytes = []byte("\"\\,:{}[]0123456789.-+eEu tfn/\n\t\x01\x1f\xff\xc3 ")

func mutate(r *rand.Rand, text []byte) []byte {
	b := append([]byte{}, text...)
	n := 1 + r.Intn(2)
	for i := 0; i < n; i++ {
		switch r.Intn(5) {
		case 0: // delete
			if len(b) > 0 {
				p := r.Intn(len(b))
				b = append(b[:p], b[p+1:]...)
			}
		case 1, 2: // insert
			p := r.Intn(len(b) + 1)
			b = append(b[:p], append([]byte{mutBytes[r.Intn(len(mutBytes))]}, b[p:]...)...)
		case 3: // replace
			if len(b) > 0 {
				b[r.Intn(len(b))] = mutBytes[r.Intn(len(mutBytes))]
			}
		default: // duplicate a piece
			if len(b) > 1 {
				p := r.Intn(len(b))
				q := p + 1 + r.Intn(min(len(b)-p, 8))
				if q > len(b) {
					q = len(b)
				}
				piece := append([]byte{}, b[p:q]...)
				b = append(b[:q], append(piece, b[q:]...)...)
			}
		}
	}
	return b
}

// ---------------------------------------------------------------------------------------------
// the command line (B2)

// values that survive the command line: no LF (one line per match), no CR at the end
func cliValue(r *rand.Rand) []byte {
	for {
		b := randValue(r, false)
		if len(b) > 40 {
			b = b[:40]
		}
		b = bytes.ReplaceAll(b, []byte("\n"), []byte("\x0b"))
		b = bytes.ReplaceAll(b, []byte("\r"), []byte("\x0c"))
		return b
	}
}

func isPanic(stderr []byte) bool {
	return bytes.Contains(stderr, []byte("panic: ")) || bytes.Contains(stderr, []byte("fatal error: ")) || bytes.Contains(stderr, []byte("goroutine "))
}

func panicLine(stderr []byte) string {
	for _, ln := range strings.Split(string(stderr), "\n") {
		if strings.HasPrefix(ln, "panic: ") || strings.HasPrefix(ln, "fatal error: ") {
			return ln
		}
	}
	return "panic"
}

var groupsRe = regexp.MustCompile(`Groups: (\d+)`)

func c16Cli(args []string) error {
	fs := flag.NewFlagSet("cli", flag.ExitOnError)
	rare := fs.String("rare", "", "rare binary")
	out := fs.String("out", "", "trace (ndjson)")
	dir := fs.String("dir", ".", "scratch directory")
	nh := fs.Int("histo", 6, "histogram runs")
	nf := fs.Int("filter", 6, "filter runs (files)")
	ne := fs.Int("expr", 6, "expression cases")
	nm := fs.Int("multi", 6, "multi-file filter cases")
	nmh := fs.Int("mhisto", 4, "multi-file histogram cases")
	procs := fs.Int("procs", 10, "fresh processes per filter file / expression case")
	lines := fs.Int("lines", 300, "identical lines per histogram run")
	fs.Parse(args)
	w, err := vh.NewNdWriter(*out)
	if err != nil {
		return err
	}
	defer w.Close()
	r := vh.NewRand(1600)
	runs := 0
	multiEvents := 0
	multiHisto := 0
	env := append(os.Environ(), "NO_COLOR=1", "TERM=dumb")
	run := func(argv ...string) ([]byte, []byte, error) {
		cmd := exec.Command(*rare, argv...)
		cmd.Env = env
		var so, se bytes.Buffer
		cmd.Stdout, cmd.Stderr = &so, &se
		err := cmd.Run()
		runs++
		return so.Bytes(), se.Bytes(), err
	}

	// ---- histogram over identical lines: ONE group
	for i := 0; i < *nh; i++ {
		ng := 2 + r.Intn(2)
		names := make([]string, ng)
		for j := range names {
			names[j] = groupNames[(i+j)%len(groupNames)]
		}
		vals := make([][]byte, ng)
		for j := range vals {
			vals[j] = cliValue(r)
		}
		if i == 0 { // the documented use: plain words
			vals = [][]byte{[]byte("GET"), []byte("200"), []byte("index.html")}[:ng]
		}
		line := bytes.Join(vals, []byte("|"))
		pat := buildPattern("regex", names, false)
		f, err := matcherSpec{"regex", pat}.factory()
		if err != nil {
			return err
		}
		idx := f.CreateInstance().FindSubmatchIndex(line)
		if idx == nil {
			return fmt.Errorf("histogram setup: %q does not match %q", pat, line)
		}
		groups := groupsOf(extractor.Match{Line: string(line), Indices: idx})
		file := filepath.Join(*dir, fmt.Sprintf("c16-histo-%d.txt", i))
		csvFile := filepath.Join(*dir, fmt.Sprintf("c16-histo-%d.csv", i))
		var fb bytes.Buffer
		for k := 0; k < *lines; k++ {
			fb.Write(line)
			fb.WriteByte('\n')
		}
		if err := os.WriteFile(file, fb.Bytes(), 0o644); err != nil {
			return err
		}
		so, se, err := run("histogram", "-m", pat, "-e", "{.}", "--csv", csvFile, "-n", "1000", file)
		if err != nil && isPanic(se) {
			w.Write(M{"k": "histo", "names": nameTable(f), "groups": BB(groups), "lines": *lines, "rows": [][2]interface{}{}, "ngroups": 0,
				"pattern": pat, "crash": panicLine(se)})
			continue
		}
		if err != nil {
			return fmt.Errorf("rare histogram: %v: %s", err, se)
		}
		mm := groupsRe.FindSubmatch(so)
		if mm == nil {
			return fmt.Errorf("rare histogram: no group count in the output: %q", so)
		}
		ngroups, _ := strconv.Atoi(string(mm[1]))
		cf, err := os.Open(csvFile)
		if err != nil {
			return err
		}
		rows, err := csv.NewReader(cf).ReadAll()
		cf.Close()
		if err != nil || len(rows) < 1 {
			return fmt.Errorf("rare histogram: unreadable csv: %v", err)
		}
		var recRows [][2]interface{}
		for _, row := range rows[1:] {
			if len(row) != 2 {
				return fmt.Errorf("rare histogram: csv row %q", row)
			}
			c, _ := strconv.Atoi(row[1])
			recRows = append(recRows, [2]interface{}{vh.BS(row[0]), c})
		}
		w.Write(M{"k": "histo", "names": nameTable(f), "groups": BB(groups), "lines": *lines, "rows": recRows, "ngroups": ngroups,
			"pattern": pat})
	}

	// ---- filter -l -e {view} in fresh processes
	for i := 0; i < *nf; i++ {
		kind := "regex"
		if i%3 == 2 {
			kind = "dissect"
		}
		ng := 2 + r.Intn(3)
		names := randNames(r, ng)
		names[0], names[1] = groupNames[i%len(groupNames)], groupNames[(i+1)%len(groupNames)]
		for j := 2; j < ng; j++ { // keep the names distinct
			if names[j] == names[0] || names[j] == names[1] {
				names[j] = ""
			}
		}
		pat := buildPattern(kind, names, false)
		f, err := matcherSpec{kind, pat}.factory()
		if err != nil {
			return err
		}
		view := views[i%3]
		nl := 25
		var fb bytes.Buffer
		var fileLines [][]byte
		for k := 0; k < nl; k++ {
			vals := make([][]byte, ng)
			for j := range vals {
				vals[j] = cliValue(r)
			}
			line := bytes.Join(vals, []byte("|"))
			fileLines = append(fileLines, line)
			fb.Write(line)
			fb.WriteByte('\n')
		}
		file := filepath.Join(*dir, fmt.Sprintf("c16-filter-%d.txt", i))
		if err := os.WriteFile(file, fb.Bytes(), 0o644); err != nil {
			return err
		}
		ds := make([]distinct, nl)
		flag := "-m"
		if kind == "dissect" {
			flag = "-d"
		}
		for p := 0; p < *procs; p++ {
			so, se, err := run("filter", flag, pat, "-e", viewExpr(view), "-l", "--workers", "1", file)
			if err != nil && isPanic(se) {
				w.Write(M{"k": "view", "src": "cli-filter", "t": i * 1000, "names": nameTable(f), "groups": [][]int{}, "named": strings.Contains(view, "."),
					"numbered": strings.Contains(view, "#"), "out": []int{}, "alts": [][]int{}, "evals": 1, "gov": false, "crash": panicLine(se), "file": file})
				break
			}
			if err != nil {
				return fmt.Errorf("rare filter: %v: %s", err, se)
			}
			// "<file> <n>: <text>"; a text with a raw line feed continues on the following line(s)
			cur := -1
			for _, ln := range bytes.Split(bytes.TrimSuffix(so, []byte("\n")), []byte("\n")) {
				if rest, ok := bytes.CutPrefix(ln, []byte(file+" ")); ok {
					if c := bytes.Index(rest, []byte(": ")); c > 0 {
						if no, err := strconv.Atoi(string(rest[:c])); err == nil && no >= 1 && no <= nl {
							if cur >= 0 {
								ds[cur].add(string(pending))
							}
							cur = no - 1
							pending = append([]byte{}, rest[c+2:]...)
							continue
						}
					}
				}
				pending = append(append(pending, '\n'), ln...)
			}
			if cur >= 0 {
				ds[cur].add(string(pending))
			}
			pending = nil
		}
		for k := 0; k < nl; k++ {
			idx := f.CreateInstance().FindSubmatchIndex(fileLines[k])
			if idx == nil || ds[k].n == 0 {
				continue // the line does not match (dissect on some lines) - nothing printed, nothing to check
			}
			var e viewEval
			e.names = nameTable(f)
			e.groups = groupsOf(extractor.Match{Line: string(fileLines[k]), Indices: idx})
			e.d = ds[k]
			w.Write(viewRecord("cli-filter", i*1000+k, view, e))
		}
	}

	// ---- filter -l -e {view} over SEVERAL files: every file numbers its lines from 1; one worker gets
	// the files back to back (-w 1), several workers share them; lines are drawn from a small pool
	for i := 0; i < *nm; i++ {
		ng := 2 + r.Intn(2)
		names := randNames(r, ng)
		names[0] = groupNames[i%len(groupNames)]
		for j := 1; j < ng; j++ {
			if names[j] == names[0] {
				names[j] = ""
			}
		}
		pat := buildPattern("regex", names, false)
		f, err := matcherSpec{"regex", pat}.factory()
		if err != nil {
			return err
		}
		inst := f.CreateInstance()
		view := views[i%3]
		pool := make([][]byte, 2+r.Intn(3))
		for p := range pool {
			vals := make([][]byte, ng)
			for j := range vals {
				vals[j] = cliValue(r)
			}
			if p == 0 && i%2 == 0 {
				vals = [][]byte{[]byte("alpha"), []byte("111"), []byte("x.log")}[:ng]
			}
			pool[p] = bytes.Join(vals, []byte("|"))
		}
		nfiles := 2 + r.Intn(4)
		files := make([]string, nfiles)
		content := make([][][]byte, nfiles)
		for fi := range files {
			files[fi] = filepath.Join(*dir, fmt.Sprintf("c16-multi-%d-%d.txt", i, fi))
			var fb bytes.Buffer
			nl := 1 + r.Intn(3)
			if i%3 == 0 {
				nl = 1 // one-line files
			}
			for k := 0; k < nl; k++ {
				line := pool[(fi+k+r.Intn(2))%len(pool)]
				content[fi] = append(content[fi], line)
				fb.Write(line)
				fb.WriteByte('\n')
			}
			if err := os.WriteFile(files[fi], fb.Bytes(), 0o644); err != nil {
				return err
			}
		}
		variants := [][]string{{"--workers", "1"}, {"--workers", "1", "--batch", "1", "--readers", "1"}, {}, {"--workers", "1", "-i", "{eq {" + view + "} zz}"}}
		for vi, extra := range variants {
			argv := append([]string{"filter", "-m", pat, "-e", viewExpr(view), "-l"}, extra...)
			argv = append(argv, files...)
			so, se, err := run(argv...)
			rec := M{"k": "hist", "src": "cli-filter", "t": i*10 + vi, "names": nameTable(f), "workers": 0, "batch": 0, "probes": 0,
				"sources": nfiles, "argv": argv, "panics": []string{}}
			if err != nil && isPanic(se) {
				rec["evs"] = []M{}
				rec["crash"] = panicLine(se)
				w.Write(rec)
				continue
			}
			if err != nil {
				return fmt.Errorf("rare filter %q: %v: %s", argv, err, se)
			}
			// "<file> <n>: <text>"; a text with a raw line feed continues on the following line(s)
			var evs []M
			var cur M
			var text []byte
			flush := func() {
				if cur != nil {
					cur["out"] = B(text)
					cur["gov"] = gov(string(text))
					evs = append(evs, cur)
				}
				cur = nil
			}
		LINES:
			for _, ln := range bytes.Split(bytes.TrimSuffix(so, []byte("\n")), []byte("\n")) {
				for fi, file := range files {
					rest, ok := bytes.CutPrefix(ln, []byte(file+" "))
					if !ok {
						continue
					}
					c := bytes.Index(rest, []byte(": "))
					if c <= 0 {
						continue
					}
					no, err := strconv.Atoi(string(rest[:c]))
					if err != nil || no < 1 || no > len(content[fi]) {
						continue
					}
					flush()
					idx := inst.FindSubmatchIndex(content[fi][no-1])
					if idx == nil {
						return fmt.Errorf("rare filter printed %s:%d which does not match %q", file, no, pat)
					}
					g := groupsOf(extractor.Match{Line: string(content[fi][no-1]), Indices: idx})
					cur = M{"s": fi, "line": no, "phase": "extract", "groups": BB(g), "named": strings.Contains(view, "."),
						"numbered": strings.Contains(view, "#"), "crash": false}
					text = append([]byte{}, rest[c+2:]...)
					continue LINES
				}
				if cur == nil {
					return fmt.Errorf("rare filter %q: unexpected output line %q", argv, ln)
				}
				text = append(append(text, '\n'), ln...)
			}
			flush()
			if evs == nil {
				evs = []M{}
			}
			rec["evs"] = evs
			w.Write(rec)
			multiEvents += len(evs)
		}
	}

	// ---- histogram -e {.} over SEVERAL files: the table has one row per distinct match, counted over all
	// the files (the classes differ in the first, named, capture: plain words)
	for i := 0; i < *nmh; i++ {
		names := []string{groupNames[i%len(groupNames)], groupNames[(i+3)%len(groupNames)]}
		pat := buildPattern("regex", names, false)
		f, err := matcherSpec{"regex", pat}.factory()
		if err != nil {
			return err
		}
		inst := f.CreateInstance()
		ncl := 2 + r.Intn(3)
		pool := make([][]byte, ncl)
		for c := range pool {
			second := cliValue(r)
			if c%2 == 0 {
				second = []byte(strconv.Itoa(100 + r.Intn(900)))
			}
			pool[c] = bytes.Join([][]byte{[]byte(fmt.Sprintf("w%dx", c)), second}, []byte("|"))
		}
		nfiles := 2 + r.Intn(4)
		files := make([]string, nfiles)
		counts := make([]int, ncl)
		for fi := range files {
			files[fi] = filepath.Join(*dir, fmt.Sprintf("c16-mhisto-%d-%d.txt", i, fi))
			var fb bytes.Buffer
			nl := 1 + r.Intn(3)
			if i%2 == 0 {
				nl = 1
			}
			for k := 0; k < nl; k++ {
				c := (fi + k*r.Intn(3)) % ncl
				counts[c]++
				fb.Write(pool[c])
				fb.WriteByte('\n')
			}
			if err := os.WriteFile(files[fi], fb.Bytes(), 0o644); err != nil {
				return err
			}
		}
		classes := []M{}
		for c := range pool {
			if counts[c] > 0 {
				idx := inst.FindSubmatchIndex(pool[c])
				if idx == nil {
					return fmt.Errorf("histogram setup: %q does not match %q", pat, pool[c])
				}
				classes = append(classes, M{"groups": BB(groupsOf(extractor.Match{Line: string(pool[c]), Indices: idx})), "count": counts[c]})
			}
		}
		for vi, extra := range [][]string{{"--workers", "1"}, {}} {
			csvFile := filepath.Join(*dir, fmt.Sprintf("c16-mhisto-%d-%d.csv", i, vi))
			argv := append([]string{"histogram", "-m", pat, "-e", "{.}", "--csv", csvFile, "-n", "1000"}, extra...)
			argv = append(argv, files...)
			so, se, err := run(argv...)
			rec := M{"k": "mhisto", "names": nameTable(f), "classes": classes, "rows": [][2]interface{}{}, "ngroups": 0, "argv": argv}
			if err != nil && isPanic(se) {
				rec["crash"] = panicLine(se)
				w.Write(rec)
				continue
			}
			if err != nil {
				return fmt.Errorf("rare histogram %q: %v: %s", argv, err, se)
			}
			mm := groupsRe.FindSubmatch(so)
			if mm == nil {
				return fmt.Errorf("rare histogram: no group count in the output: %q", so)
			}
			rec["ngroups"], _ = strconv.Atoi(string(mm[1]))
			cf, err := os.Open(csvFile)
			if err != nil {
				return err
			}
			rows, err := csv.NewReader(cf).ReadAll()
			cf.Close()
			if err != nil || len(rows) < 1 {
				return fmt.Errorf("rare histogram: unreadable csv: %v", err)
			}
			recRows := [][2]interface{}{}
			for _, row := range rows[1:] {
				if len(row) != 2 {
					return fmt.Errorf("rare histogram: csv row %q", row)
				}
				c, _ := strconv.Atoi(row[1])
				recRows = append(recRows, [2]interface{}{vh.BS(row[0]), c})
			}
			rec["rows"] = recRows
			w.Write(rec)
			multiHisto++
		}
	}

	// ---- rare expression -d .. -k ..  (special keys emulated by cmd/expressions.go)
	for i := 0; i < *ne; i++ {
		nd := r.Intn(3)
		nk := 2 + r.Intn(2)
		view := views[i%3]
		var argv []string
		ops := []op{}
		argv = append(argv, "expression", "-n")
		val := func() string {
			for {
				b := cliValue(r)
				b = bytes.ReplaceAll(b, []byte{0}, []byte{1})
				b = bytes.ReplaceAll(b, []byte(","), []byte(";"))
				if len(b) > 0 && b[0] == '-' || string(b) != strings.TrimSpace(string(b)) {
					continue // the flag parser takes a leading '-' for a flag and trims white space around values
				}
				return string(b)
			}
		}
		var dops, kops []op
		for j := 0; j < nd; j++ {
			v := val()
			argv = append(argv, "-d", v)
			dops = append(dops, op{"string", vh.BS(strconv.Itoa(j)), vh.BS(v)})
		}
		for j := 0; j < nk; j++ {
			v := val()
			name := groupNames[(i+j)%len(groupNames)]
			argv = append(argv, "-k", name+"="+v)
			kops = append(kops, op{"string", vh.BS(name), vh.BS(v)})
		}
		if strings.Contains(view, "#") {
			ops = append(ops, dops...)
		}
		if strings.Contains(view, ".") {
			ops = append(ops, kops...)
		}
		argv = append(argv, viewExpr(view))
		var d distinct
		crash := ""
		for p := 0; p < *procs*2; p++ {
			so, se, err := run(argv...)
			if err != nil && isPanic(se) {
				crash = panicLine(se)
				break
			}
			if err != nil {
				return fmt.Errorf("rare expression %q: %v: %s", argv, err, se)
			}
			d.add(string(so))
		}
		if crash != "" {
			w.Write(M{"k": "ops", "src": "cli-expression", "t": i, "ops": ops, "det": true, "out": []int{}, "alts": [][]int{},
				"evals": d.n + 1, "gov": false, "argv": argv, "crash": crash})
			continue
		}
		w.Write(M{"k": "ops", "src": "cli-expression", "t": i, "ops": ops, "det": true, "out": vh.BS(d.first), "alts": d.altBytes(),
			"evals": d.n, "gov": gov(d.first), "argv": argv})
	}
	fmt.Println(string(mustJSON(M{"runs": runs, "records": w.N, "multi_file_events": multiEvents, "multi_file_histograms": multiHisto})))
	return nil
}

var pending []byte

package main

// C04 - long stall histories (B2): "for every way the underlying reader ... stalls (0-byte reads)".
//   c04-stalltrace : runs the real scanners (ImmediateReadAhead Scan and ReadLine, BufferedReadAhead Scan and
//   ReadLine; buffer sizes 1, 2, 3 and larger ones in every family) over scripted readers that answer (0, nil)
//   hundreds or thousands of times - in one run, before every chunk of several hundred chunks, at random - and
//   records read / stall{n} / tok / err / end / late events for Scanner_Trace.tla, where a stall is a step that
//   changes nothing (ScannerStall.tla: StallNoop, StallReturns, StallLaw). Every scan runs under the watchdog
//   of recordScan (hang = an event the specification cannot explain).

import (
	"flag"
	"fmt"
	"math/rand"

	"verifharness/vh"
)

func stallEntry() scriptedRead { return scriptedRead{D: []int{}, E: "nil"} }

// chunkScript cuts the stream into chunks of 1..maxChunk bytes, `before(i)` stalls in front of chunk i,
// and ends it with `end` (attached to the last chunk or on its own, after `tail` more stalls).
func chunkScript(r *rand.Rand, stream []byte, maxChunk int, before func(i int) int, tail int, end string) ([]scriptedRead, int) {
	var sc []scriptedRead
	stalls := 0
	i := 0
	for pos := 0; pos < len(stream); i++ {
		k := 1
		if maxChunk > 1 {
			k = 1 + r.Intn(maxChunk)
		}
		if pos+k > len(stream) {
			k = len(stream) - pos
		}
		for j := before(i); j > 0; j-- {
			sc = append(sc, stallEntry())
			stalls++
		}
		sc = append(sc, scriptedRead{D: B(stream[pos : pos+k]), E: "nil"})
		pos += k
	}
	if len(sc) > 0 && tail == 0 && r.Intn(2) == 0 {
		sc[len(sc)-1].E = end
	} else {
		for j := 0; j < tail; j++ {
			sc = append(sc, stallEntry())
			stalls++
		}
		sc = append(sc, scriptedRead{D: []int{}, E: end})
	}
	return sc, stalls
}

func c04StallTrace(args []string) error {
	fs := flag.NewFlagSet("c04-stalltrace", flag.ExitOnError)
	out := fs.String("out", "", "trace ndjson")
	thorough := fs.Bool("thorough", false, "the larger corpus")
	fs.Parse(args)
	w, err := vh.NewNdWriter(*out)
	if err != nil {
		return err
	}
	defer w.Close()
	r := vh.NewRand(44)
	hp := newHangPolicy()
	tid, maxStalls, totalStalls, maxRun := 0, 0, 0, 0
	families := map[string]int{}
	type variantT struct {
		variant  string
		readLine bool
	}
	variants := []variantT{{"imm", false}, {"imm", true}, {"buf", false}, {"buf", true}}
	ends := []string{"eof", "fail"}
	emit := func(fam string, vr variantT, size int, script []scriptedRead, stalls, run int) {
		tid++
		families[fam]++
		totalStalls += stalls
		if stalls > maxStalls {
			maxStalls = stalls
		}
		if run > maxRun {
			maxRun = run
		}
		o, ok := recordScan(w, hp, tid, vr.variant, size, script, 1, scanOpts{readLine: vr.readLine})
		if !ok {
			return
		}
		if o.afterEnd > 0 {
			w.Write(M{"event": "readafterend", "n": o.afterEnd})
		}
		step := 1
		if len(o.held) > 25 {
			step = len(o.held) / 25
		}
		for k := 0; k < len(o.held); k += step {
			w.Write(M{"event": "late", "k": k + 1, "data": B(o.held[k])})
		}
	}
	sizes := []int{1, 2, 3, 7, 64}
	if *thorough {
		sizes = []int{1, 2, 3, 4, 5, 7, 16, 64, 300, 4096}
	}
	// family "run": one run of K stalls in a row at the start / in the middle / just before the end of a short stream
	nend := 0
	for _, K := range []int{150, 1100, 12000} {
		for pos := 0; pos < 3; pos++ {
			for _, vr := range variants {
				for _, size := range sizes {
					stream := randStream(r, 20+r.Intn(40))
					nchunks := (len(stream) + 1) / 2
					at := []int{0, nchunks / 2, -1}[pos]
					tail := 0
					if at < 0 {
						tail = K
					}
					nend++
					sc, st := chunkScript(r, stream, 3, func(i int) int {
						if i == at {
							return K
						}
						return 0
					}, tail, ends[nend%2])
					if st < K { // the chosen chunk index was beyond the last chunk: put the run at the end
						continue
					}
					emit("run", vr, size, sc, st, K)
				}
			}
		}
	}
	// family "each": k stalls before EVERY chunk of a stream of several hundred one-byte chunks (never more than k in a row)
	type eachT struct {
		n, k  int
		which func(vr variantT, size int) bool
	}
	small := func(size int) bool { return size <= 3 || size == 64 }
	each := []eachT{
		{150, 1, func(vr variantT, size int) bool { return small(size) }},
		{320, 1, func(vr variantT, size int) bool { return small(size) && !vr.readLine }},
		{160, 2, func(vr variantT, size int) bool { return small(size) && vr.readLine }},
		{1100, 1, func(vr variantT, size int) bool { return size == 3 && !vr.readLine }},
	}
	if *thorough {
		all := func(vr variantT, size int) bool { return true }
		each = []eachT{{150, 1, all}, {320, 1, all}, {160, 2, all}, {400, 3, all}, {1100, 1, all},
			{12000, 1, func(vr variantT, size int) bool { return size <= 2 || size == 64 }}}
	}
	for _, e := range each {
		for _, vr := range variants {
			for _, size := range sizes {
				if !e.which(vr, size) {
					continue
				}
				nend++
				stream := randStream(r, e.n)
				sc, st := chunkScript(r, stream, 1, func(int) int { return e.k }, 0, ends[nend%2])
				emit("each", vr, size, sc, st, e.k)
			}
		}
	}
	// family "random": runs of random length at random places, several hundred stalls in total
	nrand := 2
	if *thorough {
		nrand = 10
	}
	for i := 0; i < nrand; i++ {
		for _, vr := range variants {
			for _, size := range sizes {
				nend++
				stream := randStream(r, 40+r.Intn(80))
				run := 0
				sc, st := chunkScript(r, stream, 1+r.Intn(6), func(int) int {
					k := 0
					switch r.Intn(6) {
					case 0:
						k = 1 + r.Intn(3)
					case 1:
						k = 20 + r.Intn(120)
					}
					if k > run {
						run = k
					}
					return k
				}, r.Intn(3), ends[nend%2])
				emit("random", vr, size, sc, st, run)
			}
		}
	}
	vh.WriteJSON(*out+".stats.json", M{"traces": tid, "families": families, "max_stalls_in_a_script": maxStalls,
		"max_stalls_in_a_row": maxRun, "total_stalls": totalStalls, "events": w.N,
		"hangs_confirmed": hp.confirmed, "skipped_after_hangs": hp.skipped, "slow_not_hung": hp.falseAlarms})
	fmt.Println(w.N)
	return nil
}

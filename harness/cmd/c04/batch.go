package main

// C04 - the batching layer on top of the scanner (pkg/extractor/batchers/batcher.go).
//   c04-breplay : replays TLC-enumerated behaviours of ScannerBatch (reader script with pauses that force
//                 timer flushes of partial batches, batch size) on the real syncReaderToBatcherWithTimeFlush
//                 (batchers.VerifOpenReaderToChan, ms flush interval) and syncReaderToBatcher
//                 (batchers.OpenFilesToChan) with a late consumer that holds EVERY batch to the end (B1)
//   batcher traces for c04-trace (B2) are recorded by recordBatcherTraces

import (
	"encoding/json"
	"flag"
	"fmt"
	"io"
	"math/rand"
	"os"
	"path/filepath"
	"sort"
	"sync"
	"time"

	"rare/pkg/extractor"
	"rare/pkg/extractor/batchers"

	"verifharness/vh"
)

type batchRead struct {
	D []int  `json:"d"`
	E string `json:"e"`
	P bool   `json:"p"` // the source pauses (>= flush interval) before this read returns
}

// pausingReader: scriptedReader + pauses + Close notification
type pausingReader struct {
	script   []batchRead
	pos, off int
	pause    time.Duration
	ended    string
	afterEnd int
	closed   chan struct{}
	once     sync.Once
	log      func(data []byte, e string)
}

func newPausingReader(script []batchRead, pause time.Duration) *pausingReader {
	return &pausingReader{script: script, pause: pause, closed: make(chan struct{})}
}

func (s *pausingReader) Close() error {
	s.once.Do(func() { close(s.closed) })
	return nil
}

func (s *pausingReader) Read(p []byte) (int, error) {
	if s.ended != "" {
		s.afterEnd++
		if s.ended == "eof" {
			return 0, io.EOF
		}
		return 0, errInjected
	}
	if s.pos >= len(s.script) {
		s.ended = "eof"
		if s.log != nil {
			s.log(nil, "eof")
		}
		return 0, io.EOF
	}
	cur := &s.script[s.pos]
	if cur.P && s.off == 0 {
		time.Sleep(s.pause)
	}
	n := len(cur.D) - s.off
	if n > len(p) {
		n = len(p)
	}
	for i := 0; i < n; i++ {
		p[i] = byte(cur.D[s.off+i])
	}
	s.off += n
	e := "nil"
	if s.off >= len(cur.D) {
		e = cur.E
		s.pos++
		s.off = 0
	}
	if s.log != nil {
		s.log(p[:n], e)
	}
	switch e {
	case "eof":
		s.ended = "eof"
		return n, io.EOF
	case "fail":
		s.ended = "fail"
		return n, errInjected
	}
	return n, nil
}

// what the consumer saw of one batch
type seenBatch struct {
	source string
	start  uint64
	held   []extractor.BString // the slice of lines exactly as received (retained, re-read at the end)
	early  [][]byte            // copies of the lines taken when the batch was received
}

type batchOutcome struct {
	batches []seenBatch
	errs    int
	hang    bool
}

func copyLines(b []extractor.BString) [][]byte {
	out := make([][]byte, len(b))
	for i := range b {
		out[i] = append([]byte{}, b[i]...)
	}
	return out
}

// consume receives every batch of b and keeps it.  mode "prompt": receive as they come;
// "queued": let the batches sit in the channel until the producer is finished (wait), then drain.
func consume(b *batchers.Batcher, mode string, wait <-chan struct{}, onBatch func(seenBatch)) batchOutcome {
	var out batchOutcome
	done := make(chan struct{})
	go func() {
		defer close(done)
		if mode == "queued" && wait != nil {
			<-wait
		}
		for ib := range b.BatchChan() {
			sb := seenBatch{source: ib.Source, start: ib.BatchStart, held: ib.Batch, early: copyLines(ib.Batch)}
			out.batches = append(out.batches, sb)
			if onBatch != nil {
				onBatch(sb)
			}
		}
	}()
	select {
	case <-done:
	case <-time.After(60 * time.Second):
		out.hang = true
		return out
	}
	out.errs = b.ReadErrors()
	return out
}

type batchVec struct {
	Pb      int         `json:"pb"`
	Timed   bool        `json:"timed"`
	Reads   []batchRead `json:"reads"`
	Toks    [][]int     `json:"toks"`
	Errs    int         `json:"errs"`
	Batches []struct {
		Start int    `json:"start"`
		N     int    `json:"n"`
		Kind  string `json:"kind"`
	} `json:"batches"`
}

type batchMismatch struct {
	Vector json.RawMessage `json:"vector"`
	Path   string          `json:"path"`
	Kind   string          `json:"kind"`
	Got    interface{}     `json:"got"`
}

func linesOf(bs []seenBatch, late bool) [][]int {
	out := [][]int{}
	for _, b := range bs {
		if late {
			for _, l := range b.held {
				out = append(out, B(l))
			}
		} else {
			for _, l := range b.early {
				out = append(out, B(l))
			}
		}
	}
	return out
}

func eqLines(a, b [][]int) bool {
	if len(a) != len(b) {
		return false
	}
	for i := range a {
		if !vh.EqInts(a[i], b[i]) {
			return false
		}
	}
	return true
}

func shape(bs []seenBatch) []M {
	out := []M{}
	for _, b := range bs {
		ls := [][]int{}
		for _, l := range b.held {
			ls = append(ls, B(l))
		}
		out = append(out, M{"start": b.start, "n": len(b.held), "now": ls})
	}
	return out
}

// judge compares what the consumer saw with the vector; returns the mismatches and whether the
// partition TLC computed for the schedule was observed exactly
func judge(v *batchVec, raw json.RawMessage, path, source string, o batchOutcome, afterEnd int) ([]batchMismatch, bool) {
	var mm []batchMismatch
	add := func(kind string, got interface{}) {
		mm = append(mm, batchMismatch{raw, path, kind, got})
	}
	if o.hang {
		add("hang", nil)
		return mm, false
	}
	early, late := linesOf(o.batches, false), linesOf(o.batches, true)
	if !eqLines(early, v.Toks) {
		add("lines", early)
	} else if !eqLines(late, v.Toks) {
		add("overwritten", shape(o.batches))
	}
	next := uint64(1)
	for i, b := range o.batches {
		if b.start != next {
			add("start", M{"batch": i + 1, "start": b.start, "want": next})
			break
		}
		next += uint64(len(b.held))
	}
	for i, b := range o.batches {
		if len(b.held) < 1 || len(b.held) > v.Pb {
			add("size", M{"batch": i + 1, "n": len(b.held)})
			break
		}
		if b.source != source {
			add("source", M{"batch": i + 1, "source": b.source})
			break
		}
	}
	if o.errs != v.Errs {
		add("errcount", o.errs)
	}
	if afterEnd != 0 {
		add("read-after-end", afterEnd)
	}
	realized := len(o.batches) == len(v.Batches)
	for i := 0; realized && i < len(v.Batches); i++ {
		realized = int(o.batches[i].start) == v.Batches[i].Start && len(o.batches[i].held) == v.Batches[i].N
	}
	return mm, realized
}

func c04BatchReplay(args []string) error {
	fs := flag.NewFlagSet("c04-breplay", flag.ExitOnError)
	in := fs.String("in", "", "vectors ndjson")
	out := fs.String("out", "", "result json")
	intervalMs := fs.Int("interval", 15, "auto-flush interval of the timed path (ms)")
	pauseMs := fs.Int("pause", 40, "pause of the scripted source (ms), > interval")
	par := fs.Int("par", 256, "vectors replayed concurrently (they mostly sleep)")
	fs.Parse(args)
	interval := time.Duration(*intervalMs) * time.Millisecond
	pause := time.Duration(*pauseMs) * time.Millisecond

	type item struct {
		raw json.RawMessage
		v   batchVec
	}
	var timed, files []item
	err := vh.ReadNd(*in, func(raw json.RawMessage) error {
		var v batchVec
		if err := json.Unmarshal(raw, &v); err != nil {
			return err
		}
		if v.Timed {
			timed = append(timed, item{raw, v})
		} else {
			files = append(files, item{raw, v})
		}
		return nil
	})
	if err != nil {
		return err
	}
	var mu sync.Mutex
	var mism []batchMismatch
	runs, realized, timerBatches, nontrivial, partial := 0, 0, 0, 0, 0
	var samples []json.RawMessage

	// ---- timed path: syncReaderToBatcherWithTimeFlush through the verif hook
	sem := make(chan struct{}, *par)
	var wg sync.WaitGroup
	for idx := range timed {
		it := &timed[idx]
		for _, mode := range []string{"prompt", "queued"} {
			wg.Add(1)
			sem <- struct{}{}
			go func(it *item, mode string, idx int) {
				defer func() { <-sem; wg.Done() }()
				rd := newPausingReader(append([]batchRead{}, it.v.Reads...), pause)
				buffer := idx % 3 // 0, 1, 2
				if mode == "queued" {
					buffer = len(it.v.Toks) + 2
				}
				name := fmt.Sprintf("v%d", idx)
				b := batchers.VerifOpenReaderToChan(name, rd, it.v.Pb, buffer, interval)
				o := consume(b, mode, rd.closed, nil)
				mm, real := judge(&it.v, it.raw, "timed/"+mode, name, o, rd.afterEnd)
				mu.Lock()
				runs++
				for i, sb := range o.batches {
					if len(sb.held) < it.v.Pb && i < len(o.batches)-1 {
						partial++
					}
				}
				mism = append(mism, mm...)
				if real {
					realized++
					for _, eb := range it.v.Batches {
						if eb.Kind == "timer" {
							timerBatches++
						}
					}
				}
				mu.Unlock()
			}(it, mode, idx)
		}
		if len(it.v.Batches) > 1 {
			nontrivial++
		}
		if len(samples) < 2 && len(it.v.Batches) > 2 {
			samples = append(samples, it.raw)
		}
	}
	wg.Wait()

	// ---- file path: syncReaderToBatcher through OpenFilesToChan, all files of one batch size in one call
	dir, err := os.MkdirTemp(".", "c04-files-")
	if err != nil {
		return err
	}
	defer os.RemoveAll(dir)
	byPb := map[int][]*item{}
	for idx := range files {
		it := &files[idx]
		ok := true
		for i, r := range it.v.Reads {
			if r.E == "fail" || (r.E == "eof" && i != len(it.v.Reads)-1) {
				ok = false
			}
		}
		if ok {
			byPb[it.v.Pb] = append(byPb[it.v.Pb], it)
		}
	}
	fileRuns, fileRealized := 0, 0
	pbs := []int{}
	for pb := range byPb {
		pbs = append(pbs, pb)
	}
	sort.Ints(pbs)
	for _, pb := range pbs {
		its := byPb[pb]
		names := make(chan string, len(its))
		byName := map[string]*item{}
		for i, it := range its {
			var data []byte
			for _, r := range it.v.Reads {
				data = append(data, vh.FromInts(r.D)...)
			}
			fn := filepath.Join(dir, fmt.Sprintf("pb%d-%d.txt", pb, i))
			if err := os.WriteFile(fn, data, 0o644); err != nil {
				return err
			}
			byName[fn] = it
			names <- fn
		}
		close(names)
		b := batchers.OpenFilesToChan(names, false, 4, pb, 1+pb%3)
		o := consume(b, "prompt", nil, nil)
		per := map[string][]seenBatch{}
		for _, sb := range o.batches {
			per[sb.source] = append(per[sb.source], sb)
		}
		for fn, it := range byName {
			oo := batchOutcome{batches: per[fn], errs: 0, hang: o.hang}
			mm, real := judge(&it.v, it.raw, "files", fn, oo, 0)
			fileRuns++
			mism = append(mism, mm...)
			if real {
				fileRealized++
			}
			if len(it.v.Batches) > 1 {
				nontrivial++
			}
		}
		if o.errs != 0 {
			mism = append(mism, batchMismatch{nil, "files", "errcount", o.errs})
		}
	}
	vh.WriteJSON(*out, M{"runs": runs + fileRuns, "timed_runs": runs, "timed_realized": realized,
		"timer_batches_observed": timerBatches, "partial_batches_observed": partial, "file_runs": fileRuns, "file_realized": fileRealized,
		"distinct_nontrivial": nontrivial, "mismatches": mism, "samples": samples})
	return nil
}

// ---------------------------------------------------------------------------------------------
// B2: recorded executions of the real batcher paths

type evbuf struct {
	mu sync.Mutex
	ev []M
}

func (e *evbuf) add(m M) {
	e.mu.Lock()
	e.ev = append(e.ev, m)
	e.mu.Unlock()
}

func linesJSON(ls [][]byte) [][]int {
	out := make([][]int, len(ls))
	for i := range ls {
		out[i] = B(ls[i])
	}
	return out
}

func heldJSON(ls []extractor.BString) [][]int {
	out := make([][]int, len(ls))
	for i := range ls {
		out[i] = B(ls[i])
	}
	return out
}

func randPausingScript(r *rand.Rand, stream []byte, maxPauses int) []batchRead {
	base := randScript(r, stream)
	out := make([]batchRead, len(base))
	for i, x := range base {
		out[i] = batchRead{D: x.D, E: x.E}
	}
	np := r.Intn(maxPauses + 1)
	for i := 0; i < np && len(out) > 0; i++ {
		out[r.Intn(len(out))].P = true
	}
	return out
}

var batchSizes = []int{1, 2, 3, 4, 100}

// one recorded run of the timed path; returns its events (without the reset line's t)
func recordTimed(r *rand.Rand, maxLen int, real250 bool) []M {
	ln := r.Intn(maxLen + 1)
	if real250 {
		ln = 40 + r.Intn(200)
	}
	stream := randStream(r, ln)
	pb := batchSizes[r.Intn(len(batchSizes))]
	if r.Intn(6) == 0 {
		pb = 5 + r.Intn(40)
	}
	buffer := []int{0, 1, 2, 1000}[r.Intn(4)]
	mode := []string{"prompt", "queued"}[r.Intn(2)]
	if mode == "queued" {
		buffer = ln + 2
	}
	maxPauses := 5
	interval, pause := 10*time.Millisecond, 25*time.Millisecond
	variant := "batcher-timed"
	if real250 {
		variant, maxPauses, pause = "batcher-250", 2, 320*time.Millisecond
	}
	script := randPausingScript(r, stream, maxPauses)
	if real250 { // make sure a partial batch is flushed by the real 250 ms timer: pause before the 2nd read
		pb = 100
		if len(script) > 1 {
			script[1].P = true
		}
	}
	eb := &evbuf{}
	eb.add(M{"event": "reset", "variant": variant, "size": batchers.ReadAheadBufferSize, "bsize": pb, "mode": mode, "buffer": buffer})
	rd := newPausingReader(script, pause)
	rd.log = func(d []byte, e string) { eb.add(M{"event": "read", "data": B(d), "err": e}) }
	var b *batchers.Batcher
	if real250 {
		b = batchers.OpenReaderToChan("src", rd, pb, buffer)
	} else {
		b = batchers.VerifOpenReaderToChan("src", rd, pb, buffer, interval)
	}
	o := consume(b, mode, rd.closed, func(sb seenBatch) {
		eb.add(M{"event": "batch", "start": sb.start, "lines": linesJSON(sb.early)})
	})
	if o.hang {
		eb.add(M{"event": "hang"})
		return eb.ev
	}
	if rd.afterEnd > 0 {
		eb.add(M{"event": "readafterend", "n": rd.afterEnd})
	}
	for j := 0; j < o.errs; j++ {
		eb.add(M{"event": "err"})
	}
	eb.add(M{"event": "end"})
	for i, sb := range o.batches {
		eb.add(M{"event": "blate", "i": i + 1, "lines": heldJSON(sb.held)})
	}
	return eb.ev
}

// recorded runs of the file path: several files through one OpenFilesToChan; one trace per source
func recordFiles(r *rand.Rand, dir string, maxLen, nfiles, call int) [][]M {
	pb := batchSizes[r.Intn(len(batchSizes))]
	buffer := []int{0, 1, 1000}[r.Intn(3)]
	names := make(chan string, nfiles)
	streams := map[string][]byte{}
	order := []string{}
	for i := 0; i < nfiles; i++ {
		fn := filepath.Join(dir, fmt.Sprintf("call%d-%d.log", call, i))
		s := randStream(r, r.Intn(maxLen+1))
		if err := os.WriteFile(fn, s, 0o644); err != nil {
			panic(err)
		}
		streams[fn] = s
		order = append(order, fn)
		names <- fn
	}
	close(names)
	b := batchers.OpenFilesToChan(names, false, 1+r.Intn(3), pb, buffer)
	o := consume(b, "prompt", nil, nil)
	var out [][]M
	for _, fn := range order {
		ev := []M{{"event": "reset", "variant": "batcher-files", "size": batchers.ReadAheadBufferSize, "bsize": pb, "mode": "prompt", "buffer": buffer},
			{"event": "read", "data": B(streams[fn]), "err": "eof"}}
		if o.hang {
			ev = append(ev, M{"event": "hang"})
			out = append(out, ev)
			continue
		}
		var mine []seenBatch
		for _, sb := range o.batches {
			if sb.source == fn {
				mine = append(mine, sb)
			}
		}
		for _, sb := range mine {
			ev = append(ev, M{"event": "batch", "start": sb.start, "lines": linesJSON(sb.early)})
		}
		ev = append(ev, M{"event": "end"})
		for i, sb := range mine {
			ev = append(ev, M{"event": "blate", "i": i + 1, "lines": heldJSON(sb.held)})
		}
		out = append(out, ev)
	}
	if o.errs != 0 {
		out[0] = append(out[0], M{"event": "err"})
	}
	return out
}

// recordBatcherTraces appends nTimed timed-path traces, n250 traces of the production 250 ms path and
// nFileCalls OpenFilesToChan calls to the trace file; tid continues from *tid
func recordBatcherTraces(w *vh.NdWriter, tid *int, nTimed, n250, nFileCalls, maxLen int) error {
	// every run gets its own deterministic generator, so that concurrency does not change the data
	seeds := vh.NewRand(41)
	type job struct {
		r       *rand.Rand
		real250 bool
		out     []M
	}
	jobs := make([]*job, 0, nTimed+n250)
	for i := 0; i < n250; i++ {
		jobs = append(jobs, &job{r: rand.New(rand.NewSource(seeds.Int63())), real250: true})
	}
	for i := 0; i < nTimed; i++ {
		jobs = append(jobs, &job{r: rand.New(rand.NewSource(seeds.Int63()))})
	}
	sem := make(chan struct{}, 128)
	var wg sync.WaitGroup
	for _, j := range jobs {
		wg.Add(1)
		sem <- struct{}{}
		go func(j *job) {
			defer func() { <-sem; wg.Done() }()
			j.out = recordTimed(j.r, maxLen, j.real250)
		}(j)
	}
	wg.Wait()
	emit := func(ev []M) {
		*tid++
		for i, e := range ev {
			if i == 0 {
				e["t"] = *tid
			}
			w.Write(e)
		}
	}
	for _, j := range jobs {
		emit(j.out)
	}
	dir, err := os.MkdirTemp(".", "c04-tfiles-")
	if err != nil {
		return err
	}
	defer os.RemoveAll(dir)
	fr := vh.NewRand(42)
	for c := 0; c < nFileCalls; c++ {
		for _, ev := range recordFiles(fr, dir, maxLen, 1+fr.Intn(6), c) {
			emit(ev)
		}
	}
	return nil
}

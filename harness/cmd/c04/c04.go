package main

// C04 - line scanner conformance.
//   c04-replay : replays TLC-enumerated behaviours of ScannerImm/ScannerBuf on the real scanners (B1)
//   c04-trace  : records random long executions as read/tok/err/end/late events (B2)
//   c04-breplay: see batch.go (the batching layer on top of the scanner)

import (
	"encoding/json"
	"errors"
	"flag"
	"fmt"
	"io"
	"math/rand"
	"sync/atomic"
	"time"

	"rare/pkg/extractor"
	"rare/pkg/extractor/batchers"
	"rare/pkg/readahead"

	"verifharness/vh"
)

func main() {
	vh.Main(vh.Commands{"replay": c04Replay, "trace": c04Trace, "breplay": c04BatchReplay, "stalltrace": c04StallTrace})
}

type M = vh.M

var B = vh.B

var errInjected = errors.New("injected read failure")

type scriptedRead struct {
	D []int  `json:"d"`
	E string `json:"e"`
}

// scriptedReader delivers a script of (data, result) pairs; a chunk larger than the caller's
// buffer is delivered in pieces (still a partition of the same stream), its result with the last piece.
type scriptedReader struct {
	script   []scriptedRead
	pos, off int
	ended    string // "" | "eof" | "fail"
	afterEnd int
	log      func(data []byte, e string)

	stallMul int // > 1: every stall entry (no data, nil) of the script is served that many times in a row
	rep      int
	calls    int64       // Read calls so far
	empty    int64       // ... of which with len(p) == 0 (the scanner asked for nothing)
	abort    atomic.Bool // set by the watchdog: the next Read panics (ends a scanner that never returns)
}

type abortedScan struct{}

func (s *scriptedReader) Read(p []byte) (int, error) {
	if s.abort.Load() {
		panic(abortedScan{})
	}
	s.calls++
	if len(p) == 0 {
		s.empty++
	}
	if s.ended != "" {
		s.afterEnd++
		if s.ended == "eof" {
			return 0, io.EOF
		}
		return 0, errInjected
	}
	if s.pos >= len(s.script) { // script exhausted without an end: behave as EOF
		s.ended = "eof"
		if s.log != nil {
			s.log(nil, "eof")
		}
		return 0, io.EOF
	}
	cur := &s.script[s.pos]
	if len(cur.D) == 0 && cur.E == "nil" && len(p) > 0 && s.rep+1 < s.stallMul {
		s.rep++ // a stall, served again
		if s.log != nil {
			s.log(p[:0], "nil")
		}
		return 0, nil
	}
	n := len(cur.D) - s.off
	if n > len(p) {
		n = len(p)
	}
	for i := 0; i < n; i++ {
		p[i] = byte(cur.D[s.off+i])
	}
	s.off += n
	e := "nil"
	if s.off >= len(cur.D) {
		e = cur.E
		s.pos++
		s.off = 0
		s.rep = 0
	}
	if s.log != nil {
		s.log(p[:n], e)
	}
	switch e {
	case "eof":
		s.ended = "eof"
		return n, io.EOF
	case "fail":
		s.ended = "fail"
		return n, errInjected
	}
	return n, nil
}

func newScanner(variant string, r io.Reader, size int) readahead.Scanner {
	if variant == "buf" {
		if size < 2 {
			size = 2
		}
		return readahead.NewBuffered(r, size)
	}
	return readahead.NewImmediate(r, size)
}

type scanOutcome struct {
	held     [][]byte // the slices exactly as handed out (retained, re-read later)
	copies   [][]byte // copies taken at hand-out time
	errs     int
	afterEnd int
	extra    int // Scan() calls that returned true after Scan() had returned false
	hang     bool
	calls    int64 // Read calls made (at the moment the watchdog gave up, for a hang)
	empty    int64 // Read calls with an empty slice
	panicked string
	leaked   bool // a hung scan that could not be ended (it does not call Read): its goroutine keeps spinning
}

type scanOpts struct {
	readLine bool // use ReadLine() (Scan+Bytes shorthand, nil at the end) instead of Scan()/Bytes()
	noErrCb  bool // no OnError callback registered
}

type lineReader interface {
	ReadLine() []byte
}

// runScanner drives one real scanner over the scripted reader to the end, then calls Scan() twice more
// (the stream has ended: nothing may be read, returned or reported any more).
func runScanner(variant string, rd *scriptedReader, size int, onTok func([]byte), onErr func(), onEnd func(), opt scanOpts) scanOutcome {
	return runScannerDL(variant, rd, size, onTok, onErr, onEnd, opt, 20*time.Second)
}

// runScannerDL: the same under a watchdog. A scanner that has not returned after the deadline is reported as
// hang; the reader is then told to panic at its next call, which ends a scanner spinning around Read (a scanner
// that spins without reading is left behind).
func runScannerDL(variant string, rd *scriptedReader, size int, onTok func([]byte), onErr func(), onEnd func(), opt scanOpts, deadline time.Duration) scanOutcome {
	var out scanOutcome
	done := make(chan struct{})
	go func() {
		defer close(done)
		defer func() {
			if r := recover(); r != nil {
				if _, ok := r.(abortedScan); !ok {
					out.panicked = fmt.Sprint(r)
				}
			}
		}()
		sc := newScanner(variant, rd, size)
		if !opt.noErrCb {
			sc.OnError(func(error) {
				out.errs++
				if onErr != nil {
					onErr()
				}
			})
		}
		take := func(t []byte) {
			out.held = append(out.held, t)
			out.copies = append(out.copies, append([]byte{}, t...))
			if onTok != nil {
				onTok(t)
			}
		}
		if opt.readLine {
			lr := sc.(lineReader)
			for t := lr.ReadLine(); t != nil; t = lr.ReadLine() {
				take(t)
			}
		} else {
			for sc.Scan() {
				take(sc.Bytes())
			}
		}
		if onEnd != nil {
			onEnd()
		}
		for i := 0; i < 2; i++ {
			if sc.Scan() {
				out.extra++
				take(sc.Bytes())
			}
		}
	}()
	tm := time.NewTimer(deadline)
	defer tm.Stop()
	select {
	case <-done:
	case <-tm.C:
		rd.abort.Store(true)
		leaked := false
		select {
		case <-done:
		case <-time.After(2 * time.Second):
			leaked = true // spinning without calling Read: cannot be ended from outside
		}
		return scanOutcome{hang: true, calls: rd.calls, empty: rd.empty, leaked: leaked}
	}
	out.afterEnd = rd.afterEnd
	out.calls, out.empty = rd.calls, rd.empty
	return out
}

// hangPolicy: a script whose scan does not return within `first` is run again, alone, with the long deadline
// `confirm`; only then it counts as a hang. After `cap` confirmed hangs of one class (scanner variant, buffer
// size) the remaining scripts of that class are skipped and counted - each of them would cost both deadlines.
type hangPolicy struct {
	first, confirm time.Duration
	cap            int
	confirmed      map[string]int
	skipped        map[string]int
	falseAlarms    int
}

func newHangPolicy() *hangPolicy {
	return &hangPolicy{first: 5 * time.Second, confirm: 15 * time.Second, cap: 2, confirmed: map[string]int{}, skipped: map[string]int{}}
}

func hangClass(variant string, size int) string { return fmt.Sprintf("%s/buf=%d", variant, size) }

// run returns (outcome, ran). mk must return a fresh reader for the same script each time.
func (h *hangPolicy) run(variant string, size int, opt scanOpts, mk func() (*scriptedReader, func([]byte), func(), func())) (scanOutcome, bool) {
	cl := hangClass(variant, size)
	if h.confirmed[cl] >= h.cap {
		h.skipped[cl]++
		return scanOutcome{}, false
	}
	rd, onTok, onErr, onEnd := mk()
	o := runScannerDL(variant, rd, size, onTok, onErr, onEnd, opt, h.first)
	if !o.hang {
		return o, true
	}
	rd, onTok, onErr, onEnd = mk()
	o = runScannerDL(variant, rd, size, onTok, onErr, onEnd, opt, h.confirm)
	if o.hang {
		h.confirmed[cl]++
		if o.leaked {
			h.confirmed[cl] = h.cap // every further script of the class would leave two more spinning goroutines behind
		}
	} else {
		h.falseAlarms++
	}
	return o, true
}

type c04Vector struct {
	Buf   int            `json:"buf"`
	Reads []scriptedRead `json:"reads"`
	Toks  [][]int        `json:"toks"`
	Errs  int            `json:"errs"`
}

func c04Replay(args []string) error {
	fs := flag.NewFlagSet("c04-replay", flag.ExitOnError)
	in := fs.String("in", "", "vectors ndjson")
	out := fs.String("out", "", "result json")
	allStalls := fs.Bool("allstalls", false, "stretch the stalls of every vector that has some (default: every second one)")
	fs.Parse(args)
	type mismatch struct {
		Vector  json.RawMessage `json:"vector"`
		Variant string          `json:"variant"`
		Kind    string          `json:"kind"`
		Got     interface{}     `json:"got"`
	}
	var mism []mismatch
	n, distinct := 0, map[string]bool{}
	hp := newHangPolicy()
	idx, stallRuns, maxStalls := 0, 0, 0
	var samples []json.RawMessage
	err := vh.ReadNd(*in, func(raw json.RawMessage) error {
		var v c04Vector
		if err := json.Unmarshal(raw, &v); err != nil {
			return err
		}
		idx++
		// one real execution of the script; mul > 1: every stall of the script is served mul times in a row.
		// By the law "a stall changes nothing" (ScannerStall.tla: StallNoop, StallReturns, StallLaw; Scanner.tla: a
		// stall is a stuttering step) the expected tokens and error count are those TLC gave for the script.
		one := func(variant, base string, opt scanOpts, mul int) {
			size := v.Buf
			if base == "buf" && size < 2 {
				size = 2
			}
			o, ran := hp.run(base, size, opt, func() (*scriptedReader, func([]byte), func(), func()) {
				return &scriptedReader{script: append([]scriptedRead{}, v.Reads...), stallMul: mul}, nil, nil, nil
			})
			if !ran {
				return
			}
			n++
			add := func(kind string, got interface{}) {
				mism = append(mism, mismatch{raw, variant, kind, got})
			}
			if o.hang {
				add("hang", M{"stall_mul": mul, "read_calls": o.calls, "read_calls_with_empty_slice": o.empty,
					"deadlines_s": []float64{hp.first.Seconds(), hp.confirm.Seconds()}})
				return
			}
			if o.panicked != "" {
				add("panic", M{"stall_mul": mul, "panic": o.panicked})
				return
			}
			gotHeld := make([][]int, len(o.held))
			for i := range o.held {
				gotHeld[i] = B(o.held[i])
			}
			same := len(o.held) == len(v.Toks)
			for i := 0; same && i < len(v.Toks); i++ {
				same = vh.EqInts(B(o.copies[i]), v.Toks[i])
			}
			if !same {
				cp := make([][]int, len(o.copies))
				for i := range o.copies {
					cp[i] = B(o.copies[i])
				}
				if mul > 1 {
					add("tokens", M{"stall_mul": mul, "toks": cp})
				} else {
					add("tokens", cp)
				}
			} else {
				for i := range v.Toks {
					if !vh.EqInts(gotHeld[i], v.Toks[i]) {
						add("overwritten", M{"k": i, "now": gotHeld[i]})
						break
					}
				}
			}
			if o.errs != v.Errs && !opt.noErrCb {
				if mul > 1 {
					add("errcount", M{"stall_mul": mul, "errs": o.errs})
				} else {
					add("errcount", o.errs)
				}
			}
			if o.extra != 0 {
				add("scan-after-end", o.extra)
			}
			if o.afterEnd != 0 {
				add("read-after-end", o.afterEnd)
			}
		}
		for _, vr := range []struct {
			name, variant string
			opt           scanOpts
		}{{"imm", "imm", scanOpts{}}, {"buf", "buf", scanOpts{}},
			{"imm-readline", "imm", scanOpts{readLine: true}}, {"buf-readline", "buf", scanOpts{readLine: true}},
			{"imm-nocallback", "imm", scanOpts{noErrCb: true}}, {"buf-nocallback", "buf", scanOpts{noErrCb: true}}} {
			if vr.opt.noErrCb && v.Errs == 0 {
				continue
			}
			one(vr.name, vr.variant, vr.opt, 1)
		}
		// long stall histories: the same script with its k stalls stretched to >= 150, 1 100 or 12 000 in total
		k := 0
		for _, r := range v.Reads {
			if len(r.D) == 0 && r.E == "nil" {
				k++
			}
		}
		if k > 0 && (*allStalls || idx%2 == 0) {
			total := 150
			switch {
			case idx%32 == 0:
				total = 12000
			case idx%32 <= 6:
				total = 1100
			}
			mul := (total + k - 1) / k
			if mul*k > maxStalls {
				maxStalls = mul * k
			}
			one("imm-stalls", "imm", scanOpts{}, mul)
			one("buf-stalls", "buf", scanOpts{}, mul)
			stallRuns += 2
			if *allStalls || idx%8 == 0 {
				one("imm-readline-stalls", "imm", scanOpts{readLine: true}, mul)
				one("buf-readline-stalls", "buf", scanOpts{readLine: true}, mul)
				stallRuns += 2
			}
		}
		if len(v.Toks) > 1 {
			distinct[string(raw)] = true
		}
		if len(samples) < 3 && len(v.Reads) > 2 {
			samples = append(samples, raw)
		}
		return nil
	})
	if err != nil {
		return err
	}
	vh.WriteJSON(*out, M{"runs": n, "distinct_nontrivial": len(distinct), "mismatches": mism, "samples": samples,
		"stall_runs": stallRuns, "max_stalls_in_a_script": maxStalls,
		"hangs_confirmed": hp.confirmed, "skipped_after_hangs": hp.skipped, "slow_not_hung": hp.falseAlarms})
	return nil
}

// ---------------------------------------------------------------------------------------------

func randStream(r *rand.Rand, n int) []byte {
	// line-structured random bytes: many short lines, some empty, CRs, long lines
	out := make([]byte, 0, n)
	for len(out) < n {
		switch r.Intn(10) {
		case 0:
			out = append(out, '\n')
		case 1:
			out = append(out, '\r', '\n')
		case 2:
			out = append(out, '\r')
		case 3:
			k := r.Intn(40)
			for i := 0; i < k; i++ {
				out = append(out, byte(r.Intn(256)))
			}
		default:
			k := r.Intn(12)
			for i := 0; i < k; i++ {
				out = append(out, byte('a'+r.Intn(4)))
			}
			if r.Intn(4) != 0 {
				out = append(out, '\n')
			}
		}
	}
	return out[:n]
}

func randScript(r *rand.Rand, stream []byte) []scriptedRead {
	var sc []scriptedRead
	pos := 0
	mode := r.Intn(4) // 0: tiny chunks, 1: medium, 2: huge, 3: mixed
	for pos < len(stream) {
		var k int
		switch mode {
		case 0:
			k = 1 + r.Intn(2)
		case 1:
			k = 1 + r.Intn(17)
		case 2:
			k = 1 + r.Intn(400)
		default:
			k = 1 + r.Intn(1+r.Intn(64))
		}
		if r.Intn(12) == 0 {
			sc = append(sc, scriptedRead{D: []int{}, E: "nil"}) // stall
		}
		if pos+k > len(stream) {
			k = len(stream) - pos
		}
		sc = append(sc, scriptedRead{D: B(stream[pos : pos+k]), E: "nil"})
		pos += k
	}
	// ending: EOF or failure, attached to the last data chunk or on its own
	end := "eof"
	if r.Intn(3) == 0 {
		end = "fail"
	}
	if len(sc) > 0 && r.Intn(2) == 0 {
		sc[len(sc)-1].E = end
	} else {
		sc = append(sc, scriptedRead{D: []int{}, E: end})
	}
	return sc
}

// compactScript: the script with every run of stalls written as {"stalls": n} (for replay files)
func compactScript(script []scriptedRead) []interface{} {
	var out []interface{}
	run := 0
	for _, r := range script {
		if len(r.D) == 0 && r.E == "nil" {
			run++
			continue
		}
		if run > 0 {
			out = append(out, M{"stalls": run})
			run = 0
		}
		out = append(out, r)
	}
	if run > 0 {
		out = append(out, M{"stalls": run})
	}
	return out
}

// recordScan runs one real scanner over the script under the watchdog and writes the trace of the run that
// counted: reset, read / stall (a run of n reads that returned (0, nil)) in call order interleaved with tok / err /
// end. A confirmed hang is written as reset + the reads made + `hang` (an event the specification cannot explain);
// false if the script was skipped (its class already has confirmed hangs).
func recordScan(w *vh.NdWriter, hp *hangPolicy, tid int, variant string, size int, script []scriptedRead, stallMul int, opt scanOpts) (scanOutcome, bool) {
	var evs []M
	stallRun := 0
	flush := func() {
		if stallRun > 0 {
			evs = append(evs, M{"event": "stall", "n": stallRun})
			stallRun = 0
		}
	}
	o, ran := hp.run(variant, size, opt, func() (*scriptedReader, func([]byte), func(), func()) {
		evs, stallRun = nil, 0
		rd := &scriptedReader{script: script, stallMul: stallMul, log: func(d []byte, e string) {
			if len(d) == 0 && e == "nil" {
				stallRun++
				return
			}
			flush()
			evs = append(evs, M{"event": "read", "data": B(d), "err": e})
		}}
		return rd, func(t []byte) { flush(); evs = append(evs, M{"event": "tok", "data": B(t)}) },
			func() { flush(); evs = append(evs, M{"event": "err"}) },
			func() { flush(); evs = append(evs, M{"event": "end"}) }
	})
	if !ran {
		return o, false
	}
	w.Write(M{"event": "reset", "t": tid, "variant": variant, "size": size, "bsize": 0})
	if o.hang {
		// the goroutine may still be appending: the events of a hung run are not written, only the verdict
		w.Write(M{"event": "hang", "read_calls": o.calls, "read_calls_with_empty_slice": o.empty, "script": compactScript(script), "stall_mul": stallMul,
			"deadlines_s": []float64{hp.first.Seconds(), hp.confirm.Seconds()}})
		return o, false
	}
	if o.panicked != "" {
		w.Write(M{"event": "panic", "panic": o.panicked, "script": compactScript(script)})
		return o, false
	}
	flush()
	for _, e := range evs {
		w.Write(e)
	}
	return o, true
}

func c04Trace(args []string) error {
	fs := flag.NewFlagSet("c04-trace", flag.ExitOnError)
	out := fs.String("out", "", "trace ndjson")
	n := fs.Int("n", 100, "number of traces")
	maxLen := fs.Int("maxlen", 300, "max stream length")
	big := fs.Int("big", 0, "number of production-wiring traces (128KiB buffer through the batcher)")
	nbt := fs.Int("bt", 0, "number of batcher traces on the timed path (ms flush interval, pauses)")
	nb250 := fs.Int("b250", 0, "number of batcher traces on the production 250 ms path")
	nbf := fs.Int("bfiles", 0, "number of OpenFilesToChan calls (several files each)")
	fs.Parse(args)
	w, err := vh.NewNdWriter(*out)
	if err != nil {
		return err
	}
	defer w.Close()
	r := vh.NewRand(4)
	tid := 0
	hp := newHangPolicy()
	for i := 0; i < *n; i++ {
		tid++
		variant := []string{"imm", "buf"}[r.Intn(2)]
		size := 1 + r.Intn(9)
		if r.Intn(5) == 0 {
			size = 1 + r.Intn(300)
		}
		ln := r.Intn(*maxLen + 1)
		if r.Intn(10) == 0 {
			ln = r.Intn(8)
		}
		stream := randStream(r, ln)
		// cut the stream at a random position for failure injection (bytes before the error count)
		script := randScript(r, stream)
		o, ok := recordScan(w, hp, tid, variant, size, script, 1, scanOpts{readLine: r.Intn(4) == 0})
		if !ok {
			continue
		}
		if o.afterEnd > 0 {
			w.Write(M{"event": "readafterend", "n": o.afterEnd})
		}
		// late re-read of retained slices (all of them for short traces, a sample otherwise)
		step := 1
		if len(o.held) > 40 {
			step = len(o.held) / 40
		}
		for k := 0; k < len(o.held); k += step {
			w.Write(M{"event": "late", "k": k + 1, "data": B(o.held[k])})
		}
	}
	// production wiring: batchers.OpenReaderToChan (128 KiB ImmediateReadAhead), lines longer than the buffer
	for i := 0; i < *big; i++ {
		tid++
		var stream []byte
		for len(stream) < 300*1024 {
			k := r.Intn(60)
			if r.Intn(40) == 0 {
				k = 100*1024 + r.Intn(80*1024)
			}
			for j := 0; j < k; j++ {
				stream = append(stream, byte('a'+r.Intn(3)))
			}
			if r.Intn(6) == 0 {
				stream = append(stream, '\r')
			}
			stream = append(stream, '\n')
		}
		if r.Intn(2) == 0 {
			stream = append(stream, []byte("tail-no-newline")...)
		}
		var script []scriptedRead
		for pos := 0; pos < len(stream); {
			k := 1 + r.Intn(90*1024)
			if pos+k > len(stream) {
				k = len(stream) - pos
			}
			script = append(script, scriptedRead{D: B(stream[pos : pos+k]), E: "nil"})
			pos += k
		}
		end := []string{"eof", "fail"}[r.Intn(2)]
		script = append(script, scriptedRead{D: []int{}, E: end})
		w.Write(M{"event": "reset", "t": tid, "variant": "batcher", "size": batchers.ReadAheadBufferSize, "bsize": 0})
		rd := &scriptedReader{script: script, log: func(d []byte, e string) {
			w.Write(M{"event": "read", "data": B(d), "err": e})
		}}
		b := batchers.OpenReaderToChan("big", io.NopCloser(rd), 1+r.Intn(50), 1+r.Intn(3))
		var held []extractor.BString
		for batch := range b.BatchChan() {
			held = append(held, batch.Batch...)
		}
		for _, t := range held {
			w.Write(M{"event": "tok", "data": B(t)})
		}
		for j := 0; j < b.ReadErrors(); j++ {
			w.Write(M{"event": "err"})
		}
		w.Write(M{"event": "end"})
	}
	if err := recordBatcherTraces(w, &tid, *nbt, *nb250, *nbf, *maxLen); err != nil {
		return err
	}
	fmt.Println(w.N)
	return nil
}

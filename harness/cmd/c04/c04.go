package main

// C04 - line scanner conformance.
//   c04-replay : replays TLC-enumerated behaviours of ScannerImm/ScannerBuf on the real scanners (B1)
//   c04-trace  : records random long executions as read/tok/err/end/late events (B2)
//   c04-breplay: see batch.go (the batching layer on top of the scanner)

import (
	"encoding/json"
	"errors"
	"flag"
	"fmt"
	"io"
	"math/rand"
	"time"

	"rare/pkg/extractor"
	"rare/pkg/extractor/batchers"
	"rare/pkg/readahead"

	"verifharness/vh"
)

func main() {
	vh.Main(vh.Commands{"replay": c04Replay, "trace": c04Trace, "breplay": c04BatchReplay})
}

type M = vh.M

var B = vh.B

var errInjected = errors.New("injected read failure")

type scriptedRead struct {
	D []int  `json:"d"`
	E string `json:"e"`
}

// scriptedReader delivers a script of (data, result) pairs; a chunk larger than the caller's
// buffer is delivered in pieces (still a partition of the same stream), its result with the last piece.
type scriptedReader struct {
	script   []scriptedRead
	pos, off int
	ended    string // "" | "eof" | "fail"
	afterEnd int
	log      func(data []byte, e string)
}

func (s *scriptedReader) Read(p []byte) (int, error) {
	if s.ended != "" {
		s.afterEnd++
		if s.ended == "eof" {
			return 0, io.EOF
		}
		return 0, errInjected
	}
	if s.pos >= len(s.script) { // script exhausted without an end: behave as EOF
		s.ended = "eof"
		if s.log != nil {
			s.log(nil, "eof")
		}
		return 0, io.EOF
	}
	cur := &s.script[s.pos]
	n := len(cur.D) - s.off
	if n > len(p) {
		n = len(p)
	}
	for i := 0; i < n; i++ {
		p[i] = byte(cur.D[s.off+i])
	}
	s.off += n
	e := "nil"
	if s.off >= len(cur.D) {
		e = cur.E
		s.pos++
		s.off = 0
	}
	if s.log != nil {
		s.log(p[:n], e)
	}
	switch e {
	case "eof":
		s.ended = "eof"
		return n, io.EOF
	case "fail":
		s.ended = "fail"
		return n, errInjected
	}
	return n, nil
}

func newScanner(variant string, r io.Reader, size int) readahead.Scanner {
	if variant == "buf" {
		if size < 2 {
			size = 2
		}
		return readahead.NewBuffered(r, size)
	}
	return readahead.NewImmediate(r, size)
}

type scanOutcome struct {
	held     [][]byte // the slices exactly as handed out (retained, re-read later)
	copies   [][]byte // copies taken at hand-out time
	errs     int
	afterEnd int
	extra    int // Scan() calls that returned true after Scan() had returned false
	hang     bool
}

type scanOpts struct {
	readLine bool // use ReadLine() (Scan+Bytes shorthand, nil at the end) instead of Scan()/Bytes()
	noErrCb  bool // no OnError callback registered
}

type lineReader interface {
	ReadLine() []byte
}

// runScanner drives one real scanner over the scripted reader to the end, then calls Scan() twice more
// (the stream has ended: nothing may be read, returned or reported any more).
func runScanner(variant string, rd *scriptedReader, size int, onTok func([]byte), onErr func(), onEnd func(), opt scanOpts) scanOutcome {
	var out scanOutcome
	done := make(chan struct{})
	go func() {
		defer close(done)
		sc := newScanner(variant, rd, size)
		if !opt.noErrCb {
			sc.OnError(func(error) {
				out.errs++
				if onErr != nil {
					onErr()
				}
			})
		}
		take := func(t []byte) {
			out.held = append(out.held, t)
			out.copies = append(out.copies, append([]byte{}, t...))
			if onTok != nil {
				onTok(t)
			}
		}
		if opt.readLine {
			lr := sc.(lineReader)
			for t := lr.ReadLine(); t != nil; t = lr.ReadLine() {
				take(t)
			}
		} else {
			for sc.Scan() {
				take(sc.Bytes())
			}
		}
		if onEnd != nil {
			onEnd()
		}
		for i := 0; i < 2; i++ {
			if sc.Scan() {
				out.extra++
				take(sc.Bytes())
			}
		}
	}()
	select {
	case <-done:
	case <-time.After(20 * time.Second):
		out.hang = true
	}
	out.afterEnd = rd.afterEnd
	return out
}

type c04Vector struct {
	Buf   int            `json:"buf"`
	Reads []scriptedRead `json:"reads"`
	Toks  [][]int        `json:"toks"`
	Errs  int            `json:"errs"`
}

func c04Replay(args []string) error {
	fs := flag.NewFlagSet("c04-replay", flag.ExitOnError)
	in := fs.String("in", "", "vectors ndjson")
	out := fs.String("out", "", "result json")
	fs.Parse(args)
	type mismatch struct {
		Vector  json.RawMessage `json:"vector"`
		Variant string          `json:"variant"`
		Kind    string          `json:"kind"`
		Got     interface{}     `json:"got"`
	}
	var mism []mismatch
	n, distinct := 0, map[string]bool{}
	var samples []json.RawMessage
	err := vh.ReadNd(*in, func(raw json.RawMessage) error {
		var v c04Vector
		if err := json.Unmarshal(raw, &v); err != nil {
			return err
		}
		for _, vr := range []struct {
			name, variant string
			opt           scanOpts
		}{{"imm", "imm", scanOpts{}}, {"buf", "buf", scanOpts{}},
			{"imm-readline", "imm", scanOpts{readLine: true}}, {"buf-readline", "buf", scanOpts{readLine: true}},
			{"imm-nocallback", "imm", scanOpts{noErrCb: true}}, {"buf-nocallback", "buf", scanOpts{noErrCb: true}}} {
			if vr.opt.noErrCb && v.Errs == 0 {
				continue
			}
			variant := vr.name
			rd := &scriptedReader{script: append([]scriptedRead{}, v.Reads...)}
			o := runScanner(vr.variant, rd, v.Buf, nil, nil, nil, vr.opt)
			n++
			add := func(kind string, got interface{}) {
				mism = append(mism, mismatch{raw, variant, kind, got})
			}
			if o.hang {
				add("hang", nil)
				continue
			}
			gotHeld := make([][]int, len(o.held))
			for i := range o.held {
				gotHeld[i] = B(o.held[i])
			}
			same := len(o.held) == len(v.Toks)
			for i := 0; same && i < len(v.Toks); i++ {
				same = vh.EqInts(B(o.copies[i]), v.Toks[i])
			}
			if !same {
				cp := make([][]int, len(o.copies))
				for i := range o.copies {
					cp[i] = B(o.copies[i])
				}
				add("tokens", cp)
			} else {
				for i := range v.Toks {
					if !vh.EqInts(gotHeld[i], v.Toks[i]) {
						add("overwritten", M{"k": i, "now": gotHeld[i]})
						break
					}
				}
			}
			if o.errs != v.Errs && !vr.opt.noErrCb {
				add("errcount", o.errs)
			}
			if o.extra != 0 {
				add("scan-after-end", o.extra)
			}
			if o.afterEnd != 0 {
				add("read-after-end", o.afterEnd)
			}
		}
		if len(v.Toks) > 1 {
			distinct[string(raw)] = true
		}
		if len(samples) < 3 && len(v.Reads) > 2 {
			samples = append(samples, raw)
		}
		return nil
	})
	if err != nil {
		return err
	}
	vh.WriteJSON(*out, M{"runs": n, "distinct_nontrivial": len(distinct), "mismatches": mism, "samples": samples})
	return nil
}

// ---------------------------------------------------------------------------------------------

func randStream(r *rand.Rand, n int) []byte {
	// line-structured random bytes: many short lines, some empty, CRs, long lines
	out := make([]byte, 0, n)
	for len(out) < n {
		switch r.Intn(10) {
		case 0:
			out = append(out, '\n')
		case 1:
			out = append(out, '\r', '\n')
		case 2:
			out = append(out, '\r')
		case 3:
			k := r.Intn(40)
			for i := 0; i < k; i++ {
				out = append(out, byte(r.Intn(256)))
			}
		default:
			k := r.Intn(12)
			for i := 0; i < k; i++ {
				out = append(out, byte('a'+r.Intn(4)))
			}
			if r.Intn(4) != 0 {
				out = append(out, '\n')
			}
		}
	}
	return out[:n]
}

func randScript(r *rand.Rand, stream []byte) []scriptedRead {
	var sc []scriptedRead
	pos := 0
	mode := r.Intn(4) // 0: tiny chunks, 1: medium, 2: huge, 3: mixed
	for pos < len(stream) {
		var k int
		switch mode {
		case 0:
			k = 1 + r.Intn(2)
		case 1:
			k = 1 + r.Intn(17)
		case 2:
			k = 1 + r.Intn(400)
		default:
			k = 1 + r.Intn(1+r.Intn(64))
		}
		if r.Intn(12) == 0 {
			sc = append(sc, scriptedRead{D: []int{}, E: "nil"}) // stall
		}
		if pos+k > len(stream) {
			k = len(stream) - pos
		}
		sc = append(sc, scriptedRead{D: B(stream[pos : pos+k]), E: "nil"})
		pos += k
	}
	// ending: EOF or failure, attached to the last data chunk or on its own
	end := "eof"
	if r.Intn(3) == 0 {
		end = "fail"
	}
	if len(sc) > 0 && r.Intn(2) == 0 {
		sc[len(sc)-1].E = end
	} else {
		sc = append(sc, scriptedRead{D: []int{}, E: end})
	}
	return sc
}

func c04Trace(args []string) error {
	fs := flag.NewFlagSet("c04-trace", flag.ExitOnError)
	out := fs.String("out", "", "trace ndjson")
	n := fs.Int("n", 100, "number of traces")
	maxLen := fs.Int("maxlen", 300, "max stream length")
	big := fs.Int("big", 0, "number of production-wiring traces (128KiB buffer through the batcher)")
	nbt := fs.Int("bt", 0, "number of batcher traces on the timed path (ms flush interval, pauses)")
	nb250 := fs.Int("b250", 0, "number of batcher traces on the production 250 ms path")
	nbf := fs.Int("bfiles", 0, "number of OpenFilesToChan calls (several files each)")
	fs.Parse(args)
	w, err := vh.NewNdWriter(*out)
	if err != nil {
		return err
	}
	defer w.Close()
	r := vh.NewRand(4)
	tid := 0
	for i := 0; i < *n; i++ {
		tid++
		variant := []string{"imm", "buf"}[r.Intn(2)]
		size := 1 + r.Intn(9)
		if r.Intn(5) == 0 {
			size = 1 + r.Intn(300)
		}
		ln := r.Intn(*maxLen + 1)
		if r.Intn(10) == 0 {
			ln = r.Intn(8)
		}
		stream := randStream(r, ln)
		// cut the stream at a random position for failure injection (bytes before the error count)
		script := randScript(r, stream)
		w.Write(M{"event": "reset", "t": tid, "variant": variant, "size": size, "bsize": 0})
		rd := &scriptedReader{script: script, log: func(d []byte, e string) {
			w.Write(M{"event": "read", "data": B(d), "err": e})
		}}
		o := runScanner(variant, rd, size,
			func(t []byte) { w.Write(M{"event": "tok", "data": B(t)}) },
			func() { w.Write(M{"event": "err"}) },
			func() { w.Write(M{"event": "end"}) }, scanOpts{readLine: r.Intn(4) == 0})
		if o.hang {
			w.Write(M{"event": "hang"})
			continue
		}
		if o.afterEnd > 0 {
			w.Write(M{"event": "readafterend", "n": o.afterEnd})
		}
		// late re-read of retained slices (all of them for short traces, a sample otherwise)
		step := 1
		if len(o.held) > 40 {
			step = len(o.held) / 40
		}
		for k := 0; k < len(o.held); k += step {
			w.Write(M{"event": "late", "k": k + 1, "data": B(o.held[k])})
		}
	}
	// production wiring: batchers.OpenReaderToChan (128 KiB ImmediateReadAhead), lines longer than the buffer
	for i := 0; i < *big; i++ {
		tid++
		var stream []byte
		for len(stream) < 300*1024 {
			k := r.Intn(60)
			if r.Intn(40) == 0 {
				k = 100*1024 + r.Intn(80*1024)
			}
			for j := 0; j < k; j++ {
				stream = append(stream, byte('a'+r.Intn(3)))
			}
			if r.Intn(6) == 0 {
				stream = append(stream, '\r')
			}
			stream = append(stream, '\n')
		}
		if r.Intn(2) == 0 {
			stream = append(stream, []byte("tail-no-newline")...)
		}
		var script []scriptedRead
		for pos := 0; pos < len(stream); {
			k := 1 + r.Intn(90*1024)
			if pos+k > len(stream) {
				k = len(stream) - pos
			}
			script = append(script, scriptedRead{D: B(stream[pos : pos+k]), E: "nil"})
			pos += k
		}
		end := []string{"eof", "fail"}[r.Intn(2)]
		script = append(script, scriptedRead{D: []int{}, E: end})
		w.Write(M{"event": "reset", "t": tid, "variant": "batcher", "size": batchers.ReadAheadBufferSize, "bsize": 0})
		rd := &scriptedReader{script: script, log: func(d []byte, e string) {
			w.Write(M{"event": "read", "data": B(d), "err": e})
		}}
		b := batchers.OpenReaderToChan("big", io.NopCloser(rd), 1+r.Intn(50), 1+r.Intn(3))
		var held []extractor.BString
		for batch := range b.BatchChan() {
			held = append(held, batch.Batch...)
		}
		for _, t := range held {
			w.Write(M{"event": "tok", "data": B(t)})
		}
		for j := 0; j < b.ReadErrors(); j++ {
			w.Write(M{"event": "err"})
		}
		w.Write(M{"event": "end"})
	}
	if err := recordBatcherTraces(w, &tid, *nbt, *nb250, *nbf, *maxLen); err != nil {
		return err
	}
	fmt.Println(w.N)
	return nil
}

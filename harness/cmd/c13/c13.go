package main

// C13 - output ordering is a deterministic function of the aggregated data.
//   trace  : evaluates the REAL comparators built by helpers.BuildSorter on all ordered pairs of
//            key pools (fresh comparator per pair / one reused instance), sorts permutations of the
//            pools through sorting.Sort/SortBy, the aggregators' sorted accessors (Go map order
//            start) and the rare binary, and records everything for Sorting_Trace.tla (B2)
//   replay : sorts TLC-enumerated pools (Sorting_Gen.tla) and compares with the expected sequence (B1)

import (
	"bytes"
	"encoding/json"
	"flag"
	"fmt"
	"math/rand"
	"os"
	"os/exec"
	"path/filepath"
	"sort"
	"strings"

	"rare/cmd/helpers"
	"rare/pkg/aggregation"
	"rare/pkg/aggregation/sorting"
	"rare/pkg/expressions/funclib"

	"verifharness/vh"
)

func main() {
	vh.Main(vh.Commands{"trace": c13Trace, "replay": c13Replay, "accum": c13Accum, "acctrace": c13AccTrace})
}

type M = vh.M

// Value is the total the SPECIFICATION sees; Real = embed(vmap, Value) is the total handed to the
// code (Sorting.tla "totals").  Everything below passes Real to the real code and records Value.
type Key struct {
	Name  string
	Value int64
	Real  int64
}

type jkey struct {
	Name  []int  `json:"name"`
	Value int64  `json:"value"`
	Real  string `json:"real,omitempty"` // decimal, for the reader of a replay (TLC ignores it)
}

// value map of a pool: W = 0 - totals as they are; otherwise the totals are W-bit integers and
// the code gets  v * 2^(64-W) + off  (off: "zero" 0, "one" 1, "top" 2^(64-W)-1); off "lsb": the
// totals have W+1 bits, v = 2*hi + lo, and the code gets  hi * 2^(64-W) + lo
type VMap struct {
	W   int    `json:"w"`
	Off string `json:"off"`
}

var idMap = VMap{0, "zero"}

func (m VMap) embed(v int64) int64 {
	if m.W == 0 {
		return v
	}
	lo, hi := m.domain()
	if m.W < 2 || m.W > 16 || v < lo || v > hi {
		panic(fmt.Sprintf("value %d outside the %d-bit type", v, m.W))
	}
	sh := uint(64 - m.W)
	if m.Off == "lsb" {
		return (v>>1)<<sh + v&1
	}
	var off int64
	switch m.Off {
	case "zero":
	case "one":
		off = 1
	case "top":
		off = int64(uint64(1)<<sh - 1)
	default:
		panic("bad offset tag " + m.Off)
	}
	return v<<sh + off
}

// smallest and largest total of the specification's type
func (m VMap) domain() (int64, int64) {
	w := m.W
	if m.Off == "lsb" {
		w++
	}
	return -(int64(1) << (w - 1)), int64(1)<<(w-1) - 1
}

func (m VMap) keys(names []string, vals []int64) []Key {
	out := make([]Key, len(names))
	for i, n := range names {
		out[i] = Key{n, vals[i], m.embed(vals[i])}
	}
	return out
}

func nv(k Key) sorting.NameValuePair { return sorting.NameValuePair{Name: k.Name, Value: k.Real} }

// a total split into two cells (table rows / columns are ordered by the SUM of their cells)
func split(v int64) (int64, int64) {
	a := v / 2
	if v > -1000 && v < 1000 {
		a = 7 - v
	}
	return a, v - a
}

// ------------------------------------------------------------------ key universes
var (
	uNum = []string{"1", "1.0", "01", "1e0", "-2", "10", "2", "0.5", ".5", "1e3", "1000", "-0", "0", "+3", "2.50",
		"-1e-2", "1E1", "100", "-10", "1.", "0.10", "1e-1", "3", "20", "9", "11", "1.5", "-1.5", "007", "2.25", "1e2"}
	uText = []string{"a", "b", "ab", "B", "", "-", "1a", "a1", "zeta", "x-2", ".", "u", "n", "abc", "Z", "foo", "bar",
		"2x", "10th", "t", "w", "_", "é", "ü", "ß"}
	uWeek = []string{"mon", "Monday", "TUE", "tues", "wed", "thu", "Thursday", "thur", "thurs", "fri", "SAT", "sun",
		"Sunday", "MON", "tuesday", "Wednesday", "Fri", "saturday", "tue", "Wed", "sat", "friday"}
	uMonth = []string{"jan", "January", "FEB", "mar", "April", "may", "jun", "JULY", "aug", "sept", "Sep", "oct", "Nov",
		"december", "feb", "March", "apr", "June", "jul", "August", "september", "October", "nov", "dec", "JAN", "May"}
	uDate1 = []string{"2024-01-02", "2023-12-31", "2024-02-29", "2024-03-01", "2022-09-03", "2022-09-02", "2021-09-01",
		"2024-01-10", "2024-10-01", "1999-12-31", "2000-01-01", "2024-01-03"}
	uDate2 = []string{"2024-01-02 10:11:12", "2024-01-02 09:00:00", "2023-12-31 23:59:59", "2024-01-02 10:11:13",
		"2024-01-01 00:00:00", "2024-02-29 12:00:00", "2022-09-03 01:02:03", "2024-01-02 10:12:00", "2024-01-02 11:00:00"}
	uDate3 = []string{"01/02/2024", "12/31/2023", "02/29/2024", "11/30/2024", "01/10/2024", "10/01/2024", "09/03/2022",
		"12/31/1999", "01/01/2000", "02/01/2024", "01/03/2023"}
	// numeric UTC offsets: one instant in several spellings (10:00Z six times in uDate4), civil order
	// opposite to chronological order, day roll-over in both directions
	uDate4 = []string{"2022-03-01T12:00:00+02:00", "2022-03-01T05:00:00-05:00", "2022-03-01T11:30:00+01:00",
		"2022-03-02T00:00:00+14:00", "2022-03-01T19:00:00+09:00", "2022-02-28T22:30:00-12:00", "2022-03-01T10:00:00+00:00",
		"2022-03-01T10:00:00-00:00", "2022-03-01T15:45:00+05:45", "2040-01-01T00:00:00-03:30", "2022-03-01T09:59:59+00:00",
		"2022-03-01T08:00:00+01:00", "2022-03-01T23:59:59+14:00", "2022-03-01T00:00:00-12:00", "1999-12-31T23:00:00-01:00",
		"2000-01-01T01:00:00+01:00"}
	uDate5 = []string{"2022-03-01 12:00:00 +0200", "2022-03-01 05:00:00 -0500", "2022-03-01 10:00:00 +0000",
		"2022-03-01 10:00:00 -0000", "2022-03-01 04:59:59 -0500", "2022-03-01 15:30:00 +0530", "2022-03-02 00:00:00 +1400",
		"2022-02-28 23:00:00 -1100", "2022-03-01 11:30:00 +0100", "2022-03-01 03:00:00 -0700", "2022-03-01 10:00:01 +0000"}
	// plain text that merely BEGINS like a weekday / month name or abbreviation, and ordinary words: text to
	// every mode (Sorting.tla LookAlike)
	uLook = []string{"monitoring", "friendly-bot", "sunrise", "marketing", "decoder", "Thu.", "Sept.", "Mondays", "augur",
		"mayhem", "satellite", "Weds", "junior", "octopus", "wedding", "tuesdays", "novel", "mon.", "Septembers", "FRIDAYS",
		"Sunny", "febrile", "aprons", "Julia", "janitor", "thursdays-x", "SATURN", "wednesdays", "marches", "Tue-1x"}
	uPlain = []string{"api", "web", "gateway", "cache", "db", "proxy", "zeta", "Worker"}
	uUnk = []string{"inf", "nan", "0x10", "1e400", "1_0", "NaN", "2023-02-30", "13/01/2024", "1e100", "-Inf", "0x1p4",
		"Infinity", "2e400", "2024-1-2", "Jan 2, 2024"}
)

var modes = []string{"text", "numeric", "contextual", "date", "value"}

type poolSpec struct {
	label string
	names []string
}

// pools that are always present: the classic trouble makers of every class
func corePools() []poolSpec {
	return []poolSpec{
		{"num-spellings", []string{"1", "1.0", "01", "1e0", "-2", "10"}},
		{"num-text", []string{"2", "10", "1a"}},
		{"num-text2", []string{"2", "10", "1a", "b", "-", "1.0", "1"}},
		{"week-mixedcase", []string{"wed", "tues", "mon", "thurs", "Monday", "TUE", "sun", "Sat"}},
		{"week-text", []string{"wed", "thu", "u"}},
		{"week-text2", []string{"mon", "tue", "foo"}},
		{"months", []string{"jan", "FEB", "mar", "April", "may", "sept", "Sep", "dec"}},
		{"week-month", []string{"mon", "may", "mar", "fri", "jan"}},
		{"date1", []string{"2022-09-03", "2022-09-02", "2021-09-01", "2024-01-10", "2024-10-01"}},
		{"date2", []string{"2024-01-02 10:11:12", "2024-01-02 09:00:00", "2023-12-31 23:59:59", "2024-01-02 10:11:13"}},
		{"date3", []string{"01/02/2024", "12/31/2023", "02/29/2024", "11/30/2024", "01/03/2023"}},
		{"date4-offsets", []string{"2022-03-01T08:00:00+01:00", "2022-03-01T12:00:00+02:00", "2022-03-01T05:00:00-05:00",
			"2022-03-01T19:00:00+09:00", "2022-03-01T11:30:00+01:00"}},
		{"date4-rollover", []string{"2022-03-02T00:00:00+14:00", "2022-02-28T22:30:00-12:00", "2022-03-01T10:00:00+00:00",
			"2022-03-01T10:00:00-00:00", "2022-03-01T23:59:59+14:00", "2022-03-01T00:00:00-12:00", "2022-03-01T09:59:59+00:00"}},
		{"date5-offsets", []string{"2022-03-01 12:00:00 +0200", "2022-03-01 05:00:00 -0500", "2022-03-01 10:00:00 +0000",
			"2022-03-01 10:00:00 -0000", "2022-03-01 04:59:59 -0500", "2022-03-02 00:00:00 +1400"}},
		{"date4-date5", []string{"2022-03-01T12:00:00+02:00", "2022-03-01 05:00:00 -0500", "2022-03-01T11:30:00+01:00", "2022-03-01 10:00:01 +0000"}},
		{"date1-date2", []string{"2024-01-02", "2024-01-02 09:00:00", "2023-12-31", "2023-12-31 23:59:59"}},
		{"date1-date3", []string{"2024-01-02", "12/31/2023", "2023-12-30", "01/01/2024"}},
		{"date-text", []string{"2022-09-03", "2022-09-02", "notadate", "2021-09-01"}},
		{"text", []string{"b", "a", "ab", "B", "", "zeta", "Z"}},
		{"num-week", []string{"3", "mon", "1", "tue", "20"}},
		{"unk", []string{"inf", "1", "nan", "0x10", "1e400", "2e400", "5"}},
		{"num-dotted", []string{"1.20", "1.3", "10", "2", "3.15"}},
		// look-alikes of weekday / month names among ordinary words (text), and next to real names (mixed)
		{"look-week", []string{"monitoring", "friendly-bot", "api", "sunrise"}},
		{"look-month", []string{"augur", "marketing", "decoder", "web"}},
		{"look-forms", []string{"Thu.", "Sept.", "Mondays", "Weds", "zeta", "mon.", "FRIDAYS"}},
		{"look-both", []string{"monitoring", "marketing", "friendly-bot", "decoder", "sunrise", "junior", "cache"}},
		{"look-real-week", []string{"mon", "monitoring", "fri", "friendly-bot", "Thu."}},
		{"look-real-month", []string{"dec", "decoder", "mar", "marketing", "api"}},
		// every name of the calendar tables, once in lower case and once capitalised / upper case
		{"week-all", weekAll(func(s string) string { return s })},
		{"week-all-caps", weekAll(func(s string) string { return strings.ToUpper(s[:1]) + s[1:] })},
		{"month-all", monthAll(func(s string) string { return s })},
		{"month-all-upper", monthAll(strings.ToUpper)},
	}
}

func mapNames(names []string, f func(string) string) []string {
	out := make([]string, len(names))
	for i, n := range names {
		out[i] = f(n)
	}
	return out
}

func weekAll(f func(string) string) []string {
	return mapNames([]string{"sunday", "monday", "tuesday", "wednesday", "thursday", "friday", "saturday",
		"sun", "mon", "tue", "tues", "wed", "thu", "thur", "thurs", "fri", "sat"}, f)
}

func monthAll(f func(string) string) []string {
	return mapNames([]string{"january", "jan", "february", "feb", "march", "mar", "april", "apr", "may", "june", "jun",
		"july", "jul", "august", "aug", "september", "sep", "sept", "october", "oct", "november", "nov", "december", "dec"}, f)
}

func pick(r *rand.Rand, u []string, k int) []string {
	if k > len(u) {
		k = len(u)
	}
	p := r.Perm(len(u))
	out := make([]string, k)
	for i := 0; i < k; i++ {
		out[i] = u[p[i]]
	}
	return out
}

func union(us ...[]string) []string {
	var out []string
	for _, u := range us {
		out = append(out, u...)
	}
	return out
}

func randomPools(r *rand.Rand, n int, big int) []poolSpec {
	homog := []struct {
		l string
		u []string
	}{{"num", uNum}, {"text", uText}, {"week", uWeek}, {"month", uMonth}, {"date1", uDate1}, {"date2", uDate2}, {"date3", uDate3},
		{"date4", uDate4}, {"date5", uDate5},
		{"look", union(uLook, uPlain)}, {"look", union(uLook, uPlain)}}
	mixes := []struct {
		l string
		u []string
	}{{"num+text", union(uNum, uText)}, {"week+text", union(uWeek, uText)}, {"week+month", union(uWeek, uMonth)},
		{"num+week+month", union(uNum, uWeek, uMonth)}, {"dates", union(uDate1, uDate2, uDate3)},
		{"date1+text", union(uDate1, uText)}, {"all", union(uNum, uText, uWeek, uMonth, uDate1, uDate3)},
		{"num+unk", union(uNum, uUnk)}, {"text+unk", union(uText, uUnk)}, {"date4+text", union(uDate4, uText)},
		{"week+look", union(uWeek, uLook, uPlain)}, {"month+look", union(uMonth, uLook)}, {"num+look", union(uNum, uLook, uPlain)}}
	var out []poolSpec
	for i := 0; i < n; i++ {
		var names []string
		var label string
		if i%5 < 3 { // homogeneous
			h := homog[r.Intn(len(homog))]
			names, label = pick(r, h.u, 3+r.Intn(6)), "r-"+h.l
		} else {
			m := mixes[r.Intn(len(mixes))]
			names, label = pick(r, m.u, 3+r.Intn(6)), "r-"+m.l
		}
		out = append(out, poolSpec{label, names})
	}
	// larger pools: sort.Sort leaves insertion sort above 12 elements
	for i := 0; i < big; i++ {
		switch i % 4 {
		case 0:
			out = append(out, poolSpec{"big-num", pick(r, uNum, 14+r.Intn(8))})
		case 1:
			out = append(out, poolSpec{"big-week+month", pick(r, union(uWeek, uMonth), 14+r.Intn(8))})
		case 2:
			if i%8 == 2 {
				out = append(out, poolSpec{"big-date4", pick(r, uDate4, 14+r.Intn(3))})
			} else {
				out = append(out, poolSpec{"big-dates", pick(r, union(uDate1, uDate3), 14+r.Intn(6))})
			}
		default:
			out = append(out, poolSpec{"big-all", pick(r, union(uNum, uText, uWeek, uDate1), 14+r.Intn(8))})
		}
	}
	return out
}

// value maps of the value-mode pools, by pool index; every other mode (where the totals must not
// matter) gets a wide map for one pool in four
var valueMaps = []VMap{idMap, {3, "zero"}, {3, "top"}, {3, "lsb"}, idMap, {4, "one"}, {2, "top"}, {8, "lsb"}, {8, "zero"}, {3, "one"}, {16, "top"}, {5, "zero"}}

func withValues(r *rand.Rand, names []string, mode string, pi int) ([]Key, VMap) {
	vm := idMap
	if mode == "value" {
		vm = valueMaps[(pi+int(vh.Seed()))%len(valueMaps)]
	} else if r.Intn(4) == 0 {
		vm = valueMaps[1+r.Intn(len(valueMaps)-1)]
	}
	vals := make([]int64, len(names))
	small := []int64{0, 1, 1, 2, 3, 5, 5, 100, -1}
	for i := range names {
		if vm.W == 0 {
			vals[i] = small[r.Intn(len(small))]
		} else {
			lo, hi := vm.domain()
			vals[i] = lo + r.Int63n(hi-lo+1)
			if vm.Off == "lsb" && i%2 == 1 && r.Intn(2) == 0 { // a neighbour of the key before
				vals[i] = vals[i-1] ^ 1
			}
		}
	}
	if vm.W > 0 && len(vals) >= 2 { // both extremes of the type: the code sees MinInt64 / (with "top") MaxInt64
		vals[0], vals[1] = vm.domain()
	}
	return vm.keys(names, vals), vm
}

// ------------------------------------------------------------------ sort strings
func recase(r *rand.Rand, s string) string {
	switch r.Intn(4) {
	case 0:
		return strings.ToUpper(s)
	case 1:
		if s == "" {
			return s
		}
		return strings.ToUpper(s[:1]) + s[1:]
	}
	return s
}

// sort strings of one mode: bare, asc, desc, reverse, rev (random letter case, alias for contextual)
func sortStrings(r *rand.Rand, mode string) []string {
	name := func() string {
		n := mode
		if mode == "contextual" && r.Intn(3) == 0 {
			n = "context"
		}
		return recase(r, n)
	}
	return []string{mode, name() + ":" + recase(r, "asc"), name() + ":" + recase(r, "desc"),
		name() + ":" + recase(r, "reverse"), name() + ":" + recase(r, "rev")}
}

func buildCandidates(r *rand.Rand, mode string) []string {
	c := []string{mode, recase(r, mode) + ":" + recase(r, "asc"), mode + ":bla", mode + ":", mode + "s", "bogus",
		mode + ":ascending", "numerc:desc", mode + ":reversed", recase(r, mode) + ":REV", mode + ":des", "sorted"}
	if mode == "contextual" {
		c = append(c, "context", "Context:desc", "contextua")
	}
	return c
}

// ------------------------------------------------------------------ real sorts
type sortFn func(keys []Key, sorter sorting.NameValueSorter) []string

func viaSort(keys []Key, sorter sorting.NameValueSorter) []string {
	arr := make([]sorting.NameValuePair, len(keys))
	for i, k := range keys {
		arr[i] = nv(k)
	}
	sorting.Sort(arr, sorter)
	out := make([]string, len(arr))
	for i, a := range arr {
		out[i] = a.Name
	}
	return out
}

func viaSortBy(keys []Key, sorter sorting.NameValueSorter) []string {
	type wrapped struct {
		k  Key
		id int
	}
	arr := make([]wrapped, len(keys))
	for i, k := range keys {
		arr[i] = wrapped{k, i}
	}
	sorting.SortBy(arr, sorter, func(w wrapped) sorting.NameValuePair {
		return nv(w.k)
	})
	out := make([]string, len(arr))
	for i, a := range arr {
		out[i] = a.k.Name
	}
	return out
}

// aggregators: built once per pool, the sorted accessor starts from Go map order on every call
type aggs struct {
	counter *aggregation.MatchCounter
	subkey  *aggregation.SubKeyCounter
	rows    *aggregation.TableAggregator
	cols    *aggregation.TableAggregator
	groups  *aggregation.AccumulatingGroup
	n       int
}

func buildAggs(keys []Key) *aggs {
	a := &aggs{counter: aggregation.NewCounter(), subkey: aggregation.NewSubKeyCounter(),
		rows: aggregation.NewTable("\x00"), cols: aggregation.NewTable("\x00"), n: len(keys)}
	a.groups = aggregation.NewAccumulatingGroup(funclib.NewKeyBuilder())
	if err := a.groups.AddGroupExpr("k", "{0}"); err != nil {
		panic(err)
	}
	if err := a.groups.AddDataExpr("c", "{sumi {.} 1}", "0"); err != nil {
		panic(err)
	}
	for i, k := range keys {
		a.counter.SampleValue(k.Name, k.Real)
		a.subkey.SampleValue(k.Name, "s", k.Real)
		// rows / columns are ordered by their total: the sum of two cells (sampled in either order)
		x, y := split(k.Real)
		if i%2 == 1 {
			x, y = y, x
		}
		a.rows.SampleItem("c", k.Name, x)
		a.rows.SampleItem("d", k.Name, y)
		a.cols.SampleItem(k.Name, "r", x)
		a.cols.SampleItem(k.Name, "q", y)
		a.groups.Sample(k.Name)
	}
	return a
}

func (a *aggs) via(name string, sorter sorting.NameValueSorter) []string {
	var out []string
	switch name {
	case "ItemsSortedBy":
		for _, it := range a.counter.ItemsSortedBy(a.n, sorter) {
			out = append(out, it.Name)
		}
	case "ItemsSorted":
		for _, it := range a.subkey.ItemsSorted(sorter) {
			out = append(out, it.Name)
		}
	case "OrderedRows":
		for _, it := range a.rows.OrderedRows(sorter) {
			out = append(out, it.Name())
		}
	case "OrderedColumns":
		out = a.cols.OrderedColumns(sorter)
	}
	return out
}

var aggVias = []string{"ItemsSortedBy", "ItemsSorted", "OrderedRows", "OrderedColumns"}

// the name sorter of `rare reduce` (cmd/reduce.go): contextual, optionally reversed
func reduceSorter(rev bool) sorting.NameSorter {
	s := sorting.ByContextual()
	if rev {
		s = sorting.Reverse(s)
	}
	return s
}

func (a *aggs) viaGroups(s sorting.NameSorter) []string {
	var out []string
	for _, g := range a.groups.Groups(s) {
		out = append(out, string(g))
	}
	return out
}

func mustSorter(s string) sorting.NameValueSorter {
	if strings.HasPrefix(s, "pkg:") {
		return pkgSorter(s[4:])
	}
	srt, err := helpers.BuildSorter(s)
	if err != nil {
		panic(fmt.Sprintf("BuildSorter(%q): %v", s, err))
	}
	return srt
}

// the package-level sorters (CSV writers, library users) by the sort string they mean; inside the
// driver they are addressed as "pkg:<sort>", the trace records src = "pkg" and the plain string
func pkgSorter(s string) sorting.NameValueSorter {
	switch s {
	case "text":
		return sorting.NVNameSorter
	case "numeric":
		return sorting.NVSmartSorter
	case "value":
		return sorting.NVValueSorter
	}
	panic("no package-level sorter for " + s)
}

func hasPkgSorter(mode string) bool { return mode == "text" || mode == "numeric" || mode == "value" }

// (src, sort string) of a driver-internal sorter name
func srcOf(s string) (string, []int) {
	if strings.HasPrefix(s, "pkg:") {
		return "pkg", vh.BS(s[4:])
	}
	return "build", vh.BS(s)
}

// ------------------------------------------------------------------ recording
type tracer struct {
	w    *vh.NdWriter
	r    *rand.Rand
	tid  int
	pool []Key
	vmap VMap
	idx  map[string]int // name -> 1-based pool position
	st   struct{ traces, mats, sorts, sortRecs, cli int }
}

func (t *tracer) reset(mode string, pool []Key, vm VMap) {
	t.tid++
	t.st.traces++
	t.pool = pool
	t.vmap = vm
	t.idx = map[string]int{}
	jp := make([]jkey, len(pool))
	for i, k := range pool {
		t.idx[k.Name] = i + 1
		jp[i] = jkey{vh.BS(k.Name), k.Value, fmt.Sprint(k.Real)}
	}
	t.w.Write(M{"event": "reset", "t": t.tid, "mode": mode, "vmap": vm, "pool": jp})
}

func (t *tracer) toIdx(names []string) []int {
	out := make([]int, len(names))
	for i, n := range names {
		out[i] = t.idx[n] // 0 = a name that is not in the pool (the trace spec rejects it)
	}
	return out
}

func (t *tracer) matrix(srt string, fresh bool) {
	n := len(t.pool)
	m := make([][]int, n)
	for i := range m {
		m[i] = make([]int, n)
	}
	type pr struct{ i, j int }
	var pairs []pr
	for i := 0; i < n; i++ {
		for j := 0; j < n; j++ {
			if i != j {
				pairs = append(pairs, pr{i, j})
			}
		}
	}
	var shared sorting.NameValueSorter
	if !fresh {
		shared = mustSorter(srt)
		t.r.Shuffle(len(pairs), func(a, b int) { pairs[a], pairs[b] = pairs[b], pairs[a] })
	}
	for _, p := range pairs {
		s := shared
		if fresh {
			s = mustSorter(srt)
		}
		a, b := t.pool[p.i], t.pool[p.j]
		if s(nv(a), nv(b)) {
			m[p.i][p.j] = 1
		}
	}
	t.st.mats++
	src, name := srcOf(srt)
	t.w.Write(M{"event": "mat", "src": src, "sort": name, "fresh": fresh, "m": m})
}

type outRec struct {
	Out  []int `json:"out"`
	Cnt  int   `json:"cnt"`
	Perm []int `json:"perm"`
}

// collects the results of many sorts of the same keys: distinct sequences with multiplicity
type sortGroup struct {
	t     *tracer
	srt   string
	via   string
	reuse bool
	sub   []int
	n     int
	outs  []*outRec
}

func (g *sortGroup) add(perm []int, out []int) {
	g.n++
	g.t.st.sorts++
	for _, o := range g.outs {
		if vh.EqInts(o.Out, out) {
			o.Cnt++
			return
		}
	}
	if perm == nil {
		perm = []int{}
	}
	g.outs = append(g.outs, &outRec{append([]int{}, out...), 1, append([]int{}, perm...)})
}

func (g *sortGroup) flush() {
	if g.n == 0 {
		return
	}
	g.t.st.sortRecs++
	src, name := srcOf(g.srt)
	g.t.w.Write(M{"event": "sorted", "src": src, "sort": name, "via": g.via, "reuse": g.reuse, "sub": g.sub, "n": g.n, "outs": g.outs})
}

func permutations(a []int, f func([]int)) {
	var rec func(k int)
	rec = func(k int) {
		if k == len(a) {
			f(a)
			return
		}
		for i := k; i < len(a); i++ {
			a[k], a[i] = a[i], a[k]
			rec(k + 1)
			a[k], a[i] = a[i], a[k]
		}
	}
	rec(0)
}

func subsets(n, k int, f func([]int)) {
	cur := make([]int, 0, k)
	var rec func(start int)
	rec = func(start int) {
		if len(cur) == k {
			f(append([]int{}, cur...))
			return
		}
		for i := start; i < n; i++ {
			cur = append(cur, i)
			rec(i + 1)
			cur = cur[:len(cur)-1]
		}
	}
	rec(0)
}

func (t *tracer) keysAt(pos []int) []Key {
	out := make([]Key, len(pos))
	for i, p := range pos {
		out[i] = t.pool[p]
	}
	return out
}

func plus1(a []int) []int {
	out := make([]int, len(a))
	for i, x := range a {
		out[i] = x + 1
	}
	return out
}

// every permutation of the subset `sub` (0-based pool positions): each sorted once with a
// comparator instance shared by all of them and once with a new instance
func (t *tracer) sortAllPerms(srt, via string, fn sortFn, sub []int) {
	g := &sortGroup{t: t, srt: srt, via: via, reuse: true, sub: plus1(sub)}
	shared := mustSorter(srt)
	permutations(append([]int{}, sub...), func(p []int) {
		g.add(plus1(p), t.toIdx(fn(t.keysAt(p), shared)))
		g.add(plus1(p), t.toIdx(fn(t.keysAt(p), mustSorter(srt))))
	})
	g.flush()
}

func (t *tracer) sortRandomPerms(srt, via string, fn sortFn, count int, reuse bool) {
	n := len(t.pool)
	all := make([]int, n)
	for i := range all {
		all[i] = i
	}
	g := &sortGroup{t: t, srt: srt, via: via, reuse: reuse, sub: plus1(all)}
	var shared sorting.NameValueSorter
	if reuse {
		shared = mustSorter(srt)
	}
	for c := 0; c < count; c++ {
		p := t.r.Perm(n)
		s := shared
		if !reuse {
			s = mustSorter(srt)
		}
		g.add(plus1(p), t.toIdx(fn(t.keysAt(p), s)))
	}
	g.flush()
}

// live rendering: ONE sorter instance sorts the growing key set (arrival order = a random
// permutation), as the aggregation loop does on every tick; each prefix is one record
func (t *tracer) sortGrowing(srt string) {
	n := len(t.pool)
	arrival := t.r.Perm(n)
	s := mustSorter(srt)
	for k := 2; k <= n; k++ {
		prefix := append([]int{}, arrival[:k]...)
		sub := append([]int{}, prefix...)
		sort.Ints(sub)
		g := &sortGroup{t: t, srt: srt, via: "grow", reuse: true, sub: plus1(sub)}
		a := buildAggs(t.keysAt(prefix))
		for c := 0; c < 3; c++ {
			g.add(plus1(prefix), t.toIdx(a.via("ItemsSortedBy", s)))
		}
		g.flush()
	}
}

// A LONG-LIVED set of aggregators: keys arrive and totals change between displays (what the
// aggregation loop does between two ticks).  Every stage is its own trace - the pool is the keys
// and totals the aggregators hold at that moment - and every sorted accessor is called after
// every batch of increments, with comparators that live as long as the aggregators do.
func (t *tracer) evolve(mode string, names []string, vm VMap, srts []string, stages int) {
	n := len(names)
	if n < 3 {
		return
	}
	a := buildAggs(nil)
	cur := map[string]int64{} // specification totals now
	sorters := map[string]sorting.NameValueSorter{}
	for _, s := range srts {
		sorters[s] = mustSorter(s)
	}
	var lo, hi int64
	if vm.W > 0 {
		lo, hi = vm.domain()
	}
	order := t.r.Perm(n)
	for st := 1; st <= stages; st++ {
		// keys present after this stage: a growing prefix of a random arrival order; every present key
		// gets a new total (some keep theirs)
		present := order[:2+(n-2)*st/stages]
		for _, i := range t.r.Perm(len(present)) {
			name := names[present[i]]
			old, had := cur[name]
			nw := old
			if !had || t.r.Intn(3) > 0 {
				if vm.W == 0 {
					nw = int64(t.r.Intn(9)) - 2
				} else {
					nw = lo + t.r.Int63n(hi-lo+1)
				}
			}
			var oldReal int64
			if had {
				oldReal = vm.embed(old)
			}
			a.sample(name, vm.embed(nw)-oldReal, !had) // wraps exactly like the aggregator's own +=
			cur[name] = nw
		}
		pool := make([]Key, 0, len(present))
		idx := append([]int{}, present...)
		sort.Ints(idx)
		for _, i := range idx {
			pool = append(pool, Key{names[i], cur[names[i]], vm.embed(cur[names[i]])})
		}
		a.n = len(pool)
		t.reset(mode, pool, vm)
		all := make([]int, len(pool))
		for i := range all {
			all[i] = i
		}
		for _, s := range srts {
			t.matrix(s, false)
			for _, via := range aggVias {
				g := &sortGroup{t: t, srt: s, via: "live:" + via, reuse: true, sub: plus1(all)}
				for c := 0; c < 4; c++ {
					g.add(nil, t.toIdx(a.via(via, sorters[s])))
				}
				g.flush()
			}
		}
	}
}

// one increment of a key's total in every aggregator (first: the key is new)
func (a *aggs) sample(name string, inc int64, first bool) {
	a.counter.SampleValue(name, inc)
	a.subkey.SampleValue(name, "s", inc)
	x, y := split(inc)
	a.rows.SampleItem("c", name, x)
	a.rows.SampleItem("d", name, y)
	a.cols.SampleItem(name, "r", y)
	a.cols.SampleItem(name, "q", x)
	if first {
		a.groups.Sample(name)
	}
}

func (t *tracer) sortAggregators(srt string, calls int, reuse bool) {
	n := len(t.pool)
	all := make([]int, n)
	for i := range all {
		all[i] = i
	}
	a := buildAggs(t.pool)
	for _, via := range aggVias {
		g := &sortGroup{t: t, srt: srt, via: via, reuse: reuse, sub: plus1(all)}
		var shared sorting.NameValueSorter
		if reuse {
			shared = mustSorter(srt)
		}
		for c := 0; c < calls; c++ {
			s := shared
			if !reuse {
				s = mustSorter(srt)
			}
			g.add(nil, t.toIdx(a.via(via, s)))
		}
		g.flush()
	}
}

// histo shows the first k rows: MatchCounter.ItemsSortedBy(k, sorter) for k < n must be the first
// k keys of the full order, whatever the map order
func (t *tracer) sortTop(srt string, calls int) {
	n := len(t.pool)
	if n < 3 {
		return
	}
	a := buildAggs(t.pool)
	for _, k := range []int{1, n / 2, n - 1} {
		type top struct {
			Out []int `json:"out"`
			Cnt int   `json:"cnt"`
		}
		var outs []*top
		shared := mustSorter(srt)
		for c := 0; c < calls; c++ {
			var names []string
			for _, it := range a.counter.ItemsSortedBy(k, shared) {
				names = append(names, it.Name)
			}
			out := t.toIdx(names)
			t.st.sorts++
			found := false
			for _, o := range outs {
				if vh.EqInts(o.Out, out) {
					o.Cnt++
					found = true
				}
			}
			if !found {
				outs = append(outs, &top{out, 1})
			}
		}
		t.st.sortRecs++
		src, name := srcOf(srt)
		t.w.Write(M{"event": "top", "src": src, "sort": name, "via": "ItemsSortedBy/top", "k": k, "n": calls, "outs": outs})
	}
}

func (t *tracer) sortGroups(calls int) {
	n := len(t.pool)
	all := make([]int, n)
	for i := range all {
		all[i] = i
	}
	a := buildAggs(t.pool)
	for _, rev := range []bool{false, true} {
		srt := "contextual"
		if rev {
			srt = "contextual:reverse"
		}
		for _, reuse := range []bool{true, false} {
			g := &sortGroup{t: t, srt: srt, via: "Groups", reuse: reuse, sub: plus1(all)}
			shared := reduceSorter(rev)
			for c := 0; c < calls; c++ {
				s := shared
				if !reuse {
					s = reduceSorter(rev)
				}
				g.add(nil, t.toIdx(a.viaGroups(s)))
			}
			g.flush()
		}
	}
}

// ------------------------------------------------------------------ the rare binary
func cliSafe(pool []Key) bool {
	for _, k := range pool {
		if k.Name == "" || strings.ContainsAny(k.Name, "\t\n\r{}") || strings.TrimSpace(k.Name) != k.Name {
			return false
		}
		for _, c := range []byte(k.Name) {
			if c >= 128 {
				return false
			}
		}
	}
	return true
}

// row order of the snapshot output: the pool key each line starts with (longest match)
func parseRows(out string, pool []Key, skip func(line string) bool) []string {
	var rows []string
	for _, line := range strings.Split(out, "\n") {
		if skip != nil && skip(line) {
			continue
		}
		best := ""
		found := false
		for _, k := range pool {
			if strings.HasPrefix(line, k.Name) && len(line) > len(k.Name) && line[len(k.Name)] == ' ' {
				if !found || len(k.Name) > len(best) {
					best, found = k.Name, true
				}
			}
		}
		if found {
			rows = append(rows, best)
		}
	}
	return rows
}

func (t *tracer) runRare(rare, dir string, args []string, input string) (string, error) {
	in := filepath.Join(dir, fmt.Sprintf("in-%d.txt", t.st.cli))
	if err := os.WriteFile(in, []byte(input), 0o644); err != nil {
		return "", err
	}
	cmd := exec.Command(rare, append(args, in)...)
	cmd.Env = append(os.Environ(), "NO_COLOR=1", "TERM=dumb")
	var so, se bytes.Buffer
	cmd.Stdout, cmd.Stderr = &so, &se
	err := cmd.Run()
	t.st.cli++
	if err != nil {
		return "", fmt.Errorf("rare %v: %v: %s", args, err, se.String())
	}
	return so.String(), nil
}

func allPositive(pool []Key) bool {
	for _, k := range pool {
		if k.Real < 1 { // histo draws nothing for a zero total
			return false
		}
	}
	return true
}

func noSpaces(pool []Key) bool {
	for _, k := range pool {
		if strings.ContainsAny(k.Name, " ") {
			return false
		}
	}
	return true
}

// column order of `rare table`: the names of the header line
func parseCols(out string, pool []Key, _ func(string) bool) []string {
	for _, line := range strings.Split(out, "\n") {
		if strings.TrimSpace(line) != "" {
			return strings.Fields(line)
		}
	}
	return nil
}

// rare histo|bars|table --snapshot over the same data in several line orders; the total of a key
// arrives in two increments
func (t *tracer) cli(rare, dir, srt string, orders int) error {
	n := len(t.pool)
	all := make([]int, n)
	for i := range all {
		all[i] = i
	}
	type cmdSpec struct {
		via   string
		args  []string
		ok    bool
		parse func(string, []Key, func(string) bool) []string
	}
	rx := "^([^\\t]*)\\t(.*)$"
	specs := []cmdSpec{
		{"cli:histo", []string{"--nocolor", "histo", "--snapshot", "-n", "1000", "-m", rx, "-e", "{$ {1} {2}}", "--sort", srt}, allPositive(t.pool), parseRows},
		{"cli:bars", []string{"--nocolor", "bars", "--snapshot", "-m", rx, "-e", "{$ {1} s {2}}", "--sort", srt}, true, parseRows},
		{"cli:table-rows", []string{"--nocolor", "table", "--snapshot", "--rows", "1000", "-m", rx, "-e", "{$ c {1} {2}}", "--sort-rows", srt}, true, parseRows},
		{"cli:table-cols", []string{"--nocolor", "table", "--snapshot", "--cols", "1000", "-m", rx, "-e", "{$ {1} r {2}}", "--sort-cols", srt}, noSpaces(t.pool), parseCols},
	}
	for _, sp := range specs {
		if !sp.ok {
			continue
		}
		g := &sortGroup{t: t, srt: srt, via: sp.via, reuse: true, sub: plus1(all)}
		for o := 0; o < orders; o++ {
			// two increments per key, the second halves in another random order
			p := t.r.Perm(n)
			var sb strings.Builder
			for _, i := range p {
				x, _ := split(t.pool[i].Real)
				fmt.Fprintf(&sb, "%s\t%d\n", t.pool[i].Name, x)
			}
			for _, i := range t.r.Perm(n) {
				_, y := split(t.pool[i].Real)
				fmt.Fprintf(&sb, "%s\t%d\n", t.pool[i].Name, y)
			}
			out, err := t.runRare(rare, dir, sp.args, sb.String())
			if err != nil {
				return err
			}
			rows := sp.parse(out, t.pool, nil)
			if len(rows) != n {
				return fmt.Errorf("%s: could not read %d rows from the output (got %d):\n%s", sp.via, n, len(rows), out)
			}
			g.add(plus1(p), t.toIdx(rows))
		}
		g.flush()
	}
	return nil
}

// ------------------------------------------------------------------ trace command
func c13Trace(args []string) error {
	fs := flag.NewFlagSet("trace", flag.ContinueOnError)
	out := fs.String("out", "c13-trace.ndjson", "")
	stats := fs.String("stats", "", "statistics json")
	nrand := fs.Int("pools", 14, "random pools")
	nbig := fs.Int("big", 2, "pools of 14..21 keys")
	maxEnum := fs.Int("enum", 5, "pools up to this size: every permutation of every <=5-subset")
	nsub := fs.Int("subsets", 25, "larger pools: this many random subsets of 2..5 keys, every permutation")
	rperms := fs.Int("perms", 40, "random permutations of the full pool")
	rare := fs.String("rare", "", "rare binary for the CLI runs")
	ncli := fs.Int("cli", 6, "pools run through the rare binary per mode")
	nstages := fs.Int("stages", 3, "stages of a long-lived aggregator history (every 4th pool)")
	if err := fs.Parse(args); err != nil {
		return err
	}
	w, err := vh.NewNdWriter(*out)
	if err != nil {
		return err
	}
	defer w.Close()
	r := vh.NewRand(13)
	t := &tracer{w: w, r: r}
	pools := append(corePools(), randomPools(r, *nrand, *nbig)...)
	tmp, err := os.MkdirTemp("", "c13cli")
	if err != nil {
		return err
	}
	defer os.RemoveAll(tmp)
	for _, mode := range modes {
		cliLeft := *ncli
		for pi, ps := range pools {
			pool, vm := withValues(r, ps.names, mode, pi)
			n := len(pool)
			t.reset(mode, pool, vm)
			for _, c := range pick(r, buildCandidates(r, mode), 3) {
				_, e := helpers.BuildSorter(c)
				w.Write(M{"event": "build", "sort": vh.BS(c), "ok": e == nil})
			}
			srts := sortStrings(r, mode)
			for _, s := range srts {
				t.matrix(s, true)
				t.matrix(s, false)
			}
			all := srts[:3]
			if hasPkgSorter(mode) { // the package-level sorter of this meaning: own matrices, own canonical order
				pk := "pkg:" + mode
				t.matrix(pk, true)
				t.matrix(pk, false)
				t.sortRandomPerms(pk, "SortBy", viaSortBy, *rperms/2, true)
				t.sortRandomPerms(pk, "Sort", viaSort, *rperms/2, true)
				t.sortAggregators(pk, 6, true)
				t.sortTop(pk, 4)
				all = append(append([]string{}, all...), pk)
			}
			// every permutation of every <=5-subset (small pools) / of a sample of subsets, both
			// directions; a comparator instance shared by all sorts of the subset AND a new one per sort
			for si, s := range all {
				if si == 1 && mode != "value" { // ":asc" is the bare name except for value
					continue
				}
				if n <= *maxEnum {
					for k := 2; k <= 5 && k <= n; k++ {
						subsets(n, k, func(sub []int) { t.sortAllPerms(s, "Sort", viaSort, sub) })
					}
				} else {
					for c := 0; c < *nsub; c++ {
						k := 2 + r.Intn(4)
						sub := r.Perm(n)[:k]
						sort.Ints(sub)
						t.sortAllPerms(s, "Sort", viaSort, sub)
					}
				}
			}
			// the full pool from random start permutations, every modifier
			for _, s := range srts {
				t.sortRandomPerms(s, "SortBy", viaSortBy, *rperms, true)
				t.sortRandomPerms(s, "SortBy", viaSortBy, *rperms/2, false)
			}
			// aggregators (map order start)
			for _, s := range []string{srts[0], srts[2], srts[3]} {
				t.sortAggregators(s, 12, true)
				t.sortAggregators(s, 6, false)
			}
			if mode == "contextual" {
				t.sortGroups(10)
			}
			t.sortGrowing(srts[0])
			t.sortTop(srts[0], 8)
			t.sortTop(srts[2], 8)
			if *rare != "" && cliLeft > 0 && cliSafe(pool) && (pi%3 == int(vh.Seed())%3 || pi < 2) {
				cliLeft--
				for _, s := range []string{srts[0], srts[3]} {
					if err := t.cli(*rare, tmp, s, 2); err != nil {
						return err
					}
				}
			}
			// last (it opens traces of its own): a long-lived aggregator history over these names
			if pi%4 == int(vh.Seed())%4 {
				t.evolve(mode, ps.names, vm, []string{srts[0], srts[2]}, *nstages)
			}
		}
	}
	if *stats != "" {
		vh.WriteJSON(*stats, M{"traces": t.st.traces, "matrices": t.st.mats, "sorts": t.st.sorts,
			"sort_records": t.st.sortRecs, "cli_runs": t.st.cli, "pools": len(pools)})
	}
	return nil
}

// ------------------------------------------------------------------ replay command (B1)
type vector struct {
	Mode  string `json:"mode"`
	Cls   string `json:"cls"`
	Sort  []int  `json:"sort"`
	Pool  []jkey `json:"pool"`
	VMap  VMap   `json:"vmap"`
	Fixed bool   `json:"fixed"`
	Ranks []int  `json:"ranks"` // per pool position: number of keys the specification puts strictly before it
}

func c13Replay(args []string) error {
	fs := flag.NewFlagSet("replay", flag.ContinueOnError)
	in := fs.String("in", "", "vectors")
	out := fs.String("out", "c13-replay.json", "")
	if err := fs.Parse(args); err != nil {
		return err
	}
	type mismatch struct {
		Vector vector   `json:"vector"`
		Via    string   `json:"via"`
		Perm   []int    `json:"perm"`
		Got    []int    `json:"got"`
		Names  []string `json:"names"`
		Kind   string   `json:"kind"`
	}
	var mism []mismatch
	var samples []M
	runs, vectors, nontrivial := 0, 0, 0
	err := vh.ReadNd(*in, func(raw json.RawMessage) error {
		var v vector
		if err := json.Unmarshal(raw, &v); err != nil {
			return err
		}
		vectors++
		srt := string(vh.FromInts(v.Sort))
		pool := make([]Key, len(v.Pool))
		idx := map[string]int{}
		names := make([]string, len(v.Pool))
		for i, k := range v.Pool {
			pool[i] = Key{string(vh.FromInts(k.Name)), k.Value, v.VMap.embed(k.Value)}
			idx[pool[i].Name] = i + 1
			names[i] = pool[i].Name
		}
		if len(v.Ranks) != len(pool) {
			return fmt.Errorf("vector %d: %d ranks for %d keys", vectors+1, len(v.Ranks), len(pool))
		}
		if len(pool) >= 3 {
			nontrivial++
		}
		if _, err := helpers.BuildSorter(srt); err != nil {
			mism = append(mism, mismatch{v, "BuildSorter", nil, nil, names, "build"})
			return nil
		}
		if len(samples) < 3 && len(pool) >= 3 && vectors%97 == 0 {
			samples = append(samples, M{"mode": v.Mode, "sort": srt, "pool": names, "vmap": v.VMap, "ranks": v.Ranks})
		}
		// accepted: a rearrangement of the pool whose specified ranks never decrease, and the same
		// sequence as every other start of this pool produced (one report of each kind per vector)
		var first []int
		reported := map[string]bool{}
		report := func(kind, via string, perm, g []int) {
			if !reported[kind] {
				reported[kind] = true
				mism = append(mism, mismatch{v, via, append([]int{}, perm...), g, names, kind})
			}
		}
		check := func(via string, perm []int, got []string) {
			runs++
			g := make([]int, len(got))
			seen := map[int]bool{}
			okPerm := len(got) == len(pool)
			for i, n := range got {
				g[i] = idx[n]
				if g[i] == 0 || seen[g[i]] {
					okPerm = false
				}
				seen[g[i]] = true
			}
			if !okPerm {
				report("perm", via, perm, g)
				return
			}
			for i := 1; i < len(g); i++ {
				if v.Ranks[g[i]-1] < v.Ranks[g[i-1]-1] {
					report("order", via, perm, g)
					break
				}
			}
			if first == nil {
				first = g
			} else if !vh.EqInts(first, g) {
				report("unstable", via, perm, g)
			}
		}
		all := make([]int, len(pool))
		for i := range all {
			all[i] = i
		}
		shared := mustSorter(srt)
		a := buildAggs(pool)
		permutations(all, func(p []int) {
			keys := make([]Key, len(p))
			for i, x := range p {
				keys[i] = pool[x]
			}
			check("SortBy/reused", plus1(p), viaSortBy(keys, shared))
			check("Sort/fresh", plus1(p), viaSort(keys, mustSorter(srt)))
		})
		for _, via := range aggVias {
			check(via, nil, a.via(via, mustSorter(srt)))
			check(via+"/reused", nil, a.via(via, shared))
		}
		return nil
	})
	if err != nil {
		return err
	}
	if mism == nil {
		mism = []mismatch{}
	}
	vh.WriteJSON(*out, M{"vectors": vectors, "runs": runs, "distinct_nontrivial": nontrivial, "mismatches": mism, "samples": samples})
	return nil
}

package main

// C13 - output ordering is a deterministic function of the aggregated data.
//   trace  : evaluates the REAL comparators built by helpers.BuildSorter on all ordered pairs of
//            key pools (fresh comparator per pair / one reused instance), sorts permutations of the
//            pools through sorting.Sort/SortBy, the aggregators' sorted accessors (Go map order
//            start) and the rare binary, and records everything for Sorting_Trace.tla (B2)
//   replay : sorts TLC-enumerated pools (Sorting_Gen.tla) and compares with the expected sequence (B1)

import (
	"bytes"
	"encoding/json"
	"flag"
	"fmt"
	"math/rand"
	"os"
	"os/exec"
	"path/filepath"
	"sort"
	"strings"

	"rare/cmd/helpers"
	"rare/pkg/aggregation"
	"rare/pkg/aggregation/sorting"
	"rare/pkg/expressions/funclib"

	"verifharness/vh"
)

func main() {
	vh.Main(vh.Commands{"trace": c13Trace, "replay": c13Replay})
}

type M = vh.M

type Key struct {
	Name  string
	Value int64
}

type jkey struct {
	Name  []int `json:"name"`
	Value int64 `json:"value"`
}

// ------------------------------------------------------------------ key universes
var (
	uNum = []string{"1", "1.0", "01", "1e0", "-2", "10", "2", "0.5", ".5", "1e3", "1000", "-0", "0", "+3", "2.50",
		"-1e-2", "1E1", "100", "-10", "1.", "0.10", "1e-1", "3", "20", "9", "11", "1.5", "-1.5", "007", "2.25", "1e2"}
	uText = []string{"a", "b", "ab", "B", "", "-", "1a", "a1", "zeta", "x-2", ".", "u", "n", "abc", "Z", "foo", "bar",
		"2x", "10th", "t", "w", "_", "é", "ü", "ß"}
	uWeek = []string{"mon", "Monday", "TUE", "tues", "wed", "thu", "Thursday", "thur", "thurs", "fri", "SAT", "sun",
		"Sunday", "MON", "tuesday", "Wednesday", "Fri", "saturday", "tue", "Wed", "sat", "friday"}
	uMonth = []string{"jan", "January", "FEB", "mar", "April", "may", "jun", "JULY", "aug", "sept", "Sep", "oct", "Nov",
		"december", "feb", "March", "apr", "June", "jul", "August", "september", "October", "nov", "dec", "JAN", "May"}
	uDate1 = []string{"2024-01-02", "2023-12-31", "2024-02-29", "2024-03-01", "2022-09-03", "2022-09-02", "2021-09-01",
		"2024-01-10", "2024-10-01", "1999-12-31", "2000-01-01", "2024-01-03"}
	uDate2 = []string{"2024-01-02 10:11:12", "2024-01-02 09:00:00", "2023-12-31 23:59:59", "2024-01-02 10:11:13",
		"2024-01-01 00:00:00", "2024-02-29 12:00:00", "2022-09-03 01:02:03", "2024-01-02 10:12:00", "2024-01-02 11:00:00"}
	uDate3 = []string{"01/02/2024", "12/31/2023", "02/29/2024", "11/30/2024", "01/10/2024", "10/01/2024", "09/03/2022",
		"12/31/1999", "01/01/2000", "02/01/2024", "01/03/2023"}
	uUnk = []string{"inf", "nan", "0x10", "1e400", "1_0", "NaN", "2023-02-30", "13/01/2024", "1e100", "-Inf", "0x1p4",
		"Infinity", "2e400", "2024-1-2", "Jan 2, 2024"}
)

var modes = []string{"text", "numeric", "contextual", "date", "value"}

type poolSpec struct {
	label string
	names []string
}

// pools that are always present: the classic trouble makers of every class
func corePools() []poolSpec {
	return []poolSpec{
		{"num-spellings", []string{"1", "1.0", "01", "1e0", "-2", "10"}},
		{"num-text", []string{"2", "10", "1a"}},
		{"num-text2", []string{"2", "10", "1a", "b", "-", "1.0", "1"}},
		{"week-mixedcase", []string{"wed", "tues", "mon", "thurs", "Monday", "TUE", "sun", "Sat"}},
		{"week-text", []string{"wed", "thu", "u"}},
		{"week-text2", []string{"mon", "tue", "foo"}},
		{"months", []string{"jan", "FEB", "mar", "April", "may", "sept", "Sep", "dec"}},
		{"week-month", []string{"mon", "may", "mar", "fri", "jan"}},
		{"date1", []string{"2022-09-03", "2022-09-02", "2021-09-01", "2024-01-10", "2024-10-01"}},
		{"date2", []string{"2024-01-02 10:11:12", "2024-01-02 09:00:00", "2023-12-31 23:59:59", "2024-01-02 10:11:13"}},
		{"date3", []string{"01/02/2024", "12/31/2023", "02/29/2024", "11/30/2024", "01/03/2023"}},
		{"date1-date2", []string{"2024-01-02", "2024-01-02 09:00:00", "2023-12-31", "2023-12-31 23:59:59"}},
		{"date1-date3", []string{"2024-01-02", "12/31/2023", "2023-12-30", "01/01/2024"}},
		{"date-text", []string{"2022-09-03", "2022-09-02", "notadate", "2021-09-01"}},
		{"text", []string{"b", "a", "ab", "B", "", "zeta", "Z"}},
		{"num-week", []string{"3", "mon", "1", "tue", "20"}},
		{"unk", []string{"inf", "1", "nan", "0x10", "1e400", "2e400", "5"}},
		{"num-dotted", []string{"1.20", "1.3", "10", "2", "3.15"}},
		// every name of the calendar tables, once in lower case and once capitalised / upper case
		{"week-all", weekAll(func(s string) string { return s })},
		{"week-all-caps", weekAll(func(s string) string { return strings.ToUpper(s[:1]) + s[1:] })},
		{"month-all", monthAll(func(s string) string { return s })},
		{"month-all-upper", monthAll(strings.ToUpper)},
	}
}

func mapNames(names []string, f func(string) string) []string {
	out := make([]string, len(names))
	for i, n := range names {
		out[i] = f(n)
	}
	return out
}

func weekAll(f func(string) string) []string {
	return mapNames([]string{"sunday", "monday", "tuesday", "wednesday", "thursday", "friday", "saturday",
		"sun", "mon", "tue", "tues", "wed", "thu", "thur", "thurs", "fri", "sat"}, f)
}

func monthAll(f func(string) string) []string {
	return mapNames([]string{"january", "jan", "february", "feb", "march", "mar", "april", "apr", "may", "june", "jun",
		"july", "jul", "august", "aug", "september", "sep", "sept", "october", "oct", "november", "nov", "december", "dec"}, f)
}

func pick(r *rand.Rand, u []string, k int) []string {
	if k > len(u) {
		k = len(u)
	}
	p := r.Perm(len(u))
	out := make([]string, k)
	for i := 0; i < k; i++ {
		out[i] = u[p[i]]
	}
	return out
}

func union(us ...[]string) []string {
	var out []string
	for _, u := range us {
		out = append(out, u...)
	}
	return out
}

func randomPools(r *rand.Rand, n int, big int) []poolSpec {
	homog := []struct {
		l string
		u []string
	}{{"num", uNum}, {"text", uText}, {"week", uWeek}, {"month", uMonth}, {"date1", uDate1}, {"date2", uDate2}, {"date3", uDate3}}
	mixes := []struct {
		l string
		u []string
	}{{"num+text", union(uNum, uText)}, {"week+text", union(uWeek, uText)}, {"week+month", union(uWeek, uMonth)},
		{"num+week+month", union(uNum, uWeek, uMonth)}, {"dates", union(uDate1, uDate2, uDate3)},
		{"date1+text", union(uDate1, uText)}, {"all", union(uNum, uText, uWeek, uMonth, uDate1, uDate3)},
		{"num+unk", union(uNum, uUnk)}, {"text+unk", union(uText, uUnk)}}
	var out []poolSpec
	for i := 0; i < n; i++ {
		var names []string
		var label string
		if i%5 < 3 { // homogeneous
			h := homog[r.Intn(len(homog))]
			names, label = pick(r, h.u, 3+r.Intn(6)), "r-"+h.l
		} else {
			m := mixes[r.Intn(len(mixes))]
			names, label = pick(r, m.u, 3+r.Intn(6)), "r-"+m.l
		}
		out = append(out, poolSpec{label, names})
	}
	// larger pools: sort.Sort leaves insertion sort above 12 elements
	for i := 0; i < big; i++ {
		switch i % 4 {
		case 0:
			out = append(out, poolSpec{"big-num", pick(r, uNum, 14+r.Intn(8))})
		case 1:
			out = append(out, poolSpec{"big-week+month", pick(r, union(uWeek, uMonth), 14+r.Intn(8))})
		case 2:
			out = append(out, poolSpec{"big-dates", pick(r, union(uDate1, uDate3), 14+r.Intn(6))})
		default:
			out = append(out, poolSpec{"big-all", pick(r, union(uNum, uText, uWeek, uDate1), 14+r.Intn(8))})
		}
	}
	return out
}

func withValues(r *rand.Rand, names []string, mode string) []Key {
	vals := []int64{0, 1, 1, 2, 3, 5, 5, 100, -1}
	out := make([]Key, len(names))
	for i, n := range names {
		out[i] = Key{n, vals[r.Intn(len(vals))]}
	}
	return out
}

// ------------------------------------------------------------------ sort strings
func recase(r *rand.Rand, s string) string {
	switch r.Intn(4) {
	case 0:
		return strings.ToUpper(s)
	case 1:
		if s == "" {
			return s
		}
		return strings.ToUpper(s[:1]) + s[1:]
	}
	return s
}

// sort strings of one mode: bare, asc, desc, reverse, rev (random letter case, alias for contextual)
func sortStrings(r *rand.Rand, mode string) []string {
	name := func() string {
		n := mode
		if mode == "contextual" && r.Intn(3) == 0 {
			n = "context"
		}
		return recase(r, n)
	}
	return []string{mode, name() + ":" + recase(r, "asc"), name() + ":" + recase(r, "desc"),
		name() + ":" + recase(r, "reverse"), name() + ":" + recase(r, "rev")}
}

func buildCandidates(r *rand.Rand, mode string) []string {
	c := []string{mode, recase(r, mode) + ":" + recase(r, "asc"), mode + ":bla", mode + ":", mode + "s", "bogus",
		mode + ":ascending", "numerc:desc", mode + ":reversed", recase(r, mode) + ":REV", mode + ":des", "sorted"}
	if mode == "contextual" {
		c = append(c, "context", "Context:desc", "contextua")
	}
	return c
}

// ------------------------------------------------------------------ real sorts
type sortFn func(keys []Key, sorter sorting.NameValueSorter) []string

func viaSort(keys []Key, sorter sorting.NameValueSorter) []string {
	arr := make([]sorting.NameValuePair, len(keys))
	for i, k := range keys {
		arr[i] = sorting.NameValuePair{Name: k.Name, Value: k.Value}
	}
	sorting.Sort(arr, sorter)
	out := make([]string, len(arr))
	for i, a := range arr {
		out[i] = a.Name
	}
	return out
}

func viaSortBy(keys []Key, sorter sorting.NameValueSorter) []string {
	type wrapped struct {
		k  Key
		id int
	}
	arr := make([]wrapped, len(keys))
	for i, k := range keys {
		arr[i] = wrapped{k, i}
	}
	sorting.SortBy(arr, sorter, func(w wrapped) sorting.NameValuePair {
		return sorting.NameValuePair{Name: w.k.Name, Value: w.k.Value}
	})
	out := make([]string, len(arr))
	for i, a := range arr {
		out[i] = a.k.Name
	}
	return out
}

// aggregators: built once per pool, the sorted accessor starts from Go map order on every call
type aggs struct {
	counter *aggregation.MatchCounter
	subkey  *aggregation.SubKeyCounter
	rows    *aggregation.TableAggregator
	cols    *aggregation.TableAggregator
	groups  *aggregation.AccumulatingGroup
	n       int
}

func buildAggs(keys []Key) *aggs {
	a := &aggs{counter: aggregation.NewCounter(), subkey: aggregation.NewSubKeyCounter(),
		rows: aggregation.NewTable("\x00"), cols: aggregation.NewTable("\x00"), n: len(keys)}
	a.groups = aggregation.NewAccumulatingGroup(funclib.NewKeyBuilder())
	if err := a.groups.AddGroupExpr("k", "{0}"); err != nil {
		panic(err)
	}
	if err := a.groups.AddDataExpr("c", "{sumi {.} 1}", "0"); err != nil {
		panic(err)
	}
	for _, k := range keys {
		a.counter.SampleValue(k.Name, k.Value)
		a.subkey.SampleValue(k.Name, "s", k.Value)
		a.rows.SampleItem("c", k.Name, k.Value)
		a.cols.SampleItem(k.Name, "r", k.Value)
		a.groups.Sample(k.Name)
	}
	return a
}

func (a *aggs) via(name string, sorter sorting.NameValueSorter) []string {
	var out []string
	switch name {
	case "ItemsSortedBy":
		for _, it := range a.counter.ItemsSortedBy(a.n, sorter) {
			out = append(out, it.Name)
		}
	case "ItemsSorted":
		for _, it := range a.subkey.ItemsSorted(sorter) {
			out = append(out, it.Name)
		}
	case "OrderedRows":
		for _, it := range a.rows.OrderedRows(sorter) {
			out = append(out, it.Name())
		}
	case "OrderedColumns":
		out = a.cols.OrderedColumns(sorter)
	}
	return out
}

var aggVias = []string{"ItemsSortedBy", "ItemsSorted", "OrderedRows", "OrderedColumns"}

// the name sorter of `rare reduce` (cmd/reduce.go): contextual, optionally reversed
func reduceSorter(rev bool) sorting.NameSorter {
	s := sorting.ByContextual()
	if rev {
		s = sorting.Reverse(s)
	}
	return s
}

func (a *aggs) viaGroups(s sorting.NameSorter) []string {
	var out []string
	for _, g := range a.groups.Groups(s) {
		out = append(out, string(g))
	}
	return out
}

func mustSorter(s string) sorting.NameValueSorter {
	srt, err := helpers.BuildSorter(s)
	if err != nil {
		panic(fmt.Sprintf("BuildSorter(%q): %v", s, err))
	}
	return srt
}

// ------------------------------------------------------------------ recording
type tracer struct {
	w    *vh.NdWriter
	r    *rand.Rand
	tid  int
	pool []Key
	idx  map[string]int // name -> 1-based pool position
	st   struct{ traces, mats, sorts, sortRecs, cli int }
}

func (t *tracer) reset(mode string, pool []Key) {
	t.tid++
	t.st.traces++
	t.pool = pool
	t.idx = map[string]int{}
	jp := make([]jkey, len(pool))
	for i, k := range pool {
		t.idx[k.Name] = i + 1
		jp[i] = jkey{vh.BS(k.Name), k.Value}
	}
	t.w.Write(M{"event": "reset", "t": t.tid, "mode": mode, "pool": jp})
}

func (t *tracer) toIdx(names []string) []int {
	out := make([]int, len(names))
	for i, n := range names {
		out[i] = t.idx[n] // 0 = a name that is not in the pool (the trace spec rejects it)
	}
	return out
}

func (t *tracer) matrix(srt string, fresh bool) {
	n := len(t.pool)
	m := make([][]int, n)
	for i := range m {
		m[i] = make([]int, n)
	}
	type pr struct{ i, j int }
	var pairs []pr
	for i := 0; i < n; i++ {
		for j := 0; j < n; j++ {
			if i != j {
				pairs = append(pairs, pr{i, j})
			}
		}
	}
	var shared sorting.NameValueSorter
	if !fresh {
		shared = mustSorter(srt)
		t.r.Shuffle(len(pairs), func(a, b int) { pairs[a], pairs[b] = pairs[b], pairs[a] })
	}
	for _, p := range pairs {
		s := shared
		if fresh {
			s = mustSorter(srt)
		}
		a, b := t.pool[p.i], t.pool[p.j]
		if s(sorting.NameValuePair{Name: a.Name, Value: a.Value}, sorting.NameValuePair{Name: b.Name, Value: b.Value}) {
			m[p.i][p.j] = 1
		}
	}
	t.st.mats++
	t.w.Write(M{"event": "mat", "sort": vh.BS(srt), "fresh": fresh, "m": m})
}

type outRec struct {
	Out  []int `json:"out"`
	Cnt  int   `json:"cnt"`
	Perm []int `json:"perm"`
}

// collects the results of many sorts of the same keys: distinct sequences with multiplicity
type sortGroup struct {
	t     *tracer
	srt   string
	via   string
	reuse bool
	sub   []int
	n     int
	outs  []*outRec
}

func (g *sortGroup) add(perm []int, out []int) {
	g.n++
	g.t.st.sorts++
	for _, o := range g.outs {
		if vh.EqInts(o.Out, out) {
			o.Cnt++
			return
		}
	}
	if perm == nil {
		perm = []int{}
	}
	g.outs = append(g.outs, &outRec{append([]int{}, out...), 1, append([]int{}, perm...)})
}

func (g *sortGroup) flush() {
	if g.n == 0 {
		return
	}
	g.t.st.sortRecs++
	g.t.w.Write(M{"event": "sorted", "sort": vh.BS(g.srt), "via": g.via, "reuse": g.reuse, "sub": g.sub, "n": g.n, "outs": g.outs})
}

func permutations(a []int, f func([]int)) {
	var rec func(k int)
	rec = func(k int) {
		if k == len(a) {
			f(a)
			return
		}
		for i := k; i < len(a); i++ {
			a[k], a[i] = a[i], a[k]
			rec(k + 1)
			a[k], a[i] = a[i], a[k]
		}
	}
	rec(0)
}

func subsets(n, k int, f func([]int)) {
	cur := make([]int, 0, k)
	var rec func(start int)
	rec = func(start int) {
		if len(cur) == k {
			f(append([]int{}, cur...))
			return
		}
		for i := start; i < n; i++ {
			cur = append(cur, i)
			rec(i + 1)
			cur = cur[:len(cur)-1]
		}
	}
	rec(0)
}

func (t *tracer) keysAt(pos []int) []Key {
	out := make([]Key, len(pos))
	for i, p := range pos {
		out[i] = t.pool[p]
	}
	return out
}

func plus1(a []int) []int {
	out := make([]int, len(a))
	for i, x := range a {
		out[i] = x + 1
	}
	return out
}

// every permutation of the subset `sub` (0-based pool positions): each sorted once with a
// comparator instance shared by all of them and once with a new instance
func (t *tracer) sortAllPerms(srt, via string, fn sortFn, sub []int) {
	g := &sortGroup{t: t, srt: srt, via: via, reuse: true, sub: plus1(sub)}
	shared := mustSorter(srt)
	permutations(append([]int{}, sub...), func(p []int) {
		g.add(plus1(p), t.toIdx(fn(t.keysAt(p), shared)))
		g.add(plus1(p), t.toIdx(fn(t.keysAt(p), mustSorter(srt))))
	})
	g.flush()
}

func (t *tracer) sortRandomPerms(srt, via string, fn sortFn, count int, reuse bool) {
	n := len(t.pool)
	all := make([]int, n)
	for i := range all {
		all[i] = i
	}
	g := &sortGroup{t: t, srt: srt, via: via, reuse: reuse, sub: plus1(all)}
	var shared sorting.NameValueSorter
	if reuse {
		shared = mustSorter(srt)
	}
	for c := 0; c < count; c++ {
		p := t.r.Perm(n)
		s := shared
		if !reuse {
			s = mustSorter(srt)
		}
		g.add(plus1(p), t.toIdx(fn(t.keysAt(p), s)))
	}
	g.flush()
}

// live rendering: ONE sorter instance sorts the growing key set (arrival order = a random
// permutation), as the aggregation loop does on every tick; each prefix is one record
func (t *tracer) sortGrowing(srt string) {
	n := len(t.pool)
	arrival := t.r.Perm(n)
	s := mustSorter(srt)
	for k := 2; k <= n; k++ {
		prefix := append([]int{}, arrival[:k]...)
		sub := append([]int{}, prefix...)
		sort.Ints(sub)
		g := &sortGroup{t: t, srt: srt, via: "grow", reuse: true, sub: plus1(sub)}
		a := buildAggs(t.keysAt(prefix))
		for c := 0; c < 3; c++ {
			g.add(plus1(prefix), t.toIdx(a.via("ItemsSortedBy", s)))
		}
		g.flush()
	}
}

func (t *tracer) sortAggregators(srt string, calls int, reuse bool) {
	n := len(t.pool)
	all := make([]int, n)
	for i := range all {
		all[i] = i
	}
	a := buildAggs(t.pool)
	for _, via := range aggVias {
		g := &sortGroup{t: t, srt: srt, via: via, reuse: reuse, sub: plus1(all)}
		var shared sorting.NameValueSorter
		if reuse {
			shared = mustSorter(srt)
		}
		for c := 0; c < calls; c++ {
			s := shared
			if !reuse {
				s = mustSorter(srt)
			}
			g.add(nil, t.toIdx(a.via(via, s)))
		}
		g.flush()
	}
}

// histo shows the first k rows: MatchCounter.ItemsSortedBy(k, sorter) for k < n must be the first
// k keys of the full order, whatever the map order
func (t *tracer) sortTop(srt string, calls int) {
	n := len(t.pool)
	if n < 3 {
		return
	}
	a := buildAggs(t.pool)
	for _, k := range []int{1, n / 2, n - 1} {
		type top struct {
			Out []int `json:"out"`
			Cnt int   `json:"cnt"`
		}
		var outs []*top
		shared := mustSorter(srt)
		for c := 0; c < calls; c++ {
			var names []string
			for _, it := range a.counter.ItemsSortedBy(k, shared) {
				names = append(names, it.Name)
			}
			out := t.toIdx(names)
			t.st.sorts++
			found := false
			for _, o := range outs {
				if vh.EqInts(o.Out, out) {
					o.Cnt++
					found = true
				}
			}
			if !found {
				outs = append(outs, &top{out, 1})
			}
		}
		t.st.sortRecs++
		t.w.Write(M{"event": "top", "sort": vh.BS(srt), "via": "ItemsSortedBy/top", "k": k, "n": calls, "outs": outs})
	}
}

func (t *tracer) sortGroups(calls int) {
	n := len(t.pool)
	all := make([]int, n)
	for i := range all {
		all[i] = i
	}
	a := buildAggs(t.pool)
	for _, rev := range []bool{false, true} {
		srt := "contextual"
		if rev {
			srt = "contextual:reverse"
		}
		for _, reuse := range []bool{true, false} {
			g := &sortGroup{t: t, srt: srt, via: "Groups", reuse: reuse, sub: plus1(all)}
			shared := reduceSorter(rev)
			for c := 0; c < calls; c++ {
				s := shared
				if !reuse {
					s = reduceSorter(rev)
				}
				g.add(nil, t.toIdx(a.viaGroups(s)))
			}
			g.flush()
		}
	}
}

// ------------------------------------------------------------------ the rare binary
func cliSafe(pool []Key) bool {
	for _, k := range pool {
		if k.Name == "" || strings.ContainsAny(k.Name, "\t\n\r{}") || strings.TrimSpace(k.Name) != k.Name || k.Value < 1 { // histo draws nothing for a zero total
			return false
		}
		for _, c := range []byte(k.Name) {
			if c >= 128 {
				return false
			}
		}
	}
	return true
}

// row order of the snapshot output: the pool key each line starts with (longest match)
func parseRows(out string, pool []Key, skip func(line string) bool) []string {
	var rows []string
	for _, line := range strings.Split(out, "\n") {
		if skip != nil && skip(line) {
			continue
		}
		best := ""
		found := false
		for _, k := range pool {
			if strings.HasPrefix(line, k.Name) && len(line) > len(k.Name) && line[len(k.Name)] == ' ' {
				if !found || len(k.Name) > len(best) {
					best, found = k.Name, true
				}
			}
		}
		if found {
			rows = append(rows, best)
		}
	}
	return rows
}

func (t *tracer) runRare(rare, dir string, args []string, input string) (string, error) {
	in := filepath.Join(dir, fmt.Sprintf("in-%d.txt", t.st.cli))
	if err := os.WriteFile(in, []byte(input), 0o644); err != nil {
		return "", err
	}
	cmd := exec.Command(rare, append(args, in)...)
	cmd.Env = append(os.Environ(), "NO_COLOR=1", "TERM=dumb")
	var so, se bytes.Buffer
	cmd.Stdout, cmd.Stderr = &so, &se
	err := cmd.Run()
	t.st.cli++
	if err != nil {
		return "", fmt.Errorf("rare %v: %v: %s", args, err, se.String())
	}
	return so.String(), nil
}

// rare histo|bars|table --snapshot over the same data in several line orders
func (t *tracer) cli(rare, dir, srt string, orders int) error {
	n := len(t.pool)
	all := make([]int, n)
	for i := range all {
		all[i] = i
	}
	type cmdSpec struct {
		via  string
		args []string
		line func(k Key) string
		skip func(string) bool
	}
	kv := func(k Key) string { return fmt.Sprintf("%s\t%d\n", k.Name, k.Value) }
	specs := []cmdSpec{
		{"cli:histo", []string{"--nocolor", "histo", "--snapshot", "-n", "1000", "-m", "^([^\\t]*)\\t(.*)$", "-e", "{$ {1} {2}}", "--sort", srt}, kv, nil},
		{"cli:bars", []string{"--nocolor", "bars", "--snapshot", "-m", "^([^\\t]*)\\t(.*)$", "-e", "{$ {1} s {2}}", "--sort", srt}, kv, nil},
		{"cli:table-rows", []string{"--nocolor", "table", "--snapshot", "--rows", "1000", "-m", "^([^\\t]*)\\t(.*)$", "-e", "{$ c {1} {2}}", "--sort-rows", srt}, kv, nil},
	}
	for _, sp := range specs {
		g := &sortGroup{t: t, srt: srt, via: sp.via, reuse: true, sub: plus1(all)}
		for o := 0; o < orders; o++ {
			p := t.r.Perm(n)
			var sb strings.Builder
			for _, i := range p {
				sb.WriteString(sp.line(t.pool[i]))
			}
			out, err := t.runRare(rare, dir, sp.args, sb.String())
			if err != nil {
				return err
			}
			rows := parseRows(out, t.pool, sp.skip)
			if len(rows) != n {
				return fmt.Errorf("%s: could not read %d rows from the output (got %d):\n%s", sp.via, n, len(rows), out)
			}
			g.add(plus1(p), t.toIdx(rows))
		}
		g.flush()
	}
	return nil
}

// ------------------------------------------------------------------ trace command
func c13Trace(args []string) error {
	fs := flag.NewFlagSet("trace", flag.ContinueOnError)
	out := fs.String("out", "c13-trace.ndjson", "")
	stats := fs.String("stats", "", "statistics json")
	nrand := fs.Int("pools", 14, "random pools")
	nbig := fs.Int("big", 2, "pools of 14..21 keys")
	maxEnum := fs.Int("enum", 5, "pools up to this size: every permutation of every <=5-subset")
	nsub := fs.Int("subsets", 25, "larger pools: this many random subsets of 2..5 keys, every permutation")
	rperms := fs.Int("perms", 40, "random permutations of the full pool")
	rare := fs.String("rare", "", "rare binary for the CLI runs")
	ncli := fs.Int("cli", 6, "pools run through the rare binary per mode")
	if err := fs.Parse(args); err != nil {
		return err
	}
	w, err := vh.NewNdWriter(*out)
	if err != nil {
		return err
	}
	defer w.Close()
	r := vh.NewRand(13)
	t := &tracer{w: w, r: r}
	pools := append(corePools(), randomPools(r, *nrand, *nbig)...)
	tmp, err := os.MkdirTemp("", "c13cli")
	if err != nil {
		return err
	}
	defer os.RemoveAll(tmp)
	for _, mode := range modes {
		cliLeft := *ncli
		for pi, ps := range pools {
			pool := withValues(r, ps.names, mode)
			n := len(pool)
			t.reset(mode, pool)
			for _, c := range pick(r, buildCandidates(r, mode), 3) {
				_, e := helpers.BuildSorter(c)
				w.Write(M{"event": "build", "sort": vh.BS(c), "ok": e == nil})
			}
			srts := sortStrings(r, mode)
			for _, s := range srts {
				t.matrix(s, true)
				t.matrix(s, false)
			}
			// every permutation of every <=5-subset (small pools) / of a sample of subsets, both
			// directions; a comparator instance shared by all sorts of the subset AND a new one per sort
			for si, s := range srts[:3] {
				if si == 1 && mode != "value" { // ":asc" is the bare name except for value
					continue
				}
				if n <= *maxEnum {
					for k := 2; k <= 5 && k <= n; k++ {
						subsets(n, k, func(sub []int) { t.sortAllPerms(s, "Sort", viaSort, sub) })
					}
				} else {
					for c := 0; c < *nsub; c++ {
						k := 2 + r.Intn(4)
						sub := r.Perm(n)[:k]
						sort.Ints(sub)
						t.sortAllPerms(s, "Sort", viaSort, sub)
					}
				}
			}
			// the full pool from random start permutations, every modifier
			for _, s := range srts {
				t.sortRandomPerms(s, "SortBy", viaSortBy, *rperms, true)
				t.sortRandomPerms(s, "SortBy", viaSortBy, *rperms/2, false)
			}
			// aggregators (map order start)
			for _, s := range []string{srts[0], srts[2], srts[3]} {
				t.sortAggregators(s, 12, true)
				t.sortAggregators(s, 6, false)
			}
			if mode == "contextual" {
				t.sortGroups(10)
			}
			t.sortGrowing(srts[0])
			t.sortTop(srts[0], 8)
			t.sortTop(srts[2], 8)
			if *rare != "" && cliLeft > 0 && cliSafe(pool) && (pi%3 == int(vh.Seed())%3 || pi < 2) {
				cliLeft--
				for _, s := range []string{srts[0], srts[3]} {
					if err := t.cli(*rare, tmp, s, 2); err != nil {
						return err
					}
				}
			}
		}
	}
	if *stats != "" {
		vh.WriteJSON(*stats, M{"traces": t.st.traces, "matrices": t.st.mats, "sorts": t.st.sorts,
			"sort_records": t.st.sortRecs, "cli_runs": t.st.cli, "pools": len(pools)})
	}
	return nil
}

// ------------------------------------------------------------------ replay command (B1)
type vector struct {
	Mode   string `json:"mode"`
	Cls    string `json:"cls"`
	Sort   []int  `json:"sort"`
	Pool   []jkey `json:"pool"`
	Expect []int  `json:"expect"`
}

func c13Replay(args []string) error {
	fs := flag.NewFlagSet("replay", flag.ContinueOnError)
	in := fs.String("in", "", "vectors")
	out := fs.String("out", "c13-replay.json", "")
	if err := fs.Parse(args); err != nil {
		return err
	}
	type mismatch struct {
		Vector vector   `json:"vector"`
		Via    string   `json:"via"`
		Perm   []int    `json:"perm"`
		Got    []int    `json:"got"`
		Names  []string `json:"names"`
		Kind   string   `json:"kind"`
	}
	var mism []mismatch
	var samples []M
	runs, vectors, nontrivial := 0, 0, 0
	err := vh.ReadNd(*in, func(raw json.RawMessage) error {
		var v vector
		if err := json.Unmarshal(raw, &v); err != nil {
			return err
		}
		vectors++
		srt := string(vh.FromInts(v.Sort))
		pool := make([]Key, len(v.Pool))
		idx := map[string]int{}
		names := make([]string, len(v.Pool))
		for i, k := range v.Pool {
			pool[i] = Key{string(vh.FromInts(k.Name)), k.Value}
			idx[pool[i].Name] = i + 1
			names[i] = pool[i].Name
		}
		if len(pool) >= 3 {
			nontrivial++
		}
		if _, err := helpers.BuildSorter(srt); err != nil {
			mism = append(mism, mismatch{v, "BuildSorter", nil, nil, names, "build"})
			return nil
		}
		if len(samples) < 3 && len(pool) >= 3 && vectors%97 == 0 {
			samples = append(samples, M{"mode": v.Mode, "sort": srt, "pool": names, "expect": v.Expect})
		}
		check := func(via string, perm []int, got []string) {
			runs++
			g := make([]int, len(got))
			for i, n := range got {
				g[i] = idx[n]
			}
			if !vh.EqInts(g, v.Expect) {
				mism = append(mism, mismatch{v, via, append([]int{}, perm...), g, names, "order"})
			}
		}
		all := make([]int, len(pool))
		for i := range all {
			all[i] = i
		}
		shared := mustSorter(srt)
		a := buildAggs(pool)
		permutations(all, func(p []int) {
			keys := make([]Key, len(p))
			for i, x := range p {
				keys[i] = pool[x]
			}
			check("SortBy/reused", plus1(p), viaSortBy(keys, shared))
			check("Sort/fresh", plus1(p), viaSort(keys, mustSorter(srt)))
		})
		for _, via := range aggVias {
			check(via, nil, a.via(via, mustSorter(srt)))
			check(via+"/reused", nil, a.via(via, shared))
		}
		return nil
	})
	if err != nil {
		return err
	}
	if mism == nil {
		mism = []mismatch{}
	}
	vh.WriteJSON(*out, M{"vectors": vectors, "runs": runs, "distinct_nontrivial": nontrivial, "mismatches": mism, "samples": samples})
	return nil
}

package main

// C13 - acctrace: families of random histories on long-lived AccumulatingGroup objects, every Groups()
// call recorded for SortingAccum_Trace.tla (B2).  A family is one multiset of samples delivered in several
// random orders (so different histories reach equal rows) with displays at random moments.

import (
	"flag"
	"fmt"

	"verifharness/vh"
)

var accUnivNames = map[string][]string{"num": {"10", "9", "200"}, "text": {"b", "a", "ab"}, "weekday": {"wed", "mon", "TUE"}}
var accExprOrder = []string{"none", "key", "sum", "cnt", "max", "negsum"}

func c13AccTrace(args []string) error {
	fs := flag.NewFlagSet("acctrace", flag.ContinueOnError)
	out := fs.String("out", "c13-acctrace.ndjson", "")
	stats := fs.String("stats", "", "statistics json")
	nfam := fs.Int("families", 40, "families of histories")
	norders := fs.Int("orders", 4, "delivery orders per family")
	if err := fs.Parse(args); err != nil {
		return err
	}
	w, err := vh.NewNdWriter(*out)
	if err != nil {
		return err
	}
	defer w.Close()
	r := vh.NewRand(1313)
	univs := []string{"num", "text", "weekday"}
	records, histories := 0, 0
	for f := 0; f < *nfam; f++ {
		univ := univs[f%3]
		names := accUnivNames[univ]
		n := 4 + r.Intn(9)
		type smp struct{ g, v int }
		base := make([]smp, n)
		for i := range base {
			base[i] = smp{1 + r.Intn(3), r.Intn(7) - 3}
			if r.Intn(3) == 0 { // small positive values make tied sums / counts / maxima likely
				base[i].v = 1
			}
		}
		for o := 0; o < *norders; o++ {
			histories++
			perm := r.Perm(n)
			// displays after these many samples (always one at the end)
			shows := map[int]bool{n: true}
			for k := 0; k < 2; k++ {
				shows[1+r.Intn(n)] = true
			}
			for _, expr := range accExprOrder {
				for _, rev := range []bool{false, true} {
					a := newAccum(accSortExpr[expr])
					sorter := reduceSorter(rev) // lives as long as the object, as in cmd/reduce.go
					ops := [][]int{}
					for i, pi := range perm {
						s := base[pi]
						a.Sample(names[s.g-1] + "\x00" + fmt.Sprint(s.v))
						ops = append(ops, []int{s.g, s.v})
						if !shows[i+1] {
							continue
						}
						got := []int{}
						for _, g := range a.Groups(sorter) {
							idx := 0
							for k, nm := range names {
								if nm == string(g) {
									idx = k + 1
								}
							}
							got = append(got, idx)
						}
						records++
						w.Write(M{"univ": univ, "expr": expr, "rev": rev, "ops": append([][]int{}, ops...), "got": got})
					}
				}
			}
		}
	}
	if *stats != "" {
		vh.WriteJSON(*stats, M{"families": *nfam, "histories": histories, "records": records})
	}
	return nil
}

package main

// C13 - `rare reduce`: the accumulating group as a long-lived object (SortingAccum.tla).
//   accum : replays TLC-enumerated histories (SortingAccum_Gen.tla: samples in every order, a display
//           in the middle and one at the end) on real aggregation.AccumulatingGroup objects - one per
//           sort expression and sorter, the sorter living as long as the object as cmd/reduce.go holds
//           it - and judges every Groups() listing by what the specification printed for that display:
//           the present groups, their ranks under the current rows, and (RowsOnly) one listing per
//           (sort expression, direction, rows) whatever the history that led to those rows.
//           A sample of the histories is also fed to the rare binary as input lines.

import (
	"encoding/json"
	"flag"
	"fmt"
	"os"
	"os/exec"
	"path/filepath"
	"strings"

	"rare/pkg/aggregation"
	"rare/pkg/expressions/funclib"

	"verifharness/vh"
)

type accList struct {
	At     int     `json:"at"`
	Rows   [][]int `json:"rows"`
	Ranks  [][]int `json:"ranks"`
	RRanks [][]int `json:"rranks"`
	Ties   []bool  `json:"ties"`
}

type accVector struct {
	Univ  string    `json:"univ"`
	Names [][]int   `json:"names"`
	Exprs []string  `json:"exprs"`
	Ops   [][]int   `json:"ops"`
	Lists []accList `json:"lists"`
}

// the `--sort` expression of a model expression ("" = no --sort)
var accSortExpr = map[string]string{"none": "", "key": "{0}", "sum": "{s}", "cnt": "{c}", "max": "{m}", "negsum": "{subi 0 {s}}"}

type accSorter struct {
	name  string
	rev   bool
	fresh bool // a new name sorter for every Groups() call
}

var accSorters = []accSorter{{"ctx", false, false}, {"ctxrev", true, false}, {"ctx-fresh", false, true}, {"ctxrev-fresh", true, true}}

func newAccum(sortExpr string) *aggregation.AccumulatingGroup {
	a := aggregation.NewAccumulatingGroup(funclib.NewKeyBuilder())
	must := func(err error) {
		if err != nil {
			panic(err)
		}
	}
	must(a.AddGroupExpr("k", "{1}"))
	must(a.AddDataExpr("s", "{sumi {.} {2}}", "0"))
	must(a.AddDataExpr("c", "{sumi {.} 1}", "0"))
	must(a.AddDataExpr("m", "{maxi {.} {2}}", "0"))
	if sortExpr != "" {
		must(a.SetSort(sortExpr))
	}
	return a
}

type accMismatch struct {
	Univ    string   `json:"univ"`
	Expr    string   `json:"expr"`
	Sorter  string   `json:"sorter"`
	Kind    string   `json:"kind"`
	Names   []string `json:"names"`
	History string   `json:"history"`
	At      int      `json:"at"`
	Rows    [][]int  `json:"rows"`
	Ranks   []int    `json:"ranks"`
	Got     []string `json:"got"`
	Other   []string `json:"other,omitempty"`
	OtherH  string   `json:"other_history,omitempty"`
	Ties    bool     `json:"ties"`
	Count   int      `json:"count"`
}

func accHistory(names []string, ops [][]int, upto int) string {
	var sb strings.Builder
	for i, op := range ops {
		if i >= upto {
			break
		}
		if i > 0 {
			sb.WriteByte(' ')
		}
		if op[0] == 0 {
			sb.WriteString("list")
		} else {
			fmt.Fprintf(&sb, "%s+=%d", names[op[0]-1], op[1])
		}
	}
	return sb.String()
}

func c13Accum(args []string) error {
	fs := flag.NewFlagSet("accum", flag.ContinueOnError)
	in := fs.String("in", "", "vectors")
	out := fs.String("out", "c13-accum.json", "")
	rare := fs.String("rare", "", "rare binary")
	ncli := fs.Int("cli", 40, "histories fed to the rare binary")
	if err := fs.Parse(args); err != nil {
		return err
	}
	type canonEntry struct {
		got     []string
		history string
		first   bool // no display before this one
	}
	canon := map[string]*canonEntry{}
	mism := map[string]*accMismatch{}
	var order []string
	var samples []M
	vectors, listings, nontrivial, cliRuns := 0, 0, 0, 0
	var cliErr error
	tmp, err := os.MkdirTemp("", "c13acc")
	if err != nil {
		return err
	}
	defer os.RemoveAll(tmp)
	var cliPool []accVector

	judge := func(v *accVector, names []string, ei int, srt string, rev bool, li int, got []string, hist string) {
		l := v.Lists[li]
		expr := v.Exprs[ei]
		ranks := l.Ranks[ei]
		if rev {
			ranks = l.RRanks[ei]
		}
		listings++
		report := func(kind string, ce *canonEntry) {
			key := v.Univ + ":" + expr + ":" + srt + ":" + kind
			if m, ok := mism[key]; ok {
				m.Count++
				return
			}
			m := &accMismatch{Univ: v.Univ, Expr: expr, Sorter: srt, Kind: kind, Names: names, History: hist, At: l.At, Rows: l.Rows,
				Ranks: ranks, Got: got, Ties: l.Ties[ei], Count: 1}
			if ce != nil {
				m.Other, m.OtherH = ce.got, ce.history
			}
			mism[key] = m
			order = append(order, key)
		}
		// exactly the present groups
		idx := map[string]int{}
		for i, n := range names {
			idx[n] = i
		}
		present := 0
		for _, r := range l.Rows {
			if r[1] > 0 {
				present++
			}
		}
		seen := map[int]bool{}
		ok := len(got) == present
		gi := make([]int, len(got))
		for i, g := range got {
			p, has := idx[g]
			if !has || seen[p] || l.Rows[p][1] == 0 {
				ok = false
				break
			}
			seen[p] = true
			gi[i] = p
		}
		if !ok {
			report("perm", nil)
			return
		}
		for i := 1; i < len(gi); i++ {
			if ranks[gi[i]] < ranks[gi[i-1]] {
				report("order", nil)
				break
			}
		}
		rowsKey, _ := json.Marshal(l.Rows)
		ck := fmt.Sprintf("%s|%s|%v|%s", v.Univ, expr, rev, rowsKey)
		ce, has := canon[ck]
		if !has {
			canon[ck] = &canonEntry{append([]string{}, got...), hist, li == 0}
			return
		}
		if strings.Join(ce.got, "\x00") != strings.Join(got, "\x00") {
			if ce.first && li == 0 {
				report("arrival", ce) // same rows, samples delivered in another order
			} else {
				report("history", ce) // same rows, another past (earlier displays, earlier rows)
			}
		}
	}

	err = vh.ReadNd(*in, func(raw json.RawMessage) error {
		var v accVector
		if err := json.Unmarshal(raw, &v); err != nil {
			return err
		}
		vectors++
		names := make([]string, len(v.Names))
		for i, n := range v.Names {
			names[i] = string(vh.FromInts(n))
		}
		if len(v.Ops) >= 4 {
			nontrivial++
		}
		if len(samples) < 2 && len(v.Lists) == 2 && vectors%211 == 0 {
			samples = append(samples, M{"univ": v.Univ, "history": accHistory(names, v.Ops, len(v.Ops)), "lists": v.Lists})
		}
		if len(v.Lists) == 1 && len(v.Ops) >= 4 && vectors%7 == int(vh.Seed())%7 {
			cliPool = append(cliPool, v)
		}
		for ei, expr := range v.Exprs {
			se, known := accSortExpr[expr]
			if !known {
				return fmt.Errorf("unknown sort expression %q", expr)
			}
			for _, srt := range accSorters {
				a := newAccum(se)
				shared := reduceSorter(srt.rev)
				li := 0
				for oi, op := range v.Ops {
					if op[0] != 0 {
						a.Sample(names[op[0]-1] + "\x00" + fmt.Sprint(op[1]))
						continue
					}
					if li >= len(v.Lists) || v.Lists[li].At != oi+1 {
						return fmt.Errorf("vector %d: display %d is not at operation %d", vectors, li, oi+1)
					}
					hist := accHistory(names, v.Ops, oi+1)
					for call := 0; call < 3; call++ { // a refresh shows the same data several times
						s := shared
						if srt.fresh {
							s = reduceSorter(srt.rev)
						}
						var got []string
						for _, g := range a.Groups(s) {
							got = append(got, string(g))
						}
						judge(&v, names, ei, srt.name, srt.rev, li, got, hist)
					}
					li++
				}
			}
		}
		return nil
	})
	if err != nil {
		return err
	}

	// the rare binary: the samples of a history as input lines, `reduce --sort <expr>` [--sort-reverse]
	if *rare != "" {
		for ci, v := range cliPool {
			if ci >= *ncli {
				break
			}
			names := make([]string, len(v.Names))
			for i, n := range v.Names {
				names[i] = string(vh.FromInts(n))
			}
			var sb strings.Builder
			for _, op := range v.Ops {
				if op[0] != 0 {
					fmt.Fprintf(&sb, "%s %d\n", names[op[0]-1], op[1])
				}
			}
			inPath := filepath.Join(tmp, fmt.Sprintf("in-%d.txt", ci))
			if err := os.WriteFile(inPath, []byte(sb.String()), 0o644); err != nil {
				return err
			}
			ei := 2 + ci%4 // the expressions that read the row
			rev := ci%2 == 1
			cargs := []string{"--nocolor", "reduce", "-m", "^(\\S+) (-?\\d+)$", "-g", "k={1}", "-a", "s={sumi {.} {2}}", "-a", "c={sumi {.} 1}",
				"-a", "m={maxi {.} {2}}", "--sort", accSortExpr[v.Exprs[ei]]}
			if rev {
				cargs = append(cargs, "--sort-reverse")
			}
			cmd := exec.Command(*rare, append(cargs, inPath)...)
			cmd.Env = append(os.Environ(), "NO_COLOR=1", "TERM=dumb")
			o, err := cmd.Output()
			if err != nil {
				cliErr = fmt.Errorf("rare %v: %v", cargs, err)
				break
			}
			cliRuns++
			var got []string
			for _, line := range strings.Split(string(o), "\n") {
				f := strings.Fields(line)
				if len(f) == 4 {
					for _, n := range names {
						if f[0] == n {
							got = append(got, n)
						}
					}
				}
			}
			srt := "cli"
			if rev {
				srt = "clirev"
			}
			judge(&v, names, ei, srt, rev, 0, got, accHistory(names, v.Ops, len(v.Ops)))
		}
	}
	if cliErr != nil {
		return cliErr
	}
	ms := make([]*accMismatch, 0, len(order))
	for _, k := range order {
		ms = append(ms, mism[k])
	}
	vh.WriteJSON(*out, M{"vectors": vectors, "listings": listings, "distinct_nontrivial": nontrivial, "cli_runs": cliRuns,
		"rows_classes": len(canon), "mismatches": ms, "samples": samples})
	return nil
}

// Command x01 is the conformance driver of FilterN.tla (`rare filter -n N`, beyond the listed
// properties): it writes input files whose lines carry their own file and line number and say
// whether they match, runs the REAL rare binary over them and records what was printed.
//
//	x01 replay -rare BIN -in vectors.ndjson -out result.json -trace trace.ndjson   (B1: TLC-enumerated scenarios)
//	x01 random -rare BIN -n K -trace trace.ndjson -out result.json                 (B2: seeded larger scenarios)
package main

import (
	"bytes"
	"encoding/json"
	"flag"
	"fmt"
	"os"
	"os/exec"
	"path/filepath"
	"regexp"
	"strconv"
	"strings"
	"time"

	"verifharness/vh"
)

func main() {
	vh.Main(vh.Commands{"replay": replay, "random": random})
}

type M = vh.M

type fileSpec struct {
	Match []int `json:"match"`
}

type outLine struct {
	F int `json:"f"`
	I int `json:"i"`
}

type scenario struct {
	Files   []fileSpec
	N       int
	W       int
	B       int
	Readers int
	Custom  bool // -e '{1}:{2}' instead of the default output (the matched line)
	Gomax   int
}

type record struct {
	T      int        `json:"t"`
	N      int        `json:"n"`
	W      int        `json:"w"`
	B      int        `json:"b"`
	Files  []fileSpec `json:"files"`
	Out    []outLine  `json:"out"`
	Suma   int        `json:"suma"`
	Sumb   int        `json:"sumb"`
	Code   int        `json:"code"`
	Custom bool       `json:"custom"`
	Argv   []string   `json:"argv"`
}

var summaryRe = regexp.MustCompile(`Matched: ([0-9,]+) / ([0-9,]+)`)
var lineRe = regexp.MustCompile(`^F(\d+)L(\d+) m$`)
var customRe = regexp.MustCompile(`^(\d+):(\d+)$`)

// run materialises sc under dir and runs the binary; junk != "" reports output the scenario cannot contain.
func run(rare, dir string, t int, sc scenario) (rec record, junk string, err error) {
	if err = os.MkdirAll(dir, 0o755); err != nil {
		return
	}
	var paths []string
	for fi, f := range sc.Files {
		var b bytes.Buffer
		for li, m := range f.Match {
			if m == 1 {
				fmt.Fprintf(&b, "F%dL%d m\n", fi+1, li+1)
			} else {
				fmt.Fprintf(&b, "F%dL%d x\n", fi+1, li+1)
			}
		}
		p := filepath.Join(dir, fmt.Sprintf("in%d.log", fi+1))
		if err = os.WriteFile(p, b.Bytes(), 0o644); err != nil {
			return
		}
		paths = append(paths, p)
	}
	argv := []string{"--nocolor", "filter", "-m", `^F(\d+)L(\d+) m$`, "--workers", strconv.Itoa(sc.W), "--batch", strconv.Itoa(sc.B),
		"--readers", strconv.Itoa(sc.Readers)}
	if sc.N > 0 {
		argv = append(argv, "-n", strconv.Itoa(sc.N))
	}
	if sc.Custom {
		argv = append(argv, "-e", "{1}:{2}")
	}
	argv = append(argv, paths...)
	cmd := exec.Command(rare, argv...)
	cmd.Env = append(os.Environ(), "GOMAXPROCS="+strconv.Itoa(sc.Gomax))
	var so, se bytes.Buffer
	cmd.Stdout, cmd.Stderr = &so, &se
	done := make(chan error, 1)
	if err = cmd.Start(); err != nil {
		return
	}
	go func() { done <- cmd.Wait() }()
	select {
	case <-done:
	case <-time.After(120 * time.Second):
		cmd.Process.Kill()
		<-done
		err = fmt.Errorf("rare %v did not end within 120 s", argv)
		return
	}
	rec = record{T: t, N: sc.N, W: sc.W, B: sc.B, Files: sc.Files, Out: []outLine{}, Suma: -1, Sumb: -1,
		Code: cmd.ProcessState.ExitCode(), Custom: sc.Custom, Argv: argv}
	text := so.String()
	if strings.HasSuffix(text, "\n") {
		text = text[:len(text)-1]
	}
	if so.Len() > 0 {
		for _, ln := range strings.Split(text, "\n") {
			re := lineRe
			if sc.Custom {
				re = customRe
			}
			m := re.FindStringSubmatch(ln)
			if m == nil {
				junk = fmt.Sprintf("stdout line %q is not a line of the input", ln)
				// an impossible coordinate: the specification rejects the record as not-a-match
				rec.Out = append(rec.Out, outLine{F: 0, I: 0})
				continue
			}
			f, _ := strconv.Atoi(m[1])
			i, _ := strconv.Atoi(m[2])
			rec.Out = append(rec.Out, outLine{F: f, I: i})
		}
	}
	if m := summaryRe.FindStringSubmatch(se.String()); m != nil {
		rec.Suma, _ = strconv.Atoi(strings.ReplaceAll(m[1], ",", ""))
		rec.Sumb, _ = strconv.Atoi(strings.ReplaceAll(m[2], ",", ""))
	}
	if strings.Contains(se.String(), "panic: ") || strings.Contains(se.String(), "fatal error: ") {
		junk = "the process was aborted by the Go runtime: " + firstLines(se.String(), 6)
	}
	return
}

func firstLines(s string, n int) string {
	ls := strings.Split(s, "\n")
	if len(ls) > n {
		ls = ls[:n]
	}
	return strings.Join(ls, " | ")
}

type vector struct {
	Match []int `json:"match"`
	N     int   `json:"n"`
	Want  int   `json:"want"`
	First []int `json:"first"`
	Code  int   `json:"code"`
}

type mismatch struct {
	Why  string   `json:"why"`
	Argv []string `json:"argv"`
	Vec  vector   `json:"vec"`
	Got  []int    `json:"got"`
}

// replay: every TLC vector under workers {1,2} x batch {1,2,3}, default and custom output; the expectation is TLC's.
func replay(args []string) error {
	fs := flag.NewFlagSet("replay", flag.ExitOnError)
	rare := fs.String("rare", "", "")
	in := fs.String("in", "", "")
	out := fs.String("out", "", "")
	trace := fs.String("trace", "", "")
	fs.Parse(args)
	tw, err := vh.NewNdWriter(*trace)
	if err != nil {
		return err
	}
	defer tw.Close()
	dir, err := os.MkdirTemp("", "x01-")
	if err != nil {
		return err
	}
	defer os.RemoveAll(dir)
	var mism []mismatch
	runs, t := 0, 0
	err = vh.ReadNd(*in, func(raw json.RawMessage) error {
		var v vector
		if err := json.Unmarshal(raw, &v); err != nil {
			return err
		}
		if v.Match == nil {
			v.Match = []int{}
		}
		k := t
		cfgs := []scenario{
			{W: 1, B: 1 + k%3, Readers: 1, Custom: k%2 == 0, Gomax: 1 + k%4},
			{W: 2, B: 1 + (k/3)%2, Readers: 1, Custom: k%2 == 1, Gomax: 4},
		}
		for _, c := range cfgs {
			t++
			c.Files = []fileSpec{{Match: v.Match}}
			c.N = v.N
			rec, junk, err := run(*rare, filepath.Join(dir, strconv.Itoa(t)), t, c)
			if err != nil {
				return err
			}
			os.RemoveAll(filepath.Join(dir, strconv.Itoa(t)))
			runs++
			tw.Write(rec)
			got := []int{}
			for _, o := range rec.Out {
				got = append(got, o.I)
			}
			add := func(why string) { mism = append(mism, mismatch{Why: why, Argv: rec.Argv, Vec: v, Got: got}) }
			if junk != "" {
				add("junk: " + junk)
			}
			if len(got) != v.Want {
				add(fmt.Sprintf("count: FilterN.tla owes %d printed lines, the binary printed %d", v.Want, len(got)))
			} else if c.W == 1 && !vh.EqInts(got, v.First) {
				add(fmt.Sprintf("first-n: with one worker the printed lines are the first matches %v, the binary printed %v", v.First, got))
			}
			if rec.Code != v.Code {
				add(fmt.Sprintf("exit: specification %d, binary %d", v.Code, rec.Code))
			}
		}
		return nil
	})
	if err != nil {
		return err
	}
	vh.WriteJSON(*out, M{"runs": runs, "mismatches": mism})
	return nil
}

// random: larger seeded scenarios, several files, many workers; judged by FilterN_Trace only.
func random(args []string) error {
	fs := flag.NewFlagSet("random", flag.ExitOnError)
	rare := fs.String("rare", "", "")
	n := fs.Int("n", 100, "")
	out := fs.String("out", "", "")
	trace := fs.String("trace", "", "")
	fs.Parse(args)
	tw, err := vh.NewNdWriter(*trace)
	if err != nil {
		return err
	}
	defer tw.Close()
	dir, err := os.MkdirTemp("", "x01r-")
	if err != nil {
		return err
	}
	defer os.RemoveAll(dir)
	rnd := vh.NewRand(101)
	junks := []M{}
	for t := 1; t <= *n; t++ {
		sc := scenario{W: []int{1, 1, 2, 3, 8}[rnd.Intn(5)], B: []int{1, 2, 3, 7, 50, 1000}[rnd.Intn(6)],
			Readers: 1 + rnd.Intn(3), Custom: rnd.Intn(2) == 0, Gomax: []int{1, 2, 4, 16}[rnd.Intn(4)]}
		nf := 1
		if rnd.Intn(3) == 0 {
			nf = 2 + rnd.Intn(3)
		}
		dens := []float64{0, 0.02, 0.3, 0.9, 1}[rnd.Intn(5)]
		total := 0
		for f := 0; f < nf; f++ {
			ln := []int{0, 1, 5, 40, 400, 3000}[rnd.Intn(6)]
			ln += rnd.Intn(ln/2 + 1)
			m := make([]int, ln)
			for i := range m {
				if rnd.Float64() < dens {
					m[i] = 1
					total++
				}
			}
			sc.Files = append(sc.Files, fileSpec{Match: m})
		}
		switch rnd.Intn(5) {
		case 0:
			sc.N = 0
		case 1:
			sc.N = 1
		case 2:
			sc.N = total // exactly as many as there are
		case 3:
			sc.N = total + 1 + rnd.Intn(3)
		default:
			sc.N = 1 + rnd.Intn(total+2)
		}
		rec, junk, err := run(*rare, filepath.Join(dir, strconv.Itoa(t)), t, sc)
		if err != nil {
			return err
		}
		os.RemoveAll(filepath.Join(dir, strconv.Itoa(t)))
		if junk != "" {
			junks = append(junks, M{"t": t, "junk": junk, "argv": rec.Argv})
		}
		tw.Write(rec)
	}
	vh.WriteJSON(*out, M{"runs": *n, "junk": junks})
	return nil
}

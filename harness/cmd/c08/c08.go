package main

// C08 - no template and no input line can crash expression compilation or evaluation.
//
//   c08 registry : names of the helpers registered in stdlib / funclib (cross-check of ExprTotal.tla Sig)
//   c08 replay   : parent.  Splits the TLC-generated scan scenarios (ExprTotal_Gen) into batches and runs
//                  every batch in a CHILD process (c08 worker), so that a runaway evaluation, a memory
//                  blow-up or a fatal runtime error only costs that child: the parent finds the scenario
//                  the child was working on, re-runs it alone with a longer deadline to confirm, and
//                  resumes the rest of the batch.
//   c08 worker   : child.  For every scenario: compile the template with the REAL compiler (optimising
//                  and not) and evaluate ONE compiled expression on every line in order, under recover()
//                  with a per-step deadline kept by a watchdog; scenarios "via extract" run the real
//                  extractor (regex / dissect matcher, real match context).  Reports panics, missed
//                  deadlines, outcome-class disagreements; records sampled scans as ndjson events.
//                  Process scenarios (g = "proc", proc.go): several compiled expressions and a history of lines in a child of
//                  their own - sequentially, from several goroutines, through the extractor with an ignore set.
//   c08 cli      : a sample of the scenarios through the rare binary (expression, filter -e, histogram -e; process scenarios
//                  with -i and two -e of one invocation)
//   c08 eval     : one template from the command line (debugging / replay of a finding)

import (
	"bufio"
	"bytes"
	"encoding/binary"
	"encoding/json"
	"errors"
	"flag"
	"fmt"
	"hash/fnv"
	"os"
	"os/exec"
	"regexp"
	"runtime"
	"runtime/debug"
	"sort"
	"strconv"
	"strings"
	"sync"
	"sync/atomic"
	"time"
	"unicode/utf8"

	"rare/pkg/expressions"
	"rare/pkg/expressions/funcfile"
	"rare/pkg/expressions/funclib"
	"rare/pkg/expressions/stdlib"
	"rare/pkg/extractor"
	"rare/pkg/matchers"
	"rare/pkg/matchers/dissect"
	"rare/pkg/matchers/fastregex"

	"verifharness/vh"
)

func main() {
	vh.Main(vh.Commands{"registry": cmdRegistry, "replay": cmdReplay, "worker": cmdWorker, "cli": cmdCli, "eval": cmdEval})
}

type M = vh.M

// ---------------------------------------------------------------------------- vectors (ExprTotal_Gen)

type Value struct {
	ID string `json:"id"`
	S  string `json:"s"`
	B  []int  `json:"b"`
	R  int    `json:"r"`
}

type Line struct {
	M []string `json:"m"`
	K []string `json:"k"`
}

type Scn struct {
	ID      string   `json:"id"`
	G       string   `json:"g"`
	F       string   `json:"f"`
	Cls     string   `json:"cls"`
	Tpl     []string `json:"tpl"`
	Raw     []int    `json:"raw"`
	Via     string   `json:"via"`
	Pat     string   `json:"pat"`
	Sep     string   `json:"sep"`
	Lines   []Line   `json:"lines"`
	Lineset string   `json:"lineset,omitempty"`
	// g = "proc" (ExprScanPool_Gen): a whole process - several compiled expressions, one history of lines
	Exprs []ProcExpr `json:"exprs,omitempty"`
	Mode  string     `json:"mode,omitempty"`
	Opt   bool       `json:"opt,omitempty"`
	Kinds []string   `json:"kinds,omitempty"`
	// g = "values"
	Names    []string `json:"names,omitempty"`
	Ffnames  []string `json:"ffnames,omitempty"`
	Funcfile []string `json:"funcfile,omitempty"`
	Values   []Value  `json:"values,omitempty"`
	Texts    []TextRow `json:"texts,omitempty"`
	// g = "lineset"
	Name string `json:"name,omitempty"`
}

// TextRow: the length of a pooled text in bytes, runes and NUL-separated elements as ExprText.tla computes it
type TextRow struct {
	ID string `json:"id"`
	Nb int    `json:"nb"`
	Nr int    `json:"nr"`
	Ne int    `json:"ne"`
}

// checkTexts compares the model's measures with the real strings (len, utf8.RuneCountInString, elements).
func checkTexts(vt *valueTable, rows []TextRow) []string {
	var bad []string
	for _, r := range rows {
		s, err := vt.get(r.ID)
		if err != nil {
			bad = append(bad, err.Error())
			continue
		}
		if nb, nr, ne := len(s), utf8.RuneCountInString(s), strings.Count(s, "\x00")+1; nb != r.Nb || nr != r.Nr || ne != r.Ne {
			bad = append(bad, fmt.Sprintf("text %s: the model says %d bytes / %d runes / %d elements, the string has %d / %d / %d", r.ID, r.Nb, r.Nr, r.Ne, nb, nr, ne))
		}
	}
	return bad
}

// A template token "$$V:<id>$$" stands for the bytes of the value <id> written as a constant (texts with multi-byte
// characters: the TLA+ strings of the generator are ASCII).  constVT is the value table the placeholders are resolved in.
var constVT *valueTable
var placeholderRe = regexp.MustCompile(`\$\$V:([^$]*)\$\$`)

func expandConsts(text string) string {
	if constVT == nil || !strings.Contains(text, "$$V:") {
		return text
	}
	return placeholderRe.ReplaceAllStringFunc(text, func(m string) string {
		if v, err := constVT.get(m[4 : len(m)-2]); err == nil {
			return v
		}
		return m
	})
}

func (s *Scn) Text() string { return expandConsts(s.rawText()) }

func (s *Scn) rawText() string {
	if len(s.Exprs) > 0 {
		parts := make([]string, len(s.Exprs))
		for i := range s.Exprs {
			parts[i] = s.Exprs[i].Role + ": " + s.Exprs[i].Text()
		}
		return strings.Join(parts, " | ")
	}
	if len(s.Raw) > 0 {
		return string(vh.FromInts(s.Raw))
	}
	return strings.Join(s.Tpl, "")
}

type Common struct {
	Values   []Value           `json:"values"`
	Funcfile []string          `json:"funcfile"`
	Linesets map[string][]Line `json:"linesets"`
}

type valueTable struct {
	rows  map[string]Value
	cache map[string]string
}

func newValueTable(vals []Value) *valueTable {
	t := &valueTable{rows: map[string]Value{}, cache: map[string]string{}}
	for _, v := range vals {
		if old, dup := t.rows[v.ID]; dup && (old.S != v.S || old.R != v.R || !vh.EqInts(old.B, v.B)) {
			fmt.Fprintf(os.Stderr, "driver: value id %q has two contents\n", v.ID)
			os.Exit(3)
		}
		t.rows[v.ID] = v
	}
	return t
}

func (t *valueTable) get(id string) (string, error) {
	if s, ok := t.cache[id]; ok {
		return s, nil
	}
	v, ok := t.rows[id]
	if !ok {
		return "", fmt.Errorf("unknown value id %q", id)
	}
	unit := v.S + string(vh.FromInts(v.B))
	r := v.R
	if r < 1 {
		r = 1
	}
	s := strings.Repeat(unit, r)
	t.cache[id] = s
	return s, nil
}

// ---------------------------------------------------------------------------- registry

func cmdRegistry(args []string) error {
	fs := flag.NewFlagSet("registry", flag.ExitOnError)
	out := fs.String("out", "registry.json", "")
	fs.Parse(args)
	var std, lib []string
	for k := range stdlib.StandardFunctions {
		std = append(std, k)
	}
	for k := range funclib.Builtins {
		lib = append(lib, k)
	}
	sort.Strings(std)
	sort.Strings(lib)
	vh.WriteJSON(*out, M{"stdlib": std, "builtins": lib})
	return nil
}

func loadFuncFile(lines []string) {
	if len(lines) == 0 {
		return
	}
	// as main.go does for --funcs: one optimising compiler, errors only logged
	cmplr := funclib.NewKeyBuilder()
	funclib.TryAddFunctions(funcfile.LoadDefinitions(cmplr, strings.NewReader(strings.Join(lines, "\n")+"\n"), "c08.funcs"))
}

// ---------------------------------------------------------------------------- worker (child process)

const (
	phIdle = iota
	phCompile
	phEval
	phScan
)

var phaseName = []string{"idle", "compile", "eval", "scan"}

type watch struct {
	phase int32
	opt   int32
	line  int64
	start int64 // unix nano, 0 = nothing running
}

type Panic struct {
	Phase string `json:"phase"`
	Opt   bool   `json:"opt"`
	Line  int    `json:"line"`
	Msg   string `json:"msg"`
	Where string `json:"where"`
}

type Event struct {
	Event string `json:"event"`
	T     int    `json:"t"`
	N     int    `json:"n"`
	K     int    `json:"k"`
	Res   string `json:"res"`
	Lines int    `json:"lines"`
}

type Result struct {
	ID       string   `json:"id"`
	Start    bool     `json:"start,omitempty"`
	Done     bool     `json:"done,omitempty"`
	G        string   `json:"g,omitempty"`
	F        string   `json:"f,omitempty"`
	Cls      string   `json:"cls,omitempty"`
	ErrOpt   bool     `json:"errOpt"`
	ErrNoopt bool     `json:"errNoopt"`
	ErrText  string   `json:"errText,omitempty"`
	Mismatch bool     `json:"mismatch,omitempty"`
	Compiles int      `json:"compiles"`
	Evals    int      `json:"evals"`
	Lines    int      `json:"lines"`
	Markers  int      `json:"markers"`
	Panics   []Panic  `json:"panics,omitempty"`
	Trace    []Event  `json:"trace,omitempty"`
	ScanBad  string   `json:"scanBad,omitempty"`
	Mode     string   `json:"mode,omitempty"`
	Inf      int      `json:"inf,omitempty"`
	PTrace   []PEvent `json:"ptrace,omitempty"`
	// abnormal ends written by the watchdog
	Hang *M     `json:"hang,omitempty"`
	Oom  *M     `json:"oom,omitempty"`
	Skip string `json:"skip,omitempty"`
}

type worker struct {
	vt       *valueTable
	linesets map[string][]Line
	w        watch
	mu       sync.Mutex
	out      *bufio.Writer
	curID    atomic.Value
	deadline time.Duration
	memLimit int64
	hashes   *bufio.Writer
	traceMod int
	prog     *progress
}

func (wk *worker) emit(r *Result) {
	b, _ := json.Marshal(r)
	wk.mu.Lock()
	wk.out.Write(b)
	wk.out.WriteByte('\n')
	wk.out.Flush()
	wk.mu.Unlock()
}

func rssBytes() int64 {
	b, err := os.ReadFile("/proc/self/statm")
	if err != nil {
		return 0
	}
	f := strings.Fields(string(b))
	if len(f) < 2 {
		return 0
	}
	n, _ := strconv.ParseInt(f[1], 10, 64)
	return n * int64(os.Getpagesize())
}

func (wk *worker) watchdog() {
	for {
		time.Sleep(25 * time.Millisecond)
		id, _ := wk.curID.Load().(string)
		st := atomic.LoadInt64(&wk.w.start)
		if st != 0 {
			el := time.Since(time.Unix(0, st))
			if el > wk.deadline {
				h := M{"phase": phaseName[atomic.LoadInt32(&wk.w.phase)], "opt": atomic.LoadInt32(&wk.w.opt) == 1,
					"line": atomic.LoadInt64(&wk.w.line), "ms": el.Milliseconds()}
				wk.emit(&Result{ID: id, Hang: &h})
				os.Exit(4)
			}
		}
		if rss := rssBytes(); rss > wk.memLimit {
			o := M{"phase": phaseName[atomic.LoadInt32(&wk.w.phase)], "opt": atomic.LoadInt32(&wk.w.opt) == 1,
				"line": atomic.LoadInt64(&wk.w.line), "rssMB": rss >> 20}
			wk.emit(&Result{ID: id, Oom: &o})
			os.Exit(5)
		}
	}
}

func (wk *worker) begin(phase int, opt bool, line int) {
	atomic.StoreInt32(&wk.w.phase, int32(phase))
	o := int32(0)
	if opt {
		o = 1
	}
	atomic.StoreInt32(&wk.w.opt, o)
	atomic.StoreInt64(&wk.w.line, int64(line))
	atomic.StoreInt64(&wk.w.start, time.Now().UnixNano())
}
func (wk *worker) end() { atomic.StoreInt64(&wk.w.start, 0) }

// a frame of rare or of a library it uses, with the receiver of a method: rare/pkg/expressions/stdlib.(*subContext).GetKey
var reFrame = regexp.MustCompile(`(?m)^((?:rare|github\.com)/[^\s(]*(?:\(\*?[^)\s]*\)[^\s(]*)?)\(`)

func whereOf(stack []byte) string {
	// first frames below the panic that belong to rare or a library it uses
	idx := bytes.Index(stack, []byte("panic("))
	if idx >= 0 {
		stack = stack[idx:]
	}
	ms := reFrame.FindAllSubmatch(stack, 4)
	var fr []string
	for _, m := range ms {
		fr = append(fr, string(m[1]))
	}
	return strings.Join(fr, " < ")
}

func guard(p *[]Panic, phase string, opt bool, line int, f func()) (ok bool) {
	defer func() {
		if r := recover(); r != nil {
			*p = append(*p, Panic{Phase: phase, Opt: opt, Line: line, Msg: fmt.Sprint(r), Where: whereOf(debug.Stack())})
			ok = false
		}
	}()
	f()
	return true
}

var markerRe = regexp.MustCompile(`<(BAD-TYPE|PARSE-ERROR|ARGN|CONST|ENUM|NAME|EMPTY|FILE|VALUE|INF|Err:[^>]*)>`)

func (wk *worker) context(ln Line, lineNo int) (*expressions.KeyBuilderContextArray, error) {
	ctx := &expressions.KeyBuilderContextArray{Elements: make([]string, len(ln.M)), Keys: map[string]string{"src": "c08", "line": strconv.Itoa(lineNo)}}
	for i, id := range ln.M {
		s, err := wk.vt.get(id)
		if err != nil {
			return nil, err
		}
		ctx.Elements[i] = s
	}
	for i, id := range ln.K {
		s, err := wk.vt.get(id)
		if err != nil {
			return nil, err
		}
		ctx.Keys["k"+strconv.Itoa(i)] = s
	}
	return ctx, nil
}

func hash64(parts ...string) uint64 {
	h := fnv.New64a()
	for _, p := range parts {
		h.Write([]byte(p))
		h.Write([]byte{0xfe, 0xff})
	}
	return h.Sum64()
}

func (wk *worker) noteCase(tplHash uint64, ln Line) {
	if wk.hashes == nil {
		return
	}
	h := fnv.New64a()
	var b [8]byte
	binary.LittleEndian.PutUint64(b[:], tplHash)
	h.Write(b[:])
	for _, id := range ln.M {
		h.Write([]byte(id))
		h.Write([]byte{0xfe})
	}
	h.Write([]byte{0xff})
	for _, id := range ln.K {
		h.Write([]byte(id))
		h.Write([]byte{0xfe})
	}
	binary.LittleEndian.PutUint64(b[:], h.Sum64())
	wk.hashes.Write(b[:])
}

func (wk *worker) linesOf(s *Scn) ([]Line, error) {
	if s.Lineset != "" {
		ls, ok := wk.linesets[s.Lineset]
		if !ok {
			return nil, fmt.Errorf("unknown lineset %q", s.Lineset)
		}
		return ls, nil
	}
	return s.Lines, nil
}

func (wk *worker) runArray(s *Scn, tno int, traced bool) (*Result, error) {
	res := &Result{ID: s.ID, Done: true, G: s.G, F: s.F, Cls: s.Cls}
	text := s.Text()
	lines, err := wk.linesOf(s)
	if err != nil {
		return nil, err
	}
	ctxs := make([]*expressions.KeyBuilderContextArray, len(lines))
	for i, ln := range lines {
		if ctxs[i], err = wk.context(ln, i+1); err != nil {
			return nil, err
		}
	}
	res.Lines = len(lines)
	nontrivial := strings.Contains(text, "{")
	th := hash64(text)
	for _, opt := range []bool{true, false} {
		var compiled *expressions.CompiledKeyBuilder
		var cerr *expressions.CompilerErrors
		wk.begin(phCompile, opt, 0)
		ok := guard(&res.Panics, "compile", opt, 0, func() {
			compiled, cerr = funclib.NewKeyBuilderEx(opt).Compile(text)
		})
		wk.end()
		res.Compiles++
		record := traced && opt
		if record {
			res.Trace = append(res.Trace, Event{Event: "reset", T: tno, N: len(lines)})
		}
		if !ok {
			if record {
				res.Trace = append(res.Trace, Event{Event: "compile", T: tno, Res: "panic"})
			}
			continue
		}
		hasErr := cerr != nil
		if opt {
			res.ErrOpt = hasErr
		} else {
			res.ErrNoopt = hasErr
		}
		if hasErr && res.ErrText == "" {
			guard(&res.Panics, "errtext", opt, 0, func() { res.ErrText = trunc(cerr.Error(), 300) })
		}
		if (s.Cls == "ok" && hasErr) || (s.Cls == "err" && !hasErr) {
			res.Mismatch = true
		}
		if record {
			r := "ok"
			if hasErr {
				r = "errors"
			}
			res.Trace = append(res.Trace, Event{Event: "compile", T: tno, Res: r})
		}
		if compiled == nil {
			if !hasErr { // neither an expression nor an error: Compile did not "yield a usable expression or report errors"
				res.Panics = append(res.Panics, Panic{Phase: "compile", Opt: opt, Msg: "nil expression without error"})
			}
			if record {
				res.Trace = append(res.Trace, Event{Event: "end", T: tno, Lines: 0})
			}
			continue
		}
		for i, ctx := range ctxs {
			var out string
			wk.begin(phEval, opt, i+1)
			ok := guard(&res.Panics, "eval", opt, i+1, func() { out = compiled.BuildKey(ctx) })
			wk.end()
			res.Evals++
			if ok && markerRe.MatchString(out) {
				res.Markers++
			}
			if opt && nontrivial {
				wk.noteCase(th, lines[i])
			}
			if record {
				r := "string"
				if !ok {
					r = "panic"
				}
				res.Trace = append(res.Trace, Event{Event: "line", T: tno, K: i + 1, Res: r})
			}
		}
		if record {
			res.Trace = append(res.Trace, Event{Event: "end", T: tno, Lines: len(lines)})
		}
	}
	return res, nil
}

func buildMatcher(kind, pat string) (matchers.Factory, error) {
	switch kind {
	case "regex":
		r, err := fastregex.CompileEx(pat, false)
		if err != nil {
			return nil, err
		}
		return matchers.ToFactory(r), nil
	case "dissect":
		d, err := dissect.CompileEx(pat, false)
		if err != nil {
			return nil, err
		}
		return matchers.ToFactory(d), nil
	}
	return nil, errors.New("unknown matcher kind " + kind)
}

// the real extractor over whole lines: a panic in its worker goroutine kills this process (as it kills rare);
// the parent then finds the scenario and the line from the progress record
func (wk *worker) runExtract(s *Scn, tno int, traced bool) (*Result, error) {
	res := &Result{ID: s.ID, Done: true, G: s.G, F: s.F, Cls: s.Cls}
	text := s.Text()
	lines, err := wk.linesOf(s)
	if err != nil {
		return nil, err
	}
	raw := make([]extractor.BString, len(lines))
	for i, ln := range lines {
		parts := make([]string, len(ln.M))
		for j, id := range ln.M {
			if parts[j], err = wk.vt.get(id); err != nil {
				return nil, err
			}
		}
		raw[i] = extractor.BString(strings.Join(parts, s.Sep))
	}
	res.Lines = len(lines)
	m, err := buildMatcher(s.F, s.Pat)
	if err != nil {
		return nil, fmt.Errorf("matcher %s %q: %v", s.F, s.Pat, err)
	}
	ch := make(chan extractor.InputBatch)
	var ex *extractor.Extractor
	var xerr error
	wk.begin(phCompile, true, 0)
	ok := guard(&res.Panics, "compile", true, 0, func() {
		ex, xerr = extractor.New(ch, &extractor.Config{Matcher: m, Extract: text, Workers: 1})
	})
	wk.end()
	res.Compiles++
	if traced {
		res.Trace = append(res.Trace, Event{Event: "reset", T: tno, N: len(lines)})
	}
	if !ok {
		if traced {
			res.Trace = append(res.Trace, Event{Event: "compile", T: tno, Res: "panic"})
		}
		return res, nil
	}
	if xerr != nil || ex == nil {
		res.ErrOpt, res.ErrNoopt = true, true
		if xerr != nil {
			res.ErrText = trunc(xerr.Error(), 300)
		}
		res.Mismatch = s.Cls == "ok"
		if traced {
			res.Trace = append(res.Trace, Event{Event: "compile", T: tno, Res: "errors"}, Event{Event: "end", T: tno})
		}
		return res, nil
	}
	if traced {
		res.Trace = append(res.Trace, Event{Event: "compile", T: tno, Res: "ok"})
	}
	res.Mismatch = s.Cls == "err"
	matched := 0
	done := make(chan struct{})
	go func() {
		for ms := range ex.ReadChan() {
			matched += len(ms)
		}
		close(done)
	}()
	th := hash64(text, s.F, s.Pat)
	for i := range raw {
		wk.begin(phScan, true, i+1)
		ch <- extractor.InputBatch{Batch: []extractor.BString{raw[i]}, Source: "c08", BatchStart: uint64(i + 1)}
		for ex.ReadLines() < uint64(i+1) { // the worker evaluates line i+1 now; a panic there ends the process
			runtime.Gosched()
		}
		res.Evals++
		wk.noteCase(th, lines[i])
		if traced {
			res.Trace = append(res.Trace, Event{Event: "line", T: tno, K: i + 1, Res: "string"})
		}
	}
	wk.begin(phScan, true, len(raw)+1)
	close(ch)
	<-done
	wk.end()
	if ex.ReadLines() != uint64(len(raw)) {
		res.ScanBad = fmt.Sprintf("%d lines fed, %d read", len(raw), ex.ReadLines())
	} else if uint64(matched) != ex.MatchedLines() {
		res.ScanBad = fmt.Sprintf("%d matches delivered, %d counted", matched, ex.MatchedLines())
	}
	if traced {
		res.Trace = append(res.Trace, Event{Event: "end", T: tno, Lines: int(ex.ReadLines())})
	}
	return res, nil
}

func trunc(s string, n int) string {
	if len(s) > n {
		return s[:n] + "..."
	}
	return s
}

func cmdWorker(args []string) error {
	fs := flag.NewFlagSet("worker", flag.ExitOnError)
	common := fs.String("common", "common.json", "")
	in := fs.String("in", "", "")
	out := fs.String("out", "", "")
	hashes := fs.String("hashes", "", "")
	deadline := fs.Int("deadline", 15000, "ms per compilation / evaluation")
	mem := fs.Int("mem", 3072, "MiB resident before the worker gives up")
	traceMod := fs.Int("tracemod", 0, "record the scan of every k-th scenario (0: none)")
	tbase := fs.Int("tbase", 0, "first trace id")
	progPath := fs.String("progress", "", "progress file of process scenarios")
	skip := fs.Int("skip", 0, "scenarios of the batch to skip")
	only := fs.Int("only", -1, "run just this scenario of the batch")
	fs.Parse(args)

	var cm Common
	b, err := os.ReadFile(*common)
	if err != nil {
		return err
	}
	if err := json.Unmarshal(b, &cm); err != nil {
		return err
	}
	f, err := os.OpenFile(*out, os.O_CREATE|os.O_WRONLY|os.O_APPEND, 0o644)
	if err != nil {
		return err
	}
	defer f.Close()
	constVT = newValueTable(cm.Values)
	wk := &worker{vt: constVT, linesets: cm.Linesets, out: bufio.NewWriter(f),
		deadline: time.Duration(*deadline) * time.Millisecond, memLimit: int64(*mem) << 20, traceMod: *traceMod}
	wk.curID.Store("")
	if *hashes != "" {
		hf, err := os.OpenFile(*hashes, os.O_CREATE|os.O_WRONLY|os.O_APPEND, 0o644)
		if err != nil {
			return err
		}
		defer hf.Close()
		wk.hashes = bufio.NewWriterSize(hf, 1<<20)
		defer wk.hashes.Flush()
	}
	if *progPath != "" {
		pf, err := os.OpenFile(*progPath, os.O_CREATE|os.O_WRONLY|os.O_TRUNC, 0o644)
		if err != nil {
			return err
		}
		defer pf.Close()
		wk.prog = &progress{f: pf}
	}
	loadFuncFile(cm.Funcfile)
	go wk.watchdog()

	idx := -1
	err = vh.ReadNd(*in, func(raw json.RawMessage) error {
		idx++
		if idx < *skip || (*only >= 0 && idx != *only) {
			return nil
		}
		var s Scn
		if err := json.Unmarshal(raw, &s); err != nil {
			return err
		}
		wk.curID.Store(s.ID)
		wk.emit(&Result{ID: s.ID, Start: true})
		traced := wk.traceMod > 0 && idx%wk.traceMod == 0
		var res *Result
		var rerr error
		if s.Via == "proc" {
			res, rerr = wk.runProc(&s, *tbase+idx, traced)
		} else if s.Via == "extract" {
			res, rerr = wk.runExtract(&s, *tbase+idx, traced)
		} else {
			res, rerr = wk.runArray(&s, *tbase+idx, traced)
		}
		if rerr != nil {
			return rerr
		}
		wk.emit(res)
		return nil
	})
	wk.curID.Store("")
	return err
}

// ---------------------------------------------------------------------------- replay (parent)

type batch struct {
	no    int
	path  string
	scns  []scnRef
	heavy bool
	proc  bool
}

type scnRef struct {
	id, g, f, cls, text, via string
	lines                    int
	mode                     string
	nc                       int
	opt                      bool
}

type Finding struct {
	Kind   string `json:"kind"` // panic | hang | oom | fatal | nilexpr | scan
	ID     string `json:"id"`
	G      string `json:"g"`
	F      string `json:"f"`
	Text   string `json:"text"`
	Phase  string `json:"phase"`
	Opt    bool   `json:"opt"`
	Line   int    `json:"line"`
	Msg    string `json:"msg"`
	Where  string `json:"where"`
	Detail string `json:"detail,omitempty"`
}

type Mismatch struct {
	ID       string `json:"id"`
	G        string `json:"g"`
	F        string `json:"f"`
	Cls      string `json:"cls"`
	Text     string `json:"text"`
	ErrOpt   bool   `json:"errOpt"`
	ErrNoopt bool   `json:"errNoopt"`
	ErrText  string `json:"errText"`
}

type agg struct {
	mu          sync.Mutex
	scenarios   int
	compiles    int
	evals       int
	lines       int
	markers     int
	perGroup    map[string]int
	perFunc     map[string]int
	clsCount    map[string]int
	findings    []Finding
	mismatches  []Mismatch
	unconfirmed []M
	samples     []M
	trace       *bufio.Writer
	traceScans  int
	traceEvents int
	ptrace      *bufio.Writer
	ptraceScans int
	procModes   map[string]int
	confirmed   map[string]int // confirmed process deaths per class (runtime verdict + frames)
	notRerun    int            // further deaths of a class that was confirmed often enough
	infResults  int
	procEvals   int
	children    int
	childDeaths int
	infra       []string
}

func normMsg(s string) string {
	s = regexp.MustCompile(`0x[0-9a-f]+`).ReplaceAllString(s, "N")
	s = regexp.MustCompile(`-?\d+`).ReplaceAllString(s, "N")
	return trunc(s, 120)
}

type childOutcome struct {
	results  map[string]*Result
	order    []string
	lastOpen string // started, never finished
	hang     *Result
	oom      *Result
	exit     int
	stderr   string
	killed   bool
}

func runChild(self string, args []string, outPath string, wall time.Duration) (*childOutcome, error) {
	os.Remove(outPath)
	cmd := exec.Command(self, append([]string{"worker"}, args...)...)
	var stderr bytes.Buffer
	cmd.Stderr = &stderr
	cmd.Env = append(os.Environ(), "GOMAXPROCS=2", "GOTRACEBACK=single")
	if err := cmd.Start(); err != nil {
		return nil, err
	}
	done := make(chan error, 1)
	go func() { done <- cmd.Wait() }()
	oc := &childOutcome{results: map[string]*Result{}}
	select {
	case err := <-done:
		if err != nil {
			var ee *exec.ExitError
			if errors.As(err, &ee) {
				oc.exit = ee.ExitCode()
			} else {
				return nil, err
			}
		}
	case <-time.After(wall):
		cmd.Process.Kill()
		<-done
		oc.killed = true
		oc.exit = -9
	}
	oc.stderr = stderr.String()
	open := ""
	vh.ReadNd(outPath, func(raw json.RawMessage) error {
		var r Result
		if json.Unmarshal(raw, &r) != nil {
			return nil
		}
		switch {
		case r.Start:
			open = r.ID
		case r.Hang != nil:
			oc.hang = &r
		case r.Oom != nil:
			oc.oom = &r
		case r.Done:
			rr := r
			oc.results[r.ID] = &rr
			oc.order = append(oc.order, r.ID)
			if open == r.ID {
				open = ""
			}
		}
		return nil
	})
	oc.lastOpen = open
	return oc, nil
}

func fatalLine(stderr string) (msg, where string) {
	// the text of the Go runtime's verdict: "fatal error: stack overflow", "fatal error: concurrent map writes", "panic: ..."
	// (a "runtime: goroutine stack exceeds ..." line only precedes it)
	rt := ""
	for _, ln := range strings.Split(stderr, "\n") {
		if strings.HasPrefix(ln, "panic:") || strings.HasPrefix(ln, "fatal error:") {
			if msg == "" {
				msg = strings.TrimSpace(ln)
			}
		} else if strings.HasPrefix(ln, "runtime: ") && rt == "" {
			rt = strings.TrimSpace(ln)
		}
	}
	if msg == "" {
		msg = rt
	}
	ms := reFrame.FindAllStringSubmatch(stderr, 4)
	var fr []string
	for _, m := range ms {
		fr = append(fr, m[1])
	}
	return msg, strings.Join(fr, " < ")
}

func cmdReplay(args []string) error {
	fs := flag.NewFlagSet("replay", flag.ExitOnError)
	in := fs.String("in", "", "vectors (ndjson; the values vector anywhere)")
	out := fs.String("out", "replay.json", "")
	tracePath := fs.String("trace", "", "write sampled scans here")
	ptracePath := fs.String("ptrace", "", "write the recorded process scans here")
	traceMod := fs.Int("tracemod", 0, "")
	workers := fs.Int("workers", 6, "")
	deadline := fs.Int("deadline", 15000, "ms per compilation / evaluation")
	batchSize := fs.Int("batch", 1200, "")
	mem := fs.Int("mem", 3072, "")
	hashOut := fs.String("hashes", "", "file collecting the case hashes (for the distinct count)")
	fs.Parse(args)
	self, err := os.Executable()
	if err != nil {
		return err
	}
	dir := *out + ".d"
	os.RemoveAll(dir)
	if err := os.MkdirAll(dir, 0o755); err != nil {
		return err
	}

	// ---- split
	cm := Common{Linesets: map[string][]Line{}}
	var light, heavy, procs [][]byte
	var lrefs, hrefs, prefs []scnRef
	seen := map[string]bool{}
	var textRows []TextRow
	err = vh.ReadNd(*in, func(raw json.RawMessage) error {
		var s Scn
		if err := json.Unmarshal(raw, &s); err != nil {
			return err
		}
		if seen[s.ID] {
			return nil
		}
		seen[s.ID] = true
		switch s.G {
		case "values":
			cm.Values, cm.Funcfile = s.Values, s.Funcfile
			textRows = s.Texts
			return nil
		case "lineset":
			cm.Linesets[s.Name] = s.Lines
			return nil
		}
		ref := scnRef{id: s.ID, g: s.G, f: s.F, cls: s.Cls, text: s.Text(), via: s.Via, lines: len(s.Lines), mode: s.Mode, nc: len(s.Exprs), opt: s.Opt}
		if s.Via == "proc" { // a process of its own
			procs = append(procs, raw)
			prefs = append(prefs, ref)
		} else if s.Via == "extract" || s.G == "for" {
			heavy = append(heavy, raw)
			hrefs = append(hrefs, ref)
		} else {
			light = append(light, raw)
			lrefs = append(lrefs, ref)
		}
		return nil
	})
	if err != nil {
		return err
	}
	if len(cm.Values) == 0 {
		return errors.New("no values vector in the input")
	}
	constVT = newValueTable(cm.Values)
	for _, refs := range [][]scnRef{lrefs, hrefs, prefs} { // (the value table may come after the scenarios)
		for i := range refs {
			refs[i].text = expandConsts(refs[i].text)
		}
	}
	textTrouble := checkTexts(constVT, textRows)
	cb, _ := json.Marshal(cm)
	commonPath := dir + "/common.json"
	if err := os.WriteFile(commonPath, cb, 0o644); err != nil {
		return err
	}
	var batches []*batch
	mk := func(raws [][]byte, refs []scnRef, size int, hv bool) error {
		for i := 0; i < len(raws); i += size {
			j := i + size
			if j > len(raws) {
				j = len(raws)
			}
			b := &batch{no: len(batches), path: fmt.Sprintf("%s/batch-%d.ndjson", dir, len(batches)), scns: refs[i:j], heavy: hv}
			if err := os.WriteFile(b.path, append(bytes.Join(raws[i:j], []byte("\n")), '\n'), 0o644); err != nil {
				return err
			}
			batches = append(batches, b)
		}
		return nil
	}
	hsize := (len(heavy) + 2*(*workers) - 1) / (2 * (*workers))
	if hsize < 1 {
		hsize = 1
	}
	if err := mk(heavy, hrefs, hsize, true); err != nil {
		return err
	}
	nb := len(batches)
	if err := mk(procs, prefs, 1, true); err != nil {
		return err
	}
	for _, b := range batches[nb:] {
		b.proc = true
	}
	if err := mk(light, lrefs, *batchSize, false); err != nil {
		return err
	}

	a := &agg{perGroup: map[string]int{}, perFunc: map[string]int{}, clsCount: map[string]int{}, procModes: map[string]int{}, confirmed: map[string]int{}}
	for _, t := range textTrouble {
		a.infra = append(a.infra, "ExprText.tla measures out of date: "+t)
	}
	if *ptracePath != "" {
		pf, err := os.Create(*ptracePath)
		if err != nil {
			return err
		}
		defer pf.Close()
		a.ptrace = bufio.NewWriterSize(pf, 1<<20)
		defer a.ptrace.Flush()
	}
	if *tracePath != "" {
		tf, err := os.Create(*tracePath)
		if err != nil {
			return err
		}
		defer tf.Close()
		a.trace = bufio.NewWriterSize(tf, 1<<20)
		defer a.trace.Flush()
	}

	jobs := make(chan *batch)
	var wg sync.WaitGroup
	for w := 0; w < *workers; w++ {
		wg.Add(1)
		go func() {
			defer wg.Done()
			for b := range jobs {
				a.runBatch(self, commonPath, b, *deadline, *mem, *traceMod, *hashOut != "")
			}
		}()
	}
	for _, b := range batches {
		jobs <- b
	}
	close(jobs)
	wg.Wait()

	// ---- distinct non-trivial cases
	distinct := 0
	if *hashOut != "" {
		set := map[uint64]struct{}{}
		for _, b := range batches {
			hb, err := os.ReadFile(b.path + ".hashes")
			if err != nil {
				continue
			}
			for i := 0; i+8 <= len(hb); i += 8 {
				set[binary.LittleEndian.Uint64(hb[i:])] = struct{}{}
			}
		}
		distinct = len(set)
		ob := make([]byte, 0, 8*len(set))
		var w8 [8]byte
		for h := range set {
			binary.LittleEndian.PutUint64(w8[:], h)
			ob = append(ob, w8[:]...)
		}
		if err := os.WriteFile(*hashOut, ob, 0o644); err != nil {
			return err
		}
	}
	if a.trace != nil {
		a.trace.Flush()
	}
	if a.ptrace != nil {
		a.ptrace.Flush()
	}
	vh.WriteJSON(*out, M{
		"same_class_not_rerun": a.notRerun,
		"proc_modes":           a.procModes, "proc_scans_recorded": a.ptraceScans, "inf_results": a.infResults, "proc_evals": a.procEvals,
		"scenarios": a.scenarios, "compiles": a.compiles, "evals": a.evals, "lines": a.lines, "markers": a.markers,
		"per_group": a.perGroup, "functions": len(a.perFunc), "classes": a.clsCount,
		"findings": a.findings, "mismatches": a.mismatches, "unconfirmed": a.unconfirmed, "samples": a.samples,
		"distinct_nontrivial": distinct, "trace_scans": a.traceScans, "trace_events": a.traceEvents,
		"children": a.children, "child_deaths": a.childDeaths, "infra": a.infra, "batches": len(batches),
		"expected": len(light) + len(heavy) + len(procs), "texts_measured": len(textRows),
	})
	os.RemoveAll(dir)
	return nil
}

func (a *agg) absorb(b *batch, ref map[string]scnRef, oc *childOutcome) {
	a.mu.Lock()
	defer a.mu.Unlock()
	for _, id := range oc.order {
		r := oc.results[id]
		sr := ref[id]
		a.scenarios++
		a.compiles += r.Compiles
		a.evals += r.Evals
		a.lines += r.Lines
		a.markers += r.Markers
		a.perGroup[r.G]++
		a.perFunc[r.F]++
		a.clsCount[r.Cls]++
		if len(a.samples) < 40 && (a.scenarios%97 == 1) {
			a.samples = append(a.samples, M{"id": r.ID, "template": trunc(sr.text, 160), "class": r.Cls, "lines": r.Lines,
				"compile_error": r.ErrOpt, "error": trunc(r.ErrText, 120), "marker_results": r.Markers})
		}
		for _, p := range r.Panics {
			kind := "panic"
			if p.Msg == "nil expression without error" {
				kind = "nilexpr"
			}
			a.findings = append(a.findings, Finding{Kind: kind, ID: r.ID, G: r.G, F: r.F, Text: trunc(sr.text, 400), Phase: p.Phase,
				Opt: p.Opt, Line: p.Line, Msg: p.Msg, Where: p.Where})
		}
		if r.ScanBad != "" {
			a.findings = append(a.findings, Finding{Kind: "scan", ID: r.ID, G: r.G, F: r.F, Text: trunc(sr.text, 400), Phase: "scan", Msg: r.ScanBad})
		}
		if r.Mismatch {
			a.mismatches = append(a.mismatches, Mismatch{ID: r.ID, G: r.G, F: r.F, Cls: r.Cls, Text: trunc(sr.text, 300),
				ErrOpt: r.ErrOpt, ErrNoopt: r.ErrNoopt, ErrText: r.ErrText})
		}
		if r.Mode != "" {
			a.procModes[r.Mode]++
			a.infResults += r.Inf
			a.procEvals += r.Evals
		}
		if len(r.PTrace) > 0 && a.ptrace != nil {
			for _, e := range r.PTrace {
				eb, _ := json.Marshal(e)
				a.ptrace.Write(eb)
				a.ptrace.WriteByte('\n')
			}
			a.ptraceScans++
		}
		if len(r.Trace) > 0 && a.trace != nil {
			for _, e := range r.Trace {
				eb, _ := json.Marshal(e)
				a.trace.Write(eb)
				a.trace.WriteByte('\n')
				a.traceEvents++
				if e.Event == "reset" {
					a.traceScans++
				}
			}
		}
	}
}

func (a *agg) synthTrace(tno, n int, phase string, line int, res string) {
	if a.trace == nil {
		return
	}
	evs := []Event{{Event: "reset", T: tno, N: n}}
	if phase == "compile" {
		evs = append(evs, Event{Event: "compile", T: tno, Res: res})
	} else {
		evs = append(evs, Event{Event: "compile", T: tno, Res: "ok"})
		for k := 1; k < line; k++ {
			evs = append(evs, Event{Event: "line", T: tno, K: k, Res: "string"})
		}
		evs = append(evs, Event{Event: "line", T: tno, K: line, Res: res})
	}
	for _, e := range evs {
		eb, _ := json.Marshal(e)
		a.trace.Write(eb)
		a.trace.WriteByte('\n')
		a.traceEvents++
	}
	a.traceScans++
}

// the recorded scan of a process that died: it got as far as line `line` and never finished it
func (a *agg) synthProcTrace(tno int, sr scnRef, line int, res string) {
	if a.ptrace == nil {
		return
	}
	ng := 1
	if sr.mode == "par" {
		ng = parG
	}
	evs := []PEvent{{Event: "reset", T: tno, N: sr.lines, Ne: sr.nc, Nc: sr.nc, Ng: ng, Mode: sr.mode}}
	for e := 1; e <= sr.nc; e++ {
		evs = append(evs, PEvent{Event: "compile", T: tno, E: e, Res: "ok"})
	}
	if res == "panic" {
		res = "fatal"
	}
	evs = append(evs, PEvent{Event: "line", T: tno, K: line, E: 1, G: 1, Res: res})
	for _, e := range evs {
		eb, _ := json.Marshal(e)
		a.ptrace.Write(eb)
		a.ptrace.WriteByte('\n')
	}
	a.ptraceScans++
}

// runs one batch to completion: child, and on an abnormal end the confirmation run and the rest of the batch
func (a *agg) runBatch(self, common string, b *batch, deadline, mem, traceMod int, hashes bool) {
	ref := map[string]scnRef{}
	pos := map[string]int{}
	for i, s := range b.scns {
		ref[s.id] = s
		pos[s.id] = i
	}
	outPath := b.path + ".out"
	skip := 0
	tbase := b.no * 100000
	for skip < len(b.scns) {
		tm := traceMod
		if b.proc {
			tm = 1 // every process scenario is recorded
		}
		args := []string{"-common", common, "-in", b.path, "-out", outPath, "-deadline", strconv.Itoa(deadline), "-mem", strconv.Itoa(mem),
			"-tracemod", strconv.Itoa(tm), "-tbase", strconv.Itoa(tbase), "-skip", strconv.Itoa(skip)}
		if hashes {
			args = append(args, "-hashes", b.path+".hashes")
		}
		if b.proc {
			args = append(args, "-progress", b.path+".prog")
		}
		wall := time.Duration(deadline)*time.Millisecond*4 + 10*time.Minute
		oc, err := runChild(self, args, outPath, wall)
		a.mu.Lock()
		a.children++
		a.mu.Unlock()
		if err != nil {
			a.mu.Lock()
			a.infra = append(a.infra, fmt.Sprintf("batch %d: cannot run child: %v", b.no, err))
			a.mu.Unlock()
			return
		}
		a.absorb(b, ref, oc)
		if oc.exit == 0 && oc.lastOpen == "" {
			return
		}
		if oc.exit == 3 || oc.exit == 64 { // the driver itself failed (bad vector, missing value id): infrastructure
			a.mu.Lock()
			a.infra = append(a.infra, fmt.Sprintf("batch %d: worker failed: %s", b.no, trunc(oc.stderr, 800)))
			a.mu.Unlock()
			return
		}
		a.mu.Lock()
		a.childDeaths++
		a.mu.Unlock()
		// which scenario was it working on?
		suspect := oc.lastOpen
		if oc.hang != nil {
			suspect = oc.hang.ID
		} else if oc.oom != nil {
			suspect = oc.oom.ID
		}
		si, known := pos[suspect]
		if suspect == "" || !known {
			a.mu.Lock()
			a.infra = append(a.infra, fmt.Sprintf("batch %d: child ended with status %d outside a scenario: %s", b.no, oc.exit, trunc(oc.stderr, 600)))
			a.mu.Unlock()
			return
		}
		// a process scenario that dies the way several confirmed ones did is not run again: the class is reported already
		deathClass := ""
		if b.proc && oc.hang == nil && oc.oom == nil && !oc.killed {
			m, w := fatalLine(oc.stderr)
			deathClass = m + " @ " + w
			a.mu.Lock()
			often := m != "" && a.confirmed[deathClass] >= 6
			if often {
				a.notRerun++
			}
			a.mu.Unlock()
			if often {
				skip = si + 1
				continue
			}
		}
		// ---- confirm: the suspect alone, fresh process, three times the deadline
		cargs := []string{"-common", common, "-in", b.path, "-out", outPath + ".confirm", "-deadline", strconv.Itoa(deadline * 3), "-mem", strconv.Itoa(mem),
			"-tracemod", "0", "-only", strconv.Itoa(si)}
		if b.proc {
			cargs = append(cargs, "-progress", b.path+".prog")
		}
		cc, cerr := runChild(self, cargs, outPath+".confirm", time.Duration(deadline)*time.Millisecond*12+10*time.Minute)
		a.mu.Lock()
		a.children++
		a.mu.Unlock()
		sr := ref[suspect]
		first := describe(oc)
		if cerr != nil {
			a.mu.Lock()
			a.infra = append(a.infra, fmt.Sprintf("batch %d: cannot run confirmation child: %v", b.no, cerr))
			a.mu.Unlock()
			return
		}
		if cc.exit == 0 && cc.lastOpen == "" {
			// passes alone: load-dependent deadline miss or state-dependent crash - not reported as a violation
			a.absorb(b, ref, cc)
			a.mu.Lock()
			a.unconfirmed = append(a.unconfirmed, M{"id": suspect, "first": first, "text": trunc(sr.text, 200)})
			a.mu.Unlock()
		} else {
			fd := Finding{ID: suspect, G: sr.g, F: sr.f, Text: trunc(sr.text, 400), Detail: "first run: " + first}
			switch {
			case cc.hang != nil:
				h := *cc.hang.Hang
				fd.Kind, fd.Phase, fd.Opt, fd.Line = "hang", h["phase"].(string), h["opt"].(bool), int(h["line"].(float64))
				fd.Msg = fmt.Sprintf("no return within %v ms", h["ms"])
			case cc.oom != nil:
				o := *cc.oom.Oom
				fd.Kind, fd.Phase, fd.Opt, fd.Line = "oom", o["phase"].(string), o["opt"].(bool), int(o["line"].(float64))
				fd.Msg = fmt.Sprintf("resident memory above the limit (%v MiB)", o["rssMB"])
			case cc.killed:
				fd.Kind, fd.Phase, fd.Msg = "hang", "unknown", "the process had to be killed"
			default:
				msg, where := fatalLine(cc.stderr)
				fd.Kind, fd.Phase, fd.Msg, fd.Where = "fatal", "process", msg, where
				if msg == "" {
					fd.Msg = fmt.Sprintf("process ended with status %d: %s", cc.exit, trunc(cc.stderr, 300))
				}
				if sr.via == "extract" {
					fd.Phase = "scan"
				}
				if b.proc { // where the process was when it died
					fd.Phase = "process:" + sr.mode
					fd.Opt = sr.opt
					var at []string
					for _, pg := range readProgress(b.path + ".prog") {
						if fd.Line == 0 || pg[0] < fd.Line {
							fd.Line = pg[0]
						}
						at = append(at, fmt.Sprintf("goroutine %d: line %d, unit %d", pg[2]+1, pg[0], pg[1]))
					}
					fd.Detail += "; last evaluations started: " + strings.Join(at, ", ")
				}
			}
			a.mu.Lock()
			a.findings = append(a.findings, fd)
			if deathClass != "" && fd.Kind == "fatal" {
				a.confirmed[deathClass]++
			}
			res := "panic"
			if fd.Kind == "hang" || fd.Kind == "oom" {
				res = "hang"
			}
			ph := fd.Phase
			if ph != "compile" {
				ph = "eval"
			}
			ln := fd.Line
			if ln < 1 {
				ln = 1
			}
			if b.proc {
				a.synthProcTrace(tbase+si, sr, ln, res)
			} else {
				a.synthTrace(tbase+si, sr.lines, ph, ln, res)
			}
			a.mu.Unlock()
		}
		os.Remove(outPath + ".confirm")
		skip = si + 1
	}
}

func describe(oc *childOutcome) string {
	switch {
	case oc.hang != nil:
		return fmt.Sprintf("deadline missed %v", *oc.hang.Hang)
	case oc.oom != nil:
		return fmt.Sprintf("memory limit %v", *oc.oom.Oom)
	case oc.killed:
		return "killed by the parent"
	}
	msg, _ := fatalLine(oc.stderr)
	return fmt.Sprintf("status %d %s", oc.exit, msg)
}

// ---------------------------------------------------------------------------- cli

var crashRe = regexp.MustCompile(`(?m)^(panic: |fatal error: |goroutine \d+ \[|runtime error: |\[signal )`)

func runRare(rare string, stdin []byte, timeout time.Duration, args ...string) (status int, stdout, stderr string, timedOut bool) {
	cmd := exec.Command(rare, args...)
	cmd.Stdin = bytes.NewReader(stdin)
	var so, se bytes.Buffer
	cmd.Stdout, cmd.Stderr = &so, &se
	cmd.Env = append(os.Environ(), "GOTRACEBACK=single", "TZ=UTC")
	if err := cmd.Start(); err != nil {
		return -1, "", err.Error(), false
	}
	done := make(chan error, 1)
	go func() { done <- cmd.Wait() }()
	select {
	case err := <-done:
		if err != nil {
			var ee *exec.ExitError
			if errors.As(err, &ee) {
				status = ee.ExitCode()
			} else {
				status = -1
			}
		}
	case <-time.After(timeout):
		cmd.Process.Kill()
		<-done
		timedOut = true
		status = -9
	}
	return status, so.String(), se.String(), timedOut
}

func cmdCli(args []string) error {
	fs := flag.NewFlagSet("cli", flag.ExitOnError)
	in := fs.String("in", "", "")
	rare := fs.String("rare", "", "")
	out := fs.String("out", "cli.json", "")
	n := fs.Int("n", 300, "expression runs")
	nscan := fs.Int("nscan", 16, "scan scenarios (each through filter and histogram)")
	nproc := fs.Int("nproc", 0, "process scenarios (ignore + extraction expressions of one rare invocation, through filter and histogram)")
	timeout := fs.Int("timeout", 30000, "")
	par := fs.Int("par", 6, "")
	fs.Parse(args)
	dir := *out + ".d"
	os.RemoveAll(dir)
	os.MkdirAll(dir, 0o755)
	defer os.RemoveAll(dir)

	var cm Common
	cm.Linesets = map[string][]Line{}
	var scns []Scn
	err := vh.ReadNd(*in, func(raw json.RawMessage) error {
		var s Scn
		if err := json.Unmarshal(raw, &s); err != nil {
			return err
		}
		switch s.G {
		case "values":
			cm.Values, cm.Funcfile = s.Values, s.Funcfile
		case "lineset":
			cm.Linesets[s.Name] = s.Lines
		default:
			scns = append(scns, s)
		}
		return nil
	})
	if err != nil {
		return err
	}
	vt := newValueTable(cm.Values)
	constVT = vt
	ffPath := dir + "/c08.funcs"
	os.WriteFile(ffPath, []byte(strings.Join(cm.Funcfile, "\n")+"\n"), 0o644)

	rnd := vh.NewRand(808)
	rnd.Shuffle(len(scns), func(i, j int) { scns[i], scns[j] = scns[j], scns[i] })
	type job struct {
		kind  string
		s     *Scn
		line  int
		args  []string
		stdin []byte
	}
	var jobs []job
	perGroup := map[string]int{}
	scans := 0
	procCap, procCheap := 0, 0
	for i := range scns {
		s := &scns[i]
		if s.Via == "proc" {
			capped := false
			for _, k := range s.Kinds {
				capped = capped || k == "inf" || k == "errinf"
			}
			if (capped && procCap >= (*nproc+1)/2) || (!capped && procCheap >= *nproc/2) || len(s.Exprs) < 3 {
				continue
			}
			if capped {
				procCap++
			} else {
				procCheap++
			}
			var buf bytes.Buffer
			for _, ln := range s.Lines {
				for j, id := range ln.K {
					v, err := vt.get(id)
					if err != nil {
						return err
					}
					if j > 0 {
						buf.WriteByte(' ')
					}
					buf.WriteString(v)
				}
				buf.WriteByte('\n')
			}
			fpath := fmt.Sprintf("%s/proc-%d.log", dir, procCap+procCheap)
			os.WriteFile(fpath, buf.Bytes(), 0o644)
			common := []string{"-m", procPattern, "-i", s.Exprs[0].Text(), "-e", s.Exprs[1].Text(), "-e", s.Exprs[2].Text(), "--batch", "1", "-w", "2"}
			jobs = append(jobs, job{kind: "proc-filter", s: s, args: append(append([]string{"--funcs", ffPath, "filter"}, common...), fpath)})
			jobs = append(jobs, job{kind: "proc-histogram", s: s, args: append(append([]string{"--funcs", ffPath, "--nocolor", "histogram"}, common...), "-n", "5", fpath)})
			continue
		}
		if s.Via == "extract" {
			if scans >= *nscan {
				continue
			}
			scans++
			lines := cm.Linesets[s.Lineset]
			if s.Lineset == "" {
				lines = s.Lines
			}
			var buf bytes.Buffer
			for _, ln := range lines {
				for j, id := range ln.M {
					v, err := vt.get(id)
					if err != nil {
						return err
					}
					if j > 0 {
						buf.WriteString(s.Sep)
					}
					buf.WriteString(v)
				}
				buf.WriteByte('\n')
			}
			fpath := fmt.Sprintf("%s/scan-%d.log", dir, scans)
			os.WriteFile(fpath, buf.Bytes(), 0o644)
			mflag := "-m"
			if s.F == "dissect" {
				mflag = "-d"
			}
			jobs = append(jobs, job{kind: "filter", s: s, args: []string{"--funcs", ffPath, "filter", mflag, s.Pat, "-e", s.Text(), fpath}})
			jobs = append(jobs, job{kind: "histogram", s: s, args: []string{"--funcs", ffPath, "--nocolor", "histogram", mflag, s.Pat, "-e", s.Text(), "-n", "5", fpath}})
			continue
		}
		if perGroup[s.G] >= (*n+7)/8 || len(jobs) >= *n+2*(*nscan) {
			continue
		}
		if len(s.Lines) == 0 {
			continue
		}
		li := rnd.Intn(len(s.Lines))
		ln := s.Lines[li]
		a := []string{"--funcs", ffPath, "expression", "--raw"}
		if rnd.Intn(3) == 0 {
			a = append(a, "--no-optimize")
		}
		okArgs := true
		for _, id := range ln.M {
			v, err := vt.get(id)
			if err != nil {
				return err
			}
			if strings.ContainsRune(v, 0) || len(v) > 60000 {
				okArgs = false
			}
			a = append(a, "-d", v)
		}
		for j, id := range ln.K {
			v, _ := vt.get(id)
			if strings.ContainsRune(v, 0) || len(v) > 60000 {
				okArgs = false
			}
			a = append(a, "-k", "k"+strconv.Itoa(j)+"="+v)
		}
		if !okArgs {
			continue
		}
		text := s.Text()
		var stdin []byte
		if strings.ContainsRune(text, 0) || text == "" || text == "-" || strings.HasPrefix(text, "-") {
			if text == "" {
				continue
			}
			stdin = []byte(text)
			a = append(a, "-")
		} else {
			a = append(a, "--", text)
		}
		perGroup[s.G]++
		jobs = append(jobs, job{kind: "expression", s: s, line: li + 1, args: a, stdin: stdin})
	}

	var mu sync.Mutex
	var findings []M
	var samples []M
	kinds := map[string]int{}
	unconfirmed := 0
	ch := make(chan job)
	var wg sync.WaitGroup
	for w := 0; w < *par; w++ {
		wg.Add(1)
		go func() {
			defer wg.Done()
			for j := range ch {
				to := time.Duration(*timeout) * time.Millisecond
				st, so, se, tout := runRare(*rare, j.stdin, to, j.args...)
				crash := crashRe.MatchString(se) || crashRe.MatchString(so)
				if tout { // confirm a hang by running it again with three times the time
					st, so, se, tout = runRare(*rare, j.stdin, 3*to, j.args...)
					crash = crashRe.MatchString(se) || crashRe.MatchString(so)
					if !tout && !crash {
						mu.Lock()
						unconfirmed++
						mu.Unlock()
					}
				}
				mu.Lock()
				kinds[j.kind]++
				if len(samples) < 6 && kinds[j.kind] <= 2 {
					samples = append(samples, M{"cmd": j.kind, "template": trunc(j.s.Text(), 120), "status": st, "stdout": trunc(so, 80)})
				}
				if crash || tout {
					kind := "panic"
					if tout {
						kind = "hang"
					}
					msg, where := fatalLine(se + "\n" + so)
					findings = append(findings, M{"kind": kind, "cmd": j.kind, "id": j.s.ID, "g": j.s.G, "f": j.s.F, "text": trunc(j.s.Text(), 400),
						"status": st, "msg": msg, "where": where, "stderr": trunc(se, 1500), "args": truncArgs(j.args)})
				}
				mu.Unlock()
			}
		}()
	}
	for _, j := range jobs {
		ch <- j
	}
	close(ch)
	wg.Wait()
	total := 0
	for _, v := range kinds {
		total += v
	}
	vh.WriteJSON(*out, M{"runs": total, "kinds": kinds, "findings": findings, "samples": samples, "unconfirmed_timeouts": unconfirmed})
	return nil
}

func truncArgs(a []string) []string {
	out := make([]string, len(a))
	for i, s := range a {
		out[i] = trunc(s, 200)
	}
	return out
}

// ---------------------------------------------------------------------------- eval (debugging)

func cmdEval(args []string) error {
	fs := flag.NewFlagSet("eval", flag.ExitOnError)
	noopt := fs.Bool("noopt", false, "")
	fs.Parse(args)
	rest := fs.Args()
	if len(rest) < 1 {
		return errors.New("usage: c08 eval [-noopt] <template> [group values...]")
	}
	compiled, cerr := funclib.NewKeyBuilderEx(!*noopt).Compile(rest[0])
	if cerr != nil {
		fmt.Println("compile errors:", cerr.Error())
	}
	if compiled != nil {
		fmt.Printf("%q\n", compiled.BuildKey(&expressions.KeyBuilderContextArray{Elements: rest[1:], Keys: map[string]string{}}))
	}
	return nil
}

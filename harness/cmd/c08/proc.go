package main

// C08, process scenarios (ExprScanPool / ExprScanPool_Gen): ONE process, SEVERAL compiled expressions, a history of lines.
//
// What one evaluation leaves behind in shared objects (the package-level sub-context pool of the array helpers, the pools of
// funcs-file calls and formulas, the layout caches) must not break a later evaluation - of the same or of another compiled
// expression, on another line, in another goroutine.  A scenario is a whole process: it is run in a child of its own (fresh
// pools), its expressions are compiled once, and every line is evaluated by every expression in order
//
//   mode "seq"      one goroutine, array contexts: line 1 by expr 1..ne, line 2 by expr 1..ne, ...
//   mode "par"      parG goroutines at once, each over all lines x all expressions with contexts of its own (the compiled
//                   expressions are shared, as the extractor's workers share them)
//   mode "extract"  the real extractor (regex matcher with named groups k0 k1 k2, 2 workers): the "ignore" expressions are its
//                   IgnoreSet, the "extract" expression its extraction expression; the remaining expressions are evaluated by
//                   the feeding goroutine while the workers run
//
// Before every evaluation the worker writes (line, unit, goroutine) into a progress file with one pwrite: a fatal runtime error
// (stack overflow, concurrent map access) kills the child without a recoverable panic, and the parent reads from the progress
// file where it happened.

import (
	"fmt"
	"os"
	"regexp"
	"runtime/debug"
	"strconv"
	"strings"
	"sync"

	"rare/pkg/expressions"
	"rare/pkg/expressions/funclib"
	"rare/pkg/extractor"
	"rare/pkg/matchers"
	"rare/pkg/matchers/fastregex"
)

type ProcExpr struct {
	Role string   `json:"role"` // ignore | extract | key2
	Tpl  []string `json:"tpl"`
}

func (e *ProcExpr) Text() string { return strings.Join(e.Tpl, "") }

// PEvent is one event of a recorded process scan (ExprScanPool_Trace)
type PEvent struct {
	Event string `json:"event"` // reset | compile | line | end
	T     int    `json:"t"`
	N     int    `json:"n"`    // reset: lines
	Ne    int    `json:"ne"`   // reset: evaluation units per line
	Nc    int    `json:"nc"`   // reset: compiled expressions
	Ng    int    `json:"ng"`   // reset: goroutines
	Mode  string `json:"mode"` // reset
	K     int    `json:"k"`    // line
	E     int    `json:"e"`    // compile: expression; line: unit
	G     int    `json:"g"`    // line: goroutine
	Res   string `json:"res"`
	Lines int    `json:"lines"`
}

const (
	parG        = 3
	procStackMB = 64
)

const procPattern = `(?s)^(?P<k0>\S*) (?P<k1>\S*) (?P<k2>.*)$`

var infRe = regexp.MustCompile(`<INF>`)

type progress struct {
	f *os.File
}

func (p *progress) note(line, unit, g int) {
	if p == nil || p.f == nil {
		return
	}
	var b [48]byte
	s := strconv.AppendInt(b[:0], int64(line), 10)
	s = append(s, ' ')
	s = strconv.AppendInt(s, int64(unit), 10)
	s = append(s, ' ')
	s = strconv.AppendInt(s, int64(g), 10)
	for len(s) < 47 {
		s = append(s, ' ')
	}
	s = append(s, '\n')
	p.f.WriteAt(s, int64(g)*48)
}

// readProgress returns the last (line, unit) of every goroutine slot that was written
func readProgress(path string) [][3]int {
	b, err := os.ReadFile(path)
	if err != nil {
		return nil
	}
	var out [][3]int
	for _, ln := range strings.Split(string(b), "\n") {
		f := strings.Fields(strings.Trim(ln, "\x00"))
		if len(f) != 3 {
			continue
		}
		l, _ := strconv.Atoi(f[0])
		u, _ := strconv.Atoi(f[1])
		g, _ := strconv.Atoi(f[2])
		out = append(out, [3]int{l, u, g})
	}
	return out
}

func (wk *worker) procContext(ln Line, lineNo int) (*expressions.KeyBuilderContextArray, string, error) {
	vals := make([]string, len(ln.K))
	for i, id := range ln.K {
		s, err := wk.vt.get(id)
		if err != nil {
			return nil, "", err
		}
		vals[i] = s
	}
	ctx := &expressions.KeyBuilderContextArray{Elements: append([]string{}, vals...), Keys: map[string]string{"src": "c08", "line": strconv.Itoa(lineNo)}}
	for i, v := range vals {
		ctx.Keys["k"+strconv.Itoa(i)] = v
	}
	return ctx, strings.Join(vals, " "), nil
}

func (wk *worker) runProc(s *Scn, tno int, traced bool) (*Result, error) {
	res := &Result{ID: s.ID, Done: true, G: s.G, F: s.F, Cls: s.Cls, Mode: s.Mode}
	debug.SetMaxStack(procStackMB << 20) // no template here is nested deeper than a few helpers: more stack than this is a runaway recursion
	lines := s.Lines
	res.Lines = len(lines)
	nc := len(s.Exprs)
	// ---- compile every expression once
	compiled := make([]*expressions.CompiledKeyBuilder, nc)
	var ev []PEvent
	ng := 1
	if s.Mode == "par" {
		ng = parG
	}
	var ignoreTexts []string
	extractText := ""
	var units []int // indices of the expressions that are evaluation units of their own (all, or in extract mode the key2 ones)
	for i := range s.Exprs {
		if s.Mode == "extract" && s.Exprs[i].Role == "ignore" {
			ignoreTexts = append(ignoreTexts, s.Exprs[i].Text())
		} else if s.Mode == "extract" && s.Exprs[i].Role == "extract" && extractText == "" {
			extractText = s.Exprs[i].Text()
		} else {
			units = append(units, i)
		}
	}
	ne := len(units)
	if s.Mode == "extract" {
		ne++
	}
	ev = append(ev, PEvent{Event: "reset", T: tno, N: len(lines), Ne: ne, Nc: nc, Ng: ng, Mode: s.Mode})
	usable := true
	for i := range s.Exprs {
		text := s.Exprs[i].Text()
		var cerr *expressions.CompilerErrors
		wk.begin(phCompile, s.Opt, 0)
		ok := guard(&res.Panics, "compile", s.Opt, 0, func() {
			compiled[i], cerr = funclib.NewKeyBuilderEx(s.Opt).Compile(text)
		})
		wk.end()
		res.Compiles++
		r := "ok"
		switch {
		case !ok:
			r = "panic"
			usable = false
		case cerr != nil:
			r = "errors"
			res.ErrOpt, res.ErrNoopt = true, true
			if res.ErrText == "" {
				guard(&res.Panics, "errtext", s.Opt, 0, func() { res.ErrText = trunc(cerr.Error(), 300) })
			}
		case compiled[i] == nil:
			res.Panics = append(res.Panics, Panic{Phase: "compile", Opt: s.Opt, Msg: "nil expression without error"})
			usable = false
		}
		ev = append(ev, PEvent{Event: "compile", T: tno, E: i + 1, Res: r})
	}
	if res.ErrOpt && s.Cls == "ok" {
		res.Mismatch = true // the generator only prints well-formed templates: the printer or the table is out of date
	}
	if !usable || res.ErrOpt {
		ev = append(ev, PEvent{Event: "end", T: tno})
		if traced {
			res.PTrace = ev
		}
		return res, nil
	}
	ctxs := make([][]*expressions.KeyBuilderContextArray, ng)
	raw := make([]extractor.BString, len(lines))
	for g := 0; g < ng; g++ {
		ctxs[g] = make([]*expressions.KeyBuilderContextArray, len(lines))
		for i, ln := range lines {
			c, text, err := wk.procContext(ln, i+1)
			if err != nil {
				return nil, err
			}
			ctxs[g][i] = c
			raw[i] = extractor.BString(text)
		}
	}
	th := hash64(s.ID)
	for i := range lines {
		wk.noteCase(th, lines[i])
	}
	var mu sync.Mutex
	evalUnit := func(g, i, u int, panics *[]Panic, evs *[]PEvent) {
		var out string
		wk.prog.note(i+1, u+1, g)
		ok := guard(panics, "eval", s.Opt, i+1, func() { out = compiled[units[u]].BuildKey(ctxs[g][i]) })
		mu.Lock()
		res.Evals++
		if ok && markerRe.MatchString(out) {
			res.Markers++
			if infRe.MatchString(out) {
				res.Inf++
			}
		}
		mu.Unlock()
		r := "string"
		if !ok {
			r = "panic"
		}
		*evs = append(*evs, PEvent{Event: "line", T: tno, K: i + 1, E: u + 1, G: g + 1, Res: r})
	}
	switch s.Mode {
	case "seq":
		for i := range lines {
			for u := range units {
				wk.begin(phEval, s.Opt, i+1)
				evalUnit(0, i, u, &res.Panics, &ev)
				wk.end()
			}
		}
	case "par":
		var wg sync.WaitGroup
		gp := make([][]Panic, ng)
		ge := make([][]PEvent, ng)
		start := make(chan struct{})
		wk.begin(phEval, s.Opt, 0)
		for g := 0; g < ng; g++ {
			wg.Add(1)
			go func(g int) {
				defer wg.Done()
				<-start
				for i := range lines {
					for u := range units {
						evalUnit(g, i, u, &gp[g], &ge[g])
					}
				}
			}(g)
		}
		close(start)
		wg.Wait()
		wk.end()
		for g := 0; g < ng; g++ {
			res.Panics = append(res.Panics, gp[g]...)
			ev = append(ev, ge[g]...)
		}
	case "extract":
		re, err := fastregex.CompileEx(procPattern, false)
		if err != nil {
			return nil, err
		}
		var ig extractor.IgnoreSet
		if len(ignoreTexts) > 0 {
			var ierr error
			wk.begin(phCompile, true, 0)
			ok := guard(&res.Panics, "compile", true, 0, func() { ig, ierr = extractor.NewIgnoreExpressions(ignoreTexts...) })
			wk.end()
			if !ok || ierr != nil {
				return nil, fmt.Errorf("ignore set of %s: %v", s.ID, ierr)
			}
		}
		ch := make(chan extractor.InputBatch)
		var ex *extractor.Extractor
		var xerr error
		wk.begin(phCompile, true, 0)
		ok := guard(&res.Panics, "compile", true, 0, func() {
			ex, xerr = extractor.New(ch, &extractor.Config{Matcher: matchers.ToFactory(re), Extract: extractText, Ignore: ig, Workers: 2})
		})
		wk.end()
		if !ok || xerr != nil || ex == nil {
			return nil, fmt.Errorf("extractor of %s: %v", s.ID, xerr)
		}
		matched := 0
		done := make(chan struct{})
		go func() {
			for ms := range ex.ReadChan() {
				matched += len(ms)
			}
			close(done)
		}()
		for i := range raw {
			wk.begin(phScan, true, i+1)
			wk.prog.note(i+1, 1, 1)
			ch <- extractor.InputBatch{Batch: []extractor.BString{raw[i]}, Source: "c08", BatchStart: uint64(i + 1)}
			for u := range units { // the other KeyBuilders of the process work while the extractor's workers do
				evalUnit(0, i, u, &res.Panics, &ev)
				ev[len(ev)-1].E = u + 2
			}
			wk.end()
		}
		wk.begin(phScan, true, len(raw)+1)
		close(ch)
		<-done
		wk.end()
		res.Evals += int(ex.ReadLines())
		if ex.ReadLines() != uint64(len(raw)) {
			res.ScanBad = fmt.Sprintf("%d lines fed, %d read", len(raw), ex.ReadLines())
		} else if uint64(matched) != ex.MatchedLines() {
			res.ScanBad = fmt.Sprintf("%d matches delivered, %d counted", matched, ex.MatchedLines())
		}
		// every line went through the extractor (a panic in a worker would have ended the process): unit 1 of every line
		var all []PEvent
		li := 0
		for i := range raw {
			all = append(all, PEvent{Event: "line", T: tno, K: i + 1, E: 1, G: 1, Res: "string"})
			for li < len(ev) && (ev[li].Event != "line" || ev[li].K == i+1) {
				if ev[li].Event == "line" {
					all = append(all, ev[li])
				}
				li++
			}
		}
		var head []PEvent
		for _, e := range ev {
			if e.Event != "line" {
				head = append(head, e)
			}
		}
		ev = append(head, all...)
	default:
		return nil, fmt.Errorf("unknown mode %q", s.Mode)
	}
	ev = append(ev, PEvent{Event: "end", T: tno, Lines: len(lines)})
	if traced {
		res.PTrace = ev
	}
	return res, nil
}

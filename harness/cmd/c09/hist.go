package main

// C09, history layer: the key builder as a long-lived object (ExprSyntaxHist.tla).

import (
	"encoding/json"
	"flag"
	"fmt"

	"rare/pkg/expressions"

	"verifharness/vh"
)

// ---------------------------------------------------------------------------- replay of TLC histories (B1)

type hstep struct {
	Op   string         `json:"op"` // func | compile
	Name []int          `json:"name"`
	Ver  int            `json:"ver"`
	Text []int          `json:"text"`
	Kind string         `json:"kind"` // rt | err
	Out  []int          `json:"out"`
	Lo   []string       `json:"lo"`
	Hi   []string       `json:"hi"`
	Lon  map[string]int `json:"lon"`
}

type history struct {
	Pool  int     `json:"pool"`
	Steps []hstep `json:"steps"`
}

func (h *history) describe() []string {
	out := []string{}
	for _, s := range h.Steps {
		if s.Op == "func" {
			out = append(out, fmt.Sprintf("Func(%q, version %d)", vh.RunesFromInts(s.Name), s.Ver))
		} else {
			out = append(out, fmt.Sprintf("Compile(%q)", vh.RunesFromInts(s.Text)))
		}
	}
	return out
}

// deferred: the compiled template has not been evaluated yet (only the errors are judged now)
func judgeStep(s *hstep, r result, deferred bool) string {
	if r.Panic != "" {
		return "panic"
	}
	if s.Kind == "rt" {
		if len(r.Errs) != 0 {
			return "errs"
		}
		if !deferred && (!r.HasOut || !vh.EqInts(vh.R(r.Out), s.Out)) {
			return "out"
		}
		return ""
	}
	return judgeErr(s.Lo, s.Hi, s.Lon, r)
}

type liveObj struct {
	step int
	c    *expressions.CompiledKeyBuilder
}

func c09ReplayHist(args []string) error {
	fs := flag.NewFlagSet("replayhist", flag.ExitOnError)
	in := fs.String("in", "", "histories (ndjson)")
	out := fs.String("out", "replayhist.json", "result")
	fs.Parse(args)
	var mism []M
	samples := []M{}
	seen := map[string]bool{}
	nh, compiles, reevals, funcs, nontrivial, repeats := 0, 0, 0, 0, 0, 0
	err := vh.ReadNd(*in, func(raw json.RawMessage) error {
		var h history
		if err := json.Unmarshal(raw, &h); err != nil {
			return err
		}
		nh++
		{ // non-trivial: a history in which an argument or a whole template is met again, or a registration lies between two compilations
			texts := map[string]bool{}
			rep, compiled, reg := false, false, false
			for _, s := range h.Steps {
				if s.Op == "func" {
					reg = reg || compiled
					continue
				}
				compiled = true
				t := vh.RunesFromInts(s.Text)
				rep = rep || texts[t] || reg
				texts[t] = true
			}
			key := fmt.Sprint(h.describe())
			if (rep || len(texts) > 1) && !seen[key] {
				seen[key] = true
				nontrivial++
			}
			if rep {
				repeats++
			}
		}
		// four passes: optimising / not; compiled templates evaluated at once and after every later step (eager), or for the
		// first time when the history is over (deferred: a template must be bound to what was registered when it was compiled)
		for pass := 0; pass < 4; pass++ {
			opt, deferred := pass%2 == 0, pass >= 2
			kb := newBuilder(opt) // ONE builder for the whole history
			var live []liveObj
			for i := range h.Steps {
				s := &h.Steps[i]
				report := func(s *hstep, class string, r result, extra M) {
					if len(mism) >= 300 {
						return
					}
					m := M{"pool": h.Pool, "history": h.describe(), "step": i + 1, "opt": opt, "deferred": deferred, "kind": s.Kind, "class": class,
						"text": vh.RunesFromInts(s.Text), "got": r.Out, "got_cp": vh.R(r.Out), "errs": r.Errs, "errn": r.errn(),
						"panic": r.Panic, "expect": vh.RunesFromInts(s.Out), "expect_cp": s.Out, "lo": s.Lo, "hi": s.Hi, "lon": s.Lon}
					for k, v := range extra {
						m[k] = v
					}
					mism = append(mism, m)
				}
				var fresh *liveObj
				if s.Op == "func" {
					name := vh.RunesFromInts(s.Name)
					if pass%2 == 0 {
						kb.Func(name, transparentV(name, s.Ver))
					} else { // the bulk form of the same registration
						kb.Funcs(map[string]expressions.KeyBuilderFunction{name: transparentV(name, s.Ver)})
					}
					funcs++
				} else {
					r, c := compileOnly(kb, vh.RunesFromInts(s.Text), !deferred)
					compiles++
					if cl := judgeStep(s, r, deferred); cl != "" {
						report(s, cl, r, nil)
					} else if opt && len(samples) < 4 && nh%3001 == 1 && i == len(h.Steps)-1 {
						samples = append(samples, M{"history": h.describe(), "last_out": r.Out, "last_errs": r.Errs})
					}
					if c != nil && s.Kind == "rt" && r.Panic == "" {
						fresh = &liveObj{i, c} // evaluated just now; alive from the next step on
					}
				}
				if fresh != nil && deferred {
					live = append(live, *fresh)
				}
				if deferred && i < len(h.Steps)-1 {
					continue
				}
				// every template compiled earlier keeps its value (ExprSyntaxHist.tla EvalStable)
				for _, lo := range live {
					o, p := evalOn(lo.c)
					reevals++
					e := &h.Steps[lo.step]
					if p != "" || !vh.EqInts(vh.R(o), e.Out) {
						report(e, "reeval", result{Out: o, Panic: p, Errs: []string{}},
							M{"compiled_at_step": lo.step + 1, "reevaluated_after_step": i + 1})
					}
				}
				if fresh != nil && !deferred {
					live = append(live, *fresh)
				}
			}
		}
		return nil
	})
	if err != nil {
		return err
	}
	vh.WriteJSON(*out, M{"histories": nh, "compilations": compiles, "reevaluations": reevals, "registrations": funcs,
		"mismatches": mism, "samples": samples, "distinct_nontrivial": nontrivial, "histories_with_repeats": repeats})
	return nil
}

// ---------------------------------------------------------------------------- random histories (B2)

func cloneNode(a *anode) *anode {
	b := *a
	b.S = append([]int{}, a.S...)
	b.Lead = append([]int{}, a.Lead...)
	b.Trail = append([]int{}, a.Trail...)
	b.Esc = append([]int{}, a.Esc...)
	b.Sep = make([][]int, len(a.Sep))
	for i, x := range a.Sep {
		b.Sep[i] = append([]int{}, x...)
	}
	b.Args = make([]*anode, len(a.Args))
	for i, x := range a.Args {
		b.Args[i] = cloneNode(x)
	}
	return &b
}

// names a history may register later (they are unknown functions until then) or re-register
var laterFn = []string{"zz", "h2", "F", "λ", "fg", "f", "g", "h1", "λx"}

// an argument of the history's pool: recurs in several templates of the history
func (g *gen) poolArg() *anode {
	var a *anode
	switch k := g.rng.Intn(10); {
	case k < 2:
		a = g.argLit()
	case k < 3:
		a = g.argQt(1)
	default:
		a = g.stmt(2)
	}
	// malformed below the surface: an empty statement or a function nobody registered (yet)
	if g.rng.Intn(100) < 45 {
		var stmts []*anode
		var walk func(x *anode)
		walk = func(x *anode) {
			if x.K != "lit" && x.K != "qt" {
				stmts = append(stmts, x)
			}
			for _, y := range x.Args {
				walk(y)
			}
		}
		walk(a)
		if len(stmts) > 0 {
			x := stmts[g.rng.Intn(len(stmts))]
			if x.K == "call" && g.rng.Intn(3) > 0 {
				x.S = vh.R(laterFn[g.rng.Intn(5)])
			} else {
				e := newNode("empty")
				if g.rng.Intn(2) == 0 {
					e.Lead = g.blanks(1, 2)
				}
				*x = *e
			}
		}
	}
	return a
}

// a template of a history: mostly calls, so that the arguments of the pool recur
func (g *gen) histTpl() []*anode {
	var out []*anode
	for n := 1 + g.rng.Intn(3); n > 0; n-- {
		switch k := g.rng.Intn(100); {
		case k < 20:
			out = append(out, g.topLit())
		case k < 32:
			if p := g.poolStmt(); p != nil {
				out = append(out, p)
				break
			}
			fallthrough
		default:
			a := g.stmt(1)
			for try := 0; a.K != "call" && try < 6; try++ {
				a = g.stmt(1)
			}
			out = append(out, a)
		}
	}
	return out
}

func c09HistTrace(args []string) error {
	fs := flag.NewFlagSet("histtrace", flag.ExitOnError)
	out := fs.String("out", "histtrace.ndjson", "trace")
	n := fs.Int("n", 1000, "histories")
	fs.Parse(args)
	w, err := vh.NewNdWriter(*out)
	if err != nil {
		return err
	}
	defer w.Close()
	g := &gen{rng: vh.NewRand(23)}
	for h := 0; h < *n; h++ {
		kb1, kb2 := newBuilder(true), newBuilder(false) // long-lived: one pair per history
		kb3 := newBuilder(false)                        // ... and one whose compiled templates are first evaluated when the history is over
		w.Write(M{"op": "new", "h": h})
		g.pool = nil
		g.pickStyle() // one white-space style per history
		for k := 2 + g.rng.Intn(3); k > 0; k-- {
			g.maxDepth, g.maxArgs = 2+g.rng.Intn(2), 1+g.rng.Intn(3)
			g.pool = append(g.pool, g.poolArg())
		}
		var live1, live2, live3 []*expressions.CompiledKeyBuilder
		steps := 2 + g.rng.Intn(7)
		for i := 0; i < steps; i++ {
			if i > 0 && g.rng.Intn(100) < 22 {
				name := laterFn[g.rng.Intn(len(laterFn))]
				ver := g.rng.Intn(4)
				kb1.Func(name, transparentV(name, ver))
				kb2.Func(name, transparentV(name, ver))
				kb3.Func(name, transparentV(name, ver))
				w.Write(M{"op": "func", "h": h, "name": vh.R(name), "ver": ver})
				continue
			}
			g.maxDepth, g.maxArgs = 2+g.rng.Intn(2), 1+g.rng.Intn(4)
			tpl := g.histTpl()
			if g.rng.Intn(100) < 15 {
				g.mutate(tpl)
			}
			text := printTpl(tpl)
			s := vh.RunesFromInts(text)
			r1, c1 := compileOn(kb1, s)
			r2, c2 := compileOn(kb2, s)
			p := r1.Panic
			if p == "" {
				p = r2.Panic
			}
			r3, c3 := compileOnly(kb3, s, false)
			if p == "" {
				p = r3.Panic
			}
			live1, live2, live3 = append(live1, c1), append(live2, c2), append(live3, c3)
			w.Write(M{"op": "compile", "h": h, "tpl": tpl, "text": text, "out": vh.R(r1.Out), "errs": r1.Errs, "errn": r1.errn(),
				"out2": vh.R(r2.Out), "errs2": r2.Errs, "errn2": r2.errn(), "panic": p != "", "pmsg": p})
		}
		// at the end of the history every compiled template is evaluated once more
		re, re2, re3, rp := [][]int{}, [][]int{}, [][]int{}, ""
		for i := range live1 {
			for k, c := range []*expressions.CompiledKeyBuilder{live1[i], live2[i], live3[i]} {
				o, p := "", ""
				if c != nil {
					o, p = evalOn(c)
				}
				if p != "" && rp == "" {
					rp = p
				}
				switch k {
				case 0:
					re = append(re, vh.R(o))
				case 1:
					re2 = append(re2, vh.R(o))
				default:
					re3 = append(re3, vh.R(o))
				}
			}
		}
		w.Write(M{"op": "end", "h": h, "re": re, "re2": re2, "re3": re3, "panic": rp != "", "pmsg": rp})
	}
	return nil
}

package main

// C09, evaluation layer (ExprSyntaxEval.tla): ONE compiled template evaluated by several workers at once and by
// funcs-file functions applied to themselves.
//   c09 evalsched : replays the TLC-enumerated SCHEDULES (ExprSyntaxEval_Gen, Grain = "lookup"): the definitions are loaded
//                   with the real funcs-file loader, the template is compiled once, every worker evaluates it in its own
//                   goroutine against its own GATED context - it blocks inside GetMatch / GetKey until the schedule names
//                   it, so the workers interleave exactly as the model's schedule says (B1)
//   c09 evaltrace : seeded random templates over a library of funcs-file functions (self-application, several levels),
//                   evaluated by free-running goroutines whose contexts yield the processor in every lookup; records
//                   {defs, text, outs} for ExprSyntaxEval_Trace (B2)

import (
	"encoding/json"
	"flag"
	"fmt"
	"runtime"
	"strconv"
	"strings"
	"sync"
	"time"

	"rare/pkg/expressions"
	"rare/pkg/expressions/funcfile"

	"verifharness/vh"
)

// the context of worker w (ExprSyntaxEval.tla BaseLookup): GetMatch(i) = GO i :w GC, GetKey(k) = KO k :w KC
type workerCtx struct {
	w    int
	gate func() // called before every answer
}

func (c *workerCtx) GetMatch(i int) string {
	if c.gate != nil {
		c.gate()
	}
	return string(mGO) + strconv.Itoa(i) + ":" + strconv.Itoa(c.w) + string(mGC)
}

func (c *workerCtx) GetKey(k string) string {
	if c.gate != nil {
		c.gate()
	}
	return string(mKO) + k + ":" + strconv.Itoa(c.w) + string(mKC)
}

type evalDef [2][]int // name, body (code points)

// builds a key builder with the transparent functions, loads the definitions through funcfile.LoadDefinitions and
// compiles the template
func evalCompile(defs []evalDef, text string, opt bool) (c *expressions.CompiledKeyBuilder, problem string) {
	defer func() {
		if r := recover(); r != nil {
			c, problem = nil, fmt.Sprint("panic while compiling: ", r)
		}
	}()
	kb := newBuilder(opt)
	if len(defs) > 0 {
		var sb strings.Builder
		for _, d := range defs {
			sb.WriteString(vh.RunesFromInts(d[0]) + " " + vh.RunesFromInts(d[1]) + "\n")
		}
		fns, err := funcfile.LoadDefinitions(kb, strings.NewReader(sb.String()), "c09")
		if err != nil || len(fns) != len(defs) {
			return nil, fmt.Sprintf("funcs file not loaded: %v (%d of %d functions)", err, len(fns), len(defs))
		}
	}
	cc, cerr := kb.Compile(text)
	if cerr != nil || cc == nil {
		return nil, fmt.Sprintf("compile error: %v", cerr)
	}
	return cc, ""
}

type schedVec struct {
	ID     int       `json:"id"`
	Defs   []evalDef `json:"defs"`
	Text   []int     `json:"text"`
	NW     int       `json:"nw"`
	Sched  []int     `json:"sched"`
	Expect [][]int   `json:"expect"`
}

type gatedWorker struct {
	resume  chan struct{} // scheduler -> worker: go on
	arrived chan bool     // worker -> scheduler: true = blocked in a lookup, false = finished
	out     string
	panic   string
	done    bool
}

// runSchedule evaluates c once per worker, interleaved as sched says. A schedule that does not fit (the worker has finished
// already / is still blocked at the end) is no verdict: such workers simply run on.
func runSchedule(c *expressions.CompiledKeyBuilder, nw int, sched []int) (outs []string, panics []string, stuck bool) {
	ws := make([]*gatedWorker, nw)
	for i := range ws {
		w := &gatedWorker{resume: make(chan struct{}), arrived: make(chan bool)}
		ws[i] = w
		ctx := &workerCtx{w: i + 1}
		ctx.gate = func() {
			w.arrived <- true
			<-w.resume
		}
		go func() {
			<-w.resume // the start is scheduled as well
			defer func() {
				if r := recover(); r != nil {
					w.panic = fmt.Sprint(r)
				}
				w.arrived <- false
			}()
			w.out = c.BuildKey(ctx)
		}()
	}
	step := func(w *gatedWorker) bool {
		if w.done {
			return true
		}
		w.resume <- struct{}{}
		select {
		case blocked := <-w.arrived:
			if !blocked {
				w.done = true
			}
			return true
		case <-time.After(60 * time.Second):
			return false
		}
	}
	for _, k := range sched {
		if k >= 1 && k <= nw && !step(ws[k-1]) {
			return nil, nil, true
		}
	}
	for again := true; again; { // whatever is left runs round-robin
		again = false
		for _, w := range ws {
			if !w.done {
				again = true
				if !step(w) {
					return nil, nil, true
				}
			}
		}
	}
	for _, w := range ws {
		outs = append(outs, w.out)
		panics = append(panics, w.panic)
	}
	return
}

func c09EvalSched(args []string) error {
	fs := flag.NewFlagSet("evalsched", flag.ExitOnError)
	in := fs.String("in", "", "schedules (ndjson)")
	out := fs.String("out", "evalsched.json", "result")
	fs.Parse(args)
	var mism []M
	samples := []M{}
	n, evals := 0, 0
	texts := map[string]bool{}
	err := vh.ReadNd(*in, func(raw json.RawMessage) error {
		var v schedVec
		if err := json.Unmarshal(raw, &v); err != nil {
			return err
		}
		n++
		text := vh.RunesFromInts(v.Text)
		texts[fmt.Sprint(v.ID)] = true
		var defsTxt []string
		for _, d := range v.Defs {
			defsTxt = append(defsTxt, vh.RunesFromInts(d[0])+" "+vh.RunesFromInts(d[1]))
		}
		for _, opt := range []bool{true, false} {
			c, problem := evalCompile(v.Defs, text, opt)
			if problem != "" {
				if len(mism) < 200 {
					mism = append(mism, M{"class": "compile", "id": v.ID, "defs": defsTxt, "text": text, "opt": opt, "problem": problem})
				}
				continue
			}
			outs, panics, stuck := runSchedule(c, v.NW, v.Sched)
			if stuck {
				return fmt.Errorf("schedule %v of case %d: a worker neither reached a lookup nor returned within 60s", v.Sched, v.ID)
			}
			evals += v.NW
			for w := 0; w < v.NW; w++ {
				class := ""
				if panics[w] != "" {
					class = "panic"
				} else if !vh.EqInts(vh.R(outs[w]), v.Expect[w]) {
					class = "out"
				}
				if class != "" && len(mism) < 200 {
					mism = append(mism, M{"class": class, "id": v.ID, "defs": defsTxt, "text": text, "opt": opt, "workers": v.NW,
						"sched": v.Sched, "worker": w + 1, "got": outs[w], "got_cp": vh.R(outs[w]), "panic": panics[w],
						"expect": vh.RunesFromInts(v.Expect[w]), "expect_cp": v.Expect[w]})
				}
			}
			// afterwards, alone: the compiled template still evaluates as before
			ctx := &workerCtx{w: 1}
			func() {
				defer func() {
					if r := recover(); r != nil && len(mism) < 200 {
						mism = append(mism, M{"class": "panic", "id": v.ID, "defs": defsTxt, "text": text, "opt": opt, "workers": 1,
							"sched": []int{}, "worker": 1, "got": "", "panic": fmt.Sprint(r), "expect": vh.RunesFromInts(v.Expect[0])})
					}
				}()
				if o := c.BuildKey(ctx); !vh.EqInts(vh.R(o), v.Expect[0]) && len(mism) < 200 {
					mism = append(mism, M{"class": "out", "id": v.ID, "defs": defsTxt, "text": text, "opt": opt, "workers": 1,
						"sched": []int{}, "worker": 1, "got": o, "got_cp": vh.R(o), "panic": "", "after_schedule": v.Sched,
						"expect": vh.RunesFromInts(v.Expect[0]), "expect_cp": v.Expect[0]})
				}
				evals++
			}()
			if opt && len(samples) < 3 && n%97 == 1 {
				samples = append(samples, M{"defs": defsTxt, "text": text, "sched": v.Sched, "outs": outs})
			}
		}
		return nil
	})
	if err != nil {
		return err
	}
	vh.WriteJSON(*out, M{"schedules": n, "evaluations": evals, "cases": len(texts), "mismatches": mism, "samples": samples})
	return nil
}

// ---------------------------------------------------------------------------- free-running goroutines (B2)

// a library of funcs-file functions: name, body, number of arguments. Bodies hold joined arguments (several pieces), quoted
// sub-templates, keys; later functions use earlier ones.
var evalLib = []struct {
	name, body string
	arity      int
}{
	{"wrap", "{f <{0}>}", 1},
	{"pair", "{0}+{1}", 2},
	{"kv", "{f {k}={0} \"[{1}]\"}", 2},
	{"dbl", "{0}{0}", 1},
	{"two", "{wrap {0}}{wrap x{1}y}", 2},
	{"nest", "{g a{wrap {0}}b {pair {1} {0}}}", 2},
	{"λw", "{f \"é {0} 中\" {-1}{7}}", 1},
}

type evalGen struct {
	rng  interface{ Intn(int) int }
	used map[int]bool
}

var evalWords = []string{"a", "b1", "x", "é", "0", "-", "w.", "中"}

func (g *evalGen) word() string { return evalWords[g.rng.Intn(len(evalWords))] }

func (g *evalGen) lookup() string {
	if g.rng.Intn(5) == 0 {
		return "{" + []string{"k", "key2", "é_"}[g.rng.Intn(3)] + "}"
	}
	return "{" + strconv.Itoa(g.rng.Intn(4)) + "}"
}

// one argument: a word, a lookup, a nested call, or several pieces glued together (a joined stage)
func (g *evalGen) arg(d int) string {
	switch k := g.rng.Intn(10); {
	case k < 1:
		return g.word()
	case k < 3:
		return g.lookup()
	case k < 6 && d > 0:
		return g.call(d - 1)
	case k < 8:
		s := ""
		for n := 2 + g.rng.Intn(2); n > 0; n-- {
			switch g.rng.Intn(3) {
			case 0:
				s += g.word()
			case 1:
				s += g.lookup()
			default:
				if d > 0 {
					s += g.call(d - 1)
				} else {
					s += g.lookup()
				}
			}
		}
		return s
	default:
		s := "\""
		for n := 1 + g.rng.Intn(3); n > 0; n-- {
			switch g.rng.Intn(3) {
			case 0:
				s += g.word() + " "
			case 1:
				s += g.lookup()
			default:
				s += " " + g.lookup() + g.word()
			}
		}
		return s + "\""
	}
}

func (g *evalGen) call(d int) string {
	if g.rng.Intn(10) < 7 {
		i := g.rng.Intn(len(evalLib))
		g.used[i] = true
		s := "{" + evalLib[i].name
		for a := 0; a < evalLib[i].arity; a++ {
			s += " " + g.arg(d)
		}
		return s + "}"
	}
	s := "{" + funcNames[g.rng.Intn(len(funcNames))]
	for a := 1 + g.rng.Intn(3); a > 0; a-- {
		s += " " + g.arg(d)
	}
	return s + "}"
}

func c09EvalTrace(args []string) error {
	fs := flag.NewFlagSet("evaltrace", flag.ExitOnError)
	out := fs.String("out", "evaltrace.ndjson", "trace")
	n := fs.Int("n", 300, "templates")
	workers := fs.Int("workers", 4, "goroutines per template")
	rounds := fs.Int("rounds", 40, "evaluations per goroutine")
	fs.Parse(args)
	w, err := vh.NewNdWriter(*out)
	if err != nil {
		return err
	}
	defer w.Close()
	rng := vh.NewRand(95)
	for i := 0; i < *n; i++ {
		g := &evalGen{rng: rng, used: map[int]bool{}}
		text := ""
		for k := 1 + rng.Intn(2); k > 0; k-- {
			if rng.Intn(3) == 0 {
				text += g.word()
			}
			text += g.call(1 + rng.Intn(3))
		}
		// the definitions the template needs, and what those need (definition order of the library)
		if g.used[4] || g.used[5] || g.used[6] {
			g.used[0] = true
		}
		if g.used[5] {
			g.used[1] = true
		}
		defs := []evalDef{}
		for j, d := range evalLib {
			if g.used[j] {
				defs = append(defs, evalDef{vh.R(d.name), vh.R(d.body)})
			}
		}
		rec := M{"defs": defs, "text": vh.R(text), "outs": []M{}, "panic": false, "pmsg": "", "problem": ""}
		c, problem := evalCompile(defs, text, i%2 == 0)
		if problem != "" {
			rec["problem"] = problem
			w.Write(rec)
			continue
		}
		var mu sync.Mutex
		seen := map[string]bool{}
		outs := []M{}
		pmsg := ""
		var wg sync.WaitGroup
		start := make(chan struct{})
		for k := 1; k <= *workers; k++ {
			wg.Add(1)
			go func(k int) {
				defer wg.Done()
				defer func() {
					if r := recover(); r != nil {
						mu.Lock()
						pmsg = fmt.Sprint(r)
						mu.Unlock()
					}
				}()
				ctx := &workerCtx{w: k, gate: runtime.Gosched}
				<-start
				for r := 0; r < *rounds; r++ {
					o := c.BuildKey(ctx)
					key := strconv.Itoa(k) + "\x00" + o
					mu.Lock()
					if !seen[key] && len(outs) < 40 {
						seen[key] = true
						outs = append(outs, M{"w": k, "out": vh.R(o)})
					}
					mu.Unlock()
				}
			}(k)
		}
		close(start)
		wg.Wait()
		rec["outs"], rec["panic"], rec["pmsg"] = outs, pmsg != "", pmsg
		w.Write(rec)
	}
	return nil
}

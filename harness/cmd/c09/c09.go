package main

// C09 - template syntax: literals, escapes, quotes and nesting parse as documented.
//   c09 replay : compiles the TLC-enumerated templates (ExprSyntax_Gen) with the REAL compiler into a fresh
//                key builder whose functions are transparent, evaluates them against a recording context and
//                compares with the expectation computed by TLC (B1)
//   c09 trace  : seeded random annotated trees (depth <= 4, <= 4 arguments, multi-byte alphabets), random
//                documented malformations and wild edits; records {tpl, text, out, errs, ...} for TLC (B2)
//   c09 replayhist : replays the TLC-enumerated HISTORIES (ExprSyntaxHist_Gen: Func registrations and Compile calls) on
//                ONE long-lived key builder per history (optimising / not); every compiled template is evaluated
//                again after every later step (B1, history layer)
//   c09 histtrace : seeded random histories on one long-lived key builder whose templates share sub-arguments
//                (well-formed and malformed), with registrations in between; records for ExprSyntaxHist_Trace (B2)
//   c09 cli    : runs the `rare expression` binary on the vectors that need no test function
//   c09 eval   : one template from the command line (debugging / replay of a finding)
//   c09 evalsched / evaltrace : the evaluation layer (ExprSyntaxEval.tla), see eval.go

import (
	"bytes"
	"encoding/json"
	"errors"
	"flag"
	"fmt"
	"math/big"
	"math/rand"
	"os"
	"os/exec"
	"runtime"
	"sort"
	"strconv"
	"strings"
	"sync"
	"time"

	"rare/pkg/expressions"

	"verifharness/vh"
)

func main() {
	vh.Main(vh.Commands{"replay": c09Replay, "trace": c09Trace, "cli": c09Cli, "eval": c09Eval,
		"replayhist": c09ReplayHist, "histtrace": c09HistTrace, "evalsched": c09EvalSched, "evaltrace": c09EvalTrace})
}

type M = vh.M

// ---------------------------------------------------------------------------- the observable

// spelling markers (private-use code points; ExprSyntax.tla FO FA FS FC GO GC KO KC)
const (
	mFO = rune(57345)
	mFA = rune(57346)
	mFS = rune(57347)
	mFC = rune(57348)
	mGO = rune(57349)
	mGC = rune(57350)
	mKO = rune(57351)
	mKC = rune(57352)
	mFV = rune(57353)
)

// registered transparent functions (ExprSyntax.tla Funcs)
var funcNames = []string{"f", "g", "h1", "λx"}

func transparent(name string) expressions.KeyBuilderFunction { return transparentV(name, 0) }

// version ver of the transparent function `name` (ExprSyntax.tla CallV / FV): versions differ in what they render,
// so the observable tells which registration a compiled call is bound to
func transparentV(name string, ver int) expressions.KeyBuilderFunction {
	return func(args []expressions.KeyBuilderStage) (expressions.KeyBuilderStage, error) {
		return func(ctx expressions.KeyBuilderContext) string {
			var sb strings.Builder
			sb.WriteRune(mFO)
			sb.WriteString(name)
			if ver != 0 {
				sb.WriteRune(mFV)
				sb.WriteString(strconv.Itoa(ver))
			}
			sb.WriteRune(mFA)
			for i, a := range args {
				if i > 0 {
					sb.WriteRune(mFS)
				}
				sb.WriteString(a(ctx))
			}
			sb.WriteRune(mFC)
			return sb.String()
		}, nil
	}
}

type recCtx struct{}

func (recCtx) GetMatch(i int) string  { return string(mGO) + strconv.Itoa(i) + string(mGC) }
func (recCtx) GetKey(k string) string { return string(mKO) + k + string(mKC) }

type result struct {
	Out    string
	Errs   []string       // the set of reported classes, sorted
	ErrN   map[string]int // how many errors of each class were reported
	Panic  string
	HasOut bool
}

var errClasses = []string{"unterminated", "empty", "unknownFunc"}

func (r *result) errn() M {
	m := M{"other": 0}
	for _, c := range errClasses {
		m[c] = r.ErrN[c]
	}
	for k, v := range r.ErrN {
		if strings.HasPrefix(k, "other:") {
			m["other"] = m["other"].(int) + v
		}
	}
	return m
}

func classOf(e error) string {
	switch {
	case errors.Is(e, expressions.ErrorUnterminated):
		return "unterminated"
	case errors.Is(e, expressions.ErrorEmptyStatement):
		return "empty"
	case errors.Is(e, expressions.ErrorMissingFunction):
		return "unknownFunc"
	}
	return "other:" + e.Error()
}

func newBuilder(opt bool) *expressions.KeyBuilder {
	kb := expressions.NewKeyBuilderEx(opt)
	for _, n := range funcNames {
		kb.Func(n, transparent(n))
	}
	return kb
}

// evalOn evaluates a compiled template twice against the recording context
func evalOn(c *expressions.CompiledKeyBuilder) (out string, panicMsg string) {
	done := make(chan struct{})
	go func() {
		defer close(done)
		defer func() {
			if r := recover(); r != nil {
				panicMsg = fmt.Sprint(r)
			}
		}()
		o1 := c.BuildKey(recCtx{})
		o2 := c.BuildKey(recCtx{})
		if o1 != o2 {
			panicMsg = "second evaluation differs from the first"
		}
		out = o1
	}()
	select {
	case <-done:
	case <-time.After(60 * time.Second):
		panicMsg = "no result within 60s"
	}
	return
}

// compileOn compiles text with the given (possibly long-lived) key builder and evaluates the result.
func compileOn(kb *expressions.KeyBuilder, text string) (result, *expressions.CompiledKeyBuilder) {
	return compileOnly(kb, text, true)
}

// compileOnly: eval = false leaves the first evaluation of the compiled template to the caller
func compileOnly(kb *expressions.KeyBuilder, text string, eval bool) (res result, compiled *expressions.CompiledKeyBuilder) {
	res.Errs = []string{}
	res.ErrN = map[string]int{}
	done := make(chan struct{})
	go func() {
		defer close(done)
		defer func() {
			if r := recover(); r != nil {
				res.Panic = fmt.Sprint(r)
			}
		}()
		c, err := kb.Compile(text)
		if err != nil {
			for _, e := range err.Errors {
				res.ErrN[classOf(e)]++
			}
			if len(err.Errors) == 0 {
				res.ErrN["other:empty error list"]++
			}
			for k := range res.ErrN {
				res.Errs = append(res.Errs, k)
			}
			sort.Strings(res.Errs)
		}
		if c != nil {
			compiled = c
		} else if err == nil {
			res.Panic = "Compile returned neither a builder nor an error"
		}
	}()
	select {
	case <-done:
	case <-time.After(60 * time.Second):
		res.Panic = "no result within 60s"
		return
	}
	if eval && compiled != nil && res.Panic == "" {
		res.Out, res.Panic = evalOn(compiled)
		res.HasOut = res.Panic == ""
	}
	return
}

// run compiles text with a FRESH key builder and evaluates it twice against the recording context.
func run(text string, opt bool) result {
	res, _ := compileOn(newBuilder(opt), text)
	return res
}

// ---------------------------------------------------------------------------- replay (B1)

type vector struct {
	G    string         `json:"g"`
	Kind string         `json:"kind"`
	Text []int          `json:"text"`
	Out  []int          `json:"out"`
	Lo   []string       `json:"lo"`
	Hi   []string       `json:"hi"`
	Lon  map[string]int `json:"lon"` // err: how many errors of each class at least
	Cli  bool           `json:"cli"`
}

func subset(a, b []string) bool {
	for _, x := range a {
		found := false
		for _, y := range b {
			if x == y {
				found = true
			}
		}
		if !found {
			return false
		}
	}
	return true
}

// judge compares one real result with the vector's expectation; "" = agrees
func judge(v *vector, r result) string {
	if r.Panic != "" {
		return "panic"
	}
	switch v.Kind {
	case "rt", "esc":
		if len(r.Errs) != 0 {
			return "errs"
		}
		if !r.HasOut || !vh.EqInts(vh.R(r.Out), v.Out) {
			return "out"
		}
	case "err":
		return judgeErr(v.Lo, v.Hi, v.Lon, r)
	}
	return ""
}

// a malformed template: must-report classes <= reported <= may-report classes, and every malformed statement is an
// error of its own (at least lon[c] errors of class c)
func judgeErr(lo, hi []string, lon map[string]int, r result) string {
	if !subset(lo, r.Errs) || !subset(r.Errs, hi) {
		return "errs"
	}
	for c, n := range lon {
		if r.ErrN[c] < n {
			return "errcount"
		}
	}
	return ""
}

func c09Replay(args []string) error {
	fs := flag.NewFlagSet("replay", flag.ExitOnError)
	in := fs.String("in", "", "vectors (ndjson)")
	out := fs.String("out", "replay.json", "result")
	fs.Parse(args)
	var mism []M
	samples := []M{}
	perGroup := map[string]int{}
	texts := map[string]bool{}
	n, runs, nontrivial := 0, 0, 0
	err := vh.ReadNd(*in, func(raw json.RawMessage) error {
		var v vector
		if err := json.Unmarshal(raw, &v); err != nil {
			return err
		}
		n++
		perGroup[v.G]++
		text := vh.RunesFromInts(v.Text)
		if v.Kind != "any" && !texts[text] {
			texts[text] = true
			nontrivial++
		}
		for _, opt := range []bool{true, false} {
			r := run(text, opt)
			runs++
			if cl := judge(&v, r); cl != "" && len(mism) < 500 {
				mism = append(mism, M{"g": v.G, "kind": v.Kind, "class": cl, "text": text, "text_cp": v.Text, "opt": opt,
					"got": r.Out, "got_cp": vh.R(r.Out), "errs": r.Errs, "panic": r.Panic,
					"expect": vh.RunesFromInts(v.Out), "expect_cp": v.Out, "lo": v.Lo, "hi": v.Hi})
			} else if opt && len(samples) < 6 && n%1009 == 1 {
				samples = append(samples, M{"g": v.G, "kind": v.Kind, "text": text, "got": r.Out, "errs": r.Errs})
			}
		}
		return nil
	})
	if err != nil {
		return err
	}
	vh.WriteJSON(*out, M{"vectors": n, "runs": runs, "mismatches": mism, "samples": samples, "per_group": perGroup,
		"distinct_nontrivial": nontrivial})
	return nil
}

// ---------------------------------------------------------------------------- annotated trees (ExprSyntax.tla AN)

type anode struct {
	K     string   `json:"k"`
	S     []int    `json:"s"`
	N     int      `json:"n"`
	Args  []*anode `json:"args"`
	Sep   [][]int  `json:"sep"`
	Lead  []int    `json:"lead"`
	Trail []int    `json:"trail"`
	Q     bool     `json:"q"`
	Esc   []int    `json:"esc"`
	Drop  bool     `json:"drop"`
}

func newNode(k string) *anode {
	return &anode{K: k, S: []int{}, Args: []*anode{}, Sep: [][]int{}, Lead: []int{}, Trail: []int{}, Esc: []int{}}
}

// the driver's own printer; TLC checks it against PrintTpl
func (a *anode) print(top bool, sb *[]int) {
	w := func(x ...int) { *sb = append(*sb, x...) }
	closeB := func() {
		if !a.Drop {
			w('}')
		}
	}
	switch a.K {
	case "lit":
		if top {
			for i, c := range a.S {
				if a.Esc[i] == 0 {
					w(c)
				} else if c == '\n' {
					w('\\', 'n')
				} else if c == '\t' {
					w('\\', 't')
				} else if c == '\r' {
					w('\\', 'r')
				} else {
					w('\\', c)
				}
			}
		} else if a.Q {
			w('"')
			w(a.S...)
			w('"')
		} else {
			w(a.S...)
		}
	case "grp":
		w('{')
		w(a.Lead...)
		if len(a.S) > 0 { // the integer as it is written: leading zeros, a minus sign, any number of digits
			w(a.S...)
		} else {
			w(vh.R(strconv.Itoa(a.N))...)
		}
		w(a.Trail...)
		closeB()
	case "key":
		w('{')
		w(a.Lead...)
		w(a.S...)
		w(a.Trail...)
		closeB()
	case "empty":
		w('{')
		w(a.Lead...)
		closeB()
	case "call":
		w('{')
		w(a.Lead...)
		w(a.S...)
		for j, x := range a.Args {
			w(a.Sep[j]...)
			x.print(false, sb)
		}
		w(a.Trail...)
		closeB()
	case "qt": // a quoted sub-template: pieces of text and statements without quotes
		w('"')
		for _, x := range a.Args {
			if x.K == "lit" {
				w(x.S...)
			} else {
				x.print(false, sb)
			}
		}
		w('"')
	}
}

func printTpl(tpl []*anode) []int {
	sb := []int{}
	for _, a := range tpl {
		a.print(true, &sb)
	}
	return sb
}

// ---------------------------------------------------------------------------- random generation (B2)

var (
	wordAlpha = []rune("abcxyzABZ0123456789_.,:;-+=/@#$%^&*()[]<>|~`'!?éλ中\U0001F600ß")
	blankish  = []rune{' ', '\t', ' ', ' ', '\n', '\r', ' ', ' ', '　', '\v'}
	topExtra  = []rune{'{', '}', '\\', '"', 'n', 't', 'r', '{', '}', '\\', '"'}
	unknownFn = []string{"zz", "F", "fg", "h", "h2", "coalesce", "λ", "x1", "1", "f."}
)

func isSpaceR(c rune) bool {
	switch c {
	case 9, 10, 11, 12, 13, 32, 133, 160, 5760, 8232, 8233, 8239, 8287, 12288:
		return true
	}
	return c >= 8192 && c <= 8202
}

// every Unicode White_Space character (ExprSyntax.tla IsSpaceU)
var allSpaces = []rune{9, 10, 11, 12, 13, 32, 133, 160, 5760, 8192, 8193, 8194, 8195, 8196, 8197, 8198, 8199, 8200, 8201, 8202,
	8232, 8233, 8239, 8287, 12288}

type gen struct {
	wsStyle  int  // white space between arguments and inside the braces: 0 space/tab, 1 any white-space characters, 2 wsChar only
	wsChar   rune
	rng      *rand.Rand
	maxDepth int
	maxArgs  int
	noQuote  bool     // inside a quoted sub-template: bare-word arguments only
	pool     []*anode // histories: arguments that recur in the templates of one history
}

func (g *gen) blanks(min, max int) []int {
	n := min + g.rng.Intn(max-min+1)
	out := make([]int, n)
	for i := range out {
		switch {
		case g.wsStyle == 1:
			out[i] = int(allSpaces[g.rng.Intn(len(allSpaces))])
		case g.wsStyle == 2:
			out[i] = int(g.wsChar)
		case g.rng.Intn(3) == 0:
			out[i] = '\t'
		default:
			out[i] = ' '
		}
	}
	return out
}

// chooses the white-space style of the next template: half of them space/tab, a quarter any mixture of white-space
// characters, a quarter ONE (mostly exotic) character as the only separator and padding
func (g *gen) pickStyle() {
	switch k := g.rng.Intn(4); {
	case k < 2:
		g.wsStyle = 0
	case k == 2:
		g.wsStyle = 1
	default:
		g.wsStyle, g.wsChar = 2, allSpaces[g.rng.Intn(len(allSpaces))]
	}
}

func (g *gen) pad() []int {
	if g.rng.Intn(10) < 7 {
		return []int{}
	}
	return g.blanks(1, 2)
}

func (g *gen) word(min, max int) []int {
	n := min + g.rng.Intn(max-min+1)
	out := make([]int, n)
	for i := range out {
		out[i] = int(wordAlpha[g.rng.Intn(len(wordAlpha))])
	}
	return out
}

func (g *gen) keyWord() []int {
	for {
		w := g.word(1, 5)
		for _, c := range w {
			if !(c >= '0' && c <= '9') && c != '+' && c != '-' {
				return w
			}
		}
	}
}

func (g *gen) grpNum() int {
	switch g.rng.Intn(10) {
	case 0:
		return g.rng.Intn(1000000000)
	case 1, 2:
		return g.rng.Intn(1000)
	}
	return g.rng.Intn(12)
}

var (
	big63 = new(big.Int).Lsh(big.NewInt(1), 63)
	big64 = new(big.Int).Lsh(big.NewInt(1), 64)
)

// writtenInt: an integer as a digit string - around the ends of the index range (2^63, 2^64 and multiples), very long,
// with leading zeros, negative; whether it is a group reference at all is decided by the specification (ExprSyntaxIdx.tla)
func (g *gen) writtenInt() []int {
	var s string
	switch g.rng.Intn(6) {
	case 0, 1: // m * 2^64 + 2^63 * h + k
		v := new(big.Int).Mul(big64, big.NewInt(int64(g.rng.Intn(4))))
		if g.rng.Intn(2) == 0 {
			v.Add(v, big63)
		}
		v.Add(v, big.NewInt(int64(g.rng.Intn(7)-3)))
		s = v.Abs(v).String()
	case 2: // any digits, 1..26 of them
		n := 1 + g.rng.Intn(26)
		b := make([]byte, n)
		for i := range b {
			b[i] = byte('0' + g.rng.Intn(10))
		}
		s = string(b)
	case 3: // 18..20 digits starting like the limits
		s = []string{"9223372036854775", "1844674407370955", "922337203685477580", "9223372036854775808"}[g.rng.Intn(4)]
		for n := g.rng.Intn(4); n > 0; n-- {
			s += string(rune('0' + g.rng.Intn(10)))
		}
	case 4:
		s = strconv.Itoa(g.rng.Intn(13))
	default:
		s = strconv.Itoa(g.rng.Intn(1 << 30))
	}
	if g.rng.Intn(4) == 0 {
		s = strings.Repeat("0", 1+g.rng.Intn(3)) + s
	}
	if g.rng.Intn(4) == 0 {
		s = "-" + s
	}
	return vh.R(s)
}

func (g *gen) argLit() *anode {
	a := newNode("lit")
	if g.noQuote {
		a.S = g.word(1, 4)
		return a
	}
	n := g.rng.Intn(7)
	if g.rng.Intn(6) == 0 {
		n = 0
	}
	needs := n == 0
	for i := 0; i < n; i++ {
		var c rune
		if g.rng.Intn(5) == 0 {
			c = blankish[g.rng.Intn(len(blankish))]
		} else {
			c = wordAlpha[g.rng.Intn(len(wordAlpha))]
		}
		if isSpaceR(c) {
			needs = true
		}
		a.S = append(a.S, int(c))
	}
	a.Q = needs || g.rng.Intn(3) == 0
	return a
}

// a quoted argument holding text and statements ("{0}" idiom of the array helpers)
func (g *gen) argQt(d int) *anode {
	a := newNode("qt")
	g.noQuote = true
	for n := 1 + g.rng.Intn(3); n > 0; n-- {
		if g.rng.Intn(2) == 0 {
			p := newNode("lit")
			for k := 1 + g.rng.Intn(4); k > 0; k-- {
				if g.rng.Intn(4) == 0 {
					p.S = append(p.S, int(blankish[g.rng.Intn(len(blankish))]))
				} else {
					p.S = append(p.S, int(wordAlpha[g.rng.Intn(len(wordAlpha))]))
				}
			}
			a.Args = append(a.Args, p)
		} else {
			a.Args = append(a.Args, g.stmt(d+1))
		}
	}
	g.noQuote = false
	return a
}

func (g *gen) topLit() *anode {
	a := newNode("lit")
	n := 1 + g.rng.Intn(6)
	for i := 0; i < n; i++ {
		var c rune
		switch g.rng.Intn(6) {
		case 0, 1:
			c = topExtra[g.rng.Intn(len(topExtra))]
		case 2:
			c = blankish[g.rng.Intn(len(blankish))]
		default:
			c = wordAlpha[g.rng.Intn(len(wordAlpha))]
		}
		e := g.rng.Intn(3) / 2 // escaped with probability 1/3 where it is a free choice
		if c == '{' || c == '\\' {
			e = 1
		} else if c == 'n' || c == 't' || c == 'r' {
			e = 0
		}
		a.S = append(a.S, int(c))
		a.Esc = append(a.Esc, e)
	}
	return a
}

func (g *gen) stmt(d int) *anode {
	k := g.rng.Intn(10)
	var a *anode
	switch {
	case k < 2 || (d >= g.maxDepth && k < 5):
		a = newNode("grp")
		if g.rng.Intn(6) == 0 {
			a.S = g.writtenInt()
		} else {
			a.N = g.grpNum()
		}
	case k < 4 || d >= g.maxDepth:
		a = newNode("key")
		a.S = g.keyWord()
	default:
		a = newNode("call")
		a.S = vh.R(funcNames[g.rng.Intn(len(funcNames))])
		n := 1 + g.rng.Intn(g.maxArgs)
		for j := 0; j < n; j++ {
			a.Sep = append(a.Sep, g.blanks(1, 2))
			if len(g.pool) > 0 && !g.noQuote && g.rng.Intn(100) < 45 {
				a.Args = append(a.Args, cloneNode(g.pool[g.rng.Intn(len(g.pool))]))
			} else if k := g.rng.Intn(100); k < 45 {
				a.Args = append(a.Args, g.argLit())
			} else if k < 53 && !g.noQuote {
				a.Args = append(a.Args, g.argQt(d))
			} else {
				a.Args = append(a.Args, g.stmt(d+1))
			}
		}
	}
	a.Lead, a.Trail = g.pad(), g.pad()
	return a
}

func (g *gen) tpl() []*anode {
	n := 1 + g.rng.Intn(4)
	var out []*anode
	for i := 0; i < n; i++ {
		if g.rng.Intn(5) < 2 {
			out = append(out, g.topLit())
		} else if p := g.poolStmt(); p != nil && g.rng.Intn(6) == 0 {
			out = append(out, p)
		} else {
			out = append(out, g.stmt(1))
		}
	}
	return out
}

// a statement of the history's pool (nil if there is none): the same text as an argument and at top level
func (g *gen) poolStmt() *anode {
	for _, i := range g.rng.Perm(len(g.pool)) {
		if k := g.pool[i].K; k != "lit" && k != "qt" {
			return cloneNode(g.pool[i])
		}
	}
	return nil
}

// all statement nodes, with the index of the top-level node they belong to
type site struct {
	node   *anode
	top    int
	parent *anode
	idx    int
}

func sites(tpl []*anode) []site {
	var out []site
	var walk func(a *anode, top int, parent *anode, idx int)
	walk = func(a *anode, top int, parent *anode, idx int) {
		if a.K == "lit" || a.K == "qt" {
			return
		}
		out = append(out, site{a, top, parent, idx})
		for j, x := range a.Args {
			walk(x, top, a, j)
		}
	}
	for i, a := range tpl {
		walk(a, i, nil, i)
	}
	return out
}

// mutate applies one documented malformation; returns false if the template has no place for it
func (g *gen) mutate(tpl []*anode) bool {
	ss := sites(tpl)
	if len(ss) == 0 {
		return false
	}
	s := ss[g.rng.Intn(len(ss))]
	switch g.rng.Intn(3) {
	case 0: // the closing brace is missing
		s.node.Drop = true
		for _, a := range tpl[s.top+1:] {
			if a.K == "lit" {
				for i, c := range a.S {
					if c == '}' {
						a.Esc[i] = 1
					}
				}
			}
		}
	case 1: // an empty statement
		e := newNode("empty")
		if g.rng.Intn(2) == 0 {
			e.Lead = g.blanks(1, 2)
		}
		e.Drop = s.node.Drop
		*s.node = *e
	case 2: // an unregistered function
		var calls []site
		for _, x := range ss {
			if x.node.K == "call" {
				calls = append(calls, x)
			}
		}
		if len(calls) == 0 {
			return false
		}
		c := calls[g.rng.Intn(len(calls))]
		c.node.S = vh.R(unknownFn[g.rng.Intn(len(unknownFn))])
	}
	return true
}

var wildChars = []rune{'{', '}', '"', '\\', ' ', '\t', 'n', 'a', '1', '{', '}', '"', '\\'}

func (g *gen) wild(text []int) []int {
	out := append([]int{}, text...)
	for k := 1 + g.rng.Intn(3); k > 0; k-- {
		c := int(wildChars[g.rng.Intn(len(wildChars))])
		switch op := g.rng.Intn(4); {
		case op == 0 && len(out) > 0:
			i := g.rng.Intn(len(out))
			out = append(out[:i], out[i+1:]...)
		case op == 1 && len(out) > 0:
			out[g.rng.Intn(len(out))] = c
		case op == 2:
			out = append(out, c)
		default:
			i := g.rng.Intn(len(out) + 1)
			out = append(out[:i], append([]int{c}, out[i:]...)...)
		}
	}
	return out
}

func c09Trace(args []string) error {
	fs := flag.NewFlagSet("trace", flag.ExitOnError)
	out := fs.String("out", "trace.ndjson", "trace")
	n := fs.Int("n", 10000, "records")
	fs.Parse(args)
	w, err := vh.NewNdWriter(*out)
	if err != nil {
		return err
	}
	defer w.Close()
	g := &gen{rng: vh.NewRand(9)}
	for i := 0; i < *n; i++ {
		g.maxDepth = 1 + g.rng.Intn(4)
		g.maxArgs = 1 + g.rng.Intn(4)
		g.pickStyle()
		tpl := g.tpl()
		if g.rng.Intn(100) < 30 {
			g.mutate(tpl)
			if g.rng.Intn(4) == 0 {
				g.mutate(tpl)
			}
		}
		text := printTpl(tpl)
		kind := "tree"
		if g.rng.Intn(100) < 12 {
			kind = "wild"
			text = g.wild(text)
			tpl = []*anode{}
		}
		s := vh.RunesFromInts(text)
		r1, c1 := compileOn(newBuilder(true), s)
		r2, c2 := compileOn(newBuilder(false), s)
		p := r1.Panic
		if p == "" {
			p = r2.Panic
		}
		// the compiled templates evaluated by several goroutines at once, each against its own context
		conc := []M{}
		if kind == "tree" && p == "" && len(r1.Errs) == 0 && len(r2.Errs) == 0 && c1 != nil && c2 != nil {
			var cp string
			conc, cp = concEval([]*expressions.CompiledKeyBuilder{c1, c2}, 3, 4)
			p = cp
		}
		w.Write(M{"kind": kind, "tpl": tpl, "text": text, "out": vh.R(r1.Out), "errs": r1.Errs, "errn": r1.errn(),
			"out2": vh.R(r2.Out), "errs2": r2.Errs, "errn2": r2.errn(), "panic": p != "", "pmsg": p, "conc": conc})
	}
	return nil
}

// concEval: every compiled template is evaluated `rounds` times by each of `workers` goroutines (all started together,
// yielding the processor in every context lookup); returns the distinct (worker, output) pairs observed
func concEval(cs []*expressions.CompiledKeyBuilder, workers, rounds int) (outs []M, pmsg string) {
	outs = []M{}
	var mu sync.Mutex
	var wg sync.WaitGroup
	seen := map[string]bool{}
	start := make(chan struct{})
	for _, c := range cs {
		for k := 1; k <= workers; k++ {
			wg.Add(1)
			go func(c *expressions.CompiledKeyBuilder, k int) {
				defer wg.Done()
				defer func() {
					if r := recover(); r != nil {
						mu.Lock()
						pmsg = fmt.Sprint(r)
						mu.Unlock()
					}
				}()
				ctx := &workerCtx{w: k, gate: runtime.Gosched}
				<-start
				for r := 0; r < rounds; r++ {
					o := c.BuildKey(ctx)
					key := strconv.Itoa(k) + "\x00" + o
					mu.Lock()
					if !seen[key] && len(outs) < 24 {
						seen[key] = true
						outs = append(outs, M{"w": k, "out": vh.R(o)})
					}
					mu.Unlock()
				}
			}(c, k)
		}
	}
	close(start)
	wg.Wait()
	return
}

// ---------------------------------------------------------------------------- the command line (sample)

var cliData = []string{"<d0>", "<d1>", "<d2>", "<d3>", "<d4>", "<d5>", "<d6>", "<d7>", "<d8>", "<d9>", "<d10>", "<d11>", "<d12>"}
var cliKeys = map[string]string{"k": "<Kk>", "a1": "<Ka1>", "1a": "<K1a>", "é_": "<Ke_>"}
var cliSpecial = map[string]bool{"src": true, "line": true, ".": true, "#": true, ".#": true, "#.": true, "@": true}

// a key whose name is a written integer (a number beyond the index range is a key like any other word)
func isIntName(s string) bool {
	if s == "" {
		return false
	}
	for i, c := range s {
		if !(c >= '0' && c <= '9') && !(i == 0 && c == '-' && len(s) > 1) {
			return false
		}
	}
	return true
}

// expected stdout: the spelling with the recording context replaced by the -d / -k values; extra: -k pairs the run needs
func cliExpect(spelled []int) (want string, ok bool, extra []string) {
	var sb strings.Builder
	rs := []rune(vh.RunesFromInts(spelled))
	for i := 0; i < len(rs); i++ {
		switch rs[i] {
		case mGO, mKO:
			end := mGC
			if rs[i] == mKO {
				end = mKC
			}
			j := i + 1
			for j < len(rs) && rs[j] != end {
				j++
			}
			name := string(rs[i+1 : j])
			if rs[i] == mGO {
				idx, _ := strconv.Atoi(name)
				if idx >= 0 && idx < len(cliData) {
					sb.WriteString(cliData[idx])
				}
			} else {
				if cliSpecial[name] {
					return "", false, nil
				}
				if isIntName(name) {
					extra = append(extra, name+"=<K"+name+">")
					sb.WriteString("<K" + name + ">")
				} else {
					sb.WriteString(cliKeys[name])
				}
			}
			i = j
		case mFO, mFA, mFS, mFC:
			return "", false, nil
		default:
			sb.WriteRune(rs[i])
		}
	}
	return sb.String(), true, extra
}

var cliMsg = map[string]string{"unterminated": "non-terminated statement", "empty": "empty statement", "unknownFunc": "missing function"}

func c09Cli(args []string) error {
	fs := flag.NewFlagSet("cli", flag.ExitOnError)
	in := fs.String("in", "", "vectors (ndjson)")
	bin := fs.String("rare", "", "rare binary")
	out := fs.String("out", "cli.json", "result")
	max := fs.Int("n", 200, "number of runs")
	fs.Parse(args)
	var cands []vector
	err := vh.ReadNd(*in, func(raw json.RawMessage) error {
		var v vector
		if err := json.Unmarshal(raw, &v); err != nil {
			return err
		}
		if v.Cli && v.Kind != "any" && len(v.Text) > 0 && !strings.ContainsRune(vh.RunesFromInts(v.Text), 0) {
			cands = append(cands, v)
		}
		return nil
	})
	if err != nil {
		return err
	}
	rng := vh.NewRand(17)
	rng.Shuffle(len(cands), func(i, j int) { cands[i], cands[j] = cands[j], cands[i] })
	{ // interleave the kinds (malformed templates are rare among the vectors)
		by := map[string][]vector{}
		for _, v := range cands {
			by[v.Kind] = append(by[v.Kind], v)
		}
		cands = cands[:0]
		// first a share of the groups that ordinary sampling would hardly meet: written integers at the ends of the index
		// range, every white-space character as the only separator
		for _, q := range []struct {
			g string
			n int
		}{{"idx", *max / 6}, {"ws", *max / 8}, {"wserr", *max / 8}} {
			k := 0
			for _, kd := range []string{"rt", "err"} {
				for _, v := range by[kd] {
					if v.G == q.g && k < q.n {
						if _, ok, _ := cliExpect(v.Out); ok || v.Kind == "err" {
							cands = append(cands, v)
							k++
						}
					}
				}
			}
		}
		for i := 0; len(cands) < 4**max; i++ {
			added := false
			for _, k := range []string{"rt", "err", "esc"} {
				if i < len(by[k]) {
					cands = append(cands, by[k][i])
					added = true
				}
			}
			if !added {
				break
			}
		}
	}
	base := []string{"expression", "-r", "-n"}
	for _, d := range cliData {
		base = append(base, "-d", d)
	}
	for k, v := range cliKeys {
		base = append(base, "-k", k+"="+v)
	}
	var mism []M
	samples := []M{}
	runs, kinds, groups := 0, map[string]int{}, map[string]int{}
	for _, v := range cands {
		if runs >= *max {
			break
		}
		text := vh.RunesFromInts(v.Text)
		want, ok := "", true
		var extra []string
		if v.Kind != "err" {
			if want, ok, extra = cliExpect(v.Out); !ok {
				continue
			}
		}
		a := append([]string{}, base...)
		for _, kv := range extra {
			a = append(a, "-k", kv)
		}
		if runs%2 == 1 {
			a = append(a, "--no-optimize")
		}
		cmd := exec.Command(*bin, append(a, "-")...)
		cmd.Stdin = strings.NewReader(text)
		var so, se bytes.Buffer
		cmd.Stdout, cmd.Stderr = &so, &se
		cmd.Env = append(os.Environ(), "NO_COLOR=1")
		rerr := cmd.Run()
		if _, isExit := rerr.(*exec.ExitError); rerr != nil && !isExit {
			return fmt.Errorf("cannot run %s: %v", *bin, rerr)
		}
		runs++
		kinds[v.Kind]++
		groups[v.G]++
		class := ""
		if strings.Contains(se.String(), "panic:") || strings.Contains(se.String(), "goroutine ") {
			class = "panic"
		} else if v.Kind == "err" {
			if rerr == nil {
				class = "errs"
			}
			for _, c := range v.Lo {
				if !strings.Contains(se.String(), cliMsg[c]) {
					class = "errs"
				}
			}
		} else if rerr != nil {
			class = "errs"
		} else if so.String() != want {
			class = "out"
		}
		if class != "" {
			mism = append(mism, M{"kind": v.Kind, "class": class, "text": text, "text_cp": v.Text, "stdout": so.String(),
				"stderr": se.String(), "want": want, "lo": v.Lo, "args": a})
		} else if len(samples) < 3 {
			samples = append(samples, M{"kind": v.Kind, "text": text, "stdout": so.String(), "stderr": strings.TrimSpace(se.String())})
		}
	}
	vh.WriteJSON(*out, M{"runs": runs, "kinds": kinds, "mismatches": mism, "samples": samples, "candidates": len(cands), "groups": groups})
	return nil
}

func c09Eval(args []string) error {
	for _, t := range args {
		for _, opt := range []bool{true, false} {
			r := run(t, opt)
			b, _ := json.Marshal(M{"text": t, "opt": opt, "out": r.Out, "out_cp": vh.R(r.Out), "errs": r.Errs, "errn": r.errn(), "panic": r.Panic})
			fmt.Println(string(b))
		}
	}
	return nil
}

package main

// Evaluation shapes (ExprScalarHist / ExprScalarHist_Gen): TLC enumerates the behaviours of the history
// machine - which instance is called with which context, and in which order the evaluations are allowed
// to advance from one context read to the next - and this file realises them on the real compiler:
//   serial   one evaluation after the other on the compiled instances (plain calls)
//   gated    every evaluation in a goroutine of its own, its context reads wait for their grant
//   nested   re-entrant on ONE goroutine: an evaluation is started from inside a context read of another
// The expectation of every evaluation of every shape is the one TLC computed for its own arguments
// (ExprScalarHist!Isolated).

import (
	"encoding/json"
	"fmt"
	"math/rand"
	"os"
	"strconv"
	"strings"
	"sync/atomic"
	"time"

	"verifharness/vh"
)

type shape struct {
	K      int      `json:"k"`
	Sched  string   `json:"sched"`
	Evs    [][2]int `json:"evs"` // per evaluation: instance, context (1-based)
	Grants []int    `json:"grants"`
	ID     int      `json:"-"`
	Nested bool     `json:"-"`
}

type shapeSet struct {
	serial  []*shape
	overlap map[int][]*shape // by number of dynamic arguments; evaluations really overlap
	n       int
}

func contiguous(grants []int) bool {
	seen := map[int]bool{}
	last := 0
	for _, g := range grants {
		if g != last && seen[g] {
			return false
		}
		seen[g] = true
		last = g
	}
	return true
}

func loadShapes(path string) (*shapeSet, error) {
	ss := &shapeSet{overlap: map[int][]*shape{}}
	byKey := map[string]*shape{}
	err := vh.ReadNd(path, func(raw json.RawMessage) error {
		sh := &shape{}
		if err := json.Unmarshal(raw, sh); err != nil {
			return err
		}
		ser := contiguous(sh.Grants)
		key := fmt.Sprint(sh.Evs, sh.Grants)
		if ser {
			key = fmt.Sprint(sh.Evs) // the number of reads is irrelevant for a serial history
		} else {
			key = strconv.Itoa(sh.K) + key
		}
		if old, has := byKey[key]; has {
			old.Nested = old.Nested || sh.Sched == "nested"
			return nil
		}
		byKey[key] = sh
		ss.n++
		sh.ID = ss.n
		sh.Nested = sh.Sched == "nested"
		if ser {
			ss.serial = append(ss.serial, sh)
		} else {
			ss.overlap[sh.K] = append(ss.overlap[sh.K], sh)
		}
		return nil
	})
	return ss, err
}

// ---------------------------------------------------------------------------- executors

var shapeProgress int64

// a driver that stops advancing is an infrastructure problem of the run (the check reports it as
// inconclusive), e.g. an evaluation that never returns from a nested call
func startWatchdog() {
	go func() {
		last := int64(-1)
		for {
			time.Sleep(120 * time.Second)
			cur := atomic.LoadInt64(&shapeProgress)
			if cur == last {
				fmt.Fprintln(os.Stderr, "c11: no progress for 120 s while realising evaluation shapes (an evaluation does not return)")
				os.Exit(3)
			}
			last = cur
		}
	}()
}

// runSerial: one evaluation after the other
func runSerial(insts []*compiled, evs [][2]int, args [][]string) []outcome {
	atomic.AddInt64(&shapeProgress, 1)
	out := make([]outcome, len(evs))
	for e := range evs {
		out[e] = insts[evs[e][0]-1].eval(args[e])
	}
	return out
}

// runGated: every evaluation in its own goroutine; grants[x] = e lets evaluation e advance: the first
// grant starts it, every further one lets a context read return; it then runs up to its next read or to
// its end.  Grants to finished evaluations are void; evaluations the schedule leaves unfinished (the real
// code read more often than the model) are completed in order afterwards.
func runGated(insts []*compiled, evs [][2]int, grants []int, args [][]string) []outcome {
	atomic.AddInt64(&shapeProgress, 1)
	n := len(evs)
	out := make([]outcome, n)
	grant := make([]chan struct{}, n)
	state := make([]chan bool, n) // true: finished, false: waiting in a read
	done := make([]bool, n)
	for e := 0; e < n; e++ {
		grant[e] = make(chan struct{})
		state[e] = make(chan bool)
		go func(e int) {
			<-grant[e]
			out[e] = insts[evs[e][0]-1].evalHook(args[e], func() {
				state[e] <- false
				<-grant[e]
			})
			state[e] <- true
		}(e)
	}
	step := func(e int) {
		grant[e] <- struct{}{}
		done[e] = <-state[e]
	}
	for _, g := range grants {
		if e := g - 1; e >= 0 && e < n && !done[e] {
			step(e)
		}
	}
	for e := 0; e < n; e++ {
		for !done[e] {
			step(e)
		}
	}
	return out
}

// runNested: the same schedule on ONE goroutine, for schedules with stack discipline: an evaluation
// that is not the innermost one is started from inside the pending context read of the innermost one.
func runNested(insts []*compiled, evs [][2]int, grants []int, args [][]string) []outcome {
	atomic.AddInt64(&shapeProgress, 1)
	n := len(evs)
	out := make([]outcome, n)
	started := make([]bool, n)
	finished := make([]bool, n)
	pos := 0
	var step func(owner int)
	run := func(e int) {
		started[e] = true
		out[e] = insts[evs[e][0]-1].evalHook(args[e], func() { step(e) })
		finished[e] = true
	}
	step = func(owner int) {
		for pos < len(grants) {
			e := grants[pos] - 1
			pos++
			if e == owner {
				return
			}
			if e < 0 || e >= n || started[e] {
				continue
			}
			run(e)
		}
	}
	step(-1)
	for e := 0; e < n; e++ {
		if !started[e] {
			run(e)
		}
	}
	return out
}

// ---------------------------------------------------------------------------- pools of real calls

func argsKey(args []string) string { return strings.Join(args, "\x00\x01") }

type pool struct {
	pos   []string
	insts [][]string   // constants of each instance (full tuples)
	ctxs  [][]string   // dynamic values of each context (full tuples)
	ent   [][]*entry   // [instance][context]: the TLC vector of the mixture
}

func mixArgs(pos []string, inst, ctx []string) []string {
	a := make([]string, len(pos))
	for j, p := range pos {
		if p == "c" {
			a[j] = inst[j]
		} else {
			a[j] = ctx[j]
		}
	}
	return a
}

func sameExpect(a, b expect) bool {
	x, _ := json.Marshal(a)
	y, _ := json.Marshal(b)
	return string(x) == string(y)
}

// variant: an entry of the group that differs from base in exactly the argument j (preferring one
// with a different expectation, so that an answer computed from stale arguments is visible)
func variant(es []*entry, base *entry, j int, pos []string, r *rand.Rand) *entry {
	var diff, same []*entry
	for _, e := range es {
		if e.args[j] == base.args[j] {
			continue
		}
		ok := true
		for i := range pos {
			if i != j && e.args[i] != base.args[i] {
				ok = false
				break
			}
		}
		if !ok {
			continue
		}
		if sameExpect(expectFor(e.v, pos), expectFor(base.v, pos)) {
			same = append(same, e)
		} else {
			diff = append(diff, e)
		}
	}
	if len(diff) > 0 && (len(same) == 0 || r.Intn(8) != 0) {
		return diff[r.Intn(len(diff))]
	}
	if len(same) > 0 {
		return same[r.Intn(len(same))]
	}
	return nil
}

func isErrExpect(e expect) bool {
	return e.K == "marker" || e.K == "out" && markers[string(vh.FromInts(e.V))]
}

// errVariant: an entry that differs from base in exactly the argument j and is answered with an error marker
func errVariant(es []*entry, base *entry, j int, pos []string, r *rand.Rand) *entry {
	var cand []*entry
	for _, e := range es {
		if e.args[j] == base.args[j] || e.args[j] == "" || !isErrExpect(expectFor(e.v, pos)) {
			continue
		}
		ok := true
		for i := range pos {
			if i != j && e.args[i] != base.args[i] {
				ok = false
				break
			}
		}
		if ok {
			cand = append(cand, e)
		}
	}
	if len(cand) == 0 {
		return nil
	}
	return cand[r.Intn(len(cand))]
}

// pickPool: 2 instances x 3 contexts of one helper/arity/position pattern whose 6 mixtures are all
// calls TLC generated an expectation for
func pickPool(es []*entry, idx map[string]*entry, pos []string, r *rand.Rand) *pool {
	dyn := dynIdx(pos)
	var con []int
	for i, p := range pos {
		if p == "c" {
			con = append(con, i)
		}
	}
	for try := 0; try < 12; try++ {
		a := es[r.Intn(len(es))]
		usable := true
		for _, i := range con {
			usable = usable && constUsable(a.args[i])
		}
		if !usable {
			continue
		}
		b := variant(es, a, dyn[r.Intn(len(dyn))], pos, r)
		if b == nil {
			continue
		}
		// the third context: preferably one the helper answers with an error marker (a value that is
		// wrong for the helper between two that are right), else another variant
		jc := dyn[r.Intn(len(dyn))]
		c := errVariant(es, b, jc, pos, r)
		if c == nil || r.Intn(3) == 0 {
			if c2 := variant(es, b, jc, pos, r); c2 != nil {
				c = c2
			}
		}
		if c == nil {
			c = a
		}
		if r.Intn(2) == 0 {
			b, c = c, b // error first, then a good value
		}
		p := &pool{pos: pos, insts: [][]string{a.args}, ctxs: [][]string{a.args, b.args, c.args}}
		if len(con) > 0 {
			if i2 := variant(es, a, con[r.Intn(len(con))], pos, r); i2 != nil && constUsable(i2.args[con[0]]) {
				ok := true
				for _, i := range con {
					ok = ok && constUsable(i2.args[i])
				}
				if ok {
					p.insts = append(p.insts, i2.args)
				}
			}
		}
		if len(p.insts) == 1 {
			p.insts = append(p.insts, a.args) // a second compilation of the same template
		}
		ok := true
		p.ent = make([][]*entry, len(p.insts))
		for i := range p.insts {
			p.ent[i] = make([]*entry, len(p.ctxs))
			for c := range p.ctxs {
				e := idx[argsKey(mixArgs(pos, p.insts[i], p.ctxs[c]))]
				if e == nil {
					ok = false
				}
				p.ent[i][c] = e
			}
		}
		if ok {
			return p
		}
	}
	return nil
}

type judgeFn func(v *vector, args, pos []string, o outcome, opt bool, extra M)

type shapeStats struct {
	Pools, Serial, Gated, Nested, Evals int
}

// realise the shapes on pools drawn from the TLC vectors of every helper / arity / position pattern
func runShapes(ss *shapeSet, groups map[string][]*entry, groupOrder []string, judge judgeFn, pools, nest3 int) shapeStats {
	var st shapeStats
	startWatchdog()
	r := vh.NewRand(23)
	for _, gk := range groupOrder {
		es := groups[gk]
		if len(es) < 2 {
			continue
		}
		idx := make(map[string]*entry, len(es))
		for _, e := range es {
			idx[argsKey(e.args)] = e
		}
		f := es[0].v.F
		n := len(es[0].args)
		for _, pos := range patterns(n) {
			dyn := dynIdx(pos)
			if len(dyn) == 0 {
				continue
			}
			for pn := 0; pn < pools; pn++ {
				p := pickPool(es, idx, pos, r)
				if p == nil {
					continue
				}
				st.Pools++
				opt := st.Pools%3 != 2
				insts := make([]*compiled, len(p.insts))
				for i := range insts {
					insts[i] = compileCall(f, p.insts[i], pos, opt, st.Pools%2 == 1)
				}
				k := len(dyn)
				if k > 3 {
					k = 3
				}
				do := func(sh *shape, mode string) {
					args := make([][]string, len(sh.Evs))
					ents := make([]*entry, len(sh.Evs))
					for e, ic := range sh.Evs {
						ents[e] = p.ent[ic[0]-1][ic[1]-1]
						args[e] = ents[e].args
					}
					var outs []outcome
					switch mode {
					case "serial":
						outs = runSerial(insts, sh.Evs, args)
						st.Serial++
					case "gated":
						outs = runGated(insts, sh.Evs, sh.Grants, args)
						st.Gated++
					case "nested":
						outs = runNested(insts, sh.Evs, sh.Grants, args)
						st.Nested++
					}
					for e, o := range outs {
						st.Evals++
						o.Template = insts[sh.Evs[e][0]-1].Template
						judge(ents[e].v, args[e], pos, o, opt, M{"shape": sh.ID, "mode": mode, "evs": sh.Evs, "grants": sh.Grants,
							"eval": e + 1, "ctxs": args, "template": o.Template})
					}
				}
				for _, sh := range ss.serial {
					do(sh, "serial")
				}
				n3 := 0
				ov := ss.overlap[k]
				off := r.Intn(len(ov) + 1)
				for x := range ov {
					sh := ov[(x+off)%len(ov)]
					if len(sh.Evs) >= 3 {
						if n3 >= nest3 {
							continue
						}
						n3++
					}
					do(sh, "gated")
					if sh.Nested {
						do(sh, "nested")
					}
				}
			}
		}
	}
	return st
}

// ---------------------------------------------------------------------------- random shapes (B2)

// randomShape: e evaluations with k+1 grants each; nested: stack discipline
func randomShape(r *rand.Rand, e, k int, nested bool) []int {
	left := make([]int, e)
	for i := range left {
		left[i] = k + 1
	}
	var grants []int
	if !nested {
		total := e * (k + 1)
		for len(grants) < total {
			g := r.Intn(e)
			if left[g] > 0 {
				left[g]--
				grants = append(grants, g+1)
			}
		}
		return grants
	}
	var stack []int
	next := 0
	for next < e || len(stack) > 0 {
		if next < e && (len(stack) == 0 || r.Intn(2) == 0) {
			stack = append(stack, next)
			left[next]--
			grants = append(grants, next+1)
			next++
			continue
		}
		top := stack[len(stack)-1]
		left[top]--
		grants = append(grants, top+1)
		if left[top] == 0 {
			stack = stack[:len(stack)-1]
		}
	}
	return grants
}

package main

// C11 - scalar helper functions follow their documented semantics.
//   c11 replay : evaluates TLC-enumerated calls {f, args, expectation} (ExprScalar_Gen) through the real
//                compiler, every argument both as a template constant and as a match group (B1);
//                also records every evaluation for TLC (ExprScalar_Trace)
//   c11 trace  : seeded random calls, recorded as {f, args, pos, got, cerr, panic} (B2)

import (
	"bytes"
	"encoding/json"
	"flag"
	"fmt"
	"math/rand"
	"strconv"
	"strings"

	"rare/pkg/expressions"
	"rare/pkg/expressions/funclib"
	"rare/pkg/humanize"

	"verifharness/vh"
)

func main() {
	humanize.Enabled = true
	vh.Main(vh.Commands{"replay": c11Replay, "trace": c11Trace, "eval": c11Eval})
}

type M = vh.M

// ---------------------------------------------------------------------------- calling the real code

func esc(s string, set string) string {
	var sb strings.Builder
	for i := 0; i < len(s); i++ {
		if strings.IndexByte(set, s[i]) >= 0 {
			sb.WriteByte('\\')
		}
		sb.WriteByte(s[i])
	}
	return sb.String()
}

// constEnc writes arg as a quoted template constant.  Three readers see the text in turn: the
// statement scanner of Compile (escapes, brace depth), the argument splitter (quotes, escapes) and
// the Compile call for the argument itself.
func constEnc(arg string) string {
	t1 := esc(arg, "\\{}")
	t2 := "\"" + esc(t1, "\\\"") + "\""
	return esc(t2, "\\{}")
}

var idBuilder = func() *expressions.KeyBuilder {
	kb := expressions.NewKeyBuilder()
	kb.Func("id", func(args []expressions.KeyBuilderStage) (expressions.KeyBuilderStage, error) {
		if len(args) != 1 {
			return func(expressions.KeyBuilderContext) string { return "<id-argn>" }, nil
		}
		return args[0], nil
	})
	return kb
}()

var constOK = map[string]bool{}

// constUsable: does the encoded constant reach a helper unchanged?  (checked with a transparent
// function on a fresh KeyBuilder; bytes that are not valid UTF-8 cannot be written in a template)
func constUsable(arg string) (ok bool) {
	if v, has := constOK[arg]; has {
		return v
	}
	defer func() {
		if recover() != nil {
			ok = false
		}
		constOK[arg] = ok
	}()
	kb, err := idBuilder.Compile("{id " + constEnc(arg) + "}")
	if err != nil || kb == nil {
		return false
	}
	return kb.BuildKey(&expressions.KeyBuilderContextArray{}) == arg
}

type outcome struct {
	Template string
	Got      string
	Cerr     bool
	Panic    string
}

var builders = map[bool]*expressions.KeyBuilder{true: funclib.NewKeyBuilderEx(true), false: funclib.NewKeyBuilderEx(false)}

// evalCall compiles `{f a1 .. an}` with argument i as a constant (pos[i]=="c") or as a match group /
// named key (pos[i]=="d") and evaluates it.  named: dynamic arguments are read with {kN} instead of {N}.
func evalCall(f string, args []string, pos []string, opt bool, named bool) (o outcome) {
	var sb strings.Builder
	sb.WriteString("{" + f)
	ctx := &expressions.KeyBuilderContextArray{Elements: make([]string, len(args)), Keys: map[string]string{}}
	for i, a := range args {
		sb.WriteByte(' ')
		if pos[i] == "c" {
			sb.WriteString(constEnc(a))
			ctx.Elements[i] = "\x01unused"
		} else if named {
			fmt.Fprintf(&sb, "{k%d}", i)
			ctx.Keys["k"+strconv.Itoa(i)] = a
			ctx.Elements[i] = "\x01unused"
		} else {
			fmt.Fprintf(&sb, "{%d}", i)
			ctx.Elements[i] = a
		}
	}
	sb.WriteByte('}')
	o.Template = sb.String()
	defer func() {
		if r := recover(); r != nil {
			o.Panic = fmt.Sprint(r)
		}
	}()
	kb, err := builders[opt].Compile(o.Template)
	o.Cerr = err != nil
	if kb == nil {
		o.Panic = "compile returned no builder"
		return
	}
	o.Got = kb.BuildKey(ctx)
	// a compiled expression is reusable: a second evaluation must agree
	if again := kb.BuildKey(ctx); again != o.Got {
		o.Panic = fmt.Sprintf("second evaluation differs: %q then %q", o.Got, again)
	}
	return
}

// ---------------------------------------------------------------------------- expectations (from TLC)

type expect struct {
	K    string  `json:"k"`
	V    []int   `json:"v"`
	Alts [][]int `json:"alts"`
	Ce   string  `json:"ce"`
}

type altExp struct {
	Pos []string `json:"pos"`
	E   expect   `json:"e"`
}

type vector struct {
	F    string   `json:"f"`
	G    string   `json:"g"`
	Args [][]int  `json:"args"`
	Exp  expect   `json:"exp"`
	Alt  []altExp `json:"alt"`
}

var markers = map[string]bool{"<BAD-TYPE>": true, "<PARSE-ERROR>": true, "<ARGN>": true, "<CONST>": true,
	"<ENUM>": true, "<NAME>": true, "<EMPTY>": true, "<FILE>": true, "<VALUE>": true}

func truthClass(s string) string {
	if s == "" {
		return "empty"
	}
	blank, printable := true, false
	for i := 0; i < len(s); i++ {
		c := s[i]
		if !(c == 9 || c == 10 || c == 11 || c == 12 || c == 13 || c == 32) {
			blank = false
		}
		if c >= 33 && c <= 126 {
			printable = true
		}
	}
	if blank {
		return "blank"
	}
	if printable {
		return "true"
	}
	return "unknown"
}

func lowerASCII(s string) string {
	b := []byte(s)
	for i, c := range b {
		if c >= 'A' && c <= 'Z' {
			b[i] = c + 32
		}
	}
	return string(b)
}

// decide compares an observation with TLC's expectation.  "csv" (a relation between the result and
// the arguments) is left to TLC: decided=false.
func decide(e expect, o outcome) (ok bool, decided bool) {
	if o.Panic != "" {
		return false, true
	}
	if e.Ce == "y" && !o.Cerr || e.Ce == "n" && o.Cerr {
		return false, true
	}
	switch e.K {
	case "any":
		return true, true
	case "out":
		return o.Got == string(vh.FromInts(e.V)), true
	case "oneof":
		ci := len(e.V) == 1
		for _, a := range e.Alts {
			alt := string(vh.FromInts(a))
			if o.Got == alt || ci && lowerASCII(o.Got) == lowerASCII(alt) {
				return true, true
			}
		}
		return false, true
	case "truthy":
		return truthClass(o.Got) == "true", true
	case "falsy":
		c := truthClass(o.Got)
		return c == "empty" || c == "blank", true
	case "marker":
		return markers[o.Got], true
	}
	return true, false
}

func record(f string, args []string, pos []string, o outcome, opt bool) M {
	a := make([][]int, len(args))
	for i, s := range args {
		a[i] = vh.BS(s)
	}
	return M{"f": f, "args": a, "pos": pos, "got": vh.BS(o.Got), "cerr": o.Cerr, "panic": o.Panic != "", "opt": opt}
}

func patterns(n int) [][]string {
	out := make([][]string, 0, 1<<n)
	for m := 0; m < 1<<n; m++ {
		p := make([]string, n)
		for i := range p {
			if m&(1<<i) != 0 {
				p[i] = "d"
			} else {
				p[i] = "c"
			}
		}
		out = append(out, p)
	}
	return out
}

func samePos(a, b []string) bool {
	if len(a) != len(b) {
		return false
	}
	for i := range a {
		if a[i] != b[i] {
			return false
		}
	}
	return true
}

// ---------------------------------------------------------------------------- B1

func c11Replay(argv []string) error {
	fs := flag.NewFlagSet("c11-replay", flag.ExitOnError)
	in := fs.String("in", "", "vectors (ndjson, from ExprScalar_Gen)")
	out := fs.String("out", "c11-replay.json", "result file")
	tr := fs.String("trace", "", "also record every evaluation here (ndjson, for ExprScalar_Trace)")
	fs.Parse(argv)
	var w *vh.NdWriter
	if *tr != "" {
		var err error
		if w, err = vh.NewNdWriter(*tr); err != nil {
			return err
		}
		defer w.Close()
	}
	var mism, samples []M
	runs, vectors, skippedConst, deferred, nontrivial := 0, 0, 0, 0, 0
	perFunc := map[string]int{}
	err := vh.ReadNd(*in, func(raw json.RawMessage) error {
		var v vector
		if err := json.Unmarshal(raw, &v); err != nil {
			return err
		}
		vectors++
		args := make([]string, len(v.Args))
		for i, a := range v.Args {
			args[i] = string(vh.FromInts(a))
		}
		for pi, pos := range patterns(len(args)) {
			usable := true
			for i, p := range pos {
				if p == "c" && !constUsable(args[i]) {
					usable = false
				}
			}
			if !usable {
				skippedConst++
				continue
			}
			e := v.Exp
			for _, a := range v.Alt {
				if samePos(a.Pos, pos) {
					e = a.E
				}
			}
			for _, opt := range []bool{true, false} {
				if !opt && pi%3 != 0 { // the unoptimised compiler on a third of the patterns
					continue
				}
				o := evalCall(v.F, args, pos, opt, false)
				runs++
				perFunc[v.F]++
				if e.K != "any" {
					nontrivial++
				}
				if w != nil && opt {
					w.Write(record(v.F, args, pos, o, opt))
				}
				ok, decided := decide(e, o)
				if !decided {
					deferred++
				}
				if len(samples) < 8 && perFunc[v.F] == 40 && e.K != "any" && len(perFunc)%7 == 1 {
					samples = append(samples, M{"template": o.Template, "ctx": args, "got": o.Got, "expect": e})
				}
				if !ok {
					cls := e.K
					if o.Panic != "" {
						cls = "panic"
					} else if e.Ce == "y" && !o.Cerr || e.Ce == "n" && o.Cerr {
						cls = "cerr"
					}
					mism = append(mism, M{"f": v.F, "class": cls, "template": o.Template, "args": args, "pos": pos,
						"opt": opt, "got": o.Got, "cerr": o.Cerr, "panic": o.Panic, "expect": e,
						"expect_text": string(vh.FromInts(e.V))})
				}
			}
		}
		return nil
	})
	if err != nil {
		return err
	}
	vh.WriteJSON(*out, M{"vectors": vectors, "runs": runs, "distinct_nontrivial": nontrivial, "skipped_const": skippedConst,
		"deferred_to_tlc": deferred, "per_func": perFunc, "mismatches": mism, "samples": samples})
	return nil
}

// ---------------------------------------------------------------------------- B2 generators

type rnd struct{ *rand.Rand }

func (r rnd) pick(xs ...string) string { return xs[r.Intn(len(xs))] }

// integer with a uniformly chosen digit count (1..maxDigits), random sign
func (r rnd) intd(maxDigits int) string {
	d := 1 + r.Intn(maxDigits)
	n := r.Int63n(pow10(d))
	if r.Intn(2) == 0 {
		n = -n
	}
	return strconv.FormatInt(n, 10)
}

func pow10(d int) int64 {
	p := int64(1)
	for i := 0; i < d; i++ {
		p *= 10
	}
	return p
}

func (r rnd) nat(maxDigits int) string {
	d := 1 + r.Intn(maxDigits)
	return strconv.FormatInt(r.Int63n(pow10(d)), 10)
}

var noise = []string{"", "a", "abc", "1.5", " 1", "1 ", "+3", "007", "-0", "12345678901", "99999999999999999999",
	"1e3", "0x10", "inf", "NaN", "1_0", "12z", "5.", ".5", "--1", "1,234", "١", "-", ".", "\x00", "9223372036854775808"}

func (r rnd) noise() string { return noise[r.Intn(len(noise))] }

// a bad precision argument (never a large number: the formatter would allocate that many digits)
func (r rnd) precNoise() string { return r.pick("", "a", "1.5", " 1", "-1", "9", "x2", "99999999999999999999") }

// integer, occasionally something that is not one
func (r rnd) intn(maxDigits int) string {
	if r.Intn(12) == 0 {
		return r.noise()
	}
	return r.intd(maxDigits)
}

// finite decimal with at most `sig` significant digits and `frac` fraction digits
func (r rnd) dec(sig, frac int) string {
	d := 1 + r.Intn(sig)
	m := r.Int63n(pow10(d))
	f := r.Intn(frac + 1)
	s := strconv.FormatInt(m, 10)
	for len(s) <= f {
		s = "0" + s
	}
	if f > 0 {
		s = s[:len(s)-f] + "." + s[len(s)-f:]
	}
	if r.Intn(3) == 0 && m != 0 {
		s = "-" + s
	}
	return s
}

func (r rnd) decn(sig, frac int) string {
	if r.Intn(12) == 0 {
		return r.noise()
	}
	if r.Intn(3) == 0 {
		return r.intd(sig)
	}
	return r.dec(sig, frac)
}

func (r rnd) str(alpha string, maxLen int) string {
	n := r.Intn(maxLen + 1)
	b := make([]byte, n)
	for i := range b {
		b[i] = alpha[r.Intn(len(alpha))]
	}
	return string(b)
}

func (r rnd) bytes(maxLen int) string {
	n := r.Intn(maxLen + 1)
	b := make([]byte, n)
	for i := range b {
		b[i] = byte(r.Intn(256))
	}
	return string(b)
}

const ascii = "abcXYZ019 _-./:,;\"'{}\\%#@!\t"

func (r rnd) text(maxLen int) string {
	switch r.Intn(10) {
	case 0:
		return r.bytes(maxLen)
	case 1:
		return r.str("aé世 ", maxLen)
	}
	return r.str(ascii, maxLen)
}

func (r rnd) truthish() string {
	return r.pick("", "", "a", "0", "1", " ", "\t", "x y", " z", "false", "\xa0", "<BAD-TYPE>")
}

type generator func(r rnd) []string

func rep(n int, g func() string) []string {
	out := make([]string, n)
	for i := range out {
		out[i] = g()
	}
	return out
}

var generators = map[string]generator{}
var genOrder []string

func reg(g generator, names ...string) {
	for _, n := range names {
		generators[n] = g
		genOrder = append(genOrder, n)
	}
}

func init() {
	reg(func(r rnd) []string { // sums mostly within the model's range
		d := 1 + r.Intn(9)
		return rep(2+r.Intn(3), func() string { return r.intn(d) })
	}, "sumi", "subi", "maxi", "mini")
	reg(func(r rnd) []string {
		return rep(2+r.Intn(2), func() string { return r.intn(1 + r.Intn(4)) })
	}, "multi")
	reg(func(r rnd) []string {
		a := []string{r.intn(9), r.intn(1 + r.Intn(5))}
		if r.Intn(3) == 0 {
			a = append(a, r.intn(2))
		}
		return a
	}, "divi", "modi")
	reg(func(r rnd) []string {
		return rep(2+r.Intn(2), func() string {
			if r.Intn(10) == 0 {
				return r.decn(4, 2)
			}
			return r.intd(3)
		})
	}, "sumf", "subf", "multf", "divf")
	reg(func(r rnd) []string {
		return []string{r.pick(strconv.Itoa(1+r.Intn(40)), r.noise()), strconv.Itoa(r.Intn(7))}
	}, "pow")
	reg(func(r rnd) []string {
		n := r.Intn(1000)
		if r.Intn(2) == 0 {
			return []string{strconv.Itoa(n * n)}
		}
		return []string{r.decn(6, 2)}
	}, "sqrt")
	reg(func(r rnd) []string { return []string{r.decn(6, 2)} }, "log10", "log2", "ln")
	reg(func(r rnd) []string { return []string{r.decn(9, 5)} }, "floor", "ceil")
	reg(func(r rnd) []string {
		if r.Intn(3) == 0 {
			return []string{r.decn(9, 5)}
		}
		return []string{r.decn(9, 6), r.pick(strconv.Itoa(r.Intn(7)), strconv.Itoa(r.Intn(7)), strconv.Itoa(r.Intn(7)), r.precNoise())}
	}, "round")
	reg(func(r rnd) []string { return rep(2, func() string { return r.str("ab1 ", 2) }) }, "eq", "neq")
	reg(func(r rnd) []string { return []string{r.truthish()} }, "not")
	reg(func(r rnd) []string { return rep(1+r.Intn(4), r.truthish) }, "and", "or", "coalesce")
	reg(func(r rnd) []string { return append([]string{r.truthish()}, rep(1+r.Intn(2), func() string { return r.text(6) })...) }, "if")
	reg(func(r rnd) []string { return []string{r.truthish(), r.text(6)} }, "unless")
	reg(func(r rnd) []string {
		n := 2 + r.Intn(5)
		a := make([]string, n)
		for i := range a {
			if i%2 == 0 && i+1 < n {
				a[i] = r.truthish()
			} else {
				a[i] = r.str("vwxyz", 3)
			}
		}
		return a
	}, "switch")
	reg(func(r rnd) []string {
		switch r.Intn(3) {
		case 0:
			return []string{r.intn(18)}
		case 1:
			return []string{r.dec(9, 4)}
		}
		return []string{r.pick(r.noise(), r.text(5))}
	}, "isint", "isnum")
	reg(func(r rnd) []string {
		a := r.decn(8, 3)
		b := r.decn(8, 3)
		switch r.Intn(6) {
		case 0:
			b = a
		case 1:
			b = a + "0"
			if !strings.Contains(a, ".") {
				b = a + ".0"
			}
		}
		return []string{a, b}
	}, "lt", "gt", "lte", "gte")
	reg(func(r rnd) []string { return []string{r.text(24)} }, "len", "upper", "lower")
	reg(func(r rnd) []string {
		v := r.str("abc ", 8)
		sub := r.str("abc", 3)
		if len(v) > 0 && r.Intn(2) == 0 {
			i := r.Intn(len(v))
			j := i + r.Intn(len(v)-i+1)
			sub = v[i:j]
			switch r.Intn(3) {
			case 0:
				sub = v[:j]
			case 1:
				sub = v[i:]
			}
		}
		return []string{v, sub}
	}, "like", "prefix", "suffix")
	reg(func(r rnd) []string {
		return []string{r.str("abcdefgh 0123", 20), r.pick(strconv.Itoa(r.Intn(26)-2), r.noise(), strconv.Itoa(r.Intn(26))),
			r.pick(strconv.Itoa(r.Intn(26)-2), r.intd(9), strconv.Itoa(r.Intn(26)))}
	}, "substr")
	reg(func(r rnd) []string {
		n := r.Intn(6)
		var sb strings.Builder
		for i := 0; i < n; i++ {
			if i > 0 {
				sb.WriteString(r.pick(" ", " ", "\t", "  ", "\n", " \t "))
			}
			sb.WriteString(r.str("abc:/-1", 4) + "w")
		}
		s := sb.String()
		if r.Intn(10) == 0 {
			s = r.text(12)
		}
		return []string{s, r.pick(strconv.Itoa(r.Intn(7)), strconv.Itoa(r.Intn(7)), r.noise())}
	}, "select")
	reg(func(r rnd) []string { return rep(1+r.Intn(4), func() string { return r.text(5) }) }, "tab")
	reg(func(r rnd) []string {
		f := r.pick("%s", "%s=%s", "[%d]", "%5s|%-4s|", "%v%%", "n=%s %s %s", "%3s", "plain", "%q")
		n := strings.Count(strings.ReplaceAll(f, "%%", ""), "%")
		if r.Intn(8) == 0 {
			n = r.Intn(4)
		}
		return append([]string{f}, rep(n, func() string { return r.str("abc123 ", 7) })...)
	}, "format")
	reg(func(r rnd) []string {
		s := r.Int63n(pow10(1+r.Intn(6))) + 1
		if r.Intn(15) == 0 {
			s = -s + 1
		}
		var v string
		switch r.Intn(4) {
		case 0: // exact multiples, both signs
			v = strconv.FormatInt((r.Int63n(2001)-1000)*s, 10)
		case 1:
			v = strconv.FormatInt((r.Int63n(2001)-1000)*s+r.Int63n(3)-1, 10)
		default:
			v = r.intn(9)
		}
		return []string{v, strconv.FormatInt(s, 10)}
	}, "bucket", "bucketrange")
	reg(func(r rnd) []string {
		d := 1 + r.Intn(9)
		lo, _ := strconv.Atoi(r.intd(d))
		hi, _ := strconv.Atoi(r.intd(d))
		if lo > hi && r.Intn(10) != 0 {
			lo, hi = hi, lo
		}
		v := r.intn(d)
		switch r.Intn(6) {
		case 0:
			v = strconv.Itoa(lo)
		case 1:
			v = strconv.Itoa(hi)
		case 2:
			v = strconv.Itoa(lo - 1)
		case 3:
			v = strconv.Itoa(hi + 1)
		}
		return []string{v, strconv.Itoa(lo), strconv.Itoa(hi)}
	}, "clamp")
	reg(func(r rnd) []string {
		if r.Intn(3) == 0 {
			return []string{strconv.FormatInt(pow10(r.Intn(9))+r.Int63n(3)-1, 10)}
		}
		return []string{r.pick(r.nat(9), r.nat(9), r.intn(9))}
	}, "expbucket")
	reg(func(r rnd) []string {
		n := 1 + r.Intn(5)
		return rep(n, func() string {
			if r.Intn(8) == 0 {
				return r.bytes(6)
			}
			return r.str("ab,\"\r\n ;'\t\\", 6)
		})
	}, "csv")
	reg(func(r rnd) []string {
		if r.Intn(4) == 0 {
			n := pow10(r.Intn(9)) + r.Int63n(3) - 1
			if r.Intn(2) == 0 {
				n = -n
			}
			return []string{strconv.FormatInt(n, 10)}
		}
		return []string{r.intn(9)}
	}, "hi")
	reg(func(r rnd) []string { return []string{r.decn(9, 4)} }, "hf")
	reg(func(r rnd) []string {
		v := r.nat(9)
		switch r.Intn(8) {
		case 0:
			v = strconv.Itoa(1024*(1+r.Intn(2000)) + r.Intn(3) - 1)
		case 1:
			v = strconv.Itoa(1000*(1+r.Intn(2000)) + r.Intn(3) - 1)
		case 2:
			v = r.intn(9)
		}
		if r.Intn(2) == 0 {
			return []string{v}
		}
		return []string{v, r.pick("0", "1", "2", "3", "4", r.precNoise())}
	}, "bytesize", "bytesizesi", "downscale")
	reg(func(r rnd) []string {
		switch r.Intn(4) {
		case 0:
			return []string{r.decn(4, 4)}
		case 1:
			return []string{r.decn(4, 4), strconv.Itoa(r.Intn(5))}
		case 2:
			return []string{r.decn(4, 2), strconv.Itoa(r.Intn(5)), r.decn(4, 1)}
		}
		return []string{r.decn(4, 2), strconv.Itoa(r.Intn(5)), r.decn(3, 1), r.decn(4, 1)}
	}, "percent")
	reg(func(r rnd) []string {
		keys := []string{"k1", "k2", "k3", "key", "#c", "a", "b:1"}
		var sb strings.Builder
		n := r.Intn(7)
		for i := 0; i < n; i++ {
			switch r.Intn(8) {
			case 0:
				sb.WriteString("")
			case 1:
				sb.WriteString("#" + r.pick(keys...) + " v")
			case 2:
				sb.WriteString(r.pick(keys...) + " a b")
			case 3:
				sb.WriteString(r.pick(keys...))
			default:
				sb.WriteString(r.pick("", " ") + r.pick(keys...) + r.pick(" ", "\t", "  ") + r.pick("v1", "v2", "x", "1"))
			}
			if i+1 < n || r.Intn(2) == 0 {
				sb.WriteByte('\n')
			}
		}
		a := []string{r.pick(keys...), sb.String()}
		if r.Intn(3) == 0 {
			a = append(a, r.pick("#", "", "k", "#c"))
		}
		return a
	}, "lookup", "haskey")
	reg(func(r rnd) []string {
		n := 1 + r.Intn(4)
		segs := rep(n, func() string { return r.pick("a", "bb", "c.txt", "d.tar.gz", "e-1", "F_2", ".hid", "g.", "..", ".", "") })
		for i, s := range segs {
			if (s == "" || s == "." || s == "..") && r.Intn(5) != 0 {
				segs[i] = "seg"
			}
		}
		p := strings.Join(segs, "/")
		if r.Intn(4) == 0 {
			p = "/" + p
		}
		return []string{p}
	}, "basename", "dirname", "extname")
}

// ---------------------------------------------------------------------------- B2

func c11Trace(argv []string) error {
	fs := flag.NewFlagSet("c11-trace", flag.ExitOnError)
	out := fs.String("out", "c11-trace.ndjson", "trace file")
	n := fs.Int("n", 10000, "number of calls")
	fs.Parse(argv)
	w, err := vh.NewNdWriter(*out)
	if err != nil {
		return err
	}
	defer w.Close()
	r := rnd{vh.NewRand(11)}
	for i := 0; i < *n; i++ {
		f := genOrder[i%len(genOrder)]
		args := generators[f](r)
		pos := make([]string, len(args))
		mode := r.Intn(4) // all dynamic, all constant, mixed, mixed
		for j := range pos {
			switch {
			case mode == 0:
				pos[j] = "d"
			case mode == 1:
				pos[j] = "c"
			default:
				pos[j] = r.pick("c", "d")
			}
			if pos[j] == "c" && !constUsable(args[j]) {
				pos[j] = "d"
			}
		}
		// helpers with compile-time arguments: keep those constant most of the time
		if r.Intn(8) != 0 {
			for _, j := range constArgs[f] {
				if j < len(pos) && constUsable(args[j]) {
					pos[j] = "c"
				}
			}
		}
		opt := r.Intn(4) != 0
		o := evalCall(f, args, pos, opt, r.Intn(3) == 0)
		w.Write(record(f, args, pos, o, opt))
	}
	return nil
}

var constArgs = map[string][]int{"bucket": {1}, "bucketrange": {1}, "clamp": {1, 2}, "round": {1}, "percent": {1},
	"bytesize": {1}, "bytesizesi": {1}, "downscale": {1}, "lookup": {1, 2}, "haskey": {1, 2}, "format": {0}}

// c11 eval -f bucket -pos cd -- -100 50 : one call, for replaying a finding by hand
func c11Eval(argv []string) error {
	fs := flag.NewFlagSet("c11-eval", flag.ExitOnError)
	f := fs.String("f", "", "helper")
	pos := fs.String("pos", "", "c/d per argument (default all c)")
	noopt := fs.Bool("noopt", false, "compile without optimisation")
	fs.Parse(argv)
	args := fs.Args()
	p := make([]string, len(args))
	for i := range p {
		p[i] = "c"
		if i < len(*pos) {
			p[i] = string((*pos)[i])
		}
	}
	o := evalCall(*f, args, p, !*noopt, false)
	var buf bytes.Buffer
	json.NewEncoder(&buf).Encode(M{"template": o.Template, "got": o.Got, "cerr": o.Cerr, "panic": o.Panic})
	fmt.Print(buf.String())
	return nil
}

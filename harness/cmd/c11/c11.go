package main

// C11 - scalar helper functions follow their documented semantics.
//   c11 replay : evaluates TLC-enumerated calls {f, args, expectation} (ExprScalar_Gen) through the real
//                compiler, every argument both as a template constant and as a match group (B1);
//                also records every evaluation for TLC (ExprScalar_Trace)
//   c11 trace  : seeded random calls, recorded as {f, args, pos, got, cerr, panic} (B2)

import (
	"bytes"
	"encoding/json"
	"flag"
	"fmt"
	"math/big"
	"math/rand"
	"sort"
	"strconv"
	"strings"
	"sync"
	"unicode/utf8"

	"rare/pkg/expressions"
	"rare/pkg/expressions/funclib"
	"rare/pkg/humanize"

	"verifharness/vh"
)

func main() {
	humanize.Enabled = true
	vh.Main(vh.Commands{"replay": c11Replay, "trace": c11Trace, "eval": c11Eval})
}

type M = vh.M

// ---------------------------------------------------------------------------- calling the real code

func esc(s string, set string) string {
	var sb strings.Builder
	for i := 0; i < len(s); i++ {
		if strings.IndexByte(set, s[i]) >= 0 {
			sb.WriteByte('\\')
		}
		sb.WriteByte(s[i])
	}
	return sb.String()
}

// constEnc writes arg as a quoted template constant.  Three readers see the text in turn: the
// statement scanner of Compile (escapes, brace depth), the argument splitter (quotes, escapes) and
// the Compile call for the argument itself.
func constEnc(arg string) string {
	t1 := esc(arg, "\\{}")
	t2 := "\"" + esc(t1, "\\\"") + "\""
	return esc(t2, "\\{}")
}

var idBuilder = func() *expressions.KeyBuilder {
	kb := expressions.NewKeyBuilder()
	kb.Func("id", func(args []expressions.KeyBuilderStage) (expressions.KeyBuilderStage, error) {
		if len(args) != 1 {
			return func(expressions.KeyBuilderContext) string { return "<id-argn>" }, nil
		}
		return args[0], nil
	})
	return kb
}()

var constOK = map[string]bool{}

// constUsable: does the encoded constant reach a helper unchanged?  (checked with a transparent
// function on a fresh KeyBuilder; bytes that are not valid UTF-8 cannot be written in a template)
func constUsable(arg string) (ok bool) {
	if v, has := constOK[arg]; has {
		return v
	}
	defer func() {
		if recover() != nil {
			ok = false
		}
		constOK[arg] = ok
	}()
	kb, err := idBuilder.Compile("{id " + constEnc(arg) + "}")
	if err != nil || kb == nil {
		return false
	}
	return kb.BuildKey(&expressions.KeyBuilderContextArray{}) == arg
}

type outcome struct {
	Template string
	Got      string
	Cerr     bool
	Panic    string
}

var builders = map[bool]*expressions.KeyBuilder{true: funclib.NewKeyBuilderEx(true), false: funclib.NewKeyBuilderEx(false)}

// compiled is one compiled expression `{f a1 .. an}`: argument i is a constant of the template
// (pos[i]=="c") or read from the context as a match group {i} / named key {ki} (pos[i]=="d").
type compiled struct {
	kb       *expressions.CompiledKeyBuilder
	f        string
	pos      []string
	named    bool
	opt      bool
	Template string
	Cerr     bool
	Panic    string
}

func compileCall(f string, args []string, pos []string, opt bool, named bool) (c *compiled) {
	var sb strings.Builder
	sb.WriteString("{" + f)
	for i, a := range args {
		sb.WriteByte(' ')
		if pos[i] == "c" {
			sb.WriteString(constEnc(a))
		} else if named {
			fmt.Fprintf(&sb, "{k%d}", i)
		} else {
			fmt.Fprintf(&sb, "{%d}", i)
		}
	}
	sb.WriteByte('}')
	c = &compiled{f: f, pos: pos, named: named, opt: opt, Template: sb.String()}
	defer func() {
		if r := recover(); r != nil {
			c.Panic = fmt.Sprint(r)
		}
	}()
	kb, err := builders[opt].Compile(c.Template)
	c.Cerr = err != nil
	c.kb = kb
	if kb == nil {
		c.Panic = "compile returned no builder"
	}
	return
}

// eval evaluates the compiled expression on the context that holds the dynamic arguments of args
func (c *compiled) eval(args []string) (o outcome) { return c.evalHook(args, nil) }

// hookCtx is a context whose reads call hook first (the points where an evaluation can be suspended
// from outside: see shapes.go)
type hookCtx struct {
	expressions.KeyBuilderContextArray
	hook func()
}

func (h *hookCtx) GetMatch(idx int) string {
	h.hook()
	return h.KeyBuilderContextArray.GetMatch(idx)
}

func (h *hookCtx) GetKey(key string) string {
	h.hook()
	return h.KeyBuilderContextArray.GetKey(key)
}

func (c *compiled) evalHook(args []string, hook func()) (o outcome) {
	o.Template, o.Cerr, o.Panic = c.Template, c.Cerr, c.Panic
	if c.Panic != "" {
		return
	}
	hc := &hookCtx{hook: hook}
	hc.Elements, hc.Keys = make([]string, len(args)), map[string]string{}
	ctx := &hc.KeyBuilderContextArray
	for i, a := range args {
		if c.pos[i] == "c" || c.named {
			ctx.Elements[i] = "\x01unused"
		} else {
			ctx.Elements[i] = a
		}
		if c.pos[i] == "d" && c.named {
			ctx.Keys["k"+strconv.Itoa(i)] = a
		}
	}
	defer func() {
		if r := recover(); r != nil {
			o.Panic = fmt.Sprint(r)
		}
	}()
	if hook != nil {
		o.Got = c.kb.BuildKey(hc)
	} else {
		o.Got = c.kb.BuildKey(ctx)
	}
	return
}

// evalCall compiles and evaluates one call on a fresh compiled expression
func evalCall(f string, args []string, pos []string, opt bool, named bool) (o outcome) {
	c := compileCall(f, args, pos, opt, named)
	o = c.eval(args)
	// a second evaluation on the same context must agree
	if again := c.eval(args); o.Panic == "" && (again.Got != o.Got || again.Panic != "") {
		o.Panic = fmt.Sprintf("second evaluation differs: %q then %q %s", o.Got, again.Got, again.Panic)
	}
	return
}

// ---------------------------------------------------------------------------- expectations (from TLC)

type expect struct {
	K    string  `json:"k"`
	V    []int   `json:"v"`
	Alts [][]int `json:"alts"`
	Ce   string  `json:"ce"`
}

type altExp struct {
	Pos []string `json:"pos"`
	E   expect   `json:"e"`
}

type vector struct {
	F    string   `json:"f"`
	G    string   `json:"g"`
	Args [][]int  `json:"args"`
	Exp  expect   `json:"exp"`
	Alt  []altExp `json:"alt"`
}

var markers = map[string]bool{"<BAD-TYPE>": true, "<PARSE-ERROR>": true, "<ARGN>": true, "<CONST>": true,
	"<ENUM>": true, "<NAME>": true, "<EMPTY>": true, "<FILE>": true, "<VALUE>": true}

func truthClass(s string) string {
	if s == "" {
		return "empty"
	}
	blank, printable := true, false
	for i := 0; i < len(s); i++ {
		c := s[i]
		if !(c == 9 || c == 10 || c == 11 || c == 12 || c == 13 || c == 32) {
			blank = false
		}
		if c >= 33 && c <= 126 {
			printable = true
		}
	}
	if blank {
		return "blank"
	}
	if printable {
		return "true"
	}
	// ExprScalarText.tla: UTF-8 text, White_Space code points, certainly visible characters
	allWS, wellFormed, visible := true, true, false
	for i := 0; i < len(s); {
		r, n := utf8.DecodeRuneInString(s[i:])
		if r == utf8.RuneError && n <= 1 {
			wellFormed, allWS = false, false
		} else {
			if !whiteSpace(r) {
				allWS = false
			}
			if visibleRune(r) {
				visible = true
			}
		}
		i += n
	}
	if allWS {
		return "blank"
	}
	if wellFormed && visible {
		return "true"
	}
	return "unknown"
}

// the Unicode property White_Space (U8WS of ExprScalarText.tla)
func whiteSpace(r rune) bool {
	switch {
	case r >= 9 && r <= 13, r == 32, r == 0x85, r == 0xA0, r == 0x1680, r >= 0x2000 && r <= 0x200A,
		r == 0x2028, r == 0x2029, r == 0x202F, r == 0x205F, r == 0x3000:
		return true
	}
	return false
}

// U8Visible of ExprScalarText.tla
func visibleRune(r rune) bool {
	for _, iv := range [][2]rune{{33, 126}, {161, 172}, {174, 591}, {913, 929}, {945, 969}, {1040, 1103}, {1488, 1514}, {1632, 1641},
		{8364, 8364}, {8592, 8703}, {12353, 12438}, {19968, 40959}, {44032, 55203}, {128512, 128591}} {
		if r >= iv[0] && r <= iv[1] {
			return true
		}
	}
	return false
}

// DecOK of ExprScalar.tla: [sign] digits [. digits] with at least one digit
func decOK(s string) bool {
	if s != "" && (s[0] == '+' || s[0] == '-') {
		s = s[1:]
	}
	dots, digits := 0, 0
	for i := 0; i < len(s); i++ {
		switch {
		case s[i] == '.':
			dots++
		case s[i] >= '0' && s[i] <= '9':
			digits++
		default:
			return false
		}
	}
	return dots <= 1 && digits >= 1
}

func lowerASCII(s string) string {
	b := []byte(s)
	for i, c := range b {
		if c >= 'A' && c <= 'Z' {
			b[i] = c + 32
		}
	}
	return string(b)
}

// decide compares an observation with TLC's expectation.  "csv" (a relation between the result and
// the arguments) is left to TLC: decided=false.
func decide(e expect, o outcome) (ok bool, decided bool) {
	if o.Panic != "" {
		return false, true
	}
	if e.Ce == "y" && !o.Cerr || e.Ce == "n" && o.Cerr {
		return false, true
	}
	switch e.K {
	case "any":
		return true, true
	case "out":
		return o.Got == string(vh.FromInts(e.V)), true
	case "oneof":
		ci := len(e.V) == 1
		for _, a := range e.Alts {
			alt := string(vh.FromInts(a))
			if o.Got == alt || ci && lowerASCII(o.Got) == lowerASCII(alt) {
				return true, true
			}
		}
		return false, true
	case "truthy":
		return truthClass(o.Got) == "true", true
	case "falsy":
		c := truthClass(o.Got)
		return c == "empty" || c == "blank", true
	case "marker":
		return markers[o.Got], true
	case "notnum":
		return !decOK(o.Got), true
	}
	return true, false
}

func record(f string, args []string, pos []string, o outcome, opt bool) M {
	a := make([][]int, len(args))
	for i, s := range args {
		a[i] = vh.BS(s)
	}
	return M{"f": f, "args": a, "pos": pos, "got": vh.BS(o.Got), "cerr": o.Cerr, "panic": o.Panic != "", "opt": opt}
}

// recWriter writes records for TLC.  The specification's verdict is a function of
// (f, args, pos, got, cerr, panic): an observation identical to one already written is not written
// again (histories re-evaluate the same calls many times; only a *different* result is new).
type recWriter struct {
	w       *vh.NdWriter
	seen    map[string]bool
	Written int
	Same    int
}

func newRecWriter(path string) (*recWriter, error) {
	w, err := vh.NewNdWriter(path)
	if err != nil {
		return nil, err
	}
	return &recWriter{w: w, seen: map[string]bool{}}, nil
}

func obsKey(f string, args []string, pos []string, o outcome) string {
	return f + "\x00" + strings.Join(pos, "") + "\x00" + strconv.Itoa(len(args)) + "\x00" + strings.Join(args, "\x00\x01") +
		"\x00\x02" + o.Got + "\x00" + strconv.FormatBool(o.Cerr) + strconv.FormatBool(o.Panic != "")
}

// write records one observation; extra fields (history position, ...) are ignored by the trace spec
func (rw *recWriter) write(f string, args []string, pos []string, o outcome, opt bool, extra M) {
	if rw == nil {
		return
	}
	k := obsKey(f, args, pos, o)
	if rw.seen[k] {
		rw.Same++
		return
	}
	rw.seen[k] = true
	rec := record(f, args, pos, o, opt)
	for _, key := range []string{"hist", "step", "goroutines", "shape", "eval"} { // integers only: TLC reads every field
		if v, has := extra[key]; has {
			rec[key] = v
		}
	}
	rw.w.Write(rec)
	rw.Written++
}

func (rw *recWriter) written() int {
	if rw == nil {
		return 0
	}
	return rw.Written
}

func (rw *recWriter) same() int {
	if rw == nil {
		return 0
	}
	return rw.Same
}

func (rw *recWriter) Close() {
	if rw != nil {
		rw.w.Close()
	}
}

func dynIdx(pos []string) []int {
	var d []int
	for i, p := range pos {
		if p == "d" {
			d = append(d, i)
		}
	}
	return d
}

// concurrent evaluates one compiled expression from len(ctxs) goroutines, goroutine g on ctxs[g],
// `rounds` times each, and returns every distinct outcome seen per context.
func concurrent(c *compiled, ctxs [][]string, rounds int) [][]outcome {
	res := make([][]outcome, len(ctxs))
	var wg sync.WaitGroup
	start := make(chan struct{})
	for g := range ctxs {
		wg.Add(1)
		go func(g int) {
			defer wg.Done()
			<-start
			seen := map[string]bool{}
			for i := 0; i < rounds; i++ {
				o := c.eval(ctxs[g])
				k := o.Got + "\x00" + o.Panic
				if !seen[k] {
					seen[k] = true
					res[g] = append(res[g], o)
				}
			}
		}(g)
	}
	close(start)
	wg.Wait()
	return res
}

func patterns(n int) [][]string {
	out := make([][]string, 0, 1<<n)
	for m := 0; m < 1<<n; m++ {
		p := make([]string, n)
		for i := range p {
			if m&(1<<i) != 0 {
				p[i] = "d"
			} else {
				p[i] = "c"
			}
		}
		out = append(out, p)
	}
	return out
}

func samePos(a, b []string) bool {
	if len(a) != len(b) {
		return false
	}
	for i := range a {
		if a[i] != b[i] {
			return false
		}
	}
	return true
}

// ---------------------------------------------------------------------------- B1

type entry struct {
	args []string
	v    *vector
}

func expectFor(v *vector, pos []string) expect {
	for _, a := range v.Alt {
		if samePos(a.Pos, pos) {
			return a.E
		}
	}
	return v.Exp
}

func mismatchClass(e expect, o outcome) string {
	if o.Panic != "" {
		return "panic"
	}
	if e.Ce == "y" && !o.Cerr || e.Ce == "n" && o.Cerr {
		return "cerr"
	}
	return e.K
}

func c11Replay(argv []string) error {
	fs := flag.NewFlagSet("c11-replay", flag.ExitOnError)
	in := fs.String("in", "", "vectors (ndjson, from ExprScalar_Gen)")
	out := fs.String("out", "c11-replay.json", "result file")
	tr := fs.String("trace", "", "also record every evaluation here (ndjson, for ExprScalar_Trace)")
	shapesIn := fs.String("shapes", "", "evaluation shapes (ndjson, from ExprScalarHist_Gen)")
	npools := fs.Int("pools", 2, "pools of calls per helper/arity/position pattern the shapes are realised on")
	nest3 := fs.Int("nest3", 150, "shapes with 3 overlapping evaluations per pool")
	fs.Parse(argv)
	var rw *recWriter
	if *tr != "" {
		var err error
		if rw, err = newRecWriter(*tr); err != nil {
			return err
		}
		defer rw.Close()
	}
	var mism, samples []M
	nmism := 0
	runs, vectors, skippedConst, deferred, nontrivial := 0, 0, 0, 0, 0
	perFunc := map[string]int{}
	groups := map[string][]*entry{} // calls of one helper with one arity, in generation order
	var groupOrder []string

	// judge compares one observation with TLC's expectation and records it for TLC
	judge := func(v *vector, args, pos []string, o outcome, opt bool, extra M) {
		e := expectFor(v, pos)
		runs++
		perFunc[v.F]++
		if e.K != "any" {
			nontrivial++
		}
		if opt || extra != nil {
			rw.write(v.F, args, pos, o, opt, extra)
		}
		ok, decided := decide(e, o)
		if !decided {
			deferred++
		}
		if extra == nil && len(samples) < 8 && perFunc[v.F] == 40 && e.K != "any" && len(perFunc)%7 == 1 {
			samples = append(samples, M{"template": o.Template, "ctx": args, "got": o.Got, "expect": e})
		}
		if !ok {
			nmism++
			if len(mism) < 3000 {
				m := M{"f": v.F, "class": mismatchClass(e, o), "template": o.Template, "args": args, "pos": pos,
					"opt": opt, "got": o.Got, "cerr": o.Cerr, "panic": o.Panic, "expect": e,
					"expect_text": string(vh.FromInts(e.V))}
				for k, x := range extra {
					m[k] = x
				}
				mism = append(mism, m)
			}
		}
	}

	// ---- every call on a freshly compiled expression, in every constant/dynamic position pattern
	err := vh.ReadNd(*in, func(raw json.RawMessage) error {
		v := &vector{}
		if err := json.Unmarshal(raw, v); err != nil {
			return err
		}
		vectors++
		args := make([]string, len(v.Args))
		for i, a := range v.Args {
			args[i] = string(vh.FromInts(a))
		}
		gk := v.F + "/" + strconv.Itoa(len(args))
		if _, has := groups[gk]; !has {
			groupOrder = append(groupOrder, gk)
		}
		groups[gk] = append(groups[gk], &entry{args, v})
		for pi, pos := range patterns(len(args)) {
			usable := true
			for i, p := range pos {
				if p == "c" && !constUsable(args[i]) {
					usable = false
				}
			}
			if !usable {
				skippedConst++
				continue
			}
			for _, opt := range []bool{true, false} {
				if !opt && pi%3 != 0 { // the unoptimised compiler on a third of the patterns
					continue
				}
				judge(v, args, pos, evalCall(v.F, args, pos, opt, false), opt, nil)
			}
		}
		return nil
	})
	if err != nil {
		return err
	}

	// ---- evaluation histories: a compiled expression must be a function of its current context.
	// The calls of one helper that share the constants of a position pattern are evaluated through ONE
	// compiled expression: once per dynamic argument with that argument varying fastest (consecutive
	// contexts differ in exactly that argument), once shuffled, with earlier contexts revisited.
	sort.Strings(groupOrder)
	r := vh.NewRand(17)
	histExprs, histSteps, goRuns := 0, 0, 0
	for _, gk := range groupOrder {
		es := groups[gk]
		f := es[0].v.F
		n := len(es[0].args)
		for _, pos := range patterns(n) {
			dyn := dynIdx(pos)
			if len(dyn) == 0 {
				continue
			}
			parts := map[string][]*entry{}
			var partOrder []string
			for _, e := range es {
				var key strings.Builder
				usable := true
				for i, p := range pos {
					if p == "c" {
						usable = usable && constUsable(e.args[i])
						key.WriteString(e.args[i] + "\x00\x01")
					}
				}
				if !usable {
					continue
				}
				k := key.String()
				if _, has := parts[k]; !has {
					partOrder = append(partOrder, k)
				}
				parts[k] = append(parts[k], e)
			}
			for pn, pk := range partOrder {
				part := parts[pk]
				if len(part) < 2 {
					continue
				}
				histExprs++
				opt := histExprs%3 != 2
				c := compileCall(f, part[0].args, pos, opt, histExprs%2 == 1)
				step := 0
				prev := []string{}
				do := func(e *entry) {
					o := c.eval(e.args)
					histSteps++
					judge(e.v, e.args, pos, o, opt, M{"hist": histExprs, "step": step, "prev": prev, "template": c.Template})
					step++
					prev = e.args
				}
				run := func(order []*entry) {
					for i, e := range order {
						do(e)
						if i%4 == 3 { // revisit earlier contexts
							do(order[i-2])
							do(order[0])
						}
					}
				}
				for _, j := range dyn {
					order := append([]*entry(nil), part...)
					sort.SliceStable(order, func(a, b int) bool {
						for _, i := range dyn {
							if i != j && order[a].args[i] != order[b].args[i] {
								return order[a].args[i] < order[b].args[i]
							}
						}
						return order[a].args[j] < order[b].args[j]
					})
					run(order)
				}
				order := append([]*entry(nil), part...)
				r.Shuffle(len(order), func(a, b int) { order[a], order[b] = order[b], order[a] })
				run(order)
				// the same compiled expression from 2-4 goroutines on different contexts
				if pn == 0 {
					g := 2 + r.Intn(3)
					if g > len(part) {
						g = len(part)
					}
					ctxs := make([][]string, g)
					for i := range ctxs {
						ctxs[i] = order[i].args
					}
					for i, outs := range concurrent(c, ctxs, 150) {
						for _, o := range outs {
							goRuns++
							judge(order[i].v, ctxs[i], pos, o, opt, M{"hist": histExprs, "goroutines": g, "template": c.Template})
						}
					}
				}
			}
		}
	}
	var sst shapeStats
	nshapes := 0
	if *shapesIn != "" {
		ss, err := loadShapes(*shapesIn)
		if err != nil {
			return err
		}
		nshapes = ss.n
		sst = runShapes(ss, groups, groupOrder, judge, *npools, *nest3)
	}
	vh.WriteJSON(*out, M{"shapes": nshapes, "shape_pools": sst.Pools, "shape_serial_runs": sst.Serial, "shape_gated_runs": sst.Gated,
		"shape_nested_runs": sst.Nested, "shape_evaluations": sst.Evals, "vectors": vectors, "runs": runs, "distinct_nontrivial": nontrivial, "skipped_const": skippedConst,
		"deferred_to_tlc": deferred, "per_func": perFunc, "mismatches": mism, "mismatch_count": nmism, "samples": samples,
		"history_expressions": histExprs, "history_steps": histSteps, "goroutine_observations": goRuns,
		"records_written": rw.written(), "records_identical": rw.same()})
	return nil
}

// ---------------------------------------------------------------------------- B2 generators

type rnd struct{ *rand.Rand }

func (r rnd) pick(xs ...string) string { return xs[r.Intn(len(xs))] }

// integer with a uniformly chosen digit count (1..maxDigits), random sign
func (r rnd) intd(maxDigits int) string {
	d := 1 + r.Intn(maxDigits)
	n := r.Int63n(pow10(d))
	if r.Intn(2) == 0 {
		n = -n
	}
	return strconv.FormatInt(n, 10)
}

func pow10(d int) int64 {
	p := int64(1)
	for i := 0; i < d; i++ {
		p *= 10
	}
	return p
}

func (r rnd) nat(maxDigits int) string {
	d := 1 + r.Intn(maxDigits)
	return strconv.FormatInt(r.Int63n(pow10(d)), 10)
}

var noise = []string{"", "a", "abc", "1.5", " 1", "1 ", "+3", "007", "-0", "12345678901", "99999999999999999999",
	"1e3", "0x10", "inf", "NaN", "1_0", "12z", "5.", ".5", "--1", "1,234", "١", "-", ".", "\x00", "9223372036854775808"}

func (r rnd) noise() string { return noise[r.Intn(len(noise))] }

// a bad precision argument (never a large number: the formatter would allocate that many digits)
func (r rnd) precNoise() string { return r.pick("", "a", "1.5", " 1", "-1", "9", "x2", "99999999999999999999") }

// integer, occasionally something that is not one
func (r rnd) intn(maxDigits int) string {
	if r.Intn(12) == 0 {
		return r.noise()
	}
	return r.intd(maxDigits)
}

// finite decimal with at most `sig` significant digits and `frac` fraction digits
func (r rnd) dec(sig, frac int) string {
	d := 1 + r.Intn(sig)
	m := r.Int63n(pow10(d))
	f := r.Intn(frac + 1)
	s := strconv.FormatInt(m, 10)
	for len(s) <= f {
		s = "0" + s
	}
	if f > 0 {
		s = s[:len(s)-f] + "." + s[len(s)-f:]
	}
	if r.Intn(3) == 0 && m != 0 {
		s = "-" + s
	}
	return s
}

func (r rnd) decn(sig, frac int) string {
	if r.Intn(12) == 0 {
		return r.noise()
	}
	if r.Intn(3) == 0 {
		return r.intd(sig)
	}
	return r.dec(sig, frac)
}

func (r rnd) str(alpha string, maxLen int) string {
	n := r.Intn(maxLen + 1)
	b := make([]byte, n)
	for i := range b {
		b[i] = alpha[r.Intn(len(alpha))]
	}
	return string(b)
}

func (r rnd) bytes(maxLen int) string {
	n := r.Intn(maxLen + 1)
	b := make([]byte, n)
	for i := range b {
		b[i] = byte(r.Intn(256))
	}
	return string(b)
}

const ascii = "abcXYZ019 _-./:,;\"'{}\\%#@!\t"

func (r rnd) text(maxLen int) string {
	switch r.Intn(10) {
	case 0:
		return r.bytes(maxLen)
	case 1:
		return r.str("aé世 ", maxLen)
	}
	return r.str(ascii, maxLen)
}

func (r rnd) truthish() string {
	if r.Intn(3) == 0 {
		return r.blankish()
	}
	return r.pick("", "", "a", "0", "1", " ", "\t", "x y", " z", "false", "\xa0", "<BAD-TYPE>")
}

// every White_Space code point, then code points next to them and other invisible ones, then visible ones
var wsRunes = []rune{9, 10, 11, 12, 13, 32, 0x85, 0xA0, 0x1680, 0x2000, 0x2001, 0x2002, 0x2003, 0x2004, 0x2005, 0x2006, 0x2007,
	0x2008, 0x2009, 0x200A, 0x2028, 0x2029, 0x202F, 0x205F, 0x3000}
var nearRunes = []rune{0x84, 0x86, 0xAD, 0x180E, 0x1FFF, 0x200B, 0x200C, 0x200E, 0x2027, 0x202A, 0x2030, 0x205E, 0x2060, 0x2FFF, 0x3001, 0xFEFF, 0}
var visRunes = []rune{'a', '0', '-', 0xA1, 0xE9, 0x416, 0x4E16, 0x1F600}

// blankish: a value of 1-4 code points, mostly white space of every kind (alone, mixed with the ASCII blanks), sometimes
// with a near miss, a visible character or an ill-formed byte in it
func (r rnd) blankish() string {
	n := 1 + r.Intn(4)
	var sb strings.Builder
	for i := 0; i < n; i++ {
		sb.WriteRune(wsRunes[r.Intn(len(wsRunes))])
	}
	s := sb.String()
	at := r.Intn(len(s) + 1)
	for at < len(s) && !utf8.RuneStart(s[at]) {
		at++
	}
	switch r.Intn(8) {
	case 0:
		return s[:at] + string(nearRunes[r.Intn(len(nearRunes))]) + s[at:]
	case 1:
		return s[:at] + string(visRunes[r.Intn(len(visRunes))]) + s[at:]
	case 2:
		return s[:at] + r.pick("\xa0", "\x85", "\xc2", "\xe2\x80", "\xc0\xa0", "\xed\xa0\x80", "\xff") + s[at:]
	}
	return s
}

// bigDec: a decimal beyond the 9-digit model that binary64 often holds exactly: m * 2^k (m < 2^53), optionally with a dyadic
// fraction, powers of ten, values next to 2^53 / 2^63 / 2^64, either sign
func (r rnd) bigDec() string {
	var t string
	switch r.Intn(6) {
	case 0, 1:
		m := new(big.Int).SetInt64(1 + r.Int63n(1<<uint(1+r.Intn(53))))
		t = m.Lsh(m, uint(r.Intn(80))).String()
	case 2:
		k := 31 + r.Intn(22) // integer part below 2^53, fraction of 1..(53-k) binary places (at most 6)
		m := new(big.Int).SetInt64(1<<uint(k-1) + r.Int63n(1<<uint(k-1)))
		places := 1 + r.Intn(min(6, 53-k))
		num := 1 + 2*r.Int63n(1<<uint(places-1)) // odd numerator over 2^places
		fr := new(big.Int).Mul(big.NewInt(num), new(big.Int).Exp(big.NewInt(5), big.NewInt(int64(places)), nil))
		t = m.String() + "." + fmt.Sprintf("%0*s", places, fr.String())
	case 3:
		t = strconv.Itoa(1+r.Intn(999)) + strings.Repeat("0", 9+r.Intn(16))
	case 4:
		base := new(big.Int).Lsh(big.NewInt(1), uint([]int{53, 63, 64}[r.Intn(3)]))
		t = base.Add(base, big.NewInt(int64(r.Intn(5)-2)*int64([]int{1, 1024, 2048}[r.Intn(3)]))).String()
	default:
		t = r.nat(9) + r.nat(9) + r.pick("", "", ".5", ".25", "."+r.nat(3))
	}
	if r.Intn(3) == 0 {
		t = "-" + t
	}
	return t
}

func (r rnd) nonFinite() string {
	return r.pick("inf", "+Inf", "-inf", "-Inf", "Infinity", "-infinity", "NaN", "nan", "INF")
}

// bigOrDec: the argument of floor / ceil / round
func (r rnd) bigOrDec(sig, frac int) string {
	switch r.Intn(12) {
	case 0, 1, 2:
		return r.bigDec()
	case 3:
		return r.nonFinite()
	case 4:
		return r.expForm()
	}
	return r.decn(sig, frac)
}

// expForm: scientific notation, mantissas and exponents that often give a value binary64 holds exactly
func (r rnd) expForm() string {
	m := r.pick("1", "5", "25", "125", "1.5", "2.5", "9.223372036854775808", "1024", r.nat(3), r.dec(4, 3))
	if r.Intn(4) == 0 {
		m = "-" + m
	}
	e := r.Intn(26) - 3
	sep := r.pick("e", "e", "E")
	if e >= 0 && r.Intn(3) == 0 {
		sep += "+"
	}
	return m + sep + strconv.Itoa(e)
}

type generator func(r rnd) []string

func rep(n int, g func() string) []string {
	out := make([]string, n)
	for i := range out {
		out[i] = g()
	}
	return out
}

var generators = map[string]generator{}
var genOrder []string

func reg(g generator, names ...string) {
	for _, n := range names {
		generators[n] = g
		genOrder = append(genOrder, n)
	}
}

func init() {
	reg(func(r rnd) []string { // sums mostly within the model's range
		d := 1 + r.Intn(9)
		return rep(2+r.Intn(3), func() string { return r.intn(d) })
	}, "sumi", "subi", "maxi", "mini")
	reg(func(r rnd) []string {
		return rep(2+r.Intn(2), func() string { return r.intn(1 + r.Intn(4)) })
	}, "multi")
	reg(func(r rnd) []string {
		a := []string{r.intn(9), r.intn(1 + r.Intn(5))}
		if r.Intn(3) == 0 {
			a = append(a, r.intn(2))
		}
		return a
	}, "divi", "modi")
	reg(func(r rnd) []string {
		return rep(2+r.Intn(2), func() string {
			if r.Intn(10) == 0 {
				return r.decn(4, 2)
			}
			return r.intd(3)
		})
	}, "sumf", "subf", "multf", "divf")
	reg(func(r rnd) []string {
		return []string{r.pick(strconv.Itoa(1+r.Intn(40)), r.noise()), strconv.Itoa(r.Intn(7))}
	}, "pow")
	reg(func(r rnd) []string {
		n := r.Intn(1000)
		if r.Intn(2) == 0 {
			return []string{strconv.Itoa(n * n)}
		}
		return []string{r.decn(6, 2)}
	}, "sqrt")
	reg(func(r rnd) []string { return []string{r.decn(6, 2)} }, "log10", "log2", "ln")
	reg(func(r rnd) []string { return []string{r.bigOrDec(9, 5)} }, "floor", "ceil")
	reg(func(r rnd) []string {
		if r.Intn(3) == 0 {
			return []string{r.bigOrDec(9, 5)}
		}
		return []string{r.bigOrDec(9, 6), r.pick(strconv.Itoa(r.Intn(7)), strconv.Itoa(r.Intn(7)), strconv.Itoa(r.Intn(7)), r.precNoise())}
	}, "round")
	reg(func(r rnd) []string { return rep(2, func() string { return r.str("ab1 ", 2) }) }, "eq", "neq")
	reg(func(r rnd) []string { return []string{r.truthish()} }, "not")
	reg(func(r rnd) []string { return rep(1+r.Intn(4), r.truthish) }, "and", "or", "coalesce")
	reg(func(r rnd) []string { return append([]string{r.truthish()}, rep(1+r.Intn(2), func() string { return r.text(6) })...) }, "if")
	reg(func(r rnd) []string { return []string{r.truthish(), r.text(6)} }, "unless")
	reg(func(r rnd) []string {
		n := 2 + r.Intn(5)
		a := make([]string, n)
		for i := range a {
			if i%2 == 0 && i+1 < n {
				a[i] = r.truthish()
			} else {
				a[i] = r.str("vwxyz", 3)
			}
		}
		return a
	}, "switch")
	reg(func(r rnd) []string {
		switch r.Intn(3) {
		case 0:
			return []string{r.intn(18)}
		case 1:
			return []string{r.dec(9, 4)}
		}
		return []string{r.pick(r.noise(), r.text(5))}
	}, "isint", "isnum")
	reg(func(r rnd) []string {
		a := r.decn(8, 3)
		b := r.decn(8, 3)
		switch r.Intn(6) {
		case 0:
			b = a
		case 1:
			b = a + "0"
			if !strings.Contains(a, ".") {
				b = a + ".0"
			}
		}
		return []string{a, b}
	}, "lt", "gt", "lte", "gte")
	reg(func(r rnd) []string { return []string{r.text(24)} }, "len", "upper", "lower")
	reg(func(r rnd) []string {
		v := r.str("abc ", 8)
		sub := r.str("abc", 3)
		if len(v) > 0 && r.Intn(2) == 0 {
			i := r.Intn(len(v))
			j := i + r.Intn(len(v)-i+1)
			sub = v[i:j]
			switch r.Intn(3) {
			case 0:
				sub = v[:j]
			case 1:
				sub = v[i:]
			}
		}
		return []string{v, sub}
	}, "like", "prefix", "suffix")
	reg(func(r rnd) []string {
		return []string{r.str("abcdefgh 0123", 20), r.pick(strconv.Itoa(r.Intn(26)-2), r.noise(), strconv.Itoa(r.Intn(26))),
			r.pick(strconv.Itoa(r.Intn(26)-2), r.intd(9), strconv.Itoa(r.Intn(26)))}
	}, "substr")
	reg(func(r rnd) []string {
		n := r.Intn(6)
		var sb strings.Builder
		for i := 0; i < n; i++ {
			if i > 0 {
				sb.WriteString(r.pick(" ", " ", "\t", "  ", "\n", " \t "))
			}
			sb.WriteString(r.str("abc:/-1", 4) + "w")
		}
		s := sb.String()
		if r.Intn(10) == 0 {
			s = r.text(12)
		}
		return []string{s, r.pick(strconv.Itoa(r.Intn(7)), strconv.Itoa(r.Intn(7)), r.noise())}
	}, "select")
	reg(func(r rnd) []string { return rep(1+r.Intn(4), func() string { return r.text(5) }) }, "tab")
	reg(func(r rnd) []string {
		f := r.pick("%s", "%s=%s", "[%d]", "%5s|%-4s|", "%v%%", "n=%s %s %s", "%3s", "plain", "%q")
		n := strings.Count(strings.ReplaceAll(f, "%%", ""), "%")
		if r.Intn(8) == 0 {
			n = r.Intn(4)
		}
		return append([]string{f}, rep(n, func() string { return r.str("abc123 ", 7) })...)
	}, "format")
	reg(func(r rnd) []string {
		s := r.Int63n(pow10(1+r.Intn(6))) + 1
		if r.Intn(15) == 0 {
			s = -s + 1
		}
		var v string
		switch r.Intn(4) {
		case 0: // exact multiples, both signs
			v = strconv.FormatInt((r.Int63n(2001)-1000)*s, 10)
		case 1:
			v = strconv.FormatInt((r.Int63n(2001)-1000)*s+r.Int63n(3)-1, 10)
		default:
			v = r.intn(9)
		}
		return []string{v, strconv.FormatInt(s, 10)}
	}, "bucket", "bucketrange")
	reg(func(r rnd) []string {
		d := 1 + r.Intn(9)
		lo, _ := strconv.Atoi(r.intd(d))
		hi, _ := strconv.Atoi(r.intd(d))
		if lo > hi && r.Intn(10) != 0 {
			lo, hi = hi, lo
		}
		v := r.intn(d)
		switch r.Intn(6) {
		case 0:
			v = strconv.Itoa(lo)
		case 1:
			v = strconv.Itoa(hi)
		case 2:
			v = strconv.Itoa(lo - 1)
		case 3:
			v = strconv.Itoa(hi + 1)
		}
		return []string{v, strconv.Itoa(lo), strconv.Itoa(hi)}
	}, "clamp")
	reg(func(r rnd) []string {
		if r.Intn(3) == 0 {
			return []string{strconv.FormatInt(pow10(r.Intn(9))+r.Int63n(3)-1, 10)}
		}
		return []string{r.pick(r.nat(9), r.nat(9), r.intn(9))}
	}, "expbucket")
	reg(func(r rnd) []string {
		n := 1 + r.Intn(5)
		return rep(n, func() string {
			if r.Intn(8) == 0 {
				return r.bytes(6)
			}
			return r.str("ab,\"\r\n ;'\t\\", 6)
		})
	}, "csv")
	reg(func(r rnd) []string {
		if r.Intn(4) == 0 {
			n := pow10(r.Intn(9)) + r.Int63n(3) - 1
			if r.Intn(2) == 0 {
				n = -n
			}
			return []string{strconv.FormatInt(n, 10)}
		}
		return []string{r.intn(9)}
	}, "hi")
	reg(func(r rnd) []string { return []string{r.decn(9, 4)} }, "hf")
	reg(func(r rnd) []string {
		v := r.nat(9)
		switch r.Intn(8) {
		case 0:
			v = strconv.Itoa(1024*(1+r.Intn(2000)) + r.Intn(3) - 1)
		case 1:
			v = strconv.Itoa(1000*(1+r.Intn(2000)) + r.Intn(3) - 1)
		case 2:
			v = r.intn(9)
		}
		if r.Intn(2) == 0 {
			return []string{v}
		}
		return []string{v, r.pick("0", "1", "2", "3", "4", r.precNoise())}
	}, "bytesize", "bytesizesi", "downscale")
	reg(func(r rnd) []string {
		switch r.Intn(4) {
		case 0:
			return []string{r.decn(4, 4)}
		case 1:
			return []string{r.decn(4, 4), strconv.Itoa(r.Intn(5))}
		case 2:
			return []string{r.decn(4, 2), strconv.Itoa(r.Intn(5)), r.decn(4, 1)}
		}
		return []string{r.decn(4, 2), strconv.Itoa(r.Intn(5)), r.decn(3, 1), r.decn(4, 1)}
	}, "percent")
	reg(func(r rnd) []string {
		keys := []string{"k1", "k2", "k3", "key", "#c", "a", "b:1"}
		var sb strings.Builder
		n := r.Intn(7)
		for i := 0; i < n; i++ {
			switch r.Intn(8) {
			case 0:
				sb.WriteString("")
			case 1:
				sb.WriteString("#" + r.pick(keys...) + " v")
			case 2:
				sb.WriteString(r.pick(keys...) + " a b")
			case 3:
				sb.WriteString(r.pick(keys...))
			default:
				sb.WriteString(r.pick("", " ") + r.pick(keys...) + r.pick(" ", "\t", "  ") + r.pick("v1", "v2", "x", "1"))
			}
			if i+1 < n || r.Intn(2) == 0 {
				sb.WriteByte('\n')
			}
		}
		a := []string{r.pick(keys...), sb.String()}
		if r.Intn(3) == 0 {
			a = append(a, r.pick("#", "", "k", "#c"))
		}
		return a
	}, "lookup", "haskey")
	reg(func(r rnd) []string {
		n := 1 + r.Intn(4)
		segs := rep(n, func() string { return r.pick("a", "bb", "c.txt", "d.tar.gz", "e-1", "F_2", ".hid", "g.", "..", ".", "") })
		for i, s := range segs {
			if (s == "" || s == "." || s == "..") && r.Intn(5) != 0 {
				segs[i] = "seg"
			}
		}
		p := strings.Join(segs, "/")
		if r.Intn(4) == 0 {
			p = "/" + p
		}
		return []string{p}
	}, "basename", "dirname", "extname")
}

// ---------------------------------------------------------------------------- B2

// c11Trace records random evaluation HISTORIES: every compiled expression is evaluated on a sequence of
// at least 6 contexts; consecutive contexts differ in exactly one dynamic argument (each dynamic index
// in turn), with earlier contexts revisited and values that are errors for the helper mixed in.  Every
// step is an ordinary record; a sample of expressions is also evaluated from 2-4 goroutines.
func c11Trace(argv []string) error {
	fs := flag.NewFlagSet("c11-trace", flag.ExitOnError)
	out := fs.String("out", "c11-trace.ndjson", "trace file")
	n := fs.Int("n", 10000, "number of evaluations")
	stats := fs.String("stats", "", "write counters here (json)")
	fs.Parse(argv)
	rw, err := newRecWriter(*out)
	if err != nil {
		return err
	}
	defer rw.Close()
	r := rnd{vh.NewRand(11)}
	steps, exprs, goObs, goExprs, shapeRuns, shapeEvals := 0, 0, 0, 0, 0, 0
	startWatchdog()
	for steps < *n {
		f := genOrder[exprs%len(genOrder)]
		exprs++
		args := generators[f](r)
		pos := make([]string, len(args))
		mode := r.Intn(5) // all dynamic (twice as likely), all constant, mixed, mixed
		for j := range pos {
			switch {
			case mode <= 1:
				pos[j] = "d"
			case mode == 2:
				pos[j] = "c"
			default:
				pos[j] = r.pick("c", "d")
			}
			if pos[j] == "c" && !constUsable(args[j]) {
				pos[j] = "d"
			}
		}
		// helpers with compile-time arguments: keep those constant most of the time
		if r.Intn(8) != 0 {
			for _, j := range constArgs[f] {
				if j < len(pos) && constUsable(args[j]) {
					pos[j] = "c"
				}
			}
		}
		opt := r.Intn(4) != 0
		c := compileCall(f, args, pos, opt, r.Intn(3) == 0)
		dyn := dynIdx(pos)
		cur := args
		visited := [][]string{cur}
		o := c.eval(cur)
		steps++
		rw.write(f, cur, pos, o, opt, M{"hist": exprs, "step": 0})
		if len(dyn) == 0 {
			continue
		}
		length := 6 + r.Intn(5)
		for st := 1; st < length; st++ {
			if r.Intn(5) == 0 && len(visited) > 1 {
				cur = visited[r.Intn(len(visited))] // an earlier context again
			} else {
				j := dyn[(st-1)%len(dyn)]
				val := r.noise() // often an error for the helper
				if r.Intn(4) != 0 {
					if fresh := generators[f](r); j < len(fresh) {
						val = fresh[j]
					}
				}
				next := append([]string(nil), cur...)
				next[j] = val
				cur = next
				visited = append(visited, cur)
			}
			o := c.eval(cur)
			steps++
			rw.write(f, cur, pos, o, opt, M{"hist": exprs, "step": st})
		}
		// random evaluation shapes (ExprScalarHist): 2-3 evaluations of the expression (and of a second
		// compilation of its template) on visited contexts, advancing from context read to context read
		// in a random order - in goroutines of their own and, with stack discipline, nested on one
		if exprs%3 == 0 && len(visited) >= 2 {
			insts := []*compiled{c, compileCall(f, args, pos, opt, c.named)}
			k := len(dyn)
			if k > 3 {
				k = 3
			}
			for rep := 0; rep < 3; rep++ {
				ne := 2 + r.Intn(2)
				nested := rep == 2
				grants := randomShape(r.Rand, ne, k, nested)
				evs := make([][2]int, ne)
				eargs := make([][]string, ne)
				for x := range evs {
					evs[x] = [2]int{1 + r.Intn(2), 0}
					eargs[x] = visited[r.Intn(len(visited))]
				}
				runs := [][]outcome{runGated(insts, evs, grants, eargs)}
				if nested {
					runs = append(runs, runNested(insts, evs, grants, eargs))
				}
				for _, outs := range runs {
					shapeRuns++
					for x, o := range outs {
						shapeEvals++
						rw.write(f, eargs[x], pos, o, opt, M{"hist": exprs, "shape": rep, "eval": x + 1})
					}
				}
			}
		}
		if exprs%6 == 0 && len(visited) >= 2 {
			g := 2 + r.Intn(3)
			if g > len(visited) {
				g = len(visited)
			}
			goExprs++
			for i, outs := range concurrent(c, visited[:g], 150) {
				for _, o := range outs {
					goObs++
					rw.write(f, visited[i], pos, o, opt, M{"hist": exprs, "goroutines": g})
				}
			}
		}
	}
	if *stats != "" {
		vh.WriteJSON(*stats, M{"shape_runs": shapeRuns, "shape_evaluations": shapeEvals, "evaluations": steps, "expressions": exprs, "goroutine_expressions": goExprs,
			"goroutine_observations": goObs, "records_written": rw.Written, "records_identical": rw.Same})
	}
	return nil
}

var constArgs = map[string][]int{"bucket": {1}, "bucketrange": {1}, "clamp": {1, 2}, "round": {1}, "percent": {1},
	"bytesize": {1}, "bytesizesi": {1}, "downscale": {1}, "lookup": {1, 2}, "haskey": {1, 2}, "format": {0}}

// c11 eval -f bucket -pos cd -- -100 50 : one call, for replaying a finding by hand
func c11Eval(argv []string) error {
	fs := flag.NewFlagSet("c11-eval", flag.ExitOnError)
	f := fs.String("f", "", "helper")
	pos := fs.String("pos", "", "c/d per argument (default all c)")
	noopt := fs.Bool("noopt", false, "compile without optimisation")
	fs.Parse(argv)
	args := fs.Args()
	p := make([]string, len(args))
	for i := range p {
		p[i] = "c"
		if i < len(*pos) {
			p[i] = string((*pos)[i])
		}
	}
	o := evalCall(*f, args, p, !*noopt, false)
	var buf bytes.Buffer
	json.NewEncoder(&buf).Encode(M{"template": o.Template, "got": o.Got, "cerr": o.Cerr, "panic": o.Panic})
	fmt.Print(buf.String())
	return nil
}

package main

import (
	"bufio"
	"encoding/json"
	"fmt"
	"math/rand"
	"os"
	"strconv"
)

// B converts bytes to the integer-array encoding used on the TLA+ side.
func B(b []byte) []int {
	out := make([]int, len(b))
	for i, c := range b {
		out[i] = int(c)
	}
	return out
}

func BS(s string) []int { return B([]byte(s)) }

// R converts a string to its code points.
func R(s string) []int {
	rs := []rune(s)
	out := make([]int, len(rs))
	for i, c := range rs {
		out[i] = int(c)
	}
	return out
}

func FromInts(a []int) []byte {
	out := make([]byte, len(a))
	for i, c := range a {
		out[i] = byte(c)
	}
	return out
}

func RunesFromInts(a []int) string {
	out := make([]rune, len(a))
	for i, c := range a {
		out[i] = rune(c)
	}
	return string(out)
}

type M = map[string]interface{}

type ndWriter struct {
	f *os.File
	w *bufio.Writer
	n int
}

func newNdWriter(path string) (*ndWriter, error) {
	f, err := os.Create(path)
	if err != nil {
		return nil, err
	}
	return &ndWriter{f: f, w: bufio.NewWriterSize(f, 1<<20)}, nil
}

func (s *ndWriter) Write(v interface{}) {
	b, err := json.Marshal(v)
	if err != nil {
		panic(err)
	}
	s.w.Write(b)
	s.w.WriteByte('\n')
	s.n++
}

func (s *ndWriter) Close() {
	s.w.Flush()
	s.f.Close()
}

func readNd(path string, each func(raw json.RawMessage) error) error {
	f, err := os.Open(path)
	if err != nil {
		return err
	}
	defer f.Close()
	sc := bufio.NewScanner(f)
	sc.Buffer(make([]byte, 1<<20), 1<<30)
	for sc.Scan() {
		line := sc.Bytes()
		if len(line) == 0 {
			continue
		}
		cp := make([]byte, len(line))
		copy(cp, line)
		if err := each(cp); err != nil {
			return err
		}
	}
	return sc.Err()
}

func seed() int64 {
	if v := os.Getenv("VERIF_SEED"); v != "" {
		if n, err := strconv.ParseInt(v, 10, 64); err == nil {
			return n
		}
	}
	return 1
}

func newRand(salt int64) *rand.Rand { return rand.New(rand.NewSource(seed()*1000003 + salt)) }

func writeJSON(path string, v interface{}) {
	b, _ := json.MarshalIndent(v, "", " ")
	if err := os.WriteFile(path, b, 0o644); err != nil {
		fmt.Fprintln(os.Stderr, "write", path, err)
	}
}

func eqInts(a, b []int) bool {
	if len(a) != len(b) {
		return false
	}
	for i := range a {
		if a[i] != b[i] {
			return false
		}
	}
	return true
}

package main

import (
	"fmt"
	"os"
	"sort"
)

// commands is filled by the per-area files (init functions).
var commands = map[string]func(args []string) error{}

func main() {
	if len(os.Args) < 2 {
		names := make([]string, 0, len(commands))
		for k := range commands {
			names = append(names, k)
		}
		sort.Strings(names)
		fmt.Fprintln(os.Stderr, "usage: verifdrv <command> [flags]; commands:", names)
		os.Exit(64)
	}
	f, ok := commands[os.Args[1]]
	if !ok {
		fmt.Fprintln(os.Stderr, "unknown command", os.Args[1])
		os.Exit(64)
	}
	if err := f(os.Args[2:]); err != nil {
		fmt.Fprintln(os.Stderr, "verifdrv:", err)
		os.Exit(3)
	}
}

package main

// C12 - dissect matcher conformance.
//   replay : replays the TLC-enumerated (pattern, ignore-case, line) vectors of Dissect_Gen on
//            dissect.CompileEx + FindSubmatchIndex, ONE instance per vector for all its lines and
//            rounds (the index pool is refilled many times); all results re-read at the end (B1)
//   trace  : records random patterns / lines (small alphabet and arbitrary bytes), one long-lived
//            instance per trace, results re-read at the end (B2; TLC computes every expectation)
//   cli    : `rare filter -d <pattern> [-I] -l -e <expr>` over generated files (B2)
//   conc   : W goroutines, each with its own instance of ONE compiled pattern, at the same time;
//            also through extractor.New and `rare filter -w W` (B2, see conc.go)
//
// The driver never decides what a match should be: expectations come from TLC.

import (
	"bufio"
	"bytes"
	"encoding/json"
	"errors"
	"flag"
	"fmt"
	"math/rand"
	"os"
	"os/exec"
	"path/filepath"
	"sort"
	"strconv"
	"strings"

	"rare/pkg/matchers/dissect"

	"verifharness/vh"
)

func main() {
	vh.Main(vh.Commands{"replay": c12Replay, "trace": c12Trace, "cli": c12Cli, "conc": c12Conc, "conc1": c12Conc1})
}

type M = vh.M

var B = vh.B

func errClass(err error) string {
	switch {
	case err == nil:
		return "ok"
	case errors.Is(err, dissect.ErrorUnclosedToken):
		return "unclosed"
	case errors.Is(err, dissect.ErrorSequentialToken):
		return "sequential"
	case errors.Is(err, dissect.ErrorKeyConflict):
		return "conflict"
	}
	return "other:" + err.Error()
}

// compile under recover; a panic is reported as class "panic:..."
func compile(pat []byte, ic bool) (d *dissect.Dissect, class string) {
	defer func() {
		if r := recover(); r != nil {
			d, class = nil, fmt.Sprint("panic:", r)
		}
	}()
	d, err := dissect.CompileEx(string(pat), ic)
	return d, errClass(err)
}

// name table sorted by group index: [[name bytes, index], ...]
func nameTable(d *dissect.Dissect) [][2]interface{} {
	tbl := d.SubexpNameTable()
	type kv struct {
		k string
		v int
	}
	var l []kv
	for k, v := range tbl {
		l = append(l, kv{k, v})
	}
	sort.Slice(l, func(i, j int) bool {
		if l[i].v != l[j].v {
			return l[i].v < l[j].v
		}
		return l[i].k < l[j].k
	})
	out := make([][2]interface{}, 0, len(l))
	for _, e := range l {
		out = append(out, [2]interface{}{vh.BS(e.k), e.v})
	}
	return out
}

func find(inst *dissect.DissectInstance, line []byte) (res []int, pan string) {
	defer func() {
		if r := recover(); r != nil {
			res, pan = nil, fmt.Sprint(r)
		}
	}()
	return inst.FindSubmatchIndex(line), ""
}

func ints(a []int) []int { // never nil (JSON [] instead of null)
	if a == nil {
		return []int{}
	}
	return append([]int{}, a...)
}

// ------------------------------------------------------------------------------------------ B1

type genVector struct {
	LineSet int             `json:"lineset"`
	Lines   [][]int         `json:"lines"`
	Pat     []int           `json:"pat"`
	IC      bool            `json:"ic"`
	Errs    []string        `json:"errs"`
	Names   json.RawMessage `json:"names"`
	Groups  int             `json:"groups"`
	LS      int             `json:"ls"`
	Exp     [][]int         `json:"exp"`
	XL      [][]int         `json:"xl"`
	XExp    [][]int         `json:"xexp"`
}

type mismatch struct {
	Kind string      `json:"kind"`
	Pat  []int       `json:"pat"`
	PatS string      `json:"pat_s"`
	IC   bool        `json:"ic"`
	Line []int       `json:"line,omitempty"`
	Got  interface{} `json:"got"`
	Want interface{} `json:"want"`
	Call int         `json:"call,omitempty"`
}

func toBytesList(l [][]int) [][]byte {
	out := make([][]byte, len(l))
	for i := range l {
		out[i] = vh.FromInts(l[i])
	}
	return out
}

func c12Replay(args []string) error {
	fs := flag.NewFlagSet("c12-replay", flag.ExitOnError)
	in := fs.String("in", "", "TLC output holding VFJ lines")
	out := fs.String("out", "", "result json")
	minRes := fs.Int("minres", 2200, "repeat the lines of a vector until this many results were handed out")
	maxCalls := fs.Int("maxcalls", 12000, "... but at most this many calls per vector")
	deepEvery := fs.Int("deepevery", 97, "every n-th repeated vector keeps its instance for -deepres results")
	deepRes := fs.Int("deepres", 40000, "results handed out by a deep vector's instance")
	every := fs.Int("every", 1, "do the repetition only for every n-th vector (the others run their lines once)")
	fs.Parse(args)

	f, err := os.Open(*in)
	if err != nil {
		return err
	}
	defer f.Close()
	sc := bufio.NewScanner(f)
	sc.Buffer(make([]byte, 1<<20), 1<<30)

	lineSets := map[int][][]byte{}
	var pending []genVector // vectors seen before their line set
	counts := map[string]int{}
	var mism []mismatch
	add := func(m mismatch) {
		counts[m.Kind]++
		if counts[m.Kind] <= 6 {
			m.PatS = string(vh.FromInts(m.Pat))
			mism = append(mism, m)
		}
	}
	var vectors, errVectors, cases, calls, nontrivial, refilled, undetermined, repeated, deep int
	var samples []M

	runVector := func(v *genVector) {
		vectors++
		pat := vh.FromInts(v.Pat)
		d, class := compile(pat, v.IC)
		if len(v.Errs) > 0 {
			errVectors++
			cases++
			ok := false
			for _, e := range v.Errs {
				ok = ok || e == class
			}
			if !ok {
				kind := "compile:wrong-error"
				if class == "ok" {
					kind = "compile:accepted-invalid"
				}
				add(mismatch{Kind: kind, Pat: v.Pat, IC: v.IC, Got: class, Want: v.Errs})
			}
			return
		}
		if class != "ok" {
			add(mismatch{Kind: "compile:rejected-valid", Pat: v.Pat, IC: v.IC, Got: class, Want: "ok"})
			return
		}
		gotNames, _ := json.Marshal(nameTable(d))
		var wantNames, gn interface{}
		json.Unmarshal(v.Names, &wantNames)
		json.Unmarshal(gotNames, &gn)
		wn, _ := json.Marshal(wantNames)
		gnb, _ := json.Marshal(gn)
		if !bytes.Equal(wn, gnb) {
			add(mismatch{Kind: "names", Pat: v.Pat, IC: v.IC, Got: gn, Want: wantNames})
		}

		base := lineSets[v.LS]
		lines := make([][]byte, 0, len(base)+len(v.XL))
		lines = append(lines, base...)
		lines = append(lines, toBytesList(v.XL)...)
		exp := make([][]int, 0, len(lines))
		exp = append(exp, v.Exp...)
		exp = append(exp, v.XExp...)
		if len(exp) != len(lines) {
			panic(fmt.Sprintf("vector has %d lines and %d verdicts", len(lines), len(exp)))
		}
		mode := "cs"
		if v.IC {
			mode = "ic"
		}

		inst := d.CreateInstance() // ONE instance for everything below
		type heldT struct {
			res  []int // the slice exactly as returned (retained)
			cp   []int // copy taken at return time
			li   int
			call int
		}
		var held []heldT
		handed, ncall := 0, 0
		want, limit := *minRes, *maxCalls
		repeat := vectors%*every == 0
		for round := 0; ; round++ {
			for i, line := range lines {
				buf := append([]byte{}, line...) // the caller's buffer is private to the call
				got, pan := find(inst, buf)
				ncall++
				if round == 0 {
					cases++
					e := exp[i]
					if pan != "" {
						add(mismatch{Kind: mode + ":panic", Pat: v.Pat, IC: v.IC, Line: B(line), Got: pan, Want: e})
						continue
					}
					if len(e) == 2 && e[0] == -1 { // the property leaves the indices open
						undetermined++
						if e[1] == 1 && got == nil {
							add(mismatch{Kind: "ic:lost-match", Pat: v.Pat, IC: v.IC, Line: B(line), Got: ints(got), Want: "a match (the case-sensitive matcher matches)"})
						} else if got != nil && !wellFormed(got, v.Groups, len(line)) {
							add(mismatch{Kind: "ic:malformed", Pat: v.Pat, IC: v.IC, Line: B(line), Got: ints(got), Want: "ordered offsets within the line"})
						}
					} else if !vh.EqInts(got, e) || (got == nil) != (len(e) == 0) {
						kind := ":indices"
						if got == nil {
							kind = ":missed"
						} else if len(e) == 0 {
							kind = ":spurious"
						}
						add(mismatch{Kind: mode + kind, Pat: v.Pat, IC: v.IC, Line: B(line), Got: ints(got), Want: e})
					}
					if len(e) > 2 && e[0] != -1 && len(line) > 0 {
						nontrivial++
					}
				}
				if got != nil {
					handed++
					held = append(held, heldT{got, append([]int{}, got...), i, ncall})
				}
			}
			if round == 0 && repeat && handed*4 >= ncall { // matches often enough to be worth repeating
				repeated++
				if repeated%*deepEvery == 0 {
					deep++
					want, limit = *deepRes, 12**deepRes
				}
			}
			if handed >= want || ncall >= limit || handed == 0 || !repeat {
				break
			}
		}
		calls += ncall
		if handed > 2048 {
			refilled++
		}
		// results returned for earlier lines are not altered by matching later lines
		for _, h := range held {
			if !vh.EqInts(h.res, h.cp) {
				add(mismatch{Kind: "late:altered", Pat: v.Pat, IC: v.IC, Line: B(lines[h.li]), Got: ints(h.res), Want: h.cp, Call: h.call})
				break
			}
		}
		if len(samples) < 4 && len(v.Pat) > 8 && handed > 0 {
			i := held[len(held)/2].li
			samples = append(samples, M{"pat": string(pat), "ic": v.IC, "line": string(lines[i]), "spec": exp[i], "calls_on_instance": ncall})
		}
	}

	for sc.Scan() {
		raw := sc.Bytes()
		if !bytes.HasPrefix(raw, []byte(`"VFJ `)) {
			continue
		}
		var s string
		if err := json.Unmarshal(raw, &s); err != nil {
			return fmt.Errorf("bad VFJ line: %v", err)
		}
		var v genVector
		if err := json.Unmarshal([]byte(s[4:]), &v); err != nil {
			return fmt.Errorf("bad vector: %v", err)
		}
		if v.LineSet != 0 {
			lineSets[v.LineSet] = toBytesList(v.Lines)
			rest := pending[:0]
			for i := range pending {
				if _, ok := lineSets[pending[i].LS]; ok {
					runVector(&pending[i])
				} else {
					rest = append(rest, pending[i])
				}
			}
			pending = rest
			continue
		}
		if _, ok := lineSets[v.LS]; !ok && len(v.Errs) == 0 {
			pending = append(pending, v)
			continue
		}
		runVector(&v)
	}
	if err := sc.Err(); err != nil {
		return err
	}
	if len(pending) > 0 {
		return fmt.Errorf("%d vectors without a line set", len(pending))
	}
	vh.WriteJSON(*out, M{"vectors": vectors, "error_vectors": errVectors, "runs": cases, "calls": calls,
		"distinct_nontrivial": nontrivial, "refilled_instances": refilled, "deep_instances": deep, "undetermined": undetermined,
		"counts": counts, "mismatches": mism, "samples": samples})
	return nil
}

// structural reading of "all offsets ordered and within the line" for results whose indices the
// property leaves open; n and the line length are inputs of the vector
func wellFormed(r []int, groups, lineLen int) bool {
	if len(r) != 2*groups+2 {
		return false
	}
	for _, x := range r {
		if x < 0 || x > lineLen {
			return false
		}
	}
	prev := r[0]
	for _, x := range r[2:] {
		if x < prev {
			return false
		}
		prev = x
	}
	return prev <= r[1]
}

// ------------------------------------------------------------------------------------------ B2

var smallSyms = []string{"a", "A", "b", ":", " ", "é", "É", "::", "ab", "B"}

type genTok struct {
	name  string
	until string
	skip  bool
}

type genPat struct {
	prefix string
	toks   []genTok
	tail   string // unclosed tail or ""
}

func (p *genPat) text() string {
	var sb strings.Builder
	sb.WriteString(p.prefix)
	for _, t := range p.toks {
		sb.WriteString("%{")
		if t.skip && t.name != "" {
			sb.WriteString("?")
		}
		sb.WriteString(t.name)
		sb.WriteString("}")
		sb.WriteString(t.until)
	}
	sb.WriteString(p.tail)
	return sb.String()
}

// leadless: letters in both cases and bytes >= 0x80 that no UTF-8 sequence can hold or begin
var leadless = []byte("aAbBzZ:= \x80\xbf\xc0\xc1\xf5\xfe\xff\xff\xfe")

// nearMiss replaces one byte >= 0x80 of s by a different byte that is invalid UTF-8 as well
func nearMiss(r *rand.Rand, s string) string {
	b := []byte(s)
	var at []int
	for i, c := range b {
		if c >= 0x80 {
			at = append(at, i)
		}
	}
	if len(at) == 0 {
		return s
	}
	i := at[r.Intn(len(at))]
	for {
		c := []byte{0x80, 0xbf, 0xc0, 0xc1, 0xf5, 0xfe, 0xff}[r.Intn(7)]
		if c != b[i] {
			b[i] = c
			return string(b)
		}
	}
}

func randLit(r *rand.Rand, mode int, allowEmpty bool) string {
	if allowEmpty && r.Intn(4) == 0 {
		return ""
	}
	switch mode {
	case 0: // small alphabet of the model
		n := 1 + r.Intn(2)
		s := ""
		for i := 0; i < n; i++ {
			s += smallSyms[r.Intn(len(smallSyms))]
		}
		return s
	case 1: // printable ASCII, mixed case
		n := 1 + r.Intn(4)
		b := make([]byte, n)
		const cs = "abcXYZ xyzABC:;-=[]\"'/09_|}{"
		for i := range b {
			b[i] = cs[r.Intn(len(cs))]
		}
		return string(b)
	case 3: // ASCII letters and bytes that are invalid UTF-8 wherever they stand (no lead byte in the text)
		n := 1 + r.Intn(3)
		b := make([]byte, n)
		for i := range b {
			b[i] = leadless[r.Intn(len(leadless))]
		}
		return string(b)
	default: // any bytes but '%'
		n := 1 + r.Intn(3)
		b := make([]byte, n)
		for i := range b {
			c := byte(r.Intn(256))
			if r.Intn(3) == 0 {
				c = byte(0xC0 + r.Intn(0x40)) // many UTF-8 lead bytes / Latin-1 letters
			}
			if c == '%' {
				c = '&'
			}
			b[i] = c
		}
		return string(b)
	}
}

// casePool: names that differ only in the case of a letter (distinct keys for the matcher, with and without -I)
var casePool = []string{"a", "A", "ab", "Ab", "aB", "AB", "x1", "X1", "k_", "K_", "Id", "ID", "id"}

func randName(r *rand.Rand, mode int, cliSafe bool) string {
	const cs = "abcxyz019_"
	if r.Intn(3) == 0 {
		return casePool[r.Intn(len(casePool))]
	}
	n := 1 + r.Intn(3)
	b := make([]byte, n)
	for i := range b {
		b[i] = cs[r.Intn(len(cs))]
	}
	if cliSafe {
		b[0] = cs[r.Intn(6)]
		return string(b)
	}
	if mode == 2 && r.Intn(4) == 0 { // odd bytes in a name (not '}' and not '%')
		c := byte(r.Intn(256))
		if c == '}' || c == '%' || c == '?' {
			c = '-'
		}
		b[0] = c
	}
	if b[0] == '?' {
		b[0] = 'q'
	}
	return string(b)
}

// mostly valid patterns; errFrac of them carry one of the documented errors
func randPattern(r *rand.Rand, mode int, cliSafe bool, allowErr bool) genPat {
	var p genPat
	if r.Intn(3) != 0 {
		p.prefix = randLit(r, mode, false)
	}
	nt := r.Intn(5)
	if r.Intn(12) == 0 {
		nt = 5 + r.Intn(4)
	}
	used := map[string]bool{}
	for i := 0; i < nt; i++ {
		var t genTok
		t.until = randLit(r, mode, i == nt-1)
		switch r.Intn(5) {
		case 0:
			t.skip = true // %{}
		case 1:
			t.skip = true
			t.name = randName(r, mode, cliSafe)
			if r.Intn(3) == 0 && len(used) > 0 { // a skipped token may reuse a capture's name
				for k := range used {
					t.name = k
					break
				}
			}
		default:
			for {
				t.name = randName(r, mode, cliSafe)
				if !used[t.name] {
					break
				}
			}
			used[t.name] = true
		}
		p.toks = append(p.toks, t)
	}
	if allowErr && r.Intn(8) == 0 && nt > 0 {
		switch r.Intn(4) {
		case 0: // unclosed
			p.tail = "%{" + randName(r, mode, false)
			if p.toks[nt-1].until == "" && r.Intn(2) == 0 {
				p.toks[nt-1].until = ":"
			}
		case 1: // sequential
			if nt >= 2 {
				p.toks[r.Intn(nt-1)].until = ""
			} else {
				p.tail = "%{"
			}
		case 2: // conflict
			var caps []int
			for i, t := range p.toks {
				if !t.skip {
					caps = append(caps, i)
				}
			}
			if len(caps) >= 2 {
				p.toks[caps[len(caps)-1]].name = p.toks[caps[0]].name
			} else {
				p.tail = "%{x"
			}
		default: // outside the domain of the specification: a bare %
			if r.Intn(2) == 0 {
				p.prefix += "%"
			} else {
				p.toks[nt-1].until += "%"
			}
		}
	}
	return p
}

func flipCase(r *rand.Rand, s string) string {
	b := []byte(s)
	for i, c := range b {
		if r.Intn(2) == 0 {
			switch {
			case 'a' <= c && c <= 'z':
				b[i] = c - 32
			case 'A' <= c && c <= 'Z':
				b[i] = c + 32
			}
		}
	}
	return string(b)
}

func randFill(r *rand.Rand, mode int, p *genPat) string {
	if r.Intn(60) == 0 { // now and then a long stretch, so that some lines run to a few hundred bytes
		n := 50 + r.Intn(250)
		b := make([]byte, n)
		for i := range b {
			switch mode {
			case 0:
				b[i] = "aAb: "[r.Intn(5)]
			case 1:
				b[i] = byte(32 + r.Intn(95))
			case 3:
				b[i] = leadless[r.Intn(len(leadless))]
			default:
				b[i] = byte(r.Intn(256))
			}
		}
		return string(b)
	}
	switch r.Intn(6) {
	case 0:
		return ""
	case 1: // a piece of one of the pattern's own literals (overlaps, false starts)
		lits := []string{p.prefix}
		for _, t := range p.toks {
			lits = append(lits, t.until)
		}
		l := lits[r.Intn(len(lits))]
		if len(l) > 0 {
			a := r.Intn(len(l))
			return l[a : a+1+r.Intn(len(l)-a)]
		}
		return "x"
	}
	n := r.Intn(5)
	s := ""
	for i := 0; i < n; i++ {
		switch mode {
		case 0:
			s += smallSyms[r.Intn(len(smallSyms))]
		case 1:
			s += string(rune(32 + r.Intn(95)))
		case 3:
			s += string([]byte{leadless[r.Intn(len(leadless))]})
		default:
			s += string([]byte{byte(r.Intn(256))})
		}
	}
	if mode == 3 && r.Intn(3) == 0 { // nothing after the last literal: the rest of the line is exactly as long as it
		return ""
	}
	return s
}

// a line woven around the pattern's literals (so that it often matches), with case flips,
// dropped literals and random filler; or plain random text
func randLine(r *rand.Rand, mode int, p *genPat, noLF bool) []byte {
	var sb strings.Builder
	if r.Intn(4) == 0 {
		n := r.Intn(10)
		for i := 0; i < n; i++ {
			sb.WriteString(randFill(r, mode, p))
		}
	} else {
		lit := func(s string) {
			switch r.Intn(10) {
			case 0: // dropped
			case 1, 2:
				sb.WriteString(flipCase(r, s))
			case 3:
				if mode == 3 {
					sb.WriteString(nearMiss(r, flipCase(r, s)))
				} else {
					sb.WriteString(flipCase(r, s))
				}
			default:
				sb.WriteString(s)
			}
		}
		sb.WriteString(randFill(r, mode, p))
		lit(p.prefix)
		for _, t := range p.toks {
			sb.WriteString(randFill(r, mode, p))
			lit(t.until)
		}
		if r.Intn(2) == 0 {
			sb.WriteString(randFill(r, mode, p))
		}
	}
	b := []byte(sb.String())
	if noLF {
		for i, c := range b {
			if c == '\n' || c == '\r' || c == 0 {
				b[i] = '.'
			}
		}
	}
	return b
}

func c12Trace(args []string) error {
	fs := flag.NewFlagSet("c12-trace", flag.ExitOnError)
	out := fs.String("out", "", "trace ndjson")
	n := fs.Int("n", 300, "number of short traces")
	long := fs.Int("long", 2, "number of long-lived-instance traces")
	longN := fs.Int("longn", 2600, "calls per long trace")
	fs.Parse(args)
	w, err := vh.NewNdWriter(*out)
	if err != nil {
		return err
	}
	defer w.Close()
	r := vh.NewRand(12)
	tid := 0
	matched, total := 0, 0
	one := func(p genPat, mode int, ic bool, ncalls int, lateAll bool) {
		tid++
		pat := []byte(p.text())
		d, class := compile(pat, ic)
		ev := M{"event": "reset", "t": tid, "pat": B(pat), "ic": ic, "res": class, "names": [][2]interface{}{}, "groups": 0}
		if d != nil {
			nt := nameTable(d)
			ev["names"] = nt
			ev["groups"] = len(nt)
		}
		w.Write(ev)
		if d == nil {
			return
		}
		inst := d.CreateInstance()
		var held [][]int
		for i := 0; i < ncalls; i++ {
			line := randLine(r, mode, &p, false)
			got, pan := find(inst, append([]byte{}, line...))
			if pan != "" {
				w.Write(M{"event": "m", "line": B(line), "got": []int{-1}, "panic": pan})
				held = append(held, []int{-1})
				continue
			}
			total++
			if got != nil {
				matched++
			}
			w.Write(M{"event": "m", "line": B(line), "got": ints(got)})
			if got == nil {
				held = append(held, []int{})
			} else {
				held = append(held, got) // the slice itself, re-read below
			}
		}
		step := 1
		if !lateAll && len(held) > 60 {
			step = len(held) / 60
		}
		for k := 0; k < len(held); k += step {
			w.Write(M{"event": "late", "k": k + 1, "got": ints(held[k])})
		}
	}
	for i := 0; i < *n; i++ {
		mode := i % 4
		one(randPattern(r, mode, false, true), mode, r.Intn(2) == 0, 8+r.Intn(30), true)
	}
	for i := 0; i < *long; i++ {
		mode := i % 3
		var p genPat
		for { // a valid pattern with at least one capture
			p = randPattern(r, mode, false, false)
			caps := 0
			for _, t := range p.toks {
				if !t.skip {
					caps++
				}
			}
			if caps >= 1 && len(p.toks) <= 3 {
				break
			}
		}
		if i%2 == 0 {
			p.prefix = ""
		}
		one(p, mode, i%2 == 1, *longN, true)
	}
	fmt.Printf("{\"traces\":%d,\"calls\":%d,\"matched\":%d}\n", tid, total, matched)
	return nil
}

// ------------------------------------------------------------------------------------------ CLI

func c12Cli(args []string) error {
	fs := flag.NewFlagSet("c12-cli", flag.ExitOnError)
	rare := fs.String("rare", "", "path of the rare binary")
	out := fs.String("out", "", "trace ndjson")
	n := fs.Int("n", 12, "number of runs")
	dir := fs.String("dir", ".", "scratch directory")
	fs.Parse(args)
	w, err := vh.NewNdWriter(*out)
	if err != nil {
		return err
	}
	defer w.Close()
	r := vh.NewRand(1212)
	matched := 0
	for i := 0; i < *n; i++ {
		mode := []int{0, 1, 1, 2}[i%4]
		ic := i%2 == 1
		var p genPat
		for {
			p = randPattern(r, mode, true, false)
			if len(p.toks) > 4 || bytes.IndexByte([]byte(p.text()), 0) >= 0 {
				continue
			}
			break
		}
		pat := p.text()
		// the expression is built from the generated pattern itself (not from what the code compiled)
		var caps []string
		for _, t := range p.toks {
			if !t.skip {
				caps = append(caps, t.name)
			}
		}
		var expr strings.Builder
		expr.WriteString("<{0}")
		for g := 1; g <= len(caps); g++ {
			fmt.Fprintf(&expr, "|{%d}", g)
		}
		for _, name := range caps {
			fmt.Fprintf(&expr, "|{%s}", name)
		}
		expr.WriteString(">")
		nl := 20 + r.Intn(60)
		var lines [][]int
		var file bytes.Buffer
		for j := 0; j < nl; j++ {
			l := randLine(r, mode, &p, true)
			if ic && i%4 != 3 { // most ignore-case runs stay inside ASCII, where the result is fully specified
				for k, c := range l {
					if c >= 128 {
						l[k] = 'a' + c%26
					}
				}
			}
			lines = append(lines, B(l))
			file.Write(l)
			file.WriteByte('\n')
		}
		path := filepath.Join(*dir, fmt.Sprintf("c12-cli-%d.log", i))
		if err := os.WriteFile(path, file.Bytes(), 0o644); err != nil {
			return err
		}
		argv := []string{"--nocolor", "filter", "-l", "-d", pat, "-e", expr.String()}
		if ic {
			argv = append(argv, "-I")
		}
		argv = append(argv, path)
		cmd := exec.Command(*rare, argv...)
		var so, se bytes.Buffer
		cmd.Stdout, cmd.Stderr = &so, &se
		runErr := cmd.Run()
		exit := 0
		if ee, ok := runErr.(*exec.ExitError); ok {
			exit = ee.ExitCode()
		} else if runErr != nil {
			return fmt.Errorf("rare %q could not be run: %v", argv, runErr)
		}
		// a non-zero exit (no match, or the pattern was rejected) is part of the observation: the
		// lines it printed are what the specification is asked about
		outs := [][2]interface{}{}
		body := so.Bytes()
		if len(body) > 0 && body[len(body)-1] == '\n' {
			body = body[:len(body)-1]
		}
		if len(body) > 0 {
			for _, ol := range bytes.Split(body, []byte{'\n'}) {
				head := []byte(path + " ")
				if !bytes.HasPrefix(ol, head) {
					return fmt.Errorf("unexpected output line %q", ol)
				}
				rest := ol[len(head):]
				c := bytes.Index(rest, []byte(": "))
				if c < 0 {
					return fmt.Errorf("unexpected output line %q", ol)
				}
				no, err := strconv.Atoi(string(rest[:c]))
				if err != nil {
					return fmt.Errorf("unexpected output line %q", ol)
				}
				outs = append(outs, [2]interface{}{no, B(rest[c+2:])})
			}
		}
		matched += len(outs)
		w.Write(M{"event": "cli", "t": 100000 + i, "pat": vh.BS(pat), "ic": ic, "lines": lines, "out": outs, "exit": exit})
		os.Remove(path)
	}
	fmt.Printf("{\"runs\":%d,\"printed\":%d}\n", *n, matched)
	return nil
}

package main

// C12 - several instances of ONE compiled dissect pattern used concurrently (B2).
//
//   conc : for every scenario (pattern, flags, a pool of lines) the pattern is compiled ONCE
//          (one CompileEx per flag) and W goroutines each create their own instance - inside the
//          goroutine, after a common start signal, the way extractor workers do - and match their
//          own sequence of pool lines with it, all at the same time on GOMAXPROCS >= 4.  Every
//          result is observed when it is returned and again much later (a ring of retained result
//          slices, re-read when evicted and at the end: the late consumer).  The same pool is
//          also pushed through extractor.New with W workers and through the command line
//          `rare filter -d ... -w W` over a large file.
//
// The driver records observations only: for every pool line the DISTINCT results seen (with
// counts) - as returned and at the late read.  TLC decides whether each is what Dissect.tla
// demands (events cm / clate / ccli of Dissect_Trace).

import (
	"bufio"
	"bytes"
	"context"
	"encoding/json"
	"flag"
	"fmt"
	"math/rand"
	"os"
	"os/exec"
	"path/filepath"
	"runtime"
	"sort"
	"strconv"
	"strings"
	"sync"
	"time"

	"rare/pkg/extractor"
	"rare/pkg/matchers"
	"rare/pkg/matchers/dissect"

	"verifharness/vh"
)

const maxAlt = 6 // distinct deviating observations kept per line and worker (a correct run has none)

func key(a []int) string {
	var sb strings.Builder
	for _, x := range a {
		sb.WriteString(strconv.Itoa(x))
		sb.WriteByte(',')
	}
	return sb.String()
}

func unkey(s string) []int {
	out := []int{}
	for _, f := range strings.Split(s, ",") {
		if f != "" {
			n, _ := strconv.Atoi(f)
			out = append(out, n)
		}
	}
	return out
}

// observations of one worker: per pool line the distinct results and how often each was seen
type obs struct {
	first  [][]int          // fast path: the first result seen for the line (nil = none yet)
	seen   []bool           //
	firstN []int            //
	alt    []map[string]int // further distinct results
	// late reads: distinct (as returned, as read later) pairs
	lateOK  []int            // read back unchanged
	lateAlt []map[string]int // key(was) + "|" + key(now)
	panics  []string
}

func newObs(n int) *obs {
	return &obs{first: make([][]int, n), seen: make([]bool, n), firstN: make([]int, n), alt: make([]map[string]int, n),
		lateOK: make([]int, n), lateAlt: make([]map[string]int, n), panics: make([]string, n)}
}

func (o *obs) ret(li int, got []int) {
	if !o.seen[li] {
		o.seen[li], o.first[li], o.firstN[li] = true, append([]int{}, got...), 1
		if got == nil {
			o.first[li] = nil
		}
		return
	}
	if (got == nil) == (o.first[li] == nil) && vh.EqInts(got, o.first[li]) {
		o.firstN[li]++
		return
	}
	if o.alt[li] == nil {
		o.alt[li] = map[string]int{}
	}
	k := key(got)
	if _, ok := o.alt[li][k]; ok || len(o.alt[li]) < maxAlt {
		o.alt[li][k]++
	}
}

func (o *obs) late(li int, was, now []int) {
	if vh.EqInts(was, now) {
		o.lateOK[li]++
		return
	}
	if o.lateAlt[li] == nil {
		o.lateAlt[li] = map[string]int{}
	}
	k := key(was) + "|" + key(now)
	if _, ok := o.lateAlt[li][k]; ok || len(o.lateAlt[li]) < maxAlt {
		o.lateAlt[li][k]++
	}
}

type held struct {
	res []int // the slice exactly as returned
	cp  []int // copy taken at return time
	li  int
}

// one worker goroutine: own instance (created here), own line sequence
func concWorker(d *dissect.Dissect, pool [][]byte, seq *rand.Rand, n, ring int, o *obs, start <-chan struct{}, wg *sync.WaitGroup) {
	defer wg.Done()
	<-start
	inst := d.CreateInstance()
	if ring > n {
		ring = n
	}
	hold := make([]held, ring)
	var buf []byte
	for i := 0; i < n; i++ {
		li := seq.Intn(len(pool))
		buf = append(buf[:0], pool[li]...)
		got, pan := find(inst, buf)
		if pan != "" {
			o.panics[li] = pan
			o.ret(li, []int{-1})
			continue
		}
		o.ret(li, got)
		if got == nil {
			continue
		}
		h := &hold[i%ring]
		if h.res != nil {
			o.late(h.li, h.cp, h.res)
		}
		*h = held{got, append(h.cp[:0], got...), li}
	}
	for i := range hold {
		if hold[i].res != nil {
			o.late(hold[i].li, hold[i].cp, hold[i].res)
		}
	}
}

// events of one group of workers (all instances of one compiled pattern)
func emitObs(w *vh.NdWriter, via string, pool [][]byte, obsL []*obs) (events int) {
	W := len(obsL)
	for li := range pool {
		// distinct results as returned, with the count per worker
		res := map[string][]int{}
		add := func(k string, wi, n int) {
			if res[k] == nil {
				res[k] = make([]int, W)
			}
			res[k][wi] += n
		}
		pan := ""
		for wi, o := range obsL {
			if o.seen[li] {
				k := key(o.first[li])
				if o.first[li] == nil {
					k = "nil"
				}
				add(k, wi, o.firstN[li])
			}
			for k, n := range o.alt[li] {
				if k == "" {
					k = "nil"
				}
				add(k, wi, n)
			}
			if o.panics[li] != "" {
				pan = o.panics[li]
			}
		}
		keys := make([]string, 0, len(res))
		for k := range res {
			keys = append(keys, k)
		}
		sort.Strings(keys)
		for _, k := range keys {
			got := []int{}
			if k != "nil" {
				got = unkey(k)
			}
			ev := M{"event": "cm", "via": via, "li": li + 1, "line": B(pool[li]), "got": got, "ns": res[k]}
			if len(got) == 1 && got[0] == -1 {
				ev["panic"] = pan
			}
			w.Write(ev)
			events++
		}
		// late reads
		okN := make([]int, W)
		any := false
		lres := map[string][]int{}
		for wi, o := range obsL {
			okN[wi] = o.lateOK[li]
			any = any || o.lateOK[li] > 0
			for k, n := range o.lateAlt[li] {
				if lres[k] == nil {
					lres[k] = make([]int, W)
				}
				lres[k][wi] += n
			}
		}
		if any {
			w.Write(M{"event": "clate", "via": via, "li": li + 1, "line": B(pool[li]), "same": true, "was": []int{}, "now": []int{}, "ns": okN})
			events++
		}
		keys = keys[:0]
		for k := range lres {
			keys = append(keys, k)
		}
		sort.Strings(keys)
		for _, k := range keys {
			p := strings.SplitN(k, "|", 2)
			w.Write(M{"event": "clate", "via": via, "li": li + 1, "line": B(pool[li]), "same": false, "was": unkey(p[0]), "now": unkey(p[1]), "ns": lres[k]})
			events++
		}
	}
	return
}

type concStat struct {
	Scenarios int `json:"scenarios"`
	Runs      int `json:"runs"`    // executions (one goroutine with its instance, one extractor run, one CLI run)
	Calls     int `json:"calls"`   // FindSubmatchIndex calls observed
	Matched   int `json:"matched"` // ... that returned a result
	Late      int `json:"late"`    // late re-reads
	Events    int `json:"events"`
	CliLines  int `json:"cli_lines"`
	Crashed   int `json:"crashed"`
	Procs     int `json:"gomaxprocs"`
}

func (a *concStat) add(b concStat) {
	a.Scenarios += b.Scenarios
	a.Runs += b.Runs
	a.Calls += b.Calls
	a.Matched += b.Matched
	a.Late += b.Late
	a.Events += b.Events
	a.CliLines += b.CliLines
	a.Crashed += b.Crashed
}

// one scenario: everything about it is a function of (VERIF_SEED, Idx) and these numbers, so the
// parent process can describe a scenario whose child process died
type scnSpec struct {
	Kind   string // direct | ext | cli
	Idx    int    // generator index (selects pattern and pool)
	Tid    int    // first trace id
	W      int    // workers
	Rounds int    // direct: fresh compiles
	N      int    // lines per worker / per run
	Pool   int    // distinct lines
	ICs    []bool // flags compiled (direct: one or two compiled patterns used at the same time)
	Ring   int
	Batch  int
}

func procs() int {
	p := 8
	if runtime.NumCPU() < p {
		p = runtime.NumCPU()
	}
	if p < 4 {
		p = 4
	}
	return p
}

// a valid pattern with at least one capture and a pool of lines woven around it
func (s *scnSpec) generate() (genPat, [][]byte) {
	r := rand.New(rand.NewSource(vh.Seed()*1000003 + 1205 + int64(s.Idx)*7907))
	cliSafe := s.Kind == "cli"
	mode := []int{0, 1, 1, 2}[s.Idx%4]
	var p genPat
	for {
		p = randPattern(r, mode, cliSafe, false)
		caps := 0
		for _, t := range p.toks {
			if !t.skip {
				caps++
			}
		}
		if caps >= 1 && len(p.toks) <= 4 && bytes.IndexByte([]byte(p.text()), 0) < 0 {
			break
		}
	}
	pool := make([][]byte, s.Pool)
	for j := range pool {
		l := randLine(r, mode, &p, cliSafe)
		if len(l) > 120 {
			l = l[:120]
		}
		if cliSafe && s.ICs[0] { // ignore-case CLI runs stay inside ASCII, where the result is fully specified
			for k, c := range l {
				if c >= 128 {
					l[k] = 'a' + c%26
				}
			}
		}
		pool[j] = l
	}
	return p, pool
}

func resetEv(tid int, pat []byte, ic bool, d *dissect.Dissect, class string, extra M) M {
	ev := M{"event": "reset", "t": tid, "pat": B(pat), "ic": ic, "res": class, "names": [][2]interface{}{}, "groups": 0}
	if d != nil {
		nt := nameTable(d)
		ev["names"] = nt
		ev["groups"] = len(nt)
	}
	for k, v := range extra {
		ev[k] = v
	}
	return ev
}

func (st *concStat) tally(obsL []*obs) {
	for _, o := range obsL {
		st.Runs++
		for li := range o.seen {
			st.Calls += o.firstN[li]
			if o.first[li] != nil {
				st.Matched += o.firstN[li]
			}
			for _, n := range o.alt[li] {
				st.Calls += n
			}
			st.Late += o.lateOK[li]
		}
	}
}

// ---- direct: W goroutines, each with its own instance of the one compiled pattern.
// ICs = the flags compiled for the scenario: one, or both at the same time (two compiled
// patterns of one text, the workers split between them)
func (s *scnSpec) direct(w *vh.NdWriter, st *concStat) error {
	p, pool := s.generate()
	pat := []byte(p.text())
	st.Scenarios++
	groups := make([][]*obs, len(s.ICs))
	for wi := 0; wi < s.W; wi++ {
		g := wi % len(s.ICs)
		groups[g] = append(groups[g], newObs(len(pool)))
	}
	var ds []*dissect.Dissect
	var classes []string
	for round := 0; round < s.Rounds; round++ {
		ds, classes = ds[:0], classes[:0]
		for _, ic := range s.ICs {
			d, class := compile(pat, ic) // compiled ONCE per round and flag
			if d == nil {
				return fmt.Errorf("generated pattern %q does not compile: %s", pat, class)
			}
			ds, classes = append(ds, d), append(classes, class)
		}
		start := make(chan struct{})
		var wg sync.WaitGroup
		cnt := make([]int, len(s.ICs))
		for wi := 0; wi < s.W; wi++ {
			g := wi % len(s.ICs)
			wg.Add(1)
			seq := rand.New(rand.NewSource(vh.Seed()*7919 + int64(s.Idx)*1000003 + int64(round)*131 + int64(wi)))
			go concWorker(ds[g], pool, seq, s.N, s.Ring, groups[g][cnt[g]], start, &wg)
			cnt[g]++
		}
		close(start)
		wg.Wait()
	}
	for g, ic := range s.ICs {
		w.Write(resetEv(s.Tid+g, pat, ic, ds[g], classes[g], M{"via": "direct", "W": s.W, "rounds": s.Rounds, "flags": len(s.ICs)}))
		emitObs(w, "direct", pool, groups[g])
		st.tally(groups[g])
	}
	return nil
}

// ---- through extractor.New with W workers: every Match keeps the indices its worker's
// instance returned; they are read when the batch arrives and again after all input is done
func (s *scnSpec) ext(w *vh.NdWriter, st *concStat) error {
	p, pool := s.generate()
	pat := []byte(p.text())
	ic := s.ICs[0]
	d, class := compile(pat, ic)
	if d == nil {
		return fmt.Errorf("generated pattern %q does not compile: %s", pat, class)
	}
	st.Scenarios++
	seq := rand.New(rand.NewSource(vh.Seed()*104729 + int64(s.Idx)))
	order := make([]int, s.N)
	for j := range order {
		order[j] = seq.Intn(len(pool))
	}
	in := make(chan extractor.InputBatch, 4)
	ex, err := extractor.New(in, &extractor.Config{Matcher: matchers.ToFactory(d), Extract: "<{0}>", Workers: s.W})
	if err != nil {
		return err
	}
	go func() {
		bs := s.Batch
		for at := 0; at < len(order); at += bs {
			end := at + bs
			if end > len(order) {
				end = len(order)
			}
			batch := make([]extractor.BString, 0, bs)
			for _, li := range order[at:end] {
				batch = append(batch, extractor.BString(append([]byte{}, pool[li]...)))
			}
			in <- extractor.InputBatch{Batch: batch, Source: "c12", BatchStart: uint64(at + 1)}
		}
		close(in)
	}()
	o := newObs(len(pool))
	var kept []held
	got := make([]bool, len(order))
	for batch := range ex.ReadChan() {
		for _, m := range batch {
			j := int(m.LineNumber) - 1
			if j < 0 || j >= len(order) || got[j] {
				return fmt.Errorf("extractor returned line number %d (out of range or twice)", m.LineNumber)
			}
			got[j] = true
			o.ret(order[j], m.Indices)
			kept = append(kept, held{m.Indices, append([]int{}, m.Indices...), order[j]})
		}
	}
	for j, li := range order { // lines for which no Match arrived: "no match" as far as a consumer can tell
		if !got[j] {
			o.ret(li, nil)
		}
	}
	for _, h := range kept {
		o.late(h.li, h.cp, h.res)
	}
	w.Write(resetEv(s.Tid, pat, ic, d, class, M{"via": "extractor", "W": s.W}))
	emitObs(w, "extractor", pool, []*obs{o})
	st.tally([]*obs{o})
	return nil
}

// ---- through the command line: rare filter -d <pattern> [-I] -l -e <expr> -w W over a big file
func (s *scnSpec) cli(w *vh.NdWriter, st *concStat, rare, dir string) error {
	p, pool := s.generate()
	pat := p.text()
	ic := s.ICs[0]
	var caps []string
	for _, t := range p.toks {
		if !t.skip {
			caps = append(caps, t.name)
		}
	}
	var expr strings.Builder
	expr.WriteString("<{0}")
	for g := 1; g <= len(caps); g++ {
		fmt.Fprintf(&expr, "|{%d}", g)
	}
	for _, name := range caps {
		fmt.Fprintf(&expr, "|{%s}", name)
	}
	expr.WriteString(">")
	seq := rand.New(rand.NewSource(vh.Seed()*15485863 + int64(s.Idx)))
	order := make([]int, s.N)
	sent := make([]int, len(pool))
	path := filepath.Join(dir, fmt.Sprintf("c12-conc-%d.log", s.Idx))
	f, err := os.Create(path)
	if err != nil {
		return err
	}
	bw := bufio.NewWriterSize(f, 1<<20)
	for j := range order {
		order[j] = seq.Intn(len(pool))
		sent[order[j]]++
		bw.Write(pool[order[j]])
		bw.WriteByte('\n')
	}
	bw.Flush()
	f.Close()
	defer os.Remove(path)
	argv := []string{"--nocolor", "filter", "-l", "-d", pat, "-e", expr.String(), "-w", strconv.Itoa(s.W), "--batch", strconv.Itoa(s.Batch)}
	if ic {
		argv = append(argv, "-I")
	}
	argv = append(argv, path)
	cmd := exec.Command(rare, argv...)
	cmd.Env = append(os.Environ(), fmt.Sprintf("GOMAXPROCS=%d", procs()))
	var so, se bytes.Buffer
	cmd.Stdout, cmd.Stderr = &so, &se
	runErr := cmd.Run()
	exit := 0
	if ee, ok := runErr.(*exec.ExitError); ok {
		exit = ee.ExitCode()
	} else if runErr != nil {
		return fmt.Errorf("rare %q could not be run: %v", argv, runErr)
	}
	// distinct (line, printed text) pairs; line numbers printed twice or outside the file are counted
	seen := map[int]map[string]int{}
	printed := make([]int, len(pool))
	dup, stray := 0, 0
	gotNo := make([]bool, len(order))
	sc := bufio.NewScanner(bytes.NewReader(so.Bytes()))
	sc.Buffer(make([]byte, 1<<20), 1<<26)
	head := []byte(path + " ")
	for sc.Scan() {
		ol := sc.Bytes()
		if !bytes.HasPrefix(ol, head) {
			return fmt.Errorf("unexpected output line %q", ol)
		}
		rest := ol[len(head):]
		c := bytes.Index(rest, []byte(": "))
		if c < 0 {
			return fmt.Errorf("unexpected output line %q", ol)
		}
		no, err := strconv.Atoi(string(rest[:c]))
		if err != nil {
			return fmt.Errorf("unexpected output line %q", ol)
		}
		if no < 1 || no > len(order) {
			stray++
			continue
		}
		if gotNo[no-1] {
			dup++
		}
		gotNo[no-1] = true
		li := order[no-1]
		printed[li]++
		if seen[li] == nil {
			seen[li] = map[string]int{}
		}
		txt := string(rest[c+2:])
		if _, ok := seen[li][txt]; ok || len(seen[li]) < maxAlt {
			seen[li][txt]++
		}
	}
	lines := make([][]int, len(pool))
	seenL := [][]interface{}{}
	for li := range pool {
		lines[li] = B(pool[li])
		txts := make([]string, 0, len(seen[li]))
		for t := range seen[li] {
			txts = append(txts, t)
		}
		sort.Strings(txts)
		for _, t := range txts {
			seenL = append(seenL, []interface{}{li + 1, vh.BS(t), seen[li][t]})
		}
	}
	st.Scenarios++
	st.Runs++
	st.CliLines += len(order)
	msg := se.String()
	if len(msg) > 300 {
		msg = msg[:300]
	}
	w.Write(M{"event": "ccli", "t": s.Tid, "pat": vh.BS(pat), "ic": ic, "W": s.W, "lines": lines, "sent": sent,
		"printed": printed, "seen": seenL, "dup": dup, "stray": stray, "exit": exit, "stderr": msg})
	return nil
}

func (s *scnSpec) args() []string {
	ics := ""
	for _, ic := range s.ICs {
		if ic {
			ics += "1"
		} else {
			ics += "0"
		}
	}
	return []string{"-kind", s.Kind, "-i", strconv.Itoa(s.Idx), "-tid", strconv.Itoa(s.Tid), "-W", strconv.Itoa(s.W),
		"-rounds", strconv.Itoa(s.Rounds), "-n", strconv.Itoa(s.N), "-pool", strconv.Itoa(s.Pool), "-ics", ics,
		"-ring", strconv.Itoa(s.Ring), "-batch", strconv.Itoa(s.Batch)}
}

// child process: one scenario
func c12Conc1(args []string) error {
	fs := flag.NewFlagSet("c12-conc1", flag.ExitOnError)
	var s scnSpec
	fs.StringVar(&s.Kind, "kind", "direct", "")
	fs.IntVar(&s.Idx, "i", 0, "")
	fs.IntVar(&s.Tid, "tid", 0, "")
	fs.IntVar(&s.W, "W", 2, "")
	fs.IntVar(&s.Rounds, "rounds", 1, "")
	fs.IntVar(&s.N, "n", 1000, "")
	fs.IntVar(&s.Pool, "pool", 40, "")
	fs.IntVar(&s.Ring, "ring", 8192, "")
	fs.IntVar(&s.Batch, "batch", 64, "")
	ics := fs.String("ics", "0", "")
	out := fs.String("out", "", "")
	rare := fs.String("rare", "", "")
	dir := fs.String("dir", ".", "")
	fs.Parse(args)
	for _, c := range *ics {
		s.ICs = append(s.ICs, c == '1')
	}
	runtime.GOMAXPROCS(procs())
	w, err := vh.NewNdWriter(*out)
	if err != nil {
		return err
	}
	var st concStat
	switch s.Kind {
	case "direct":
		err = s.direct(w, &st)
	case "ext":
		err = s.ext(w, &st)
	case "cli":
		err = s.cli(w, &st, *rare, *dir)
	default:
		err = fmt.Errorf("unknown kind %q", s.Kind)
	}
	st.Events = w.N
	w.Close()
	if err != nil {
		return err
	}
	b, _ := json.Marshal(st)
	fmt.Println(string(b))
	return nil
}

// the lines of a crash report that say what happened and where the code under test was
func crashDigest(stderr string) (msg string, inPkg bool) {
	for _, l := range strings.Split(stderr, "\n") {
		if msg == "" && (strings.HasPrefix(l, "fatal error:") || strings.HasPrefix(l, "panic:") || strings.HasPrefix(l, "unexpected fault") || strings.HasPrefix(l, "SIG")) {
			msg = l
		}
		if strings.Contains(l, "rare/pkg/matchers/dissect.") || strings.Contains(l, "rare/pkg/slicepool.") {
			inPkg = true
		}
	}
	if msg == "" {
		msg = strings.TrimSpace(stderr)
		if len(msg) > 200 {
			msg = msg[len(msg)-200:]
		}
	}
	return
}

// parent: every scenario runs in a child process of its own, because an instance that is
// corrupted by another goroutine can take the whole Go runtime down (bad pointer in the heap,
// fault) - which is an observation to be recorded, not the end of the recording
func c12Conc(args []string) error {
	fs := flag.NewFlagSet("c12-conc", flag.ExitOnError)
	out := fs.String("out", "", "trace ndjson")
	nLong := fs.Int("long", 3, "long scenarios (one compile, W workers, -n lines each)")
	n := fs.Int("n", 100000, "lines per worker in a long scenario")
	nShort := fs.Int("short", 6, "short scenarios: -rounds fresh compiles, 48 lines per worker each (first-use windows)")
	rounds := fs.Int("rounds", 150, "rounds per short scenario")
	nExt := fs.Int("ext", 2, "scenarios through extractor.New")
	extN := fs.Int("extn", 100000, "lines per extractor scenario")
	nCli := fs.Int("cli", 2, "scenarios through the command line")
	cliN := fs.Int("clin", 120000, "lines per command line scenario")
	rare := fs.String("rare", "", "path of the rare binary (for -cli)")
	dir := fs.String("dir", ".", "scratch directory")
	poolN := fs.Int("pool", 40, "distinct lines per scenario")
	ring := fs.Int("ring", 8192, "results retained per worker before the late read")
	fs.Parse(args)

	Ws := []int{2, 4, 8}
	var scns []scnSpec
	for i := 0; i < *nLong; i++ {
		ics := []bool{i%2 == 1}
		if i%3 == 2 {
			ics = []bool{false, true}
		}
		scns = append(scns, scnSpec{Kind: "direct", Idx: i, W: Ws[i%3], Rounds: 1, N: *n, Pool: *poolN, ICs: ics})
	}
	for i := 0; i < *nShort; i++ {
		ics := []bool{i%2 == 0}
		if i%3 == 2 {
			ics = []bool{true, false}
		}
		scns = append(scns, scnSpec{Kind: "direct", Idx: 1000 + i, W: Ws[(i+1)%3], Rounds: *rounds, N: 48, Pool: 12, ICs: ics})
	}
	for i := 0; i < *nExt; i++ {
		scns = append(scns, scnSpec{Kind: "ext", Idx: 2000 + i, W: []int{8, 4}[i%2], N: *extN, Pool: *poolN, ICs: []bool{i%2 == 0}, Batch: []int{64, 500}[i%2]})
	}
	for i := 0; i < *nCli; i++ {
		scns = append(scns, scnSpec{Kind: "cli", Idx: 3000 + i, W: []int{8, 4}[i%2], N: *cliN, Pool: *poolN, ICs: []bool{i%2 == 1}, Batch: []int{100, 1000}[i%2]})
	}

	of, err := os.Create(*out)
	if err != nil {
		return err
	}
	defer of.Close()
	ow := bufio.NewWriterSize(of, 1<<20)
	defer ow.Flush()
	events := 0
	write := func(v interface{}) {
		b, _ := json.Marshal(v)
		ow.Write(b)
		ow.WriteByte('\n')
		events++
	}
	exe, err := os.Executable()
	if err != nil {
		return err
	}
	st := concStat{Procs: procs()}
	for k := range scns {
		s := &scns[k]
		s.Tid = 200000 + 10*k
		s.Ring = *ring
		if s.Batch == 0 {
			s.Batch = 64
		}
		part := filepath.Join(*dir, fmt.Sprintf("c12-conc-part-%d.ndjson", k))
		var stderr string
		ok := false
		for attempt := 0; attempt < 2 && !ok; attempt++ { // a crash must repeat to be recorded
			argv := append([]string{"conc1"}, s.args()...)
			argv = append(argv, "-out", part, "-rare", *rare, "-dir", *dir)
			ctx, cancel := context.WithTimeout(context.Background(), 10*time.Minute)
			cmd := exec.CommandContext(ctx, exe, argv...)
			var so, se bytes.Buffer
			cmd.Stdout, cmd.Stderr = &so, &se
			runErr := cmd.Run()
			timedOut := ctx.Err() == context.DeadlineExceeded
			cancel()
			if timedOut {
				return fmt.Errorf("scenario %d (%v) did not finish within 10 minutes", k, s.args())
			}
			if runErr == nil {
				var cs concStat
				if err := json.Unmarshal(bytes.TrimSpace(so.Bytes()), &cs); err != nil {
					return fmt.Errorf("scenario %d: bad child output %q", k, so.String())
				}
				st.add(cs)
				ok = true
				break
			}
			stderr = se.String()
			if _, isExit := runErr.(*exec.ExitError); !isExit {
				return fmt.Errorf("scenario %d could not be run: %v", k, runErr)
			}
			if !strings.Contains(stderr, "goroutine ") { // not a Go crash report: the driver itself gave up
				return fmt.Errorf("scenario %d failed: %s", k, strings.TrimSpace(stderr))
			}
		}
		if ok {
			b, err := os.ReadFile(part)
			if err != nil {
				return err
			}
			ow.Write(b)
			events += bytes.Count(b, []byte{'\n'})
		} else {
			// the process running this scenario died twice: describe the scenario and the crash
			p, _ := s.generate()
			pat := []byte(p.text())
			msg, inPkg := crashDigest(stderr)
			for g, ic := range s.ICs {
				d, class := compile(pat, ic)
				write(resetEv(s.Tid+g, pat, ic, d, class, M{"via": s.Kind, "W": s.W}))
				write(M{"event": "ccrash", "via": s.Kind, "W": s.W, "msg": msg, "in_pkg": inPkg})
			}
			st.Scenarios++
			st.Crashed++
		}
		os.Remove(part)
	}
	st.Events = events
	b, _ := json.Marshal(st)
	fmt.Println(string(b))
	return nil
}

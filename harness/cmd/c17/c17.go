package main

// C17 - array helpers obey list semantics.
//   c17 replay : performs the TLC-enumerated HISTORIES of evaluations (ExprArray_Gen) on the real compiler:
//                every history in order, in this one process, on expressions compiled once per history (so
//                that pooled sub-contexts left behind by one evaluation are reused by the next), with the
//                optimising and the plain compiler and in two syntactic forms of the sub-expressions; then the
//                "conc" histories from W goroutines at once on shared compiled expressions (B1)
//   c17 trace  : seeded random lists / delimiters / indices / sub-expressions, recorded as
//                {x, m, ks, got, panic} for ExprArray_Trace (B2)
//   c17 eval   : prints the template and result of one recorded step (debugging / replay files)

import (
	"encoding/json"
	"flag"
	"fmt"
	"os"
	"sort"
	"strconv"
	"strings"
	"runtime"
	"sync"
	"time"
	"unicode/utf8"

	"rare/pkg/expressions"
	"rare/pkg/expressions/funclib"
	"rare/pkg/humanize"

	"verifharness/vh"
)

func main() {
	humanize.Enabled = true
	vh.Main(vh.Commands{"replay": c17Replay, "trace": c17Trace, "eval": c17Eval})
}

type M = vh.M

// ---------------------------------------------------------------------------- trees -> templates

type tree struct {
	T string  `json:"t"`
	F string  `json:"f"`
	V []int   `json:"v"`
	A []*tree `json:"a"`
}

func lit(s string) *tree  { return &tree{T: "lit", V: vh.BS(s), A: []*tree{}} }
func arg(i int) *tree     { return &tree{T: "arg", V: []int{i}, A: []*tree{}} }
func key(k string) *tree  { return &tree{T: "key", V: vh.BS(k), A: []*tree{}} }
func cat(a ...*tree) *tree { return &tree{T: "cat", V: []int{}, A: a} }
func call(f string, a ...*tree) *tree {
	if a == nil {
		a = []*tree{}
	}
	return &tree{T: "call", F: f, V: []int{}, A: a}
}

func (x *tree) text() string { return string(vh.FromInts(x.V)) }

func esc(s string, set string) string {
	var sb strings.Builder
	for i := 0; i < len(s); i++ {
		if strings.IndexByte(set, s[i]) >= 0 {
			sb.WriteByte('\\')
		}
		sb.WriteByte(s[i])
	}
	return sb.String()
}

// constEnc writes arg as a quoted constant argument of a TOP-LEVEL call.  Three readers see the text in
// turn: the statement scanner of Compile, the argument splitter and the Compile call for the argument.
func constEnc(arg string) string {
	t1 := esc(arg, "\\{}")
	t2 := "\"" + esc(t1, "\\\"") + "\""
	return esc(t2, "\\{}")
}

// text that needs no escaping at any level
func simple(s string) bool {
	if !utf8.ValidString(s) {
		return false
	}
	return !strings.ContainsAny(s, "\\\"{}\x00")
}

func bareSafe(s string) bool {
	if s == "" || !simple(s) {
		return false
	}
	for i := 0; i < len(s); i++ {
		c := s[i]
		if !(c >= 'a' && c <= 'z' || c >= 'A' && c <= 'Z' || c >= '0' && c <= '9' || strings.IndexByte("_.,:+-=;", c) >= 0 || c >= 0x80) {
			return false
		}
	}
	return true
}

func subPos(f string, i int) bool { // 0-based argument index
	switch f {
	case "@map", "@filter", "@reduce":
		return i == 1
	case "@for":
		return i == 1 || i == 2
	}
	return false
}

// printer turns a tree into template text.  quoteSubs: sub-expressions are written in quotes (as the
// documentation of @map asks) with bare literals inside; otherwise unquoted with quoted literals.
type printer struct {
	quoteSubs bool
	err       error
}

func (p *printer) fail(format string, a ...interface{}) string {
	if p.err == nil {
		p.err = fmt.Errorf(format, a...)
	}
	return ""
}

func (p *printer) top(x *tree) string {
	switch x.T {
	case "cat":
		var sb strings.Builder
		for _, c := range x.A {
			if c.T == "lit" {
				sb.WriteString(esc(c.text(), "\\{}"))
			} else {
				sb.WriteString(p.stmt(c, 1, false))
			}
		}
		return sb.String()
	case "lit":
		return esc(x.text(), "\\{}")
	}
	return p.stmt(x, 1, false)
}

// stmt: x as a {..} statement whose own arguments sit at nesting depth `depth`
func (p *printer) stmt(x *tree, depth int, inq bool) string {
	switch x.T {
	case "arg":
		return "{" + strconv.Itoa(x.V[0]) + "}"
	case "key":
		k := x.text()
		if !bareSafe(k) {
			return p.fail("key name %q", k)
		}
		return "{" + k + "}"
	case "call":
		var sb strings.Builder
		sb.WriteString("{" + x.F)
		for i, a := range x.A {
			sb.WriteByte(' ')
			sb.WriteString(p.argText(a, depth, inq, subPos(x.F, i)))
		}
		sb.WriteByte('}')
		return sb.String()
	}
	return p.fail("statement of kind %s", x.T)
}

func (p *printer) argText(a *tree, depth int, inq bool, sub bool) string {
	switch a.T {
	case "lit":
		v := a.text()
		if depth == 1 && !inq {
			return constEnc(v)
		}
		if bareSafe(v) && (inq || p.quoteSubs) {
			return v
		}
		if !inq && simple(v) {
			return "\"" + v + "\""
		}
		return p.fail("literal %q at depth %d (quoted=%v)", v, depth, inq)
	case "arg", "key":
		return p.stmt(a, depth+1, inq)
	case "call":
		if sub && p.quoteSubs && !inq {
			return "\"" + p.stmt(a, depth+1, true) + "\""
		}
		return p.stmt(a, depth+1, inq)
	case "cat":
		need := sub && p.quoteSubs
		for _, c := range a.A {
			if c.T == "lit" {
				v := c.text()
				if !simple(v) {
					return p.fail("text %q inside a concatenation", v)
				}
				if v == "" || strings.ContainsAny(v, " \t\n") {
					need = true
				}
			}
		}
		if len(a.A) == 0 {
			need = true
		}
		if need && inq {
			return p.fail("nested quoting")
		}
		var sb strings.Builder
		for _, c := range a.A {
			if c.T == "lit" {
				sb.WriteString(c.text())
			} else {
				sb.WriteString(p.stmt(c, depth+1, inq || need))
			}
		}
		if need {
			return "\"" + sb.String() + "\""
		}
		return sb.String()
	}
	return p.fail("argument of kind %s", a.T)
}

func render(x *tree, quoteSubs bool) (string, error) {
	p := &printer{quoteSubs: quoteSubs}
	s := p.top(x)
	return s, p.err
}

// every constant of a top-level call must reach the helper unchanged (checked with a transparent function)
var idBuilder = func() *expressions.KeyBuilder {
	kb := expressions.NewKeyBuilder()
	kb.Func("id", func(args []expressions.KeyBuilderStage) (expressions.KeyBuilderStage, error) {
		if len(args) != 1 {
			return func(expressions.KeyBuilderContext) string { return "<id-argn>" }, nil
		}
		return args[0], nil
	})
	return kb
}()

var constOK = map[string]bool{}

func constUsable(arg string) (ok bool) {
	if v, has := constOK[arg]; has {
		return v
	}
	defer func() {
		if recover() != nil {
			ok = false
		}
		constOK[arg] = ok
	}()
	kb, err := idBuilder.Compile("{id " + constEnc(arg) + "}")
	if err != nil || kb == nil {
		return false
	}
	return kb.BuildKey(&expressions.KeyBuilderContextArray{}) == arg
}

func constsUsable(x *tree, depth int) bool {
	if x.T == "call" {
		for _, a := range x.A {
			if a.T == "lit" && depth == 1 && !constUsable(a.text()) {
				return false
			}
			if !constsUsable(a, depth+1) {
				return false
			}
		}
	}
	if x.T == "cat" {
		for _, a := range x.A {
			if a.T != "lit" && !constsUsable(a, depth) {
				return false
			}
		}
	}
	return true
}

// ---------------------------------------------------------------------------- calling the real code

type outcome struct {
	Template string
	Got      string
	Cerr     bool
	Panic    string
}

type compiled struct {
	kb    *expressions.CompiledKeyBuilder
	cerr  bool
	panic string
}

func compile(template string, opt bool) (c *compiled) {
	c = &compiled{}
	defer func() {
		if r := recover(); r != nil {
			c.panic = "compile: " + fmt.Sprint(r)
			c.kb = nil
		}
	}()
	kb, err := funclib.NewKeyBuilderEx(opt).Compile(template)
	c.kb, c.cerr = kb, err != nil
	if kb == nil {
		c.panic = "compile returned no builder"
	}
	return
}

func mkctx(m []string, ks [][2]string) *expressions.KeyBuilderContextArray {
	ctx := &expressions.KeyBuilderContextArray{Elements: m, Keys: map[string]string{}}
	for _, kv := range ks {
		ctx.Keys[kv[0]] = kv[1]
	}
	return ctx
}

// watchdog: an evaluation that does not return (or allocates without bound) ends the driver with exit
// status 5 and a line "HANG <json>" naming the evaluation; the check reports it.
var (
	wdMu    sync.Mutex
	wdSeq   int64
	wdWhat  M
	wdStart time.Time
)

func wdEnter(what M) {
	wdMu.Lock()
	wdSeq++
	wdWhat, wdStart = what, time.Now()
	wdMu.Unlock()
}

func wdLeave() {
	wdMu.Lock()
	wdWhat = nil
	wdMu.Unlock()
}

func startWatchdog(limit time.Duration, heap uint64) {
	go func() {
		var ms runtime.MemStats
		for {
			time.Sleep(100 * time.Millisecond)
			runtime.ReadMemStats(&ms)
			wdMu.Lock()
			what, since := wdWhat, time.Since(wdStart)
			wdMu.Unlock()
			if what != nil && (since > limit || ms.HeapAlloc > heap) {
				what["seconds"] = since.Seconds()
				what["heap_mb"] = ms.HeapAlloc >> 20
				b, _ := json.Marshal(what)
				fmt.Printf("HANG %s\n", b)
				os.Exit(5)
			}
		}
	}()
}

func (c *compiled) eval(template string, ctx expressions.KeyBuilderContext) (o outcome) {
	o.Template, o.Cerr = template, c.cerr
	if c.kb == nil {
		o.Panic = c.panic
		return
	}
	defer func() {
		if r := recover(); r != nil {
			o.Panic = fmt.Sprint(r)
		}
	}()
	o.Got = c.kb.BuildKey(ctx)
	return
}

// ---------------------------------------------------------------------------- expectations (from TLC)

type expect struct {
	K    string  `json:"k"`
	V    []int   `json:"v"`
	Alts [][]int `json:"alts"`
	Ce   string  `json:"ce"`
}

type step struct {
	X   *tree   `json:"x"`
	Mi  [][]int `json:"m"`
	Ksi [][][]int `json:"ks"`
	Exp expect  `json:"exp"`

	m  []string
	ks [][2]string
}

func (s *step) decode() {
	s.m = make([]string, len(s.Mi))
	for i, a := range s.Mi {
		s.m[i] = string(vh.FromInts(a))
	}
	s.ks = make([][2]string, len(s.Ksi))
	for i, kv := range s.Ksi {
		s.ks[i] = [2]string{string(vh.FromInts(kv[0])), string(vh.FromInts(kv[1]))}
	}
}

type vector struct {
	G     string  `json:"g"`
	Steps []*step `json:"steps"`
}

var markers = map[string]bool{"<BAD-TYPE>": true, "<PARSE-ERROR>": true, "<ARGN>": true, "<CONST>": true,
	"<ENUM>": true, "<NAME>": true, "<EMPTY>": true, "<FILE>": true, "<VALUE>": true}

func truthClass(s string) string {
	if s == "" {
		return "empty"
	}
	blank, printable := true, false
	for i := 0; i < len(s); i++ {
		c := s[i]
		if !(c == 9 || c == 10 || c == 11 || c == 12 || c == 13 || c == 32) {
			blank = false
		}
		if c >= 33 && c <= 126 {
			printable = true
		}
	}
	if blank {
		return "blank"
	}
	if printable {
		return "true"
	}
	return "unknown"
}

func decide(e expect, o outcome) bool {
	if o.Panic != "" {
		return false
	}
	switch e.K {
	case "out":
		return o.Got == string(vh.FromInts(e.V))
	case "oneof":
		for _, a := range e.Alts {
			if o.Got == string(vh.FromInts(a)) {
				return true
			}
		}
		return false
	case "truthy":
		return truthClass(o.Got) == "true"
	case "falsy":
		c := truthClass(o.Got)
		return c == "empty" || c == "blank"
	case "marker":
		return markers[o.Got]
	}
	return true
}

func headFunc(x *tree) string {
	if x.T == "call" {
		return x.F
	}
	for _, a := range x.A {
		if a.T == "call" {
			return a.F
		}
	}
	return x.T
}

// class of a disagreement, for the violation signature
func classify(x *tree, e expect, o outcome) string {
	if o.Panic != "" {
		return "panic"
	}
	if e.K == "out" || e.K == "oneof" {
		exp := string(vh.FromInts(e.V))
		if e.K == "oneof" && len(e.Alts) > 0 {
			exp = string(vh.FromInts(e.Alts[0]))
		}
		ne, ng := strings.Count(exp, "\x00"), strings.Count(o.Got, "\x00")
		if ne != ng || (exp == "") != (o.Got == "") {
			return "shape" // a different number of elements / separators
		}
		return "value"
	}
	return e.K
}

func mismatch(g string, si int, s *step, form string, opt bool, o outcome) M {
	return M{"g": g, "step": si, "f": headFunc(s.X), "class": classify(s.X, s.Exp, o), "template": o.Template, "m": s.m, "ks": s.ks,
		"opt": opt, "form": form, "got": o.Got, "panic": o.Panic, "expect": s.Exp, "expect_text": string(vh.FromInts(s.Exp.V)), "rec": record(s, o, opt)}
}

func record(s *step, o outcome, opt bool) M {
	m := make([][]int, len(s.m))
	for i, v := range s.m {
		m[i] = vh.BS(v)
	}
	ks := make([][][]int, len(s.ks))
	for i, kv := range s.ks {
		ks[i] = [][]int{vh.BS(kv[0]), vh.BS(kv[1])}
	}
	return M{"x": s.X, "m": m, "ks": ks, "got": vh.BS(o.Got), "panic": o.Panic != "", "opt": opt, "tpl": o.Template}
}

// ---------------------------------------------------------------------------- B1

func c17Replay(argv []string) error {
	fs := flag.NewFlagSet("c17-replay", flag.ExitOnError)
	in := fs.String("in", "", "histories (ndjson, from ExprArray_Gen)")
	out := fs.String("out", "c17-replay.json", "result file")
	tr := fs.String("trace", "", "also record every evaluation of the optimising compiler here (ndjson)")
	rounds := fs.Int("rounds", 1500, "rounds of the concurrent phase")
	fs.Parse(argv)
	startWatchdog(30*time.Second, 3<<30)
	var w *vh.NdWriter
	if *tr != "" {
		var err error
		if w, err = vh.NewNdWriter(*tr); err != nil {
			return err
		}
		defer w.Close()
	}
	var vectors []*vector
	err := vh.ReadNd(*in, func(raw json.RawMessage) error {
		var v vector
		if err := json.Unmarshal(raw, &v); err != nil {
			return err
		}
		for _, s := range v.Steps {
			s.decode()
		}
		vectors = append(vectors, &v)
		return nil
	})
	if err != nil {
		return err
	}
	// deterministic order: groups alphabetically, histories in the generator's order
	sort.SliceStable(vectors, func(i, j int) bool { return vectors[i].G < vectors[j].G })

	mism, samples := []M{}, []M{}
	runs, steps, unprintable, nontrivial, histories, multi := 0, 0, 0, 0, 0, 0
	perGroup := map[string]int{}
	perFunc := map[string]int{}
	type variant struct {
		form string
		q    bool
		opt  bool
	}
	variants := []variant{{"plain", false, true}, {"quoted", true, true}, {"plain", false, false}, {"quoted", true, false}}
	for vi, v := range vectors {
		histories++
		if len(v.Steps) > 1 {
			multi++
		}
		perGroup[v.G]++
		for _, va := range variants {
			// single-step histories: every syntactic form with the optimiser, alternating forms without
			if len(v.Steps) == 1 && !va.opt && (vi%2 == 0) != va.q {
				continue
			}
			cache := map[string]*compiled{}
			for si, s := range v.Steps {
				if !constsUsable(s.X, 1) {
					unprintable++
					continue
				}
				tpl, err := render(s.X, va.q)
				if err != nil {
					if !va.q {
						unprintable++
						fmt.Fprintln(os.Stderr, "unprintable:", err)
					}
					continue
				}
				c := cache[tpl]
				if c == nil {
					wdEnter(M{"g": v.G, "step": si, "template": tpl, "m": s.m, "ks": s.ks, "opt": va.opt, "f": headFunc(s.X), "compile": true})
					c = compile(tpl, va.opt)
					wdLeave()
					cache[tpl] = c
				}
				wdEnter(M{"g": v.G, "step": si, "template": tpl, "m": s.m, "ks": s.ks, "opt": va.opt, "f": headFunc(s.X)})
				o := c.eval(tpl, mkctx(s.m, s.ks))
				wdLeave()
				runs++
				if va.opt && !va.q {
					steps++
					perFunc[headFunc(s.X)]++
					if s.Exp.K != "any" {
						nontrivial++
					}
					if w != nil {
						w.Write(record(s, o, va.opt))
					}
					if len(samples) < 8 && s.Exp.K == "out" && (steps%3571 == 7 || len(v.Steps) > 1 && si == 1 && len(samples) < 2) {
						samples = append(samples, M{"group": v.G, "template": tpl, "m": s.m, "keys": s.ks, "got": o.Got, "expect": string(vh.FromInts(s.Exp.V))})
					}
				}
				if !decide(s.Exp, o) {
					mism = append(mism, mismatch(v.G, si, s, va.form, va.opt, o))
				}
			}
		}
	}

	// ---- the same from W goroutines: one goroutine per context, shared compiled expressions
	type cstep struct {
		s   *step
		tpl string
		c   *compiled
	}
	byCtx := map[string][]*cstep{}
	var ctxOrder []string
	shared := map[string]*compiled{}
	for _, v := range vectors {
		if v.G != "conc" {
			continue
		}
		for _, s := range v.Steps {
			tpl, err := render(s.X, false)
			if err != nil || !constsUsable(s.X, 1) {
				continue
			}
			if shared[tpl] == nil {
				shared[tpl] = compile(tpl, true)
			}
			k, _ := json.Marshal([]interface{}{s.m, s.ks})
			if _, has := byCtx[string(k)]; !has {
				ctxOrder = append(ctxOrder, string(k))
			}
			byCtx[string(k)] = append(byCtx[string(k)], &cstep{s, tpl, shared[tpl]})
		}
	}
	concRuns := 0
	if len(ctxOrder) > 0 {
		var wg sync.WaitGroup
		var mu sync.Mutex
		start := make(chan struct{})
		counts := make([]int, len(ctxOrder))
		for gi, k := range ctxOrder {
			wg.Add(1)
			go func(gi int, list []*cstep) {
				defer wg.Done()
				<-start
				bad := 0
				for r := 0; r < *rounds; r++ {
					for _, cs := range list {
						ctx := mkctx(cs.s.m, cs.s.ks)
						o := cs.c.eval(cs.tpl, ctx)
						counts[gi]++
						if !decide(cs.s.Exp, o) && bad < 3 {
							bad++
							mm := mismatch("conc", 0, cs.s, "plain", true, o)
							mm["goroutines"] = len(ctxOrder)
							mm["round"] = r
							mu.Lock()
							mism = append(mism, mm)
							mu.Unlock()
						}
					}
				}
			}(gi, byCtx[k])
		}
		close(start)
		wg.Wait()
		for _, c := range counts {
			concRuns += c
		}
	}

	vh.WriteJSON(*out, M{"histories": histories, "multi_step_histories": multi, "steps": steps, "runs": runs, "distinct_nontrivial": nontrivial,
		"unprintable": unprintable, "per_group": perGroup, "per_func": perFunc, "goroutines": len(ctxOrder), "concurrent_runs": concRuns,
		"mismatches": mism, "samples": samples})
	return nil
}

// ---------------------------------------------------------------------------- debugging

func c17Eval(argv []string) error {
	fs := flag.NewFlagSet("c17-eval", flag.ExitOnError)
	in := fs.String("in", "", "json file holding {x, m, ks} (a mismatch / trace record)")
	tpl := fs.String("t", "", "or: a template")
	fs.Parse(argv)
	if *tpl != "" {
		c := compile(*tpl, true)
		o := c.eval(*tpl, mkctx(fs.Args(), nil))
		fmt.Printf("%q -> %q panic=%q cerr=%v\n", *tpl, o.Got, o.Panic, o.Cerr)
		return nil
	}
	raw, err := os.ReadFile(*in)
	if err != nil {
		return err
	}
	var s step
	if err := json.Unmarshal(raw, &s); err != nil {
		return err
	}
	s.decode()
	for _, q := range []bool{false, true} {
		t, err := render(s.X, q)
		if err != nil {
			fmt.Println("unprintable:", err)
			continue
		}
		for _, opt := range []bool{true, false} {
			o := compile(t, opt).eval(t, mkctx(s.m, s.ks))
			fmt.Printf("%q opt=%v -> %q panic=%q\n", t, opt, o.Got, o.Panic)
		}
	}
	return nil
}

package main

// B2 for C17: seeded random evaluations recorded for ExprArray_Trace.

import (
	"flag"
	"math/big"
	"math/rand"
	"strconv"
	"strings"

	"verifharness/vh"
)

type rnd struct{ *rand.Rand }

func (r rnd) pick(xs ...string) string { return xs[r.Intn(len(xs))] }
func (r rnd) tree(xs ...*tree) *tree   { return xs[r.Intn(len(xs))] }

var elemPool = []string{"", "", "a", "b", "ab", "bb", "é", " ", ",", "1", "12", "-3", "x y", "世", "a,b", ", ", "0", "A", "aé", "=", "ba", "5"}

func (r rnd) elem() string { return elemPool[r.Intn(len(elemPool))] }

func (r rnd) list(max int) []string {
	n := r.Intn(max + 1)
	if r.Intn(6) == 0 {
		n = r.Intn(3)
	}
	l := make([]string, n)
	for i := range l {
		l[i] = r.elem()
	}
	return l
}

func (r rnd) intList(max int) []string {
	n := r.Intn(max + 1)
	l := make([]string, n)
	for i := range l {
		l[i] = strconv.Itoa(r.Intn(41) - 10)
	}
	return l
}

var delimRunes = []string{",", " ", "a", "b", "é", ";", "世", "-", "=", "|", "ab", ", "}

func (r rnd) delim() string {
	n := 1 + r.Intn(3)
	var sb strings.Builder
	for i := 0; i < n; i++ {
		sb.WriteString(delimRunes[r.Intn(len(delimRunes))])
	}
	return sb.String()
}

func rjoin(l []string) string { return strings.Join(l, "\x00") }

func ilit(i int) *tree { return lit(strconv.Itoa(i)) }

// sub-expressions for @map (depth <= 2), {0} bound
func (r rnd) subMap() *tree {
	a0 := arg(0)
	switch r.Intn(14) {
	case 0:
		return a0
	case 1:
		return cat(a0, lit(r.pick("x", "-", "é", " y")))
	case 2:
		return call(r.pick("upper", "lower", "len"), a0)
	case 3:
		return call("sumi", call("len", a0), ilit(r.Intn(5)))
	case 4:
		return call("if", a0, a0, lit(r.pick("z", "", "none")))
	case 5:
		return call("if", call("eq", a0, lit(r.elem())), lit(r.pick("", "hit")), a0)
	case 6:
		return cat(a0, key("k"))
	case 7:
		return call("substr", a0, ilit(r.Intn(3)), ilit(r.Intn(4)))
	case 8:
		return lit(r.elem())
	case 9:
		return call("coalesce", a0, key("k"), lit("dflt"))
	case 10:
		return call("multi", call("len", a0), key("n"))
	case 11:
		return call("@len", call("@split", a0, lit(r.pick(",", "a", " "))))
	case 12:
		return call("@join", call("@split", a0, lit(",")), lit(r.pick("+", ", ")))
	}
	return call("unless", a0, key("k"))
}

func (r rnd) subFilter() *tree {
	a0 := arg(0)
	switch r.Intn(11) {
	case 0:
		return a0
	case 1:
		return call("not", a0)
	case 2:
		return call(r.pick("eq", "neq"), a0, lit(r.elem()))
	case 3:
		return call(r.pick("gt", "lt", "gte", "lte"), call("len", a0), ilit(r.Intn(3)))
	case 4:
		return lit(r.pick("1", "", " ", "no"))
	case 5:
		return call(r.pick("eq", "neq"), a0, key("k"))
	case 6:
		return call(r.pick("like", "prefix", "suffix"), a0, lit(r.pick("a", "b", "é", ",")))
	case 7:
		return call("and", a0, call("neq", a0, lit(r.elem())))
	case 8:
		return call("or", call("eq", a0, lit(r.elem())), call("eq", a0, key("k")))
	case 9:
		return call("isint", a0)
	}
	return call("@in", a0, call("@", lit(r.pick("a", "b")), lit(r.pick("ab", "1", "é"))))
}

func (r rnd) subReduce(ints bool) *tree {
	a0, a1 := arg(0), arg(1)
	if ints {
		switch r.Intn(6) {
		case 0:
			return call("sumi", a0, a1)
		case 1:
			return call("subi", a0, a1)
		case 2:
			return call(r.pick("maxi", "mini"), a0, a1)
		case 3:
			return call("subi", a1, a0)
		case 4:
			return call("sumi", a0, a1, key("n"))
		}
		return call("sumi", call("multi", a0, ilit(2)), a1)
	}
	switch r.Intn(8) {
	case 0:
		return cat(a0, a1)
	case 1:
		return cat(a1, a0)
	case 2:
		return cat(a0, lit(r.pick("-", "+", ", ")), a1)
	case 3:
		return cat(a0, key("k"), a1)
	case 4:
		return call("if", a1, a1, a0)
	case 5:
		return call("coalesce", a0, a1)
	case 6:
		return call("sumi", call("len", a0), call("len", a1))
	}
	return r.tree(a0, a1)
}

// ---- integers of the whole 64-bit type

// wide: a random int64, biased to the ends of the type, to powers of two and to zero
func (r rnd) wide() int64 {
	const max, min = int64(^uint64(0) >> 1), -int64(^uint64(0)>>1) - 1
	switch r.Intn(8) {
	case 0:
		return min + int64(r.Intn(5))
	case 1:
		return max - int64(r.Intn(5))
	case 2:
		return int64(r.Intn(9)) - 4
	case 3:
		v := int64(1) << uint(31+r.Intn(32))
		if r.Intn(2) == 0 {
			v = -v
		}
		return v + int64(r.Intn(3)) - 1
	}
	return int64(r.Uint64())
}

func w2s(v int64) string { return strconv.FormatInt(v, 10) }

// wideRange picks start, stop and an increment for which the documented range has at most 40 elements
// (vector selection only: what the elements are is the specification's business)
func (r rnd) wideRange() (start, stop, incr int64) {
	for {
		start, stop = r.wide(), r.wide()
		span := new(big.Int).Sub(big.NewInt(stop), big.NewInt(start)) // exact
		k := int64(1 + r.Intn(40))
		q := new(big.Int).Quo(span, big.NewInt(k)) // truncated: |q| * k <= |span|
		switch r.Intn(4) {
		case 0:
			q.Add(q, big.NewInt(int64(r.Intn(3))-1))
		case 1:
			q = big.NewInt(r.wide())
		}
		if !q.IsInt64() || q.Sign() == 0 {
			continue
		}
		incr = q.Int64()
		if span.Sign() == 0 {
			return
		}
		if span.Sign() != q.Sign() { // against the documented direction (the helper refuses): now and then
			if r.Intn(10) == 0 {
				return
			}
			continue
		}
		n := new(big.Int).Quo(span, q)
		if n.Sign() >= 0 && n.Cmp(big.NewInt(40)) <= 0 {
			return
		}
	}
}

func (r rnd) wideSample(s *sample) {
	l := r.list(5)
	switch r.Intn(6) {
	case 0, 1:
		a, b, c := r.wideRange()
		if r.Intn(2) == 0 {
			s.m = []string{w2s(a), w2s(b), w2s(c)}
			s.x = call("@range", arg(0), arg(1), arg(2))
		} else {
			s.x = call("@range", lit(w2s(a)), lit(w2s(b)), lit(w2s(c)))
		}
		if r.Intn(5) == 0 {
			s.x = call("@len", s.x)
		}
	case 2:
		s.x = call("@select", r.supply(l, s), lit(w2s(r.wide())))
	case 3:
		s.x = call("@slice", r.supply(l, s), lit(w2s(r.wide())))
	case 4:
		st, ln := r.wide(), r.wide()
		if r.Intn(2) == 0 {
			st = int64(r.Intn(2*len(l)+5) - len(l) - 2)
		} else if r.Intn(2) == 0 {
			ln = int64(r.Intn(len(l) + 2))
		}
		if ln < 0 && r.Intn(8) != 0 {
			ln = -(ln + 1)
		}
		s.x = call("@slice", r.supply(l, s), lit(w2s(st)), lit(w2s(ln)))
	default: // @for carrying a wide value: start + k*step stays inside the type for the k the condition admits
		n := 1 + r.Intn(4)
		for {
			a, c := r.wide(), r.wide()
			if r.Intn(2) == 0 {
				c = int64(r.Intn(9)) - 4
			}
			last := new(big.Int).Add(big.NewInt(a), new(big.Int).Mul(big.NewInt(c), big.NewInt(int64(n))))
			if !last.IsInt64() && r.Intn(6) != 0 {
				continue
			}
			s.m = []string{w2s(a)}
			s.x = call("@for", arg(0), call("lt", arg(1), ilit(n)), call(r.pick("sumi", "sumi", "subi"), arg(0), lit(w2s(c))))
			break
		}
	}
}

type sample struct {
	x  *tree
	m  []string
	ks [][2]string
}

// how the list reaches the helper
func (r rnd) supply(l []string, s *sample) *tree {
	switch r.Intn(5) {
	case 0:
		s.ks = append(s.ks, [2]string{"arr", rjoin(l)})
		return key("arr")
	case 1:
		if len(l) >= 2 {
			el := make([]*tree, len(l))
			ok := true
			for i, e := range l {
				el[i] = lit(e)
				ok = ok && constUsable(e)
			}
			if ok {
				return call(r.pick("@", "$"), el...)
			}
		}
	case 2:
		d := r.delim()
		ok := len(l) >= 1 && constUsable(d)
		for _, e := range l {
			if strings.Contains(e, d) {
				ok = false
			}
		}
		if ok && !strings.Contains(strings.Join(l, d), "\x00") {
			// only when splitting gives the list back (an element may complete a delimiter across a boundary)
			if eq(strings.Split(strings.Join(l, d), d), l) {
				s.m = append(s.m, strings.Join(l, d))
				return call("@split", arg(len(s.m)-1), lit(d))
			}
		}
	}
	s.m = append(s.m, rjoin(l))
	return arg(len(s.m) - 1)
}

func eq(a, b []string) bool {
	if len(a) != len(b) {
		return false
	}
	for i := range a {
		if a[i] != b[i] {
			return false
		}
	}
	return true
}

func (r rnd) sample() sample {
	s := sample{ks: [][2]string{{"k", r.pick("x", "a", "", "é", "12")}, {"n", strconv.Itoa(r.Intn(5))}}}
	l := r.list(7)
	n := len(l)
	kind := r.Intn(18)
	if kind >= 16 {
		r.wideSample(&s)
		if s.m == nil {
			s.m = []string{}
		}
		return s
	}
	switch kind {
	case 0: // split of an arbitrary string
		d := r.delim()
		var sb strings.Builder
		for i, k := 0, r.Intn(8); i < k; i++ {
			sb.WriteString(r.pick(d, d, r.elem(), r.elem(), d[:1], d[len(d)-1:]))
		}
		s.m = []string{sb.String()}
		s.x = call("@split", arg(0), lit(d))
	case 1: // join(split(s, d), d2)
		d := r.delim()
		s.m = []string{strings.Join(l, d)}
		s.x = call("@join", call("@split", arg(0), lit(d)), lit(r.pick(d, d, "-", r.delim())))
	case 2: // split(join(l, d), d)
		d := r.delim()
		s.x = call("@split", call("@join", r.supply(l, &s), lit(d)), lit(d))
	case 3:
		s.x = call("@join", r.supply(l, &s), lit(r.delim()))
		if r.Intn(5) == 0 {
			s.x = call("@join", s.x.A[0])
		}
	case 4:
		s.x = call("@len", r.supply(l, &s))
	case 5:
		s.x = call("@select", r.supply(l, &s), ilit(r.Intn(2*n+7)-n-3))
	case 6:
		s.x = call("@slice", r.supply(l, &s), ilit(r.Intn(2*n+7)-n-3))
	case 7:
		s.x = call("@slice", r.supply(l, &s), ilit(r.Intn(2*n+7)-n-3), ilit(r.Intn(n+3)))
		if r.Intn(3) == 0 {
			s.x = call(r.pick("@len", "@join"), s.x)
		}
	case 8:
		s.x = call("@map", r.supply(l, &s), r.subMap())
	case 9:
		s.x = call("@filter", r.supply(l, &s), r.subFilter())
	case 10:
		ints := r.Intn(2) == 0
		if ints {
			l = r.intList(6)
		}
		s.x = call("@reduce", r.supply(l, &s), r.subReduce(ints))
		if r.Intn(3) == 0 {
			init := r.pick("z", "", "0", "10")
			if ints {
				init = r.pick("0", "100", "", "-1")
			}
			s.x.A = append(s.x.A, lit(init))
		}
	case 11:
		v := r.elem()
		if n < 2 || r.Intn(3) == 0 {
			s.m = []string{v}
			s.x = call("@in", arg(0), lit(r.elem()))
		} else {
			if r.Intn(2) == 0 {
				v = l[r.Intn(n)]
			}
			el := make([]*tree, n)
			for i, e := range l {
				el[i] = lit(e)
			}
			s.m = []string{v}
			s.x = call("@in", arg(0), call("@", el...))
		}
	case 12:
		a, b, c := r.Intn(30)-10, r.Intn(40)-10, r.Intn(9)-3
		switch r.Intn(4) {
		case 0:
			s.m = []string{strconv.Itoa(b)}
			s.x = call("@range", arg(0))
		case 1:
			s.m = []string{strconv.Itoa(a), strconv.Itoa(b)}
			s.x = call("@range", arg(0), arg(1))
		case 2:
			s.x = call("@range", ilit(a), ilit(b), ilit(c))
		default:
			s.m = []string{strconv.Itoa(a), r.pick(strconv.Itoa(b), "x", "", "1.5"), strconv.Itoa(c)}
			s.x = call("@range", arg(0), arg(1), arg(2))
		}
		if r.Intn(4) == 0 {
			s.x = call("@reduce", s.x, call("sumi", arg(0), arg(1)))
		}
	case 13:
		start := r.tree(ilit(r.Intn(4)), lit(r.pick("", "a", "é")), key("n"))
		cond := r.tree(call("lt", arg(1), ilit(r.Intn(6))), call("lt", arg(0), ilit(r.Intn(20))), call("lt", call("len", arg(0)), ilit(r.Intn(5))),
			call("lt", arg(1), key("n")), lit(""), call("and", call("lt", arg(1), ilit(5)), call("neq", arg(0), ilit(4))))
		incr := r.tree(call("sumi", arg(0), ilit(1+r.Intn(3))), call("sumi", arg(0), arg(0)), call("multi", arg(0), ilit(2)), cat(arg(0), lit(r.pick("a", "é"))),
			call("sumi", arg(0), arg(1)), call("sumi", arg(0), key("n")), arg(1), lit(""), arg(0), cat(arg(0), key("k")), call("if", arg(0), lit(""), lit("x")))
		// every loop is bounded by the index whatever the values do (the helper's own limit is 10^6 iterations)
		cond = call("and", call("lt", arg(1), ilit(1+r.Intn(6))), cond)
		s.x = call("@for", start, cond, incr)
		if r.Intn(4) == 0 {
			s.x = call("@len", s.x)
		}
	case 14: // concatenation
		k := 1 + r.Intn(4)
		el := make([]*tree, k)
		for i := range el {
			switch r.Intn(3) {
			case 0:
				el[i] = lit(r.elem())
			case 1:
				s.m = append(s.m, r.pick(r.elem(), rjoin(r.list(3))))
				el[i] = arg(len(s.m) - 1)
			default:
				el[i] = key("k")
			}
		}
		s.x = call(r.pick("@", "$"), el...)
		if r.Intn(3) == 0 {
			s.x = call("@len", s.x)
		}
	default: // nesting
		switch r.Intn(4) {
		case 0:
			s.x = call("@filter", call("@map", r.supply(l, &s), r.subMap()), r.subFilter())
		case 1:
			s.x = call("@map", call("@filter", r.supply(l, &s), r.subFilter()), r.subMap())
		case 2:
			s.x = call("@reduce", call("@map", r.supply(l, &s), call("len", arg(0))), call("sumi", arg(0), arg(1)))
		default:
			d := r.pick("+", ";", "ab")
			inner := call("@join", call("@map", call("@split", arg(0), lit(d)), r.subMap()), lit(d))
			s.x = call("@map", r.supply(l, &s), inner)
		}
	}
	if s.m == nil {
		s.m = []string{}
	}
	return s
}

func c17Trace(argv []string) error {
	fs := flag.NewFlagSet("c17-trace", flag.ExitOnError)
	out := fs.String("out", "c17-trace.ndjson", "trace file")
	n := fs.Int("n", 8000, "number of recorded evaluations")
	fs.Parse(argv)
	w, err := vh.NewNdWriter(*out)
	if err != nil {
		return err
	}
	defer w.Close()
	r := rnd{vh.NewRand(17)}
	for w.N < *n {
		s := r.sample()
		if !constsUsable(s.x, 1) {
			continue
		}
		q := r.Intn(3) == 0
		tpl, err := render(s.x, q)
		if err != nil {
			if tpl, err = render(s.x, false); err != nil {
				continue
			}
		}
		opt := r.Intn(4) != 0
		st := &step{X: s.x, m: s.m, ks: s.ks}
		o := compile(tpl, opt).eval(tpl, mkctx(s.m, s.ks))
		w.Write(record(st, o, opt))
	}
	return nil
}

package main

// C14 - renderers never crash and draw quantities proportionally within bounds.
//   replay : B1 - TLC-generated vectors.  "fn" vectors (calls of the drawing primitives with every
//            result Render.tla accepts) are executed on the real termscaler / termunicode / color /
//            humanize functions and compared; "state" vectors (sample histories with the aggregated
//            state Aggregators.tla expects) are sampled into the REAL aggregators, compared, and rendered
//            by every real renderer x scale x colour x unicode x formatter x row/column limits into a
//            multiterm.VirtualTerm under recover; the screens are recorded for Render_Trace (B2).
//   trace  : B2 - seeded random scaler triples (grouped by range, sorted by value), primitive calls with
//            values up to +-10^9, random aggregator states (large values, odd keys, more rows and columns
//            than fit) rendered fresh and progressively; everything recorded for TLC.

import (
	"encoding/json"
	"flag"
	"fmt"
	"math"
	"math/rand"
	"os"
	"sort"
	"strconv"
	"strings"
	"time"

	"rare/pkg/aggregation"
	"rare/pkg/aggregation/sorting"
	"rare/pkg/color"
	"rare/pkg/humanize"
	"rare/pkg/multiterm"
	"rare/pkg/multiterm/termformat"
	"rare/pkg/multiterm/termrenderers"
	"rare/pkg/multiterm/termscaler"
	"rare/pkg/multiterm/termunicode"

	"verifharness/vh"
)

func main() {
	vh.Main(vh.Commands{"replay": c14Replay, "trace": c14Trace})
}

type M = vh.M

// ------------------------------------------------------------------ aggregator states

type state struct {
	kind string
	ctr  *aggregation.MatchCounter
	sub  *aggregation.SubKeyCounter
	tbl  *aggregation.TableAggregator
}

func newState(kind string) *state {
	s := &state{kind: kind}
	switch kind {
	case "ctr":
		s.ctr = aggregation.NewCounter()
	case "sub":
		s.sub = aggregation.NewSubKeyCounter()
	case "tbl":
		s.tbl = aggregation.NewTable("\x00")
	}
	return s
}

func (s *state) sample(el string) {
	switch s.kind {
	case "ctr":
		s.ctr.Sample(el)
	case "sub":
		s.sub.Sample(el)
	case "tbl":
		s.tbl.Sample(el)
	}
}

func sorterOf(byValue bool) sorting.NameValueSorter {
	if byValue {
		return sorting.NVValueSorter
	}
	return sorting.NVNameSorter
}

// what the renderer is handed: keys (code points) and values in display order
func (s *state) obs(byValue bool) M {
	so := sorterOf(byValue)
	switch s.kind {
	case "ctr":
		items := [][]interface{}{}
		for _, m := range s.ctr.ItemsSortedBy(1<<30, so) {
			items = append(items, []interface{}{vh.R(m.Name), m.Item.Count()})
		}
		return M{"items": items, "total": s.ctr.Total()}
	case "sub":
		sk := [][]int{}
		for _, k := range s.sub.SubKeys() {
			sk = append(sk, vh.R(k))
		}
		rows := [][]interface{}{}
		for _, r := range s.sub.ItemsSorted(so) {
			vals := append([]int64{}, r.Item.Items()...)
			rows = append(rows, []interface{}{vh.R(r.Name), vals})
		}
		return M{"subkeys": sk, "rows": rows}
	}
	cols := s.tbl.OrderedColumns(so)
	cn := [][]int{}
	for _, c := range cols {
		cn = append(cn, vh.R(c))
	}
	rows := [][]interface{}{}
	for _, r := range s.tbl.OrderedRows(so) {
		vals := make([]int64, len(cols))
		for i, c := range cols {
			vals[i] = r.Value(c)
		}
		rows = append(rows, []interface{}{vh.R(r.Name()), vals})
	}
	return M{"cols": cn, "rows": rows}
}

// ------------------------------------------------------------------ render configurations

type cfg struct {
	Rdr    string `json:"rdr"`
	Sc     string `json:"sc"`
	Color  bool   `json:"color"`
	Uni    bool   `json:"uni"`
	Fmt    string `json:"fmt"`
	Rows   int    `json:"rows"`
	Cols   int    `json:"cols"`
	Bars   bool   `json:"bars"`
	Pct    bool   `json:"pct"`
	RowTot bool   `json:"rowtot"`
	ColTot bool   `json:"coltot"`
	Over   bool   `json:"over"`
	ByVal  bool   `json:"byval"`
	TplId  int    `json:"-"` // index into tplTable when Fmt == "tpl"
	FootId int    `json:"-"` // index into footTable: the footer lines written after every render
}

// expression formatters (--format): a template is a list of parts; [-1] the value, [-2] the lower bound, [-3] the
// upper bound, anything else literal text (Render.tla FmtTpl)
var tplTable = [][][]int{
	{{-1}, vh.R(" of "), {-3}},                       // {0} of {max}
	{{-1}, vh.R("["), {-2}, vh.R("~"), {-3}, vh.R("]")}, // {0}[{min}~{max}]
	{vh.R("#"), {-1}},                                // #{0}
	{{-3}, vh.R("/"), {-1}, vh.R("/"), {-2}},         // {max}/{0}/{min}
}

// footer line numbers (relative to the renderer's footer base) written after every render, like cmd/*.go do (0 and 1)
var footTable = [][]int{{}, {0, 1}, {0}, {1}, {0, 3}, {0, 1, 37}}

// the expression text of a template; the spelling of the references alternates with alt
func tplExpr(tpl [][]int, alt int) string {
	var sb strings.Builder
	for i, p := range tpl {
		names := [][2]string{{"{0}", "{val}"}, {"{1}", "{min}"}, {"{2}", "{max}"}}
		if len(p) == 1 && p[0] < 0 && p[0] >= -3 {
			sb.WriteString(names[-p[0]-1][(alt+i)%2])
		} else {
			sb.WriteString(vh.RunesFromInts(p))
		}
	}
	return sb.String()
}


func scalerOf(name string) termscaler.Scaler {
	s, ok := termscaler.ScalerByName(name)
	if !ok {
		panic("scaler " + name)
	}
	return s
}

// one formatter per renderer instance, as the commands build it once from --format
func formatterOf(c cfg) termformat.Formatter {
	switch c.Fmt {
	case "raw":
		return termformat.Passthru
	case "tpl":
		return termformat.MustFromExpression(tplExpr(tplTable[c.TplId], c.Rows+c.Cols))
	}
	return termformat.Default
}

func (c cfg) tpl() [][]int {
	if c.Fmt == "tpl" {
		return tplTable[c.TplId]
	}
	return [][]int{}
}

// one renderer instance writing into one virtual terminal (kept across progressive renders)
type inst struct {
	c     cfg
	vt    *multiterm.VirtualTerm
	histo *termrenderers.HistoWriter
	bars  *termrenderers.BarGraph
	table *termrenderers.DataTable
	heat  *termrenderers.Heatmap
	spark *termrenderers.Spark
	tw    *termrenderers.TableWriter
	pass  int
	foot  [][]interface{} // the footers of the last render: [line relative to the base, text]
}

func (in *inst) writeFooter(idx int, text string) {
	switch in.c.Rdr {
	case "histo":
		in.histo.WriteFooter(idx, text)
	case "bars", "stack":
		in.bars.WriteFooter(idx, text)
	case "table":
		in.table.WriteFooter(idx, text)
	case "heat":
		in.heat.WriteFooter(idx, text)
	case "spark":
		in.spark.WriteFooter(idx, text)
	case "reduce":
		in.tw.WriteFooter(idx, text)
	}
}

func setGlobals(c cfg) {
	color.Enabled = c.Color
	termunicode.UnicodeEnabled = c.Uni
	humanize.Enabled = true
}

func newInst(c cfg) (in *inst, msg string) {
	defer func() {
		if r := recover(); r != nil {
			msg = fmt.Sprint(r)
		}
	}()
	setGlobals(c)
	in = &inst{c: c, vt: multiterm.NewVirtualTerm()}
	switch c.Rdr {
	case "histo":
		in.histo = termrenderers.NewHistogram(in.vt, c.Rows)
		in.histo.ShowBar = c.Bars
		in.histo.ShowPercentage = c.Pct
		in.histo.Scaler = scalerOf(c.Sc)
		in.histo.Formatter = formatterOf(c)
	case "bars", "stack":
		in.bars = termrenderers.NewBarGraph(in.vt)
		in.bars.Stacked = c.Rdr == "stack"
		if !in.bars.Stacked {
			in.bars.Scaler = scalerOf(c.Sc)
		}
		in.bars.Formatter = formatterOf(c)
	case "table":
		in.table = termrenderers.NewDataTable(in.vt, c.Cols, c.Rows)
		in.table.ShowRowTotals = c.RowTot
		in.table.ShowColTotals = c.ColTot
		if c.Fmt != "hi" {
			in.table.SetFormatter(formatterOf(c))
		}
	case "heat":
		in.heat = termrenderers.NewHeatmap(in.vt, c.Rows, c.Cols)
		in.heat.Scaler = scalerOf(c.Sc)
		in.heat.Formatter = formatterOf(c)
	case "spark":
		in.spark = termrenderers.NewSpark(in.vt, c.Rows, c.Cols)
		in.spark.Scaler = scalerOf(c.Sc)
		in.spark.Formatter = formatterOf(c)
	case "reduce":
		in.tw = termrenderers.NewTable(in.vt, c.Cols, c.Rows)
	}
	return
}

// the cells cmd/reduce.go hands to the TableWriter, built from a table state
func reduceCells(s *state, byValue bool) [][]string {
	so := sorterOf(byValue)
	cols := s.tbl.OrderedColumns(so)
	hdr := []string{color.Wrap(color.Underline+color.BrightYellow, "row")}
	for _, c := range cols {
		hdr = append(hdr, color.Wrap(color.Underline+color.BrightBlue, c))
	}
	out := [][]string{hdr}
	for _, r := range s.tbl.OrderedRows(so) {
		row := []string{color.Wrap(color.BrightWhite, r.Name())}
		for _, c := range cols {
			row = append(row, strconv.FormatInt(r.Value(c), 10))
		}
		out = append(out, row)
	}
	return out
}

// render the state the way cmd/{histo,bargraph,tabulate,heatmap,spark,reduce}.go do
func (in *inst) render(s *state) (obs M, msg string) {
	c := in.c
	setGlobals(c)
	obs = s.obs(c.ByVal)
	if c.Rdr == "reduce" {
		cells := reduceCells(s, c.ByVal)
		cc := [][][]int{}
		for _, r := range cells {
			rr := [][]int{}
			for _, x := range r {
				rr = append(rr, vh.R(x))
			}
			cc = append(cc, rr)
		}
		obs = M{"cells": cc}
	}
	defer func() {
		if r := recover(); r != nil {
			msg = fmt.Sprint(r)
		}
	}()
	so := sorterOf(c.ByVal)
	in.pass++
	in.foot = [][]interface{}{}
	switch c.Rdr {
	case "histo":
		count := c.Rows
		if c.Over {
			count = 1 << 30 // library level: more items than lines
		}
		items := s.ctr.ItemsSortedBy(count, so)
		in.histo.UpdateTotal(s.ctr.Total())
		for line, m := range items {
			in.histo.WriteForLine(line, m.Name, m.Item.Count())
		}
	case "bars", "stack":
		in.bars.SetKeys(s.sub.SubKeys()...)
		for line, row := range s.sub.ItemsSorted(so) {
			in.bars.WriteBar(line, row.Name, row.Item.Items()...)
		}
	case "table":
		in.table.WriteTable(s.tbl, so, so)
	case "heat":
		in.heat.WriteTable(s.tbl, so, so)
	case "spark":
		in.spark.WriteTable(s.tbl, so, so)
	case "reduce":
		for i, row := range reduceCells(s, c.ByVal) {
			in.tw.WriteRow(i, row...)
		}
	}
	// the footers follow every render (cmd/*.go: summary and status line)
	for _, idx := range footTable[c.FootId] {
		text := fmt.Sprintf("foot %d of render %d \u00b5", idx, in.pass)
		in.foot = append(in.foot, []interface{}{idx, vh.R(text)})
		in.writeFooter(idx, text)
	}
	return
}

// renderGuarded runs render with a deadline: a renderer that does not return is a finding of its own
// ("every renderer completes"); the driver records it and stops (the stuck goroutine cannot be killed).
var hung = ""

func (in *inst) renderGuarded(s *state) (obs M, msg string) {
	type res struct {
		obs M
		msg string
	}
	ch := make(chan res, 1)
	go func() {
		o, m := in.render(s)
		ch <- res{o, m}
	}()
	select {
	case r := <-ch:
		return r.obs, r.msg
	case <-time.After(20 * time.Second):
		hung = in.c.Rdr
		return s.obs(in.c.ByVal), "hang: the renderer did not return within 20 s"
	}
}

func (in *inst) lines() [][]int {
	out := [][]int{}
	for i := 0; i < in.vt.LineCount(); i++ {
		out = append(out, vh.R(in.vt.Get(i)))
	}
	return out
}

var rdrsOf = map[string][]string{
	"ctr": {"histo"},
	"sub": {"bars", "stack"},
	"tbl": {"table", "heat", "spark", "reduce"},
}
var scales = []string{"linear", "log2", "log10"}
var limitsL = []int{0, 1, 2, 3, 40}

// the configurations one state is rendered with: every scale x colour x unicode, the limits, formatter and
// options rotating with the state index so that all combinations occur across the states
var thin = 1 // keep every thin-th configuration per state (rotating with the state index)

func configsFor(kind string, idx int, full bool) []cfg {
	var out []cfg
	for _, rdr := range rdrsOf[kind] {
		j := 0
		for _, sc := range scales {
			if sc != "linear" && (rdr == "stack" || rdr == "table" || rdr == "reduce") {
				continue // no scaler involved
			}
			for _, col := range []bool{false, true} {
				for _, uni := range []bool{false, true} {
					if !uni && (rdr == "table" || rdr == "reduce") {
						continue
					}
					h := uint32(idx)*2654435761 + uint32(j)*40503 + 12345 // a fixed mix: options independent of the thinning
					h ^= h >> 13
					h *= 0x5bd1e995
					h ^= h >> 15
					k := int(h % 1000003)
					j++
					if (j+idx)%thin != 0 {
						continue
					}
					c := cfg{Rdr: rdr, Sc: sc, Color: col, Uni: uni, Fmt: []string{"hi", "raw", "tpl", "tpl"}[(k/3)%4],
						TplId: (k / 23) % len(tplTable), FootId: (k / 29) % len(footTable),
						Rows: limitsL[k%5], Cols: limitsL[(k/5)%5],
						Bars: (k/7)%4 != 3, Pct: (k/11)%3 != 2, RowTot: (k/13)%2 == 0, ColTot: (k/17)%3 != 0,
						Over: (k/19)%2 == 0, ByVal: idx%2 == 0}
					out = append(out, c)
					if full && j%4 == idx%4 {
						for _, r := range limitsL {
							for _, cl := range limitsL {
								c2 := c
								c2.Rows, c2.Cols = r, cl
								if c2 != c {
									out = append(out, c2)
								}
							}
						}
					}
				}
			}
		}
	}
	return out
}

type recorder struct {
	w        *vh.NdWriter
	renders  int
	panics   int
	perRdr   map[string]int
	nontriv  int
	samples  []M
	seen     map[string]bool
	skipped  int
	maxLines int
}

func newRecorder(path string) (*recorder, error) {
	w, err := vh.NewNdWriter(path)
	if err != nil {
		return nil, err
	}
	return &recorder{w: w, perRdr: map[string]int{}, seen: map[string]bool{}}, nil
}

func (rc *recorder) render(c cfg, obs M, prev []M, fresh bool, lines [][]int, msg string, id int, before [][]int, foot [][]interface{}) {
	if foot == nil {
		foot = [][]interface{}{}
	}
	rec := M{"ev": "render", "id": id, "rdr": c.Rdr, "sc": c.Sc, "color": c.Color, "uni": c.Uni, "fmt": c.Fmt,
		"tpl": c.tpl(), "before": before, "foot": foot,
		"rows": c.Rows, "cols": c.Cols, "bars": c.Bars, "pct": c.Pct, "rowtot": c.RowTot, "coltot": c.ColTot,
		"over": c.Over, "obs": obs, "prev": prev, "fresh": fresh, "panic": msg != "", "msg": msg, "lines": lines}
	if prev == nil {
		rec["prev"] = []M{}
	}
	rc.renders++
	rc.perRdr[c.Rdr]++
	if msg != "" {
		rc.panics++
	}
	if len(lines) >= 2 {
		rc.nontriv++
	}
	if len(lines) > rc.maxLines {
		rc.maxLines = len(lines)
	}
	// identical observations are validated once
	delete(rec, "id")
	b, _ := json.Marshal(rec)
	key := string(b)
	if rc.seen[key] {
		rc.skipped++
		return
	}
	rc.seen[key] = true
	rec["id"] = id
	rc.w.Write(rec)
	if len(rc.samples) < 3 && len(lines) >= 3 {
		txt := []string{}
		for _, l := range lines {
			txt = append(txt, vh.RunesFromInts(l))
		}
		rc.samples = append(rc.samples, M{"renderer": c.Rdr, "scale": c.Sc, "color": c.Color, "unicode": c.Uni, "screen": txt})
	}
}

// render one final state with a fresh renderer per configuration, and progressively (one renderer over the
// growing prefixes of the history) with one configuration per renderer
func (rc *recorder) renderState(kind string, hist []string, idx int, full bool) {
	st := newState(kind)
	for _, el := range hist {
		st.sample(el)
	}
	for _, c := range configsFor(kind, idx, full) {
		in, msg := newInst(c)
		var obs M
		lines := [][]int{}
		var foot [][]interface{}
		if msg == "" {
			obs, msg = in.renderGuarded(st)
			if hung == "" {
				lines = in.lines()
				foot = in.foot
			}
		} else {
			obs = st.obs(c.ByVal)
		}
		rc.render(c, obs, nil, true, lines, msg, idx, [][]int{}, foot)
		if hung != "" {
			return
		}
	}
	if len(hist) < 2 {
		return
	}
	keep := thin
	thin = 1
	cs := configsFor(kind, idx+1, false)
	thin = keep
	for ri, rdr := range rdrsOf[kind] {
		var mine []cfg
		for _, c := range cs {
			if c.Rdr == rdr {
				mine = append(mine, c)
			}
		}
		c := mine[(idx+ri)%len(mine)]
		if c.Rows == 0 {
			c.Rows = 2
		}
		in, msg := newInst(c)
		if msg != "" {
			continue
		}
		grow := newState(kind)
		prev := []M{}
		failed := false
		step := (len(hist) + 3) / 4
		for i, el := range hist {
			grow.sample(el)
			if (i+1)%step != 0 && i != len(hist)-1 {
				continue
			}
			before := in.lines()
			obs, msg := in.renderGuarded(grow)
			if hung != "" {
				rc.render(c, obs, append([]M{}, prev...), len(prev) == 0, [][]int{}, msg, idx, before, nil)
				return
			}
			rc.render(c, obs, append([]M{}, prev...), len(prev) == 0, in.lines(), msg, idx, before, in.foot)
			if msg != "" {
				failed = true
				break
			}
			prev = append(prev, obs)
		}
		// rows disappear: cmd/spark.go trims the columns outside the displayed window before every render (a row whose
		// cells all lay there goes with them); the same instance then draws the smaller data
		if cols := grow.tblColumns(c.ByVal); !failed && (rdr == "spark" || rdr == "heat") && len(cols) > 0 {
			keepN := c.Cols
			if keepN >= len(cols) {
				keepN = len(cols) - 1 // at least the oldest column goes
			}
			keep := map[string]bool{}
			for _, k := range cols[len(cols)-keepN:] {
				keep[k] = true
			}
			grow.tbl.Trim(func(col, row string, val int64) bool { return !keep[col] })
			before := in.lines()
			obs, msg := in.renderGuarded(grow)
			if hung != "" {
				rc.render(c, obs, append([]M{}, prev...), false, [][]int{}, msg, idx, before, nil)
				return
			}
			rc.render(c, obs, append([]M{}, prev...), len(prev) == 0, in.lines(), msg, idx, before, in.foot)
		}
	}
}

func (s *state) tblColumns(byValue bool) []string {
	if s.tbl == nil {
		return nil
	}
	return s.tbl.OrderedColumns(sorterOf(byValue))
}

// ------------------------------------------------------------------ replay (B1)

type vector struct {
	K    string          `json:"k"`
	F    string          `json:"f"`
	A    []int64         `json:"a"`
	Exp  json.RawMessage `json:"exp"`
	Agg  string          `json:"agg"`
	Prof int             `json:"prof"`
	H    [][]int         `json:"h"`
}

type strBuf struct{ strings.Builder }

func b(x int64) bool { return x == 1 }

func runesOf(s string) []int64 {
	out := []int64{}
	for _, r := range s {
		out = append(out, int64(r))
	}
	return out
}

// evalFn runs the real primitive; the result is a sequence of integers (scale: checked separately)
func evalFn(v *vector) (got []int64, msg string) {
	defer func() {
		if r := recover(); r != nil {
			msg = fmt.Sprint(r)
		}
	}()
	a := v.A
	lin := termscaler.ScalerLinear
	var sb strings.Builder
	switch v.F {
	case "bucket":
		return []int64{int64(lin.Bucket(int(a[0]), a[1], a[2], a[3]))}, ""
	case "length":
		return []int64{int64(lin.LengthVal(int(a[0]), a[1], a[2], a[3]))}, ""
	case "keys":
		return append([]int64{}, lin.ScaleKeys(a[0], a[1], a[2])...), ""
	case "bar":
		termunicode.UnicodeEnabled = b(a[3])
		termunicode.BarWrite(&sb, float64(a[0])/float64(a[1]), int(a[2]))
	case "stack":
		color.Enabled, termunicode.UnicodeEnabled = b(a[2]), b(a[3])
		termunicode.BarWriteStacked(&sb, a[0], a[1], a[4:]...)
	case "heat":
		color.Enabled, termunicode.UnicodeEnabled = b(a[2]), b(a[3])
		termunicode.HeatWrite(&sb, float64(a[0])/float64(a[1]))
	case "spark":
		termunicode.UnicodeEnabled = b(a[2])
		termunicode.SparkWrite(&sb, float64(a[0])/float64(a[1]))
	case "hi":
		humanize.Enabled = true
		sb.WriteString(termformat.Default(a[0], 0, 0))
	case "strlen":
		color.Enabled = b(a[0])
		rs := make([]rune, len(a)-1)
		for i, c := range a[1:] {
			rs[i] = rune(c)
		}
		return []int64{int64(color.StrLen(string(rs)))}, ""
	default:
		return nil, "unknown function " + v.F
	}
	return runesOf(sb.String()), ""
}

func eq64(x, y []int64) bool {
	if len(x) != len(y) {
		return false
	}
	for i := range x {
		if x[i] != y[i] {
			return false
		}
	}
	return true
}

func str(a []int) string { return string(vh.FromInts(a)) }

// compare the real aggregator with the state the specification expects
func stateMismatch(v *vector, st *state) string {
	switch v.Agg {
	case "ctr":
		var e struct {
			Items [][]json.RawMessage `json:"items"`
			Total int64               `json:"total"`
		}
		if err := json.Unmarshal(v.Exp, &e); err != nil {
			return "decode: " + err.Error()
		}
		got := map[string]int64{}
		for _, m := range st.ctr.Items() {
			got[m.Name] = m.Item.Count()
		}
		if len(got) != len(e.Items) || st.ctr.Total() != e.Total {
			return fmt.Sprintf("items/total: got %v total %d", got, st.ctr.Total())
		}
		for _, it := range e.Items {
			var k []int
			var n int64
			json.Unmarshal(it[0], &k)
			json.Unmarshal(it[1], &n)
			if g, ok := got[str(k)]; !ok || g != n {
				return fmt.Sprintf("item %q: got %d want %d", str(k), g, n)
			}
		}
	case "sub", "tbl":
		var e struct {
			Subkeys [][]int             `json:"subkeys"`
			Cols    [][]int             `json:"cols"`
			Rows    [][]json.RawMessage `json:"rows"`
			Min     int64               `json:"min"`
			Max     int64               `json:"max"`
		}
		if err := json.Unmarshal(v.Exp, &e); err != nil {
			return "decode: " + err.Error()
		}
		want := map[string]map[string]int64{}
		for _, r := range e.Rows {
			var k []int
			var cells [][]json.RawMessage
			json.Unmarshal(r[0], &k)
			json.Unmarshal(r[1], &cells)
			m := map[string]int64{}
			for _, c := range cells {
				var ck []int
				var n int64
				json.Unmarshal(c[0], &ck)
				json.Unmarshal(c[1], &n)
				m[str(ck)] = n
			}
			want[str(k)] = m
		}
		if v.Agg == "sub" {
			sk := st.sub.SubKeys()
			if len(sk) != len(e.Subkeys) || len(st.sub.Items()) != len(want) {
				return fmt.Sprintf("subkeys/rows: got %q, %d rows", sk, len(st.sub.Items()))
			}
			for _, it := range st.sub.Items() {
				w, ok := want[it.Name]
				if !ok {
					return fmt.Sprintf("unexpected row %q", it.Name)
				}
				for i, k := range sk {
					if wv, ok := w[k]; !ok || wv != it.Item.Items()[i] {
						return fmt.Sprintf("cell %q/%q: got %d want %d", it.Name, k, it.Item.Items()[i], wv)
					}
				}
			}
		} else {
			cols := st.tbl.Columns()
			if len(cols) != len(e.Cols) || st.tbl.RowCount() != len(want) {
				return fmt.Sprintf("cols/rows: got %q, %d rows", cols, st.tbl.RowCount())
			}
			for _, r := range st.tbl.Rows() {
				w, ok := want[r.Name()]
				if !ok {
					return fmt.Sprintf("unexpected row %q", r.Name())
				}
				for _, k := range cols {
					if wv, ok := w[k]; !ok || wv != r.Value(k) {
						return fmt.Sprintf("cell %q/%q: got %d want %d", r.Name(), k, r.Value(k), wv)
					}
				}
			}
			if mn, mx := st.tbl.ComputeMinMax(); mn != e.Min || mx != e.Max {
				return fmt.Sprintf("min/max: got %d %d want %d %d", mn, mx, e.Min, e.Max)
			}
		}
	}
	return ""
}

func c14Replay(args []string) error {
	fs := flag.NewFlagSet("replay", flag.ExitOnError)
	in := fs.String("in", "", "vectors (ndjson)")
	out := fs.String("out", "", "render records for TLC (ndjson)")
	res := fs.String("res", "", "result (json)")
	fullEvery := fs.Int("full", 9, "every n-th state gets the full row x column limit matrix")
	fs.IntVar(&thin, "thin", 1, "keep every n-th configuration per state")
	fs.Parse(args)
	rc, err := newRecorder(*out)
	if err != nil {
		return err
	}
	mism := []M{}
	nfn, nstate, fnNontriv := 0, 0, 0
	perF := map[string]int{}
	var samples []M
	ist := &instStats{vectors: map[string]int{}}
	ninst, canaryRejected := 0, 0
	hst := &histStats{vectors: map[string]int{}}
	nhist, histCanaryRejected := 0, 0
	err = vh.ReadNd(*in, func(raw json.RawMessage) error {
		var v vector
		if err := json.Unmarshal(raw, &v); err != nil {
			return err
		}
		if v.K == "inst" {
			ninst++
			if m := instReplay(raw, ninst, ist); m != nil {
				if c, _ := m["canary"].(bool); c {
					canaryRejected++
				} else if len(mism) < 400 {
					mism = append(mism, m)
				}
			}
			return nil
		}
		if v.K == "hist" {
			nhist++
			if m := histReplay(raw, nhist, hst); m != nil {
				if c, _ := m["canary"].(bool); c {
					histCanaryRejected++
				} else if len(mism) < 400 {
					mism = append(mism, m)
				}
			}
			return nil
		}
		if v.K == "fn" {
			nfn++
			perF[v.F]++
			var alts [][]int64
			if err := json.Unmarshal(v.Exp, &alts); err != nil {
				return err
			}
			if v.F == "scale" {
				s := termscaler.ScalerLinear.Scale(v.A[0], v.A[1], v.A[2])
				want := float64(alts[0][0]) / float64(alts[0][1])
				if !(math.Abs(s-want) <= 1e-12) {
					mism = append(mism, M{"f": v.F, "a": v.A, "got": fmt.Sprint(s), "exp": alts, "panic": ""})
				}
				if alts[0][0] > 0 && alts[0][0] < alts[0][1] {
					fnNontriv++
				}
				return nil
			}
			got, msg := evalFn(&v)
			ok := false
			for _, alt := range alts {
				if msg == "" && eq64(got, alt) {
					ok = true
				}
			}
			if !ok {
				mism = append(mism, M{"f": v.F, "a": v.A, "got": got, "exp": alts, "panic": msg})
			}
			if len(got) > 0 {
				fnNontriv++
			}
			if len(samples) < 4 && len(got) > 2 && nfn%7 == 0 {
				samples = append(samples, M{"f": v.F, "a": v.A, "got": got})
			}
			return nil
		}
		hist := make([]string, len(v.H))
		for i, h := range v.H {
			hist[i] = str(h)
		}
		st := newState(v.Agg)
		for i := len(hist) - 1; i >= 0; i-- { // the reverse order builds the same state
			st.sample(hist[i])
		}
		if why := stateMismatch(&v, st); why != "" {
			mism = append(mism, M{"f": "state:" + v.Agg, "a": v.H, "got": why, "exp": v.Exp, "panic": ""})
		}
		if hung == "" {
			rc.renderState(v.Agg, hist, nstate, nstate%*fullEvery == 0)
		}
		nstate++
		return nil
	})
	if err != nil {
		return err
	}
	rc.w.Close()
	vh.WriteJSON(*res, M{"inst_vectors": ninst, "inst_per_machine": ist.vectors, "inst_ops": ist.ops, "inst_nontrivial": ist.nontriv, "inst_canaries_rejected": canaryRejected,
		"hist_vectors": nhist, "hist_per_machine": hst.vectors, "hist_renders": hst.renders, "hist_nontrivial": hst.nontriv, "hist_canaries_rejected": histCanaryRejected,
		"fn_vectors": nfn, "state_vectors": nstate, "per_fn": perF, "fn_nontrivial": fnNontriv,
		"mismatches": mism, "renders": rc.renders, "records": rc.w.N, "identical": rc.skipped, "panics": rc.panics,
		"per_renderer": rc.perRdr, "nontrivial": rc.nontriv, "samples": append(samples, rc.samples...), "max_lines": rc.maxLines, "hung": hung})
	if hung != "" {
		os.Exit(0) // a goroutine is still spinning
	}
	return nil
}

// ------------------------------------------------------------------ trace (B2)

func s9of(s float64) (int64, bool) {
	in01 := s >= 0 && s <= 1
	if math.IsNaN(s) {
		return -2, false
	}
	x := math.Floor(s * 1e9)
	if x < -1 {
		x = -1
	}
	if x > 1000000001 {
		x = 1000000001
	}
	return int64(x), in01
}

var keyPool = []string{"", "a", "bb", "key", "two words", "ünï¢ødé", "日本語テキスト", "abcdefghijklmnopqrstuvwxyz0123456789",
	"\x1b[31mred\x1b[0m", "x\x1b[1my", "0", "123", "-5", "Total", "First", "|", "█", "#", "a.b", "1,000", "[x]", "é"}

func pick(r *rand.Rand, n int) []string {
	p := r.Perm(len(keyPool))
	out := []string{}
	for i := 0; i < n && i < len(p); i++ {
		out = append(out, keyPool[p[i]])
	}
	return out
}

func randVal(r *rand.Rand) int64 {
	switch r.Intn(10) {
	case 0:
		return 0
	case 1:
		return -int64(r.Intn(50))
	case 2:
		return int64(r.Intn(40000000))
	case 3:
		return -int64(r.Intn(40000000))
	case 4:
		return 1
	case 5:
		return int64(r.Intn(1000))
	default:
		return int64(r.Intn(20))
	}
}

func randHistory(r *rand.Rand, kind string) []string {
	nk := 1 + r.Intn(9)
	if r.Intn(6) == 0 {
		nk = 10 + r.Intn(8)
	}
	keys := pick(r, nk)
	subs := pick(r, 1+r.Intn(7))
	if r.Intn(5) == 0 {
		subs = pick(r, 8+r.Intn(10))
	}
	if kind == "sub" && r.Intn(4) == 0 {
		subs = pick(r, 13+r.Intn(9)) // more series than the bar graph has group colours (12) or ascii marks (16)
	}
	n := 1 + r.Intn(24)
	mode := r.Intn(6) // 0: all zero, 1: all equal, 2: non-positive, else mixed
	eqv := int64(1 + r.Intn(9))
	hist := []string{}
	for i := 0; i < n; i++ {
		v := randVal(r)
		switch mode {
		case 0:
			v = 0
		case 1:
			v = eqv
		case 2:
			if v > 0 {
				v = -v
			}
		}
		k := keys[r.Intn(len(keys))]
		el := k
		if kind != "ctr" {
			el = k + "\x00" + subs[r.Intn(len(subs))]
			if kind == "tbl" { // column NUL row
				el = subs[r.Intn(len(subs))] + "\x00" + k
			}
		}
		if mode != 3 || r.Intn(3) > 0 {
			el += "\x00" + strconv.FormatInt(v, 10)
		}
		hist = append(hist, el)
	}
	return hist
}

func c14Trace(args []string) error {
	fs := flag.NewFlagSet("trace", flag.ExitOnError)
	out := fs.String("out", "", "records for TLC (ndjson)")
	stats := fs.String("stats", "", "statistics (json)")
	groups := fs.Int("groups", 400, "scaler (min,max) groups per scale")
	nfn := fs.Int("fn", 3000, "random primitive calls")
	nstates := fs.Int("states", 60, "random aggregator states per kind")
	fs.IntVar(&thin, "thin", 1, "keep every n-th configuration per state")
	fs.Parse(args)
	rc, err := newRecorder(*out)
	if err != nil {
		return err
	}
	r := vh.NewRand(14)
	w := rc.w
	big := func() int64 { return int64(r.Intn(2000000001)) - 1000000000 }
	small := func() int64 { return int64(r.Intn(61)) - 20 }
	triples := 0
	// ---- scaler laws: groups of values sorted within one (min, max) range
	for g := 0; g < *groups; g++ {
		var mn, mx int64
		switch g % 8 {
		case 0:
			mn, mx = small(), small()
		case 1:
			mn = big()
			mx = mn
		case 2:
			mn = 0
			mx = int64(r.Intn(1000000000))
		case 3:
			mn = big()
			mx = mn + int64(r.Intn(40))
			if mx > 1000000000 {
				mx = 1000000000
			}
		case 4:
			mn, mx = int64(r.Intn(3)), int64(r.Intn(1000))
		default:
			mn, mx = big(), big()
			if g%2 == 0 && mx < mn {
				mn, mx = mx, mn
			}
		}
		vals := []int64{mn, mx}
		if mn > -1000000000 {
			vals = append(vals, mn-1)
		}
		if mx < 1000000000 {
			vals = append(vals, mx+1)
		}
		for len(vals) < 16 {
			if mx > mn && r.Intn(4) > 0 {
				vals = append(vals, mn+r.Int63n(mx-mn+1))
			} else if r.Intn(2) == 0 {
				vals = append(vals, big())
			} else {
				vals = append(vals, mn+small())
			}
		}
		for i := range vals {
			if vals[i] > 1000000000 {
				vals[i] = 1000000000
			}
			if vals[i] < -1000000000 {
				vals[i] = -1000000000
			}
		}
		sort.Slice(vals, func(i, j int) bool { return vals[i] < vals[j] })
		for _, sc := range scales {
			s := scalerOf(sc)
			s9 := make([]int64, len(vals))
			in01 := make([]bool, len(vals))
			ge := make([]bool, len(vals))
			prev := math.Inf(-1)
			msg := ""
			func() {
				defer func() {
					if rr := recover(); rr != nil {
						msg = fmt.Sprint(rr)
					}
				}()
				for i, v := range vals {
					x := s.Scale(v, mn, mx)
					s9[i], in01[i] = s9of(x)
					ge[i] = x >= prev
					prev = x
				}
			}()
			w.Write(M{"ev": "scale", "sc": sc, "mn": mn, "mx": mx, "vals": vals, "s9": s9, "in01": in01, "ge": ge, "panic": msg != "", "msg": msg})
			triples += len(vals)
		}
	}
	// ---- primitive calls
	fncalls := 0
	call := func(rec M, f func() interface{}) {
		msg := ""
		var got interface{} = []int{}
		func() {
			defer func() {
				if rr := recover(); rr != nil {
					msg = fmt.Sprint(rr)
				}
			}()
			got = f()
		}()
		rec["got"] = got
		rec["panic"] = msg != ""
		rec["msg"] = msg
		w.Write(rec)
		fncalls++
	}
	for i := 0; i < *nfn; i++ {
		sc := scales[i%3]
		s := scalerOf(sc)
		var mn, mx, v int64
		if i%2 == 0 {
			mn, mx = big(), big()
			if mx < mn && i%4 == 0 {
				mn, mx = mx, mn
			}
			v = big()
			if mx > mn && i%3 > 0 {
				v = mn + r.Int63n(mx-mn+1)
			}
		} else {
			mn, mx, v = small(), small(), small()
		}
		if i%11 == 0 {
			v = mx
		}
		n := []int{2, 4, 9, 10, 16, 50, 450}[r.Intn(7)]
		switch i % 5 {
		case 0:
			call(M{"ev": "bucket", "sc": sc, "n": n, "v": v, "mn": mn, "mx": mx}, func() interface{} { return s.Bucket(n, v, mn, mx) })
		case 1:
			call(M{"ev": "length", "sc": sc, "n": n, "v": v, "mn": mn, "mx": mx}, func() interface{} { return s.LengthVal(n, v, mn, mx) })
		case 2:
			bk := int64(2 + r.Intn(7))
			if sc != "linear" { // the logarithmic inverse is only used for counts
				if mn < 0 {
					mn = -mn
				}
				if mx < 0 {
					mx = -mx
				}
			}
			call(M{"ev": "keys", "sc": sc, "b": bk, "mn": mn, "mx": mx}, func() interface{} { return append([]int64{}, s.ScaleKeys(bk, mn, mx)...) })
		case 3:
			q := int64(1 + r.Intn(1000000000))
			if i%2 == 1 {
				q = int64(1 + r.Intn(60))
			}
			p := r.Int63n(q + 1)
			if i%7 == 0 {
				p = q
			}
			ml := []int{0, 1, 5, 50, 80}[r.Intn(5)]
			uni := r.Intn(2) == 0
			col := r.Intn(2) == 0
			switch r.Intn(3) {
			case 0:
				call(M{"ev": "bar", "p": p, "q": q, "maxlen": ml, "uni": uni}, func() interface{} {
					termunicode.UnicodeEnabled = uni
					var sb strings.Builder
					termunicode.BarWrite(&sb, float64(p)/float64(q), ml)
					return vh.R(sb.String())
				})
			case 1:
				call(M{"ev": "heat", "p": p, "q": q, "color": col, "uni": uni}, func() interface{} {
					color.Enabled, termunicode.UnicodeEnabled = col, uni
					var sb strings.Builder
					termunicode.HeatWrite(&sb, float64(p)/float64(q))
					return vh.R(sb.String())
				})
			default:
				call(M{"ev": "spark", "p": p, "q": q, "uni": uni}, func() interface{} {
					termunicode.UnicodeEnabled = uni
					var sb strings.Builder
					termunicode.SparkWrite(&sb, float64(p)/float64(q))
					return vh.R(sb.String())
				})
			}
		case 4:
			nv := 1 + r.Intn(5)
			vals := make([]int64, nv)
			var sum int64
			for j := range vals {
				vals[j] = randVal(r)
				if i%3 == 0 && vals[j] < 0 {
					vals[j] = -vals[j]
				}
				sum += vals[j]
			}
			mv := sum
			if i%4 == 1 {
				mv = sum + int64(r.Intn(100))
			}
			if mv < 0 {
				mv = 0
			}
			ml := int64([]int{0, 1, 5, 50, 80}[r.Intn(5)])
			uni := r.Intn(2) == 0
			col := r.Intn(2) == 0
			call(M{"ev": "stackbar", "maxval": mv, "maxlen": ml, "color": col, "uni": uni, "vals": vals}, func() interface{} {
				color.Enabled, termunicode.UnicodeEnabled = col, uni
				var sb strings.Builder
				termunicode.BarWriteStacked(&sb, mv, ml, vals...)
				return vh.R(sb.String())
			})
		}
	}
	// ---- random aggregator states
	nst := 0
	for _, kind := range []string{"ctr", "sub", "tbl"} {
		for i := 0; i < *nstates; i++ {
			if hung == "" {
				rc.renderState(kind, randHistory(r, kind), nst, i%10 == 0)
			}
			nst++
		}
	}
	w.Close()
	vh.WriteJSON(*stats, M{"scale_triples": triples, "fn_calls": fncalls, "states": nst, "renders": rc.renders, "records": w.N,
		"identical": rc.skipped, "panics": rc.panics, "per_renderer": rc.perRdr, "nontrivial": rc.nontriv, "samples": rc.samples,
		"max_lines": rc.maxLines, "hung": hung})
	if hung != "" {
		os.Exit(0)
	}
	return nil
}

var _ = os.Exit

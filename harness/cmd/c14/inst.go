package main

// B1 for the instance machines of RenderInst.tla: TLC-generated operation histories on ONE long-lived object
// (the buffered terminal, an expression formatter, a histogram, a bar graph) with the screen / text the
// specification expects after every operation, replayed on the real code.

import (
	"encoding/json"
	"fmt"

	"rare/pkg/color"
	"rare/pkg/humanize"
	"rare/pkg/multiterm"
	"rare/pkg/multiterm/termformat"
	"rare/pkg/multiterm/termrenderers"
	"rare/pkg/multiterm/termunicode"

	"verifharness/vh"
)

type instStep struct {
	Op  []json.RawMessage `json:"op"`
	See json.RawMessage   `json:"see"`
}

type instVector struct {
	M   string `json:"m"`
	Cfg struct {
		Cap     int     `json:"cap"`
		Tpl     [][]int `json:"tpl"`
		Rows    int     `json:"rows"`
		Pct     bool    `json:"pct"`
		Bar     bool    `json:"bar"`
		Stacked bool    `json:"stacked"`
	} `json:"cfg"`
	Trail  []instStep `json:"trail"`
	Canary bool       `json:"canary"` // a deliberately corrupted expectation (the check counts the rejections)
}

func rawInt(r json.RawMessage) int64 {
	var x int64
	if err := json.Unmarshal(r, &x); err != nil {
		panic("vector: " + err.Error())
	}
	return x
}

func rawInts(r json.RawMessage) []int {
	x := []int{}
	if err := json.Unmarshal(r, &x); err != nil {
		panic("vector: " + err.Error())
	}
	return x
}

func rawStr(r json.RawMessage) string {
	var x string
	if err := json.Unmarshal(r, &x); err != nil {
		panic("vector: " + err.Error())
	}
	return x
}

func screenOf(vt *multiterm.VirtualTerm, from int) [][]int {
	out := [][]int{}
	for i := from; i < vt.LineCount(); i++ {
		out = append(out, vh.R(vt.Get(i)))
	}
	return out
}

func eqScreen(a, b [][]int) bool {
	if len(a) != len(b) {
		return false
	}
	for i := range a {
		if !vh.EqInts(a[i], b[i]) {
			return false
		}
	}
	return true
}

type instStats struct {
	vectors map[string]int
	ops     int
	nontriv int
}

// replay one history; returns a mismatch record or nil
func instReplay(raw json.RawMessage, nth int, st *instStats) M {
	var v instVector
	if err := json.Unmarshal(raw, &v); err != nil {
		return M{"f": "inst:decode", "a": []int{}, "got": err.Error(), "exp": []int{}, "panic": ""}
	}
	if !v.Canary {
		st.vectors[v.M]++
	}
	color.Enabled, termunicode.UnicodeEnabled, humanize.Enabled = false, false, true
	var done []interface{}
	fail := func(i int, got, exp interface{}, msg string) M {
		return M{"f": "inst:" + v.M, "a": M{"cfg": v.Cfg, "ops": done, "failing_op": i + 1}, "got": got, "exp": exp, "panic": msg, "canary": v.Canary}
	}
	var vt *multiterm.VirtualTerm
	var ft termformat.Formatter
	var histo *termrenderers.HistoWriter
	var bars *termrenderers.BarGraph
	var setup = func() (msg string) {
		defer func() {
			if r := recover(); r != nil {
				msg = fmt.Sprint(r)
			}
		}()
		switch v.M {
		case "vterm":
			vt = multiterm.NewVirtualTerm()
		case "fmt":
			ft = termformat.MustFromExpression(tplExpr(v.Cfg.Tpl, nth))
		case "histo":
			vt = multiterm.NewVirtualTerm()
			histo = termrenderers.NewHistogram(vt, v.Cfg.Rows)
			histo.ShowBar, histo.ShowPercentage = v.Cfg.Bar, v.Cfg.Pct
			histo.Formatter = termformat.MustFromExpression(tplExpr(v.Cfg.Tpl, nth))
		case "bars":
			vt = multiterm.NewVirtualTerm()
			bars = termrenderers.NewBarGraph(vt)
			bars.Stacked = v.Cfg.Stacked
			bars.Formatter = termformat.MustFromExpression(tplExpr(v.Cfg.Tpl, nth))
			bars.SetKeys("x", "y")
		default:
			msg = "unknown machine " + v.M
		}
		return
	}
	if msg := setup(); msg != "" {
		return fail(-1, []int{}, []int{}, msg)
	}
	for i, step := range v.Trail {
		var op []interface{}
		for _, o := range step.Op {
			var x interface{}
			json.Unmarshal(o, &x)
			op = append(op, x)
		}
		done = append(done, op)
		if !v.Canary {
			st.ops++
		}
		kind := rawStr(step.Op[0])
		var text []int // fmt machine: the text of the call
		msg := ""
		func() {
			defer func() {
				if r := recover(); r != nil {
					msg = fmt.Sprint(r)
				}
			}()
			switch v.M {
			case "vterm":
				vt.WriteForLine(int(rawInt(step.Op[1])), vh.RunesFromInts(rawInts(step.Op[2])))
			case "fmt":
				text = vh.R(ft(rawInt(step.Op[1]), rawInt(step.Op[2]), rawInt(step.Op[3])))
			case "histo":
				switch kind {
				case "w":
					histo.WriteForLine(int(rawInt(step.Op[1])), vh.RunesFromInts(rawInts(step.Op[2])), rawInt(step.Op[3]))
				case "t":
					histo.UpdateTotal(rawInt(step.Op[1]))
				case "f":
					histo.WriteFooter(int(rawInt(step.Op[1])), vh.RunesFromInts(rawInts(step.Op[2])))
				}
			case "bars":
				switch kind {
				case "w":
					var vals []int64
					if err := json.Unmarshal(step.Op[3], &vals); err != nil {
						panic("vector: " + err.Error())
					}
					bars.WriteBar(int(rawInt(step.Op[1])), vh.RunesFromInts(rawInts(step.Op[2])), vals...)
				case "f":
					bars.WriteFooter(int(rawInt(step.Op[1])), vh.RunesFromInts(rawInts(step.Op[2])))
				}
			}
		}()
		if v.M == "fmt" {
			exp := rawInts(step.See)
			if msg != "" || !vh.EqInts(text, exp) {
				return fail(i, text, exp, msg)
			}
			continue
		}
		exp := [][]int{}
		if err := json.Unmarshal(step.See, &exp); err != nil {
			return fail(i, []int{}, []int{}, "vector: "+err.Error())
		}
		from := 0
		if v.M == "bars" {
			from = 1 // line 0 is the legend
		}
		if msg != "" {
			return fail(i, [][]int{}, exp, msg)
		}
		if got := screenOf(vt, from); !eqScreen(got, exp) {
			return fail(i, got, exp, "")
		}
		if len(exp) >= 2 && !v.Canary {
			st.nontriv++
		}
	}
	return nil
}

package main

// B1 for the render histories of RenderHist.tla: TLC-generated histories `data operation; render; footers` on ONE
// long-lived renderer instance (heat map, sparkline, table, bar graph with its legend) over ONE aggregator whose data
// grows, shrinks (Trim) and changes between the renders, with the whole screen the specification expects after every
// render.  The real aggregator and the real renderer are driven the way cmd/{heatmap,spark,tabulate,bargraph}.go
// drive them and the VirtualTerm is compared after every step.

import (
	"encoding/json"
	"fmt"

	"rare/pkg/aggregation"
	"rare/pkg/aggregation/sorting"
	"rare/pkg/color"
	"rare/pkg/humanize"
	"rare/pkg/multiterm"
	"rare/pkg/multiterm/termformat"
	"rare/pkg/multiterm/termrenderers"
	"rare/pkg/multiterm/termscaler"
	"rare/pkg/multiterm/termunicode"
)

type histStep struct {
	Op  []json.RawMessage `json:"op"`
	See [][]int           `json:"see"`
}

type histVector struct {
	M   string `json:"m"`
	Cfg struct {
		Rows    int     `json:"rows"`
		Cols    int     `json:"cols"`
		FMin    bool    `json:"fmin"`
		FMax    bool    `json:"fmax"`
		BMin    int64   `json:"bmin"`
		BMax    int64   `json:"bmax"`
		Tpl     [][]int `json:"tpl"`
		Feet    []int   `json:"feet"`
		RowTot  bool    `json:"rowtot"`
		ColTot  bool    `json:"coltot"`
		Stacked bool    `json:"stacked"`
		Color   bool    `json:"color"`
		Uni     bool    `json:"uni"`
	} `json:"cfg"`
	Init   [][]int64  `json:"init"`
	Trail  []histStep `json:"trail"`
	Canary bool       `json:"canary"`
}

// the key tables of RenderHist.tla
func histColKey(c int64) string { return fmt.Sprintf("t%d", c) }
func histSubKey(c int64) string { return fmt.Sprintf("k%02d", c) }
func histRowKey(r int64) string {
	switch r {
	case 1:
		return "a"
	case 2:
		return "bb"
	case 3:
		return "c"
	}
	return "dddddd"
}

type histStats struct {
	vectors map[string]int
	renders int
	nontriv int
}

func histFormatter(tpl [][]int, alt int) termformat.Formatter {
	if len(tpl) == 0 {
		return termformat.Default
	}
	return termformat.MustFromExpression(tplExpr(tpl, alt))
}

func histReplay(raw json.RawMessage, nth int, st *histStats) M {
	var v histVector
	if err := json.Unmarshal(raw, &v); err != nil {
		return M{"f": "hist:decode", "a": []int{}, "got": err.Error(), "exp": []int{}, "panic": ""}
	}
	if !v.Canary {
		st.vectors[v.M]++
	}
	bars := v.M == "bars"
	color.Enabled, termunicode.UnicodeEnabled, humanize.Enabled = bars && v.Cfg.Color, bars && v.Cfg.Uni, true
	var done []interface{}
	fail := func(i int, got, exp interface{}, msg string) M {
		return M{"f": "hist:" + v.M, "a": M{"cfg": v.Cfg, "init": v.Init, "ops": done, "failing_op": i + 1}, "got": got, "exp": exp, "panic": msg, "canary": v.Canary}
	}
	vt := multiterm.NewVirtualTerm()
	tbl := aggregation.NewTable("\x00")
	sub := aggregation.NewSubKeyCounter()
	sample := func(c, r, x int64) {
		if bars {
			sub.Sample(fmt.Sprintf("%s\x00%s\x00%d", histRowKey(r), histSubKey(c), x))
		} else {
			tbl.Sample(fmt.Sprintf("%s\x00%s\x00%d", histColKey(c), histRowKey(r), x))
		}
	}
	var heat *termrenderers.Heatmap
	var spark *termrenderers.Spark
	var table *termrenderers.DataTable
	var bg *termrenderers.BarGraph
	setup := func() (msg string) {
		defer func() {
			if r := recover(); r != nil {
				msg = fmt.Sprint(r)
			}
		}()
		for _, c := range v.Init {
			sample(c[0], c[1], c[2])
		}
		f := histFormatter(v.Cfg.Tpl, nth)
		switch v.M {
		case "heat": // the order of cmd/heatmap.go: fixed bounds are handed over before scaler and formatter are assigned
			heat = termrenderers.NewHeatmap(vt, v.Cfg.Rows, v.Cfg.Cols)
			heat.FixedMin, heat.FixedMax = v.Cfg.FMin, v.Cfg.FMax
			if v.Cfg.FMin || v.Cfg.FMax {
				var mn, mx int64
				if v.Cfg.FMin {
					mn = v.Cfg.BMin
				}
				if v.Cfg.FMax {
					mx = v.Cfg.BMax
				}
				heat.UpdateMinMax(mn, mx)
			}
			heat.Scaler = termscaler.ScalerLinear
			heat.Formatter = f
		case "spark":
			spark = termrenderers.NewSpark(vt, v.Cfg.Rows, v.Cfg.Cols)
			spark.Scaler = termscaler.ScalerLinear
			spark.Formatter = f
		case "table":
			table = termrenderers.NewDataTable(vt, v.Cfg.Cols, v.Cfg.Rows)
			table.ShowRowTotals, table.ShowColTotals = v.Cfg.RowTot, v.Cfg.ColTot
			if len(v.Cfg.Tpl) > 0 {
				table.SetFormatter(f)
			}
		case "bars":
			bg = termrenderers.NewBarGraph(vt)
			bg.Stacked = v.Cfg.Stacked
			bg.Formatter = f
		default:
			msg = "unknown machine " + v.M
		}
		return
	}
	if msg := setup(); msg != "" {
		return fail(-1, [][]int{}, [][]int{}, msg)
	}
	so := sorting.NVNameSorter
	for i, step := range v.Trail {
		var op []interface{}
		for _, o := range step.Op {
			var x interface{}
			json.Unmarshal(o, &x)
			op = append(op, x)
		}
		done = append(done, op)
		if !v.Canary {
			st.renders++
		}
		msg := ""
		func() {
			defer func() {
				if r := recover(); r != nil {
					msg = fmt.Sprint(r)
				}
			}()
			// ---- the data operation
			switch rawStr(step.Op[0]) {
			case "s":
				sample(rawInt(step.Op[1]), rawInt(step.Op[2]), rawInt(step.Op[3]))
			case "b":
				var pat []int64
				if err := json.Unmarshal(step.Op[3], &pat); err != nil {
					panic("vector: " + err.Error())
				}
				for j := int64(1); j <= rawInt(step.Op[2]); j++ {
					sample(j, rawInt(step.Op[1]), pat[j-1])
				}
			case "t":
				drop := map[string]bool{}
				for _, c := range rawInts(step.Op[1]) {
					drop[histColKey(int64(c))] = true
				}
				tbl.Trim(func(col, row string, val int64) bool { return drop[col] })
			}
			// ---- render, then the footers (cmd/*.go: summary and status line)
			foot := func(int, string) {}
			switch v.M {
			case "heat":
				heat.WriteTable(tbl, so, so)
				foot = heat.WriteFooter
			case "spark":
				spark.WriteTable(tbl, so, so)
				foot = spark.WriteFooter
			case "table":
				table.WriteTable(tbl, so, so)
				foot = table.WriteFooter
			case "bars":
				bg.SetKeys(sub.SubKeys()...)
				for line, row := range sub.ItemsSorted(so) {
					bg.WriteBar(line, row.Name, row.Item.Items()...)
				}
				foot = bg.WriteFooter
			}
			for _, idx := range v.Cfg.Feet {
				foot(idx, fmt.Sprintf("f%d.%d", (i+1)%10, idx))
			}
		}()
		if msg != "" {
			return fail(i, [][]int{}, step.See, msg)
		}
		if got := screenOf(vt, 0); !eqScreen(got, step.See) {
			return fail(i, got, step.See, "")
		}
		if len(step.See) >= 2 && !v.Canary {
			st.nontriv++
		}
	}
	return nil
}

package main

// C18, zones as TRANSITION TABLES.
//   c18 zonetab : reads the transition table (sorted instants with the UTC offset and abbreviation in force from
//                 each) of a list of IANA zones from Go's time package - time.LoadLocation and Zone() lookups (sampling + bisection) on
//                 the loaded location, NOT through the code under test - and writes zones.json for TLC
//                 (TimeTab.tla).  The zoneinfo database of the host is the trusted base.  Every extracted table is
//                 cross-checked against Zone() lookups at pseudo-random instants before it is written; zones the
//                 host does not have are skipped.
//   c18 ztrace  : B2 for the table zones: instants around the transitions of every table and random instants,
//                 through timeformat / timeattr / time / buckettime (zone-less wall clock read in the zone) / the
//                 nested round trips, recorded for TimeTab_Trace.

import (
	"flag"
	"fmt"
	"strconv"
	"time"

	"verifharness/vh"
)

// zones with DST changes at local midnight / on the first of a month, zones that have no DST now but had
// another offset within 1970..2100, half-hour DST, a 45-minute offset, a date-line jump, fixed offsets, UTC
var tableZones = []string{
	"America/Havana", "America/Santiago", "America/Asuncion", "Asia/Beirut", "America/Sao_Paulo", "Africa/Cairo",
	"Asia/Shanghai", "Asia/Seoul", "Asia/Hong_Kong", "Europe/Moscow", "Europe/Istanbul",
	"America/New_York", "Europe/Berlin", "Australia/Lord_Howe", "Asia/Kathmandu", "Pacific/Apia",
	"Etc/GMT+5", "Etc/GMT-14", "UTC",
}

type tabEntry struct {
	D    int   `json:"d"` // days since 1970-01-01 (UTC), may be negative for the first entry
	S    int   `json:"s"` // second of that day
	Off  int   `json:"off"`
	Abbr []int `json:"abbr"`
}

type zoneTab struct {
	Name string     `json:"name"`
	Tab  []tabEntry `json:"tab"`
}

type zoneFile struct {
	Zones   []zoneTab `json:"zones"`
	Skipped []string  `json:"skipped"`
}

const tabStart = -31 * 86400 // 1969-12-01: wall clocks of 1970-01-01 in any zone are covered
const tabEnd = 4136659200    // 2101-02-01

func floorDiv(a, b int64) int64 {
	q := a / b
	if a%b != 0 && (a < 0) != (b < 0) {
		q--
	}
	return q
}

func entryAt(loc *time.Location, unix int64) tabEntry {
	name, off := time.Unix(unix, 0).In(loc).Zone()
	d := floorDiv(unix, 86400)
	return tabEntry{int(d), int(unix - d*86400), off, vh.BS(name)}
}

// extractTable finds every change of (offset, abbreviation) of loc between 1969-12-01 and 2101-02-01: Zone() is
// sampled every three hours and a change is located to the second by bisection
func extractTable(loc *time.Location) ([]tabEntry, error) {
	same := func(a, b tabEntry) bool { return a.Off == b.Off && string(vh.FromInts(a.Abbr)) == string(vh.FromInts(b.Abbr)) }
	tab := []tabEntry{entryAt(loc, tabStart)}
	const step = 3 * 3600
	for cur := int64(tabStart); cur < tabEnd; cur += step {
		a, b := entryAt(loc, cur), entryAt(loc, cur+step)
		if same(a, b) {
			continue
		}
		lo, hi := cur, cur+step // Zone(lo) = a, Zone(hi) != a
		for hi-lo > 1 {
			mid := lo + (hi-lo)/2
			if same(entryAt(loc, mid), a) {
				lo = mid
			} else {
				hi = mid
			}
		}
		e := entryAt(loc, hi)
		if !same(e, b) {
			return nil, fmt.Errorf("two changes within three hours after %d", cur)
		}
		tab = append(tab, e)
	}
	return tab, nil
}

func tabLookup(tab []tabEntry, unix int64) tabEntry {
	d := floorDiv(unix, 86400)
	s := unix - d*86400
	lo, hi := 0, len(tab)-1
	for lo < hi {
		mid := (lo + hi + 1) / 2
		if d < int64(tab[mid].D) || (d == int64(tab[mid].D) && s < int64(tab[mid].S)) {
			hi = mid - 1
		} else {
			lo = mid
		}
	}
	return tab[lo]
}

func loadTables() (zoneFile, error) {
	var zf zoneFile
	zf.Skipped = []string{}
	for _, name := range tableZones {
		loc, err := time.LoadLocation(name)
		if err != nil {
			zf.Skipped = append(zf.Skipped, name)
			continue
		}
		tab, err := extractTable(loc)
		if err != nil {
			return zf, fmt.Errorf("%s: %v", name, err)
		}
		whole := true
		for _, e := range tab {
			if e.Off%60 != 0 {
				whole = false
			}
		}
		if !whole { // offsets with seconds are printed truncated by the numeric zone fields: not modelled
			zf.Skipped = append(zf.Skipped, name)
			continue
		}
		// the extracted table must reproduce the location's own lookups
		rng := vh.NewRand(1800 + int64(len(zf.Zones)))
		check := func(u int64) error {
			n, off := time.Unix(u, 0).In(loc).Zone()
			e := tabLookup(tab, u)
			if e.Off != off || string(vh.FromInts(e.Abbr)) != n {
				return fmt.Errorf("%s: table says %d %s at %d, the location says %d %s", name, e.Off, vh.FromInts(e.Abbr), u, off, n)
			}
			return nil
		}
		for i := 0; i < 20000; i++ {
			if err := check(rng.Int63n(maxUnix + 1)); err != nil {
				return zf, err
			}
		}
		for _, e := range tab[1:] {
			u := int64(e.D)*86400 + int64(e.S)
			for _, dl := range []int64{-1, 0, 1} {
				if err := check(u + dl); err != nil {
					return zf, err
				}
			}
		}
		zf.Zones = append(zf.Zones, zoneTab{name, tab})
	}
	return zf, nil
}

func c18ZoneTab(argv []string) error {
	fs := flag.NewFlagSet("c18-zonetab", flag.ExitOnError)
	out := fs.String("out", "zones.json", "tables")
	fs.Parse(argv)
	zf, err := loadTables()
	if err != nil {
		return err
	}
	vh.WriteJSON(*out, zf)
	n := 0
	for _, z := range zf.Zones {
		n += len(z.Tab) - 1
	}
	fmt.Printf("zones %d transitions %d skipped %v\n", len(zf.Zones), n, zf.Skipped)
	return nil
}

// ---------------------------------------------------------------------------- B2 for the table zones

var tabLayouts = []string{"RFC3339", "RFC1123Z", "UNIX", "ANSIC", "RFC822", "NGINX", "2006-01-02 15:04:05", "2006-01-02 15:04:05 -0700",
	"MONTHNAME", "DAY", "HOUR", "TIMEZONE", "NTZ", "WDAY", "Monday, 02 January 2006"}
var tabZoneless = []string{"2006-01-02 15:04:05", "ANSIC", "2006-01-02T15:04"}

func c18ZTrace(argv []string) error {
	fs := flag.NewFlagSet("c18-ztrace", flag.ExitOnError)
	out := fs.String("out", "ztrace.ndjson", "trace")
	n := fs.Int("n", 300, "number of instants")
	fs.Parse(argv)
	zf, err := loadTables()
	if err != nil {
		return err
	}
	if len(zf.Zones) == 0 {
		return fmt.Errorf("none of the listed zones loads")
	}
	w, err := vh.NewNdWriter(*out)
	if err != nil {
		return err
	}
	defer w.Close()
	rng := vh.NewRand(1818)
	emit := func(c call) string {
		c.P = "d"
		if rng.Intn(8) == 0 {
			c.P = "c"
		}
		o := evalCall(c, rng.Intn(4) != 0)
		w.Write(rec{c, vh.BS(o.Got), o.Cerr, o.Panic != ""})
		return o.Got
	}
	pick := func(a []string) string { return a[rng.Intn(len(a))] }
	near := []int64{-86400, -3601, -3600, -1800, -1, 0, 1, 1799, 3599, 3600, 86399, 86400}
	for i := 0; i < *n; i++ {
		z := zf.Zones[rng.Intn(len(zf.Zones))]
		var t int64
		switch k := rng.Intn(4); {
		case k <= 1 && len(z.Tab) > 1: // next to a transition of this zone
			e := z.Tab[1+rng.Intn(len(z.Tab)-1)]
			t = int64(e.D)*86400 + int64(e.S) + near[rng.Intn(len(near))]
		case k == 2: // next to a local midnight in one of the zone's offsets
			t = rng.Int63n(maxUnix + 1)
			t = t - t%86400 - int64(z.Tab[rng.Intn(len(z.Tab))].Off) + int64(rng.Intn(3)) - 1
		default:
			t = rng.Int63n(maxUnix + 1)
		}
		if t < 0 || t > maxUnix {
			t = rng.Int63n(maxUnix + 1)
		}
		x := vh.BS(strconv.FormatInt(t, 10))
		for k := 0; k < 4; k++ {
			emit(call{F: "timeformat", N: 3, X: x, Fmt: pick(tabLayouts), Z: z.Name})
		}
		for _, a := range attrs {
			emit(call{F: "timeattr", N: 3, X: x, B: a, Z: z.Name})
		}
		emit(call{F: "rt", N: 3, X: x, Fmt: pick(roundTripFormats), Z: z.Name})
		emit(call{F: "bucketrt", N: 4, X: x, B: pick(buckets), Fmt: pick(roundTripFormats), Z: z.Name})
		// the wall clock the real code prints, read back in the zone
		f := pick(tabZoneless)
		s := emit(call{F: "timeformat", N: 3, X: x, Fmt: f, Z: z.Name})
		emit(call{F: "time", N: 3, X: vh.BS(s), Fmt: f, Z: z.Name})
		for _, b := range []string{"s", "minute", "h", "day", "months", "y", pick(buckets)} {
			emit(call{F: "buckettime", N: 4, X: vh.BS(s), B: b, Fmt: f, Z: z.Name})
		}
	}
	return nil
}

package main

// C18 - time helpers agree with the calendar and round-trip.
//   c18 replay : evaluates TLC-enumerated calls (TimeCal_Gen: boundary instants x zones x named formats,
//                attributes, buckets, parse inputs, durations) with TLC's expected result through the real
//                expression compiler and reports every disagreement (B1)
//   c18 trace  : seeded random instants / durations / corrupted inputs through the real compiler, including
//                the nested round trips {time {timeformat t F Z} F Z}; every evaluation is recorded as
//                {f, p, n, x, fmt, z, b, got, cerr, panic} for TLC (TimeCal_Trace) (B2)
//   c18 eval   : one call, for debugging
//   c18 hreplay, c18 stream : evaluation histories of one compiled expression, see hist.go
//   c18 zonetab, c18 ztrace : zones as transition tables read from the host's zoneinfo, see zones.go

import (
	"encoding/json"
	"flag"
	"fmt"
	"hash/fnv"
	"math/rand"
	"os"
	"sort"
	"strconv"
	"strings"

	"rare/pkg/expressions"
	"rare/pkg/expressions/funclib"

	"verifharness/vh"
)

func main() {
	vh.Main(vh.Commands{"replay": c18Replay, "trace": c18Trace, "eval": c18Eval, "hreplay": c18HReplay, "stream": c18Stream,
		"zonetab": c18ZoneTab, "ztrace": c18ZTrace})
}

type M = vh.M

// ---------------------------------------------------------------------------- calling the real code

func esc(s string, set string) string {
	var sb strings.Builder
	for i := 0; i < len(s); i++ {
		if strings.IndexByte(set, s[i]) >= 0 {
			sb.WriteByte('\\')
		}
		sb.WriteByte(s[i])
	}
	return sb.String()
}

// constEnc writes arg as a quoted template constant (see harness/cmd/c11: statement scanner, argument
// splitter and the Compile call of the argument each strip one level of escaping).
func constEnc(arg string) string {
	t1 := esc(arg, "\\{}")
	t2 := "\"" + esc(t1, "\\\"") + "\""
	return esc(t2, "\\{}")
}

// call is one evaluation.  f selects the template shape; x is the principal (first) argument: it is
// supplied as match group {0} (p = "d") or as a constant (p = "c"); fmt / z / b are the constant
// format, zone and bucket-or-attribute arguments; n is the number of arguments written (trailing
// optional arguments are omitted).
type call struct {
	F   string `json:"f"`
	P   string `json:"p"`
	N   int    `json:"n"`
	X   []int  `json:"x"`
	Fmt string `json:"fmt"`
	Z   string `json:"z"`
	B   string `json:"b"`
}

// shapes: the argument list after the principal argument, and the nesting, per function tag
//
//	timeformat x fmt z | timeattr x b z | buckettime x b fmt z | time x fmt z | duration x | durationformat x
//	rt       = {time {timeformat x fmt z} fmt z}
//	bucketrt = {buckettime {timeformat x fmt z} b fmt z}
//	durrt    = {duration {durationformat x}}
//	fmtdur   = {durationformat {duration x}}
func template(c call) (string, error) {
	x := "{0}"
	if c.P == "c" {
		x = constEnc(string(vh.FromInts(c.X)))
	}
	build := func(name string, first string, rest []string, n int) string {
		parts := []string{name, first}
		for i, r := range rest {
			if i+2 <= n {
				parts = append(parts, constEnc(r))
			}
		}
		return "{" + strings.Join(parts, " ") + "}"
	}
	switch c.F {
	case "timeformat":
		return build("timeformat", x, []string{c.Fmt, c.Z}, c.N), nil
	case "timeattr":
		return build("timeattr", x, []string{c.B, c.Z}, c.N), nil
	case "buckettime":
		return build("buckettime", x, []string{c.B, c.Fmt, c.Z}, c.N), nil
	case "time":
		return build("time", x, []string{c.Fmt, c.Z}, c.N), nil
	case "duration":
		return build("duration", x, nil, 1), nil
	case "durationformat":
		return build("durationformat", x, nil, 1), nil
	case "rt":
		inner := build("timeformat", x, []string{c.Fmt, c.Z}, 3)
		return build("time", inner, []string{c.Fmt, c.Z}, 3), nil
	case "bucketrt":
		inner := build("timeformat", x, []string{c.Fmt, c.Z}, 3)
		return build("buckettime", inner, []string{c.B, c.Fmt, c.Z}, 4), nil
	case "durrt":
		return "{duration {durationformat " + x + "}}", nil
	case "fmtdur":
		return "{durationformat {duration " + x + "}}", nil
	}
	return "", fmt.Errorf("unknown function tag %q", c.F)
}

type outcome struct {
	Template string
	Got      string
	Cerr     bool
	Panic    string
}

var builders = map[bool]*expressions.KeyBuilder{true: funclib.NewKeyBuilderEx(true), false: funclib.NewKeyBuilderEx(false)}

func evalCall(c call, opt bool) (o outcome) {
	t, err := template(c)
	if err != nil {
		o.Panic = err.Error()
		return
	}
	o.Template = t
	ctx := &expressions.KeyBuilderContextArray{Elements: []string{string(vh.FromInts(c.X))}}
	if c.P == "c" {
		ctx.Elements[0] = "\x01unused"
	}
	defer func() {
		if r := recover(); r != nil {
			o.Panic = fmt.Sprint(r)
		}
	}()
	kb, cerr := builders[opt].Compile(t)
	o.Cerr = cerr != nil
	if kb == nil {
		o.Panic = "compile returned no builder"
		return
	}
	o.Got = kb.BuildKey(ctx)
	if again := kb.BuildKey(ctx); again != o.Got { // a compiled expression is reusable
		o.Panic = fmt.Sprintf("second evaluation differs: %q then %q", o.Got, again)
	}
	return
}

// ---------------------------------------------------------------------------- B1: replay of TLC's vectors

type vcall struct {
	call
	K  string `json:"k"`  // "val": E is demanded; "any": outside the specified domain
	E  []int  `json:"e"`  // expected result (TLC)
	Ce string `json:"ce"` // "y": a compile error is expected, "n" / "": none
}

type vline struct {
	G     string  `json:"g"` // group (classification only)
	X     []int   `json:"x"` // defaults for the calls of the line
	Z     string  `json:"z"`
	Calls []vcall `json:"calls"`
}

func sigOf(c call) string {
	name := ""
	switch c.F {
	case "timeformat", "time", "rt":
		name = c.Fmt
	case "timeattr":
		name = strings.ToLower(c.B)
	case "buckettime", "bucketrt":
		name = strings.ToLower(c.B)
	}
	if name == "" {
		return c.F
	}
	for _, r := range name { // custom layouts are classified together
		if !(r >= 'a' && r <= 'z' || r >= 'A' && r <= 'Z' || r >= '0' && r <= '9') {
			return c.F + ":custom"
		}
	}
	return c.F + ":" + name
}

func c18Replay(argv []string) error {
	fs := flag.NewFlagSet("c18-replay", flag.ExitOnError)
	in := fs.String("in", "", "vectors (ndjson)")
	out := fs.String("out", "replay.json", "result")
	fs.Parse(argv)
	type mismatch struct {
		Sig      string `json:"sig"`
		G        string `json:"g"`
		Template string `json:"template"`
		Input    string `json:"input"`
		Opt      bool   `json:"opt"`
		Got      string `json:"got"`
		Cerr     bool   `json:"cerr"`
		Panic    string `json:"panic"`
		Expect   string `json:"expect"`
		Call     call   `json:"call"`
	}
	mism := []mismatch{}
	perSig := map[string]int{}
	perF := map[string]int{}
	lines, runs, anys := 0, 0, 0
	distinct := map[string]bool{}
	var samples []M
	err := vh.ReadNd(*in, func(raw json.RawMessage) error {
		var l vline
		if err := json.Unmarshal(raw, &l); err != nil {
			return err
		}
		lines++
		for _, vc := range l.Calls {
			if vc.K != "val" {
				anys++
				continue
			}
			c := vc.call
			if c.X == nil {
				c.X = l.X
			}
			if c.Z == "" {
				c.Z = l.Z
			}
			if c.P == "" {
				c.P = "d"
			}
			if c.N == 0 {
				c.N = 9
			}
			want := string(vh.FromInts(vc.E))
			perF[c.F]++
			key := c.F + "\x00" + c.Fmt + "\x00" + c.B + "\x00" + c.Z + "\x00" + string(vh.FromInts(c.X))
			hk := fnv.New32a()
			hk.Write([]byte(key))
			h := hk.Sum32() // the selection below must not depend on the order TLC printed the lines in
			if h%5 == 0 {
				c.P = "c" // the principal argument as a template constant
			}
			for _, opt := range []bool{true, false} {
				if !opt && h%4 != 1 { // the unoptimised compiler on a quarter of the calls
					continue
				}
				o := evalCall(c, opt)
				runs++
				ok := o.Panic == "" && o.Got == want && o.Cerr == (vc.Ce == "y")
				if ok {
					continue
				}
				sig := sigOf(c)
				perSig[sig]++
				if perSig[sig] <= 5 {
					mism = append(mism, mismatch{sig, l.G, o.Template, string(vh.FromInts(c.X)), opt, o.Got, o.Cerr, o.Panic, want, c})
				}
			}
			distinct[key] = true
			if h%4999 == 7 {
				t, _ := template(c)
				samples = append(samples, M{"template": t, "input": string(vh.FromInts(c.X)), "expected_by_TLC": want})
			}
		}
		return nil
	})
	if err != nil {
		return err
	}
	sort.Slice(samples, func(i, j int) bool {
		return samples[i]["template"].(string)+samples[i]["input"].(string) < samples[j]["template"].(string)+samples[j]["input"].(string)
	})
	if len(samples) > 4 {
		samples = samples[:4]
	}
	sort.Slice(mism, func(i, j int) bool {
		if mism[i].Sig != mism[j].Sig {
			return mism[i].Sig < mism[j].Sig
		}
		return mism[i].Template+mism[i].Input < mism[j].Template+mism[j].Input
	})
	vh.WriteJSON(*out, M{"lines": lines, "runs": runs, "outside_domain": anys, "per_func": perF, "distinct": len(distinct),
		"mismatches": mism, "mismatch_counts": perSig, "samples": samples})
	return nil
}

// ---------------------------------------------------------------------------- B2: recorded evaluations

var roundTripFormats = []string{"RUBY", "RFC822Z", "RFC1123Z", "RFC3339", "RFC3339N", "NGINX", "2006-01-02 15:04:05 -0700"}
var zonelessFormats = []string{"ANSIC", "2006-01-02 15:04:05", "2006-01-02T15:04"}
var allFormats = []string{"ANSIC", "UNIX", "RUBY", "RFC822", "RFC822Z", "RFC1123", "RFC1123Z", "RFC3339", "RFC3339N", "NGINX",
	"MONTH", "MONTHNAME", "MNTH", "DAY", "YEAR", "HOUR", "MINUTE", "SECOND", "TIMEZONE", "NTIMEZONE", "NTZ", "WEEKDAY", "WDAY"}
var zones = []string{"UTC", "utc", "Etc/GMT+5", "Etc/GMT-3", "Etc/GMT-14", "Etc/GMT+12", "Asia/Kolkata", "America/New_York",
	"Europe/Berlin", "Australia/Sydney"}
var attrs = []string{"weekday", "week", "yearweek", "quarter"}
var buckets = []string{"n", "nano", "nanos", "s", "second", "seconds", "m", "minute", "minutes", "h", "hour", "hours",
	"d", "day", "days", "mo", "month", "months", "y", "year", "years"}

const maxUnix = 4133980799 // 2100-12-31T23:59:59Z

type rec struct {
	call
	Got   []int `json:"got"`
	Cerr  bool  `json:"cerr"`
	Panic bool  `json:"panic"`
}

func c18Trace(argv []string) error {
	fs := flag.NewFlagSet("c18-trace", flag.ExitOnError)
	out := fs.String("out", "trace.ndjson", "trace")
	n := fs.Int("n", 400, "number of random instants")
	fs.Parse(argv)
	w, err := vh.NewNdWriter(*out)
	if err != nil {
		return err
	}
	defer w.Close()
	rng := vh.NewRand(18)
	emit := func(c call) string {
		if c.P == "" {
			c.P = "d"
			if rng.Intn(8) == 0 {
				c.P = "c"
			}
		}
		o := evalCall(c, rng.Intn(4) != 0)
		w.Write(rec{c, vh.BS(o.Got), o.Cerr, o.Panic != ""})
		return o.Got
	}
	pick := func(a []string) string { return a[rng.Intn(len(a))] }
	corrupt := func(s string) string {
		switch k := rng.Intn(4); {
		case s == "" || k == 0:
			return s + "x"
		case k == 1:
			return s[:len(s)-1]
		case k == 2:
			i := rng.Intn(len(s))
			return s[:i] + "x" + s[i+1:]
		}
		return ""
	}
	for i := 0; i < *n; i++ {
		t := randInstant(rng)
		x := vh.BS(strconv.FormatInt(t, 10))
		z := pick(zones)
		// every named format, every attribute, a few buckets of this instant in this zone
		for _, f := range allFormats {
			emit(call{F: "timeformat", N: 3, X: x, Fmt: f, Z: z})
		}
		for _, a := range attrs[:4] {
			emit(call{F: "timeattr", N: 3, X: x, B: a, Z: z})
		}
		emit(call{F: "timeattr", N: 3, X: x, B: pick(attrs), Z: z})
		// the round trip on the real code, nested and in two recorded steps
		for _, f := range roundTripFormats {
			emit(call{F: "rt", N: 3, X: x, Fmt: f, Z: z})
		}
		f := pick(append(append([]string{}, roundTripFormats...), zonelessFormats...))
		s := emit(call{F: "timeformat", N: 3, X: x, Fmt: f, Z: z})
		emit(call{F: "time", N: 3, X: vh.BS(s), Fmt: f, Z: z})
		emit(call{F: "time", N: 3, X: vh.BS(corrupt(s)), Fmt: f, Z: z})
		for k := 0; k < 4; k++ {
			b := pick(buckets)
			emit(call{F: "buckettime", N: 4, X: vh.BS(s), B: b, Fmt: f, Z: z})
			emit(call{F: "bucketrt", N: 4, X: x, B: pick(buckets), Fmt: pick(roundTripFormats), Z: z})
		}
		emit(call{F: "buckettime", N: 4, X: vh.BS(corrupt(s)), B: pick(buckets), Fmt: f, Z: z})
		// UTC defaults
		if i%4 == 0 {
			emit(call{F: "timeformat", N: 1, X: x})
			emit(call{F: "timeformat", N: 2, X: x, Fmt: pick(allFormats)})
			emit(call{F: "timeattr", N: 2, X: x, B: pick(attrs)})
			rs := emit(call{F: "timeformat", N: 2, X: x, Fmt: "RFC1123Z"})
			emit(call{F: "time", N: 2, X: vh.BS(rs), Fmt: "RFC1123Z"})
			emit(call{F: "buckettime", N: 3, X: vh.BS(rs), B: pick(buckets), Fmt: "RFC1123Z"})
			emit(call{F: "time", N: 3, X: vh.BS(emit(call{F: "timeformat", N: 3, X: x, Fmt: "RFC3339", Z: z})), Fmt: pick([]string{"auto", "cache"}), Z: z})
		}
		// not a number
		if i%16 == 0 {
			bad := pick([]string{"", "x", "12a", "1.5", " 1", "1e3", "0x10"})
			emit(call{F: "timeformat", N: 3, X: vh.BS(bad), Fmt: pick(allFormats), Z: z})
			emit(call{F: "timeattr", N: 3, X: vh.BS(bad), B: pick(attrs), Z: z})
			emit(call{F: "durationformat", X: vh.BS(bad)})
		}
		// durations
		d := randDuration(rng)
		emit(call{F: "duration", X: vh.BS(d)})
		emit(call{F: "fmtdur", X: vh.BS(d)})
		secs := randSecs(rng)
		ds := emit(call{F: "durationformat", X: vh.BS(strconv.FormatInt(secs, 10))})
		emit(call{F: "duration", X: vh.BS(ds)})
		emit(call{F: "durrt", X: vh.BS(strconv.FormatInt(secs, 10))})
		if i%4 == 0 {
			emit(call{F: "duration", X: vh.BS(pick([]string{"", "abc", "5", "12", "5x", "1h5", "h", "1d", "5 s", " 5s", "1h 5m", "--5s", "s5"}))})
		}
	}
	return nil
}

// randInstant: uniform over 1970..2100, or close to a day / hour boundary (any zone's local midnight
// is an hour or half-hour boundary in UTC)
func randInstant(rng *rand.Rand) int64 {
	t := rng.Int63n(maxUnix + 1)
	switch rng.Intn(4) {
	case 0:
		t = t - t%86400 + int64(rng.Intn(5)) - 2
	case 1:
		t = t - t%1800 + int64(rng.Intn(5)) - 2
	}
	if t < 0 {
		t = 0
	}
	if t > maxUnix {
		t = maxUnix
	}
	return t
}

func randSecs(rng *rand.Rand) int64 {
	var v int64
	switch rng.Intn(4) {
	case 0:
		v = int64(rng.Intn(7300))
	case 1:
		v = int64(rng.Intn(200))*3600 + int64(rng.Intn(3))*60*int64(rng.Intn(2))
	case 2:
		v = int64(rng.Intn(1000000000))
	default:
		v = int64(rng.Intn(100000))
	}
	if rng.Intn(5) == 0 {
		v = -v
	}
	return v
}

func randDuration(rng *rand.Rand) string {
	var sb strings.Builder
	if rng.Intn(6) == 0 {
		sb.WriteByte('-')
	}
	units := []string{"h", "m", "s"}
	k := 1 + rng.Intn(3)
	for i := 0; i < k; i++ {
		max := []int{100000, 10000, 200, 61}[rng.Intn(4)]
		sb.WriteString(strconv.Itoa(rng.Intn(max)))
		sb.WriteString(units[rng.Intn(3)])
	}
	return sb.String()
}

// ---------------------------------------------------------------------------- debugging

func c18Eval(argv []string) error {
	fs := flag.NewFlagSet("c18-eval", flag.ExitOnError)
	f := fs.String("f", "timeformat", "function tag")
	p := fs.String("p", "d", "principal argument: d (match group) or c (constant)")
	n := fs.Int("n", 9, "arity")
	ft := fs.String("fmt", "", "format")
	z := fs.String("z", "", "zone")
	b := fs.String("b", "", "bucket / attribute")
	noopt := fs.Bool("noopt", false, "compile without optimisation")
	fs.Parse(argv)
	enc := json.NewEncoder(os.Stdout)
	for _, x := range fs.Args() {
		o := evalCall(call{F: *f, P: *p, N: *n, X: vh.BS(x), Fmt: *ft, Z: *z, B: *b}, !*noopt)
		enc.Encode(M{"template": o.Template, "got": o.Got, "cerr": o.Cerr, "panic": o.Panic})
	}
	return nil
}

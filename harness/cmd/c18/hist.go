package main

// C18, evaluation histories of ONE compiled expression.
//   c18 hreplay : replays TLC-generated histories (TimeCalHist_Gen: every ordered pair of an adversarial pool of
//                 inputs evaluated back to back) on one compiled expression per history - optimised and
//                 unoptimised compiler, sequentially, and (where the specification makes the answers independent
//                 of the order) from several goroutines at once - and compares every answer with TLC's (B1)
//   c18 stream  : seeded random histories: one compiled expression per stream is fed an hourly (or finer /
//                 coarser) stream of instants across day, week, quarter, year and DST boundaries in all modelled
//                 zones, with occasional jumps back; every evaluation is recorded for TimeCalHist_Trace (B2)

import (
	"encoding/json"
	"flag"
	"fmt"
	"hash/fnv"
	"sort"
	"strconv"
	"sync"
	"time"

	"rare/pkg/expressions"

	"verifharness/vh"
)

// compiled is one compiled expression
type compiled struct {
	kb       *expressions.CompiledKeyBuilder
	cerr     bool
	template string
	fail     string
}

func compileOne(c call, opt bool) (r compiled) {
	c.P = "d"
	t, err := template(c)
	if err != nil {
		r.fail = err.Error()
		return
	}
	r.template = t
	defer func() {
		if p := recover(); p != nil {
			r.fail = "compile panic: " + fmt.Sprint(p)
		}
	}()
	kb, cerr := builders[opt].Compile(t)
	r.kb, r.cerr = kb, cerr != nil
	if kb == nil {
		r.fail = "compile returned no builder"
	}
	return
}

func (r *compiled) eval(x string) (got string, panicked string) {
	defer func() {
		if p := recover(); p != nil {
			panicked = fmt.Sprint(p)
		}
	}()
	return r.kb.BuildKey(&expressions.KeyBuilderContextArray{Elements: []string{x}}), ""
}

// ---------------------------------------------------------------------------- B1: histories from TLC

type hexp struct {
	K  string `json:"k"`
	E  []int  `json:"e"`
	Ce string `json:"ce"`
}

type hline struct {
	Grp   string  `json:"grp"`
	F     string  `json:"f"`
	N     int     `json:"n"`
	Fmt   string  `json:"fmt"`
	Z     string  `json:"z"`
	B     string  `json:"b"`
	Pool  [][]int `json:"pool"`
	Xi    []int   `json:"xi"` // the history: indices into Pool
	Ei    []int   `json:"ei"` // per evaluation: index into Exps
	Exps  []hexp  `json:"exps"`
	Pairs int     `json:"pairs"`
	K     int     `json:"k"`
	Conc  string  `json:"conc"`
}

type hmismatch struct {
	Sig      string   `json:"sig"`
	Grp      string   `json:"grp"`
	Template string   `json:"template"`
	Mode     string   `json:"mode"` // "sequential" / "concurrent"
	Opt      bool     `json:"opt"`
	Pos      int      `json:"pos"`   // evaluation number within the history (1-based)
	Input    string   `json:"input"` // the input of that evaluation
	Before   string   `json:"before"`
	Got      string   `json:"got"`
	Cerr     bool     `json:"cerr"`
	Panic    string   `json:"panic"`
	Expect   string   `json:"expect"`
	Fresh    string   `json:"fresh"` // the answer of a freshly compiled expression for the same input
	History  []string `json:"history"`
}

func c18HReplay(argv []string) error {
	fs := flag.NewFlagSet("c18-hreplay", flag.ExitOnError)
	in := fs.String("in", "", "histories (ndjson)")
	out := fs.String("out", "hreplay.json", "result")
	rounds := fs.Int("rounds", 40, "rounds of the concurrent replay")
	fs.Parse(argv)
	mism := []hmismatch{}
	perSig := map[string]int{}
	perGrp := map[string]int{}
	perF := map[string]int{}
	histories, evals, concEvals, demanded, uncovered, stateful := 0, 0, 0, 0, 0, 0
	var samples []M
	var mu sync.Mutex
	report := func(c call, cm compiled, l hline, mode string, opt bool, pos int, got, pan string) {
		mu.Lock()
		defer mu.Unlock()
		sig := sigOf(c)
		perSig[sig]++
		if perSig[sig] > 4 {
			return
		}
		x := string(vh.FromInts(l.Pool[l.Xi[pos]-1]))
		before := ""
		if pos > 0 {
			before = string(vh.FromInts(l.Pool[l.Xi[pos-1]-1]))
		}
		fresh := compileOne(c, opt)
		fr := "(compile failed)"
		if fresh.fail == "" {
			fr, _ = fresh.eval(x)
		}
		hist := []string{}
		for i := 0; i <= pos && mode == "sequential"; i++ {
			hist = append(hist, string(vh.FromInts(l.Pool[l.Xi[i]-1])))
		}
		mism = append(mism, hmismatch{sig, l.Grp, cm.template, mode, opt, pos + 1, x, before, got, cm.cerr, pan,
			string(vh.FromInts(l.Exps[l.Ei[pos]-1].E)), fr, hist})
	}
	err := vh.ReadNd(*in, func(raw json.RawMessage) error {
		var l hline
		if err := json.Unmarshal(raw, &l); err != nil {
			return err
		}
		histories++
		if l.Pairs != l.K*l.K || len(l.Xi) != l.K*l.K+1 || len(l.Ei) != len(l.Xi) {
			uncovered++
		}
		c := call{F: l.F, P: "d", N: l.N, Fmt: l.Fmt, Z: l.Z, B: l.B}
		perGrp[l.Grp]++
		perF[l.F]++
		if l.Conc != "y" {
			stateful++
		}
		xs := make([]string, len(l.Xi))
		for i, xi := range l.Xi {
			xs[i] = string(vh.FromInts(l.Pool[xi-1]))
		}
		ok := func(cm compiled, pos int, got, pan string) bool {
			e := l.Exps[l.Ei[pos]-1]
			if e.K != "val" {
				return pan == ""
			}
			return pan == "" && got == string(vh.FromInts(e.E)) && cm.cerr == (e.Ce == "y")
		}
		hk := fnv.New32a()
		hk.Write(raw)
		h := hk.Sum32()
		// sequential: the whole history on ONE compiled expression, with and without the optimiser
		for _, opt := range []bool{true, false} {
			cm := compileOne(c, opt)
			if cm.fail != "" {
				report(c, cm, l, "sequential", opt, 0, "", cm.fail)
				continue
			}
			for pos, x := range xs {
				got, pan := cm.eval(x)
				evals++
				if l.Exps[l.Ei[pos]-1].K == "val" {
					demanded++
				}
				if !ok(cm, pos, got, pan) {
					report(c, cm, l, "sequential", opt, pos, got, pan)
				}
			}
		}
		// concurrent: ONE compiled expression shared by goroutines that walk the history from different offsets
		if l.Conc == "y" {
			opt := h%3 != 0
			cm := compileOne(c, opt)
			if cm.fail == "" {
				const workers = 4
				var wg sync.WaitGroup
				start := make(chan struct{})
				for g := 0; g < workers; g++ {
					wg.Add(1)
					go func(g int) {
						defer wg.Done()
						<-start
						bad := 0
						for r := 0; r < *rounds; r++ {
							for i := range xs {
								pos := (i + g*len(xs)/workers + r) % len(xs)
								got, pan := cm.eval(xs[pos])
								if !ok(cm, pos, got, pan) && bad < 2 {
									bad++
									report(c, cm, l, "concurrent", opt, pos, got, pan)
								}
							}
						}
					}(g)
				}
				close(start)
				wg.Wait()
				concEvals += workers * *rounds * len(xs)
			}
		}
		if h%997 == 3 && len(samples) < 6 {
			n := 6
			if len(xs) < n {
				n = len(xs)
			}
			exp := []string{}
			for i := 0; i < n; i++ {
				e := l.Exps[l.Ei[i]-1]
				if e.K == "val" {
					exp = append(exp, string(vh.FromInts(e.E)))
				} else {
					exp = append(exp, "(any)")
				}
			}
			t, _ := template(c)
			samples = append(samples, M{"template": t, "history_prefix": xs[:n], "expected_by_TLC": exp, "history_length": len(xs)})
		}
		return nil
	})
	if err != nil {
		return err
	}
	sort.Slice(mism, func(i, j int) bool {
		if mism[i].Sig != mism[j].Sig {
			return mism[i].Sig < mism[j].Sig
		}
		if mism[i].Template != mism[j].Template {
			return mism[i].Template < mism[j].Template
		}
		return mism[i].Pos < mism[j].Pos
	})
	vh.WriteJSON(*out, M{"histories": histories, "evaluations": evals, "concurrent_evaluations": concEvals, "demanded": demanded,
		"histories_not_covering_all_pairs": uncovered, "stateful_histories": stateful, "per_group": perGrp, "per_func": perF,
		"mismatches": mism, "mismatch_counts": perSig, "samples": samples})
	return nil
}

// ---------------------------------------------------------------------------- B2: random streams

type hrec struct {
	H int    `json:"h"` // history (one compiled expression)
	I int    `json:"i"` // evaluation number
	M string `json:"m"` // "s": sequential, "c": evaluated concurrently with others of the same history
	call
	Got   []int `json:"got"`
	Cerr  bool  `json:"cerr"`
	Panic bool  `json:"panic"`
	Opt   bool  `json:"opt"`
}

var shapeFormats = []string{"RFC3339", "2006-01-02 15:04:05 -0700", "2006-01-02 15:04:05", "RFC1123Z"}
var streamSteps = []int64{3600, 3600, 3600, 3600, 1800, 900, 7200, 86400, 1, 60, 604800, 43200}

// boundaryStart: an instant a few hours before a day that is interesting in some zone
func boundaryStart(rng interface{ Intn(int) int }) int64 {
	y := 1970 + rng.Intn(131)
	var d time.Time
	switch rng.Intn(7) {
	case 0:
		d = time.Date(y, 1, 1, 0, 0, 0, 0, time.UTC)
	case 1:
		d = time.Date(y, time.Month(1+3*rng.Intn(4)), 1, 0, 0, 0, 0, time.UTC)
	case 2: // a Monday
		d = time.Date(y, time.Month(1+rng.Intn(12)), 1+rng.Intn(28), 0, 0, 0, 0, time.UTC)
		d = d.AddDate(0, 0, -((int(d.Weekday()) + 6) % 7))
	case 3: // the weeks of the DST rules
		md := [][2]int{{3, 8}, {3, 25}, {10, 25}, {11, 1}, {4, 1}, {10, 1}}[rng.Intn(6)]
		d = time.Date(y, time.Month(md[0]), md[1]+rng.Intn(7), 0, 0, 0, 0, time.UTC)
	case 4: // around the new year, day by day
		d = time.Date(y, 12, 27+rng.Intn(9), 0, 0, 0, 0, time.UTC)
	default:
		d = time.Date(y, time.Month(1+rng.Intn(12)), 1+rng.Intn(28), 0, 0, 0, 0, time.UTC)
	}
	t := d.Unix() - int64(rng.Intn(30))*3600
	if rng.Intn(3) == 0 {
		t += int64(rng.Intn(3600))
	}
	if t < 0 {
		t = 0
	}
	return t
}

// dstChange finds, with the host's zone database, an instant at which the UTC offset of zone z changes in year y
// (0 if there is none).  It only chooses inputs; what the answers must be is TLC's business.
func dstChange(z string, y int, second bool) int64 {
	loc, err := time.LoadLocation(z)
	if err != nil {
		return 0
	}
	off := func(t int64) int { _, o := time.Unix(t, 0).In(loc).Zone(); return o }
	t := time.Date(y, 1, 1, 0, 0, 0, 0, time.UTC).Unix()
	end := time.Date(y+1, 1, 1, 0, 0, 0, 0, time.UTC).Unix()
	for ; t < end; t += 86400 {
		if off(t) != off(t+86400) {
			if second {
				second = false
				continue
			}
			lo, hi := t, t+86400 // off(lo) != off(hi)
			for hi-lo > 1 {
				mid := (lo + hi) / 2
				if off(mid) == off(lo) {
					lo = mid
				} else {
					hi = mid
				}
			}
			return hi
		}
	}
	return 0
}

var ruleZones = []string{"America/New_York", "Europe/Berlin", "Australia/Sydney"}
var offsetFormats = []string{"RFC3339", "RFC1123Z", "UNIX", "TIMEZONE", "NTZ", "HOUR", "RFC822", "NGINX", "ANSIC", "DAY"}

func c18Stream(argv []string) error {
	fs := flag.NewFlagSet("c18-stream", flag.ExitOnError)
	out := fs.String("out", "streams.ndjson", "trace")
	n := fs.Int("n", 150, "number of streams")
	fs.Parse(argv)
	w, err := vh.NewNdWriter(*out)
	if err != nil {
		return err
	}
	defer w.Close()
	rng := vh.NewRand(1818)
	pick := func(a []string) string { return a[rng.Intn(len(a))] }
	hid := 0
	printers := map[string]compiled{}
	printText := func(t int64, f, z string) string {
		key := f + "\x00" + z
		p, ok := printers[key]
		if !ok {
			p = compileOne(call{F: "timeformat", N: 3, Fmt: f, Z: z}, true)
			printers[key] = p
		}
		if p.fail != "" {
			return ""
		}
		s, _ := p.eval(strconv.FormatInt(t, 10))
		return s
	}
	// runs xs through ONE compiled expression and records every evaluation
	run := func(c call, xs []string) {
		opt := rng.Intn(4) != 0
		cm := compileOne(c, opt)
		hid++
		c.P = "d"
		for i, x := range xs {
			got, pan := "", cm.fail
			if cm.fail == "" {
				got, pan = cm.eval(x)
			}
			c.X = vh.BS(x)
			w.Write(hrec{hid, i + 1, "s", c, vh.BS(got), cm.cerr, pan != "", opt})
		}
	}
	runConc := func(c call, xs []string) {
		opt := rng.Intn(4) != 0
		cm := compileOne(c, opt)
		if cm.fail != "" {
			return
		}
		hid++
		c.P = "d"
		type res struct {
			got string
			pan bool
		}
		results := make([]res, len(xs))
		const workers = 4
		var wg sync.WaitGroup
		for g := 0; g < workers; g++ {
			wg.Add(1)
			go func(g int) {
				defer wg.Done()
				for r := 0; r < 8; r++ { // warm contention: the recorded answer is the one of the last round
					for i := g; i < len(xs); i += workers {
						got, pan := cm.eval(xs[i])
						results[i] = res{got, pan != ""}
					}
				}
			}(g)
		}
		wg.Wait()
		for i, x := range xs {
			c.X = vh.BS(x)
			w.Write(hrec{hid, i + 1, "c", c, vh.BS(results[i].got), cm.cerr, results[i].pan, opt})
		}
	}
	for s := 0; s < *n; s++ {
		z := zones[rng.Intn(len(zones))]
		t := boundaryStart(rng)
		step := streamSteps[rng.Intn(len(streamSteps))]
		length := 40 + rng.Intn(40)
		ts := make([]int64, 0, length+8)
		for i := 0; i < length; i++ {
			if t > maxUnix {
				break
			}
			ts = append(ts, t)
			if len(ts) > 2 && rng.Intn(8) == 0 { // a line out of order: an instant seen before
				ts = append(ts, ts[rng.Intn(len(ts)-1)])
			}
			t += step
		}
		if s%6 == 5 { // a stream through a DST change of a rule zone
			z = ruleZones[rng.Intn(len(ruleZones))]
			if c := dstChange(z, 2008+rng.Intn(93), rng.Intn(2) == 0); c > 0 {
				step = []int64{3600, 1800, 900, 600, 1}[rng.Intn(5)]
				t = c - int64(rng.Intn(20))*step - int64(rng.Intn(2))
				ts = ts[:0]
				for i := 0; i < length && t <= maxUnix; i++ {
					ts = append(ts, t)
					if len(ts) > 2 && rng.Intn(8) == 0 {
						ts = append(ts, ts[rng.Intn(len(ts)-1)])
					}
					t += step
				}
			}
		}
		unix := make([]string, len(ts))
		for i, v := range ts {
			unix[i] = strconv.FormatInt(v, 10)
		}
		switch k := s % 10; {
		case k <= 3: // timeattr
			c := call{F: "timeattr", N: 3, B: attrs[(s/10+k)%4], Z: z}
			run(c, unix)
			if k == 3 {
				runConc(c, unix)
			}
		case k == 4 || k == 5: // timeformat
			c := call{F: "timeformat", N: 3, Fmt: pick(allFormats), Z: z}
			if s%6 == 5 {
				c.Fmt = pick(offsetFormats)
			}
			run(c, unix)
			if k == 5 {
				runConc(c, unix)
			}
		case k == 6: // nested round trips
			if rng.Intn(2) == 0 {
				run(call{F: "rt", N: 3, Fmt: pick(roundTripFormats), Z: z}, unix)
			} else {
				run(call{F: "bucketrt", N: 4, Fmt: pick(roundTripFormats), Z: z, B: pick(buckets)}, unix)
			}
		case k == 7: // time / buckettime with an explicit layout on printed texts
			f := pick(append(append([]string{}, roundTripFormats...), zonelessFormats...))
			xs := make([]string, len(ts))
			for i, v := range ts {
				xs[i] = printText(v, f, z)
			}
			if rng.Intn(2) == 0 {
				run(call{F: "time", N: 3, Fmt: f, Z: z}, xs)
			} else {
				c := call{F: "buckettime", N: 4, Fmt: f, Z: z, B: pick(buckets)}
				run(c, xs)
				runConc(c, xs)
			}
		default: // format detection: a main shape with other shapes, garbage and empty texts mixed in
			main := pick(shapeFormats)
			pz := z
			if rng.Intn(3) == 0 {
				pz = "UTC" // RFC3339 texts ending in Z
			}
			xs := make([]string, len(ts))
			for i, v := range ts {
				switch r := rng.Intn(12); {
				case r == 0:
					xs[i] = printText(v, pick(shapeFormats), z)
				case r == 1:
					xs[i] = pick([]string{"", "x", "??", "#x#", "xx?"})
				default:
					xs[i] = printText(v, main, pz)
				}
			}
			mode := pick([]string{"cache", "cache", "auto", "auto", ""})
			var c call
			if rng.Intn(3) == 0 {
				c = call{F: "buckettime", N: 4, Fmt: mode, Z: z, B: pick(buckets)}
			} else {
				c = call{F: "time", N: 3, Fmt: mode, Z: z}
				if mode == "" && rng.Intn(2) == 0 {
					c = call{F: "time", N: 1}
				}
			}
			run(c, xs)
			if mode == "auto" {
				runConc(c, xs)
			}
		}
	}
	return nil
}

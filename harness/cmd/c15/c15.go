package main

// C15 - follow mode delivers every appended byte exactly once, in order.
//
//   replay : executes TLC-generated histories of spec/Follow_Gen.tla (environment operations,
//            reader placement, the specification's expected stream at every drain point) against
//            REAL files with the real followreader.New, compares with the expectation (B1) and
//            records every execution as a trace for spec/Follow_Trace.tla (B2)
//   trace  : seeded random longer histories (several remove/re-create cycles, bigger appends,
//            random read buffer sizes), recorded for Follow_Trace (B2)
//   cli    : the same through batchers.TailFilesToChan and the rare binary (`filter -f/-F`)
//
// The harness decides when Read is called: a Read call is only issued by `start` or by a drain that
// still misses bytes, so environment operations can be placed before a Read call, while one is
// blocked, or after it returned.

import (
	"bufio"
	"encoding/json"
	"flag"
	"fmt"
	"io"
	"math/rand"
	"os"
	"os/exec"
	"path/filepath"
	"sort"
	"strings"
	"sync"
	"sync/atomic"
	"time"

	"rare/pkg/extractor/batchers"
	"rare/pkg/followreader"

	"verifharness/vh"
)

func main() {
	vh.Main(vh.Commands{"replay": c15Replay, "trace": c15Trace, "cli": c15Cli, "phase": c15Phase, "burst": c15Burst})
}

type M = vh.M

var B = vh.B

type step struct {
	Op     string `json:"op"`
	What   string `json:"what,omitempty"` // other: create | append | remove | rename
	Name   string `json:"name,omitempty"` // other: sibling name class (suf | pre | oth)
	To     string `json:"to,omitempty"`   // other/rename: the class of the new name
	Data   []int  `json:"data,omitempty"`
	Expect []int  `json:"expect,omitempty"`
	Eof    bool   `json:"eof,omitempty"`
	Eofok  bool   `json:"eofok,omitempty"`
}

type vector struct {
	Poll   bool   `json:"poll"`
	Reopen bool   `json:"reopen"`
	Tail   bool   `json:"tail"`
	Init   []int  `json:"init"`
	Sibs   []string `json:"sibs,omitempty"` // sibling name classes that exist when following starts
	Steps  []step `json:"steps"`
}

type timing struct {
	deadline  time.Duration // liveness: expected bytes must arrive within this
	settle    time.Duration
	quiet     time.Duration // final window in which nothing more may arrive
	pollDelay time.Duration
	// circuit breaker: once many executions ran into the deadline (a broken reader), the remaining
	// first executions wait less; every reported overrun is confirmed by re-runs with the full deadline
	hangs *int32
}

func defaultTiming() timing {
	return timing{deadline: 10 * time.Second, settle: 25 * time.Millisecond, quiet: 120 * time.Millisecond,
		pollDelay: 2 * time.Millisecond}
}

type readResult struct {
	data []byte
	err  error
}

// one execution of a history on a real file
type execution struct {
	v        vector
	tm       timing
	bufSize  int
	pl       *place
	path     string
	r        followreader.FollowReader
	permit   chan struct{}
	results  chan readResult
	inflight bool
	ended    bool
	got      []byte
	events   []M
	exists   bool
	written  int
}

type outcome struct {
	Kind   string `json:"kind"`   // "" = conforms; content | hang | early-eof | no-eof | extra | error
	Step   int    `json:"step"`   // index of the failing step (len(steps) = final quiet window)
	Shape  string `json:"shape"`  // operations since the previous drain, e.g. "remove,create,append|idle"
	Got    []int  `json:"got"`    // delivered stream
	Want   []int  `json:"want"`   // the specification's expectation at that point
	Detail string `json:"detail"` // text
}

func (e *execution) log(m M) { e.events = append(e.events, m) }

func newExecution(v vector, tm timing, bufSize int, base, kind string, rng *rand.Rand) (*execution, error) {
	pl, err := newPlace(base, kind, rng, vh.FromInts(v.Init), v.Sibs)
	if err != nil {
		return nil, err
	}
	e := &execution{v: v, tm: tm, bufSize: bufSize, pl: pl, path: pl.path}
	e.exists = true
	e.written = len(v.Init)
	r, err := followreader.New(e.path, v.Reopen, v.Poll)
	if err != nil {
		return nil, fmt.Errorf("followreader.New: %w", err)
	}
	if p, ok := r.(*followreader.PollingFollowReader); ok {
		p.PollDelay = tm.pollDelay
	}
	if v.Tail {
		if err := r.Drain(); err != nil {
			return nil, fmt.Errorf("Drain: %w", err)
		}
	}
	e.r = r
	e.permit = make(chan struct{}, 1)
	e.results = make(chan readResult, 4)
	go func() {
		for range e.permit {
			buf := make([]byte, e.bufSize)
			n, err := r.Read(buf)
			e.results <- readResult{buf[:n], err}
		}
	}()
	return e, nil
}

func (e *execution) startRead() {
	if !e.inflight && !e.ended {
		e.inflight = true
		e.permit <- struct{}{}
	}
}

// absorb takes one Read result; returns false on a reader error that is not EOF
func (e *execution) absorb(res readResult) string {
	e.inflight = false
	if len(res.data) > 0 {
		e.got = append(e.got, res.data...)
		e.log(M{"event": "read", "data": B(res.data)})
	}
	if res.err == io.EOF {
		e.ended = true
		e.log(M{"event": "eof"})
	} else if res.err != nil {
		return "read error: " + res.err.Error()
	} else if len(res.data) == 0 {
		return "Read returned (0, nil)"
	}
	return ""
}

func isPrefix(p, s []byte) bool {
	return len(p) <= len(s) && string(s[:len(p)]) == string(p)
}

func (e *execution) appendBytes(b []byte) error {
	f, err := os.OpenFile(e.pl.real, os.O_APPEND|os.O_WRONLY, 0o644)
	if err != nil {
		return err
	}
	if _, err := f.Write(b); err != nil {
		f.Close()
		return err
	}
	e.written += len(b)
	return f.Close()
}

func (e *execution) createFile() error {
	f, err := os.OpenFile(e.pl.real, os.O_CREATE|os.O_EXCL|os.O_WRONLY, 0o644)
	if err != nil {
		return err
	}
	return f.Close()
}

// finish releases the reader: a blocked Read is given something to return, then Close.
func (e *execution) finish() {
	if e.inflight && !e.ended {
		kick := make([]byte, 4096+e.written)
		if !e.exists {
			os.WriteFile(e.pl.real, kick, 0o644)
		} else {
			e.appendBytes(kick)
		}
		select {
		case <-e.results:
		case <-time.After(1500 * time.Millisecond):
		}
	}
	e.r.Close()
	close(e.permit)
	os.RemoveAll(e.pl.dir)
}

// run executes the history; the first disagreement with the specification's expectation ends it.
func (e *execution) run() (out outcome, infra error) {
	e.log(M{"event": "reset", "poll": e.v.Poll, "reopen": e.v.Reopen, "tail": e.v.Tail, "init": e.v.Init, "path": e.pl.kind})
	var since []string
	placement := "idle"
	lastEofok := false
	want := []byte{}
	fail := func(i int, kind, detail string) outcome {
		if kind == "hang" || kind == "no-eof" {
			e.log(M{"event": "quiet"})
		}
		return outcome{Kind: kind, Step: i, Shape: strings.Join(since, ",") + "|" + placement,
			Got: B(e.got), Want: B(want), Detail: detail}
	}
	for i, st := range e.v.Steps {
		switch st.Op {
		case "append":
			e.log(M{"event": "append", "data": st.Data})
			if err := e.appendBytes(vh.FromInts(st.Data)); err != nil {
				return out, err
			}
			since = append(since, "append")
		case "remove":
			e.log(M{"event": "remove"})
			if err := os.Remove(e.pl.real); err != nil {
				return out, err
			}
			e.exists = false
			since = append(since, "remove")
		case "other":
			e.log(M{"event": "other", "what": st.What, "name": st.Name})
			if err := e.pl.other(st.What, st.Name, st.To); err != nil {
				return out, err
			}
			since = append(since, "other-"+st.What+"-"+st.Name)
		case "create":
			e.log(M{"event": "create"})
			if err := e.createFile(); err != nil {
				return out, err
			}
			e.exists = true
			since = append(since, "create")
		case "start":
			e.startRead()
			if len(since) == 0 {
				placement = "blocked"
			} else {
				placement = "mixed"
			}
		case "settle":
			time.Sleep(e.tm.settle)
			since = append(since, "settle")
		case "drain":
			want = vh.FromInts(st.Expect)
			lastEofok = st.Eofok
			dl := e.tm.deadline
			if e.tm.hangs != nil && atomic.LoadInt32(e.tm.hangs) >= 12 {
				dl = 2 * time.Second
			}
			deadline := time.After(dl)
			for {
				// take what is already there
				for more := true; more; {
					select {
					case res := <-e.results:
						if msg := e.absorb(res); msg != "" {
							return fail(i, "error", msg), nil
						}
					default:
						more = false
					}
				}
				if !isPrefix(e.got, want) {
					return fail(i, "content", "delivered bytes are not a prefix of the expected stream"), nil
				}
				if e.ended {
					if !st.Eofok {
						return fail(i, "early-eof", "Read returned io.EOF although the end of the stream is not allowed here"), nil
					}
					if len(e.got) < len(want) {
						return fail(i, "content", "io.EOF before all expected bytes"), nil
					}
					break
				}
				if len(e.got) == len(want) && !st.Eof {
					break
				}
				e.startRead()
				select {
				case res := <-e.results:
					if msg := e.absorb(res); msg != "" {
						return fail(i, "error", msg), nil
					}
				case <-deadline:
					if e.tm.hangs != nil {
						atomic.AddInt32(e.tm.hangs, 1)
					}
					if len(e.got) < len(want) {
						return fail(i, "hang", fmt.Sprintf("no data for %v with %d expected bytes outstanding", dl, len(want)-len(e.got))), nil
					}
					return fail(i, "no-eof", fmt.Sprintf("Read did not end the stream within %v after the removal", dl)), nil
				}
			}
			since = nil
			placement = "idle"
		default:
			return out, fmt.Errorf("unknown op %q", st.Op)
		}
	}
	// final window: nothing more may be delivered (duplicates, stale data); EOF only where allowed
	if !e.ended {
		e.startRead()
		select {
		case res := <-e.results:
			if msg := e.absorb(res); msg != "" {
				return fail(len(e.v.Steps), "error", msg), nil
			}
			if len(res.data) > 0 {
				return fail(len(e.v.Steps), "extra", "bytes delivered after the whole expected stream"), nil
			}
			if e.ended && !lastEofok {
				return fail(len(e.v.Steps), "early-eof", "Read returned io.EOF although the file still exists"), nil
			}
		case <-time.After(e.tm.quiet):
		}
	}
	if n := len(e.v.Steps); n > 0 && e.v.Steps[n-1].Op == "drain" {
		e.log(M{"event": "quiet"})
	}
	return outcome{}, nil
}

func modeName(v vector) string {
	s := "notify"
	if v.Poll {
		s = "poll"
	}
	if v.Reopen {
		s += ":reopen"
	} else {
		s += ":plain"
	}
	if v.Tail {
		s += ":tail"
	} else {
		s += ":start"
	}
	return s
}

type job struct {
	idx  int
	v    vector
	raw  json.RawMessage
	rep  int
	kind string // file | link-same | link-other
}

// the kind of path an execution follows: the first execution of a history the file's own name, the
// others a symbolic link to it
func kindFor(idx, rep int) string {
	if rep%2 == 0 {
		return "file"
	}
	if (idx+rep/2)%2 == 0 {
		return "link-same"
	}
	return "link-other"
}

type jobResult struct {
	job    job
	out    outcome
	events []M
	infra  error
	buf    int
}

func execute(j job, tm timing, base string) jobResult {
	rng := rand.New(rand.NewSource(vh.Seed()*7919 + int64(j.idx)*131 + int64(j.rep)))
	buf := []int{1, 2, 3, 4096, 65536}[rng.Intn(5)]
	total := len(j.v.Init)
	for _, st := range j.v.Steps {
		total += len(st.Data)
	}
	if total > 60 && buf < 16 {
		buf = 16 + rng.Intn(64)
	}
	if j.kind == "" {
		j.kind = kindFor(j.idx, j.rep)
	}
	e, err := newExecution(j.v, tm, buf, base, j.kind, rng)
	if err != nil {
		return jobResult{job: j, infra: err}
	}
	out, infra := e.run()
	e.finish()
	return jobResult{job: j, out: out, events: e.events, infra: infra, buf: buf}
}

func runJobs(jobs []job, tm timing, par int, base string) []jobResult {
	res := make([]jobResult, len(jobs))
	var wg sync.WaitGroup
	ch := make(chan int)
	for w := 0; w < par; w++ {
		wg.Add(1)
		go func() {
			defer wg.Done()
			for i := range ch {
				res[i] = execute(jobs[i], tm, base)
			}
		}()
	}
	for i := range jobs {
		ch <- i
	}
	close(ch)
	wg.Wait()
	return res
}

type mismatch struct {
	Vector  json.RawMessage `json:"vector"`
	Mode    string          `json:"mode"`
	Outcome outcome         `json:"outcome"`
	Seen    int             `json:"seen"`   // executions of this history showing this kind
	Runs    int             `json:"runs"`   // executions of this history
	Reruns  int             `json:"reruns"` // confirmation re-runs after a deadline overrun
	Buf     int             `json:"buf"`
}

func c15Replay(args []string) error {
	fs := flag.NewFlagSet("c15-replay", flag.ExitOnError)
	in := fs.String("in", "", "vectors ndjson")
	out := fs.String("out", "", "result json")
	trace := fs.String("trace", "", "trace ndjson (B2)")
	reps := fs.Int("reps", 3, "executions per history")
	par := fs.Int("par", 16, "parallel executions")
	fs.Parse(args)
	tm := defaultTiming()
	base, err := os.MkdirTemp(".", "c15files")
	if err != nil {
		return err
	}
	defer os.RemoveAll(base)
	var jobs []job
	idx := 0
	if err := vh.ReadNd(*in, func(raw json.RawMessage) error {
		var v vector
		if err := json.Unmarshal(raw, &v); err != nil {
			return err
		}
		for r := 0; r < *reps; r++ {
			jobs = append(jobs, job{idx: idx, v: v, raw: raw, rep: r})
		}
		idx++
		return nil
	}); err != nil {
		return err
	}
	first := tm
	first.hangs = new(int32)
	results := runJobs(jobs, first, *par, base)
	// liveness verdicts need confirmation: re-run the history; it counts only when the overrun repeats
	flaky := 0
	type key struct {
		idx  int
		kind string
	}
	agg := map[key]*mismatch{}
	runsPer := map[int]int{}
	for i := range results {
		if results[i].job.kind == "" {
			results[i].job.kind = kindFor(results[i].job.idx, results[i].job.rep)
		}
	}
	w, err := vh.NewNdWriter(*trace)
	if err != nil {
		return err
	}
	defer w.Close()
	tid := 0
	emit := func(r jobResult) {
		tid++
		for k, ev := range r.events {
			if k == 0 {
				ev["t"] = tid
			}
			w.Write(ev)
		}
	}
	// deadline overruns: re-run the history (all confirmations in one parallel batch, at most 10
	// distinct histories chosen to cover distinct mode/shape classes); it counts only when it repeats
	isLive := func(k string) bool { return k == "hang" || k == "no-eof" }
	confirmed := map[int]bool{}
	var rj []job
	classes := map[string]bool{}
	chosen := map[int]bool{}
	for pass := 0; pass < 2; pass++ {
		for _, r := range results {
			if r.infra != nil || !isLive(r.out.Kind) || chosen[r.job.idx] || len(chosen) >= 10 {
				continue
			}
			cl := modeName(r.job.v) + r.out.Shape + r.out.Kind
			if pass == 0 && classes[cl] {
				continue
			}
			classes[cl] = true
			chosen[r.job.idx] = true
			for k := 0; k < 4; k++ {
				rj = append(rj, job{idx: r.job.idx, v: r.job.v, raw: r.job.raw, rep: 1000 + k, kind: r.job.kind})
			}
		}
	}
	for _, rr := range runJobs(rj, tm, 24, base) {
		if rr.infra != nil {
			return fmt.Errorf("infrastructure: %w", rr.infra)
		}
		if isLive(rr.out.Kind) {
			confirmed[rr.job.idx] = true
		}
	}
	for _, r := range results {
		if r.infra != nil {
			return fmt.Errorf("infrastructure: %w", r.infra)
		}
		runsPer[r.job.idx]++
		if isLive(r.out.Kind) && !confirmed[r.job.idx] {
			flaky++
			continue // not reported, not recorded
		}
		emit(r)
		if r.out.Kind != "" {
			k := key{r.job.idx, r.out.Kind + "/" + r.job.kind}
			if agg[k] == nil {
				agg[k] = &mismatch{Vector: r.job.raw, Mode: modeName(r.job.v) + ":" + r.job.kind, Outcome: r.out, Buf: r.buf}
			}
			agg[k].Seen++
		}
	}
	var mism []*mismatch
	for k, m := range agg {
		m.Runs = runsPer[k.idx]
		mism = append(mism, m)
	}
	sort.Slice(mism, func(i, j int) bool {
		return string(mism[i].Vector)+mism[i].Outcome.Kind < string(mism[j].Vector)+mism[j].Outcome.Kind
	})
	nontrivial := 0
	_ = vh.ReadNd(*in, func(raw json.RawMessage) error {
		var v vector
		json.Unmarshal(raw, &v)
		env := 0
		for _, s := range v.Steps {
			if s.Op == "append" || s.Op == "remove" || s.Op == "create" {
				env++
			}
		}
		if env >= 2 {
			nontrivial++
		}
		return nil
	})
	vh.WriteJSON(*out, M{"histories": idx, "runs": len(results), "traces": tid, "flaky_timeouts": flaky,
		"distinct_nontrivial": nontrivial, "mismatches": mism})
	return nil
}

// ---------------------------------------------------------------------------------------------
// random histories (B2): several cycles, larger data; the harness tracks what it wrote only to know
// when to stop reading - the verdict is TLC's.

func randomHistory(r *rand.Rand, maxOps, big int) vector {
	v := vector{Poll: r.Intn(2) == 0, Reopen: r.Intn(3) != 0, Tail: r.Intn(3) == 0}
	v.Init = make([]int, r.Intn(6))
	for i := range v.Init {
		v.Init[i] = 65 + r.Intn(26)
	}
	start := 0
	if v.Tail {
		start = len(v.Init)
	}
	expect := append([]int{}, v.Init[start:]...)
	fromPrev := len(expect) // bytes delivered out of the file the reader last followed
	curLen := len(v.Init)
	exists, drained, fresh, first := true, false, false, true
	next := 0
	nops := 2 + r.Intn(maxOps)
	drain := func(eof, eofok bool) {
		v.Steps = append(v.Steps, step{Op: "drain", Expect: append([]int{}, expect...), Eof: eof, Eofok: eofok})
		drained = true
		if exists && curLen > 0 {
			fresh = false
		}
	}
	ended, stop := false, false
	// siblings of the followed path (Follow!EnvOther): some exist from the start
	has := map[string]bool{}
	for _, c := range []string{"suf", "pre", "oth"} {
		if r.Intn(2) == 0 {
			v.Sibs = append(v.Sibs, c)
			has[c] = true
		}
	}
	for len(v.Steps) < nops && !ended && !stop {
		if r.Intn(4) == 0 {
			c := []string{"suf", "pre", "oth"}[r.Intn(3)]
			st := step{Op: "other", Name: c, What: "create"}
			if has[c] {
				st.What = []string{"append", "remove", "rename"}[r.Intn(3)]
			}
			if st.What == "rename" {
				for _, t := range []string{"suf", "pre", "oth"} {
					if !has[t] {
						st.To = t
					}
				}
				if st.To == "" {
					st.What = "remove"
				}
			}
			switch st.What {
			case "create":
				has[c] = true
			case "remove":
				has[c] = false
			case "rename":
				has[c], has[st.To] = false, true
			}
			v.Steps = append(v.Steps, st)
			continue
		}
		switch k := r.Intn(10); {
		case k < 4 && exists: // append
			n := 1 + r.Intn(4)
			if r.Intn(8) == 0 {
				n = 1 + r.Intn(big)
			}
			if v.Poll && v.Reopen && fresh {
				// stay inside the specification's domain: the new file must stay shorter than what
				// was delivered from its predecessor until the reader has delivered from it
				room := fromPrev - 1 - curLen
				if room <= 0 {
					if curLen == 0 {
						stop = true // nothing can be appended inside the domain
					} else {
						drain(false, false)
					}
					continue
				}
				if n > room {
					n = room
				}
			}
			d := make([]int, n)
			for i := range d {
				d[i] = 97 + (next % 26)
				next++
			}
			v.Steps = append(v.Steps, step{Op: "append", Data: d})
			curLen += n
			if v.Reopen || first {
				expect = append(expect, d...)
			}
			drained = false
		case k < 5 && exists: // remove (after a drain)
			if !drained {
				drain(false, !v.Reopen && !first)
			}
			v.Steps = append(v.Steps, step{Op: "remove"})
			exists = false
			if first {
				fromPrev = len(expect)
			} else {
				fromPrev = curLen
			}
			if first && !v.Reopen {
				if !v.Poll || r.Intn(2) == 0 {
					drain(true, true)
					ended = true
				}
			}
			first = false
		case k < 7 && !exists: // re-create
			if v.Poll && v.Reopen && fromPrev == 0 {
				stop = true // outside the domain from here on
				continue
			}
			v.Steps = append(v.Steps, step{Op: "create"})
			exists, fresh, curLen = true, true, 0
			drained = true
		case k < 8:
			v.Steps = append(v.Steps, step{Op: "start"})
		case k < 9:
			v.Steps = append(v.Steps, step{Op: "settle"})
		default:
			if !ended {
				eofDemanded := !v.Reopen && !first && (!v.Poll || !exists)
				drain(eofDemanded, !v.Reopen && !first)
				if eofDemanded {
					ended = true
				}
			}
		}
	}
	if !ended && (len(v.Steps) == 0 || v.Steps[len(v.Steps)-1].Op != "drain") {
		eofDemanded := !v.Reopen && !first && (!v.Poll || !exists)
		drain(eofDemanded, !v.Reopen && !first)
	}
	return v
}

func c15Trace(args []string) error {
	fs := flag.NewFlagSet("c15-trace", flag.ExitOnError)
	out := fs.String("out", "", "trace ndjson")
	sum := fs.String("summary", "", "summary json")
	n := fs.Int("n", 100, "number of histories")
	maxOps := fs.Int("maxops", 14, "max steps per history")
	par := fs.Int("par", 16, "parallel executions")
	big := fs.Int("big", 120, "max length of an occasional large append")
	fs.Parse(args)
	tm := defaultTiming()
	base, err := os.MkdirTemp(".", "c15files")
	if err != nil {
		return err
	}
	defer os.RemoveAll(base)
	r := vh.NewRand(15)
	var jobs []job
	for i := 0; i < *n; i++ {
		v := randomHistory(r, *maxOps, *big)
		raw, _ := json.Marshal(v)
		jobs = append(jobs, job{idx: i, v: v, raw: raw, kind: []string{"file", "link-same", "link-other"}[i%3]})
	}
	first := tm
	first.hangs = new(int32)
	results := runJobs(jobs, first, *par, base)
	w, err := vh.NewNdWriter(*out)
	if err != nil {
		return err
	}
	defer w.Close()
	flaky, tid, cycles := 0, 0, 0
	var vectors []json.RawMessage
	for _, res := range results {
		if res.infra != nil {
			return fmt.Errorf("infrastructure: %w", res.infra)
		}
		if res.out.Kind == "hang" || res.out.Kind == "no-eof" {
			// a deadline overrun counts only if it repeats
			again := false
			var ok *jobResult
			var rj []job
			for k := 0; k < 4; k++ {
				rj = append(rj, job{idx: res.job.idx, v: res.job.v, raw: res.job.raw, rep: 1000 + k, kind: res.job.kind})
			}
			for _, rr := range runJobs(rj, tm, 4, base) {
				rr := rr
				if rr.out.Kind == "hang" || rr.out.Kind == "no-eof" {
					if !again {
						res = rr // the confirming execution (full deadline) is the one recorded
					}
					again = true
				} else if ok == nil {
					ok = &rr
				}
			}
			if !again && ok != nil {
				flaky++
				res = *ok
			}
		}
		tid++
		for k, ev := range res.events {
			if k == 0 {
				ev["t"] = tid
			}
			w.Write(ev)
		}
		vectors = append(vectors, res.job.raw)
		for _, s := range res.job.v.Steps {
			if s.Op == "create" {
				cycles++
			}
		}
	}
	vh.WriteJSON(*sum, M{"traces": tid, "events": w.N, "flaky_timeouts": flaky, "recreations": cycles, "vectors": vectors})
	return nil
}

// ---------------------------------------------------------------------------------------------
// end to end: the same kind of history through batchers.TailFilesToChan and through the rare binary.
// Lines are written whole; a line counts as delivered when it shows up in a batch / on stdout.

type lineSink interface {
	lines() []string
	stop()
}

type batcherSink struct {
	mu  sync.Mutex
	got []string
}

func (s *batcherSink) lines() []string {
	s.mu.Lock()
	defer s.mu.Unlock()
	return append([]string{}, s.got...)
}
func (s *batcherSink) stop() {}

type cliSink struct {
	batcherSink
	cmd *exec.Cmd
}

func (s *cliSink) stop() {
	s.cmd.Process.Kill()
	s.cmd.Wait()
}

func c15Cli(args []string) error {
	fs := flag.NewFlagSet("c15-cli", flag.ExitOnError)
	out := fs.String("out", "", "trace ndjson")
	bin := fs.String("bin", "", "rare binary (empty: batcher only)")
	n := fs.Int("n", 4, "histories per mode and sink")
	fs.Parse(args)
	w, err := vh.NewNdWriter(*out)
	if err != nil {
		return err
	}
	defer w.Close()
	base, err := os.MkdirTemp(".", "c15cli")
	if err != nil {
		return err
	}
	defer os.RemoveAll(base)
	r := vh.NewRand(1515)
	tid := 0
	type cfg struct{ poll, reopen, tail bool }
	var mu sync.Mutex
	var wg sync.WaitGroup
	sem := make(chan struct{}, 12)
	var firstErr error
	for _, sink := range []string{"batcher", "cli"} {
		if sink == "cli" && *bin == "" {
			continue
		}
		// no --tail here: when the asynchronous Drain() runs relative to the first append cannot be
		// observed from outside (tail is covered by replay/trace, which call Drain themselves)
		for _, c := range []cfg{{false, true, false}, {false, false, false}, {true, true, false}} {
			if sink == "cli" && c.poll {
				continue // same reader code as the batcher path, 250 ms poll delay
			}
			for k := 0; k < *n; k++ {
				seed := r.Int63()
				wg.Add(1)
				sem <- struct{}{}
				go func(sink string, c cfg, seed int64) {
					defer wg.Done()
					defer func() { <-sem }()
					evs, err := cliHistory(sink, *bin, c.poll, c.reopen, c.tail, rand.New(rand.NewSource(seed)), base)
					mu.Lock()
					defer mu.Unlock()
					if err != nil && firstErr == nil {
						firstErr = err
					}
					tid++
					for i, ev := range evs {
						if i == 0 {
							ev["t"] = tid
							ev["sink"] = sink
						}
						w.Write(ev)
					}
				}(sink, c, seed)
			}
		}
	}
	wg.Wait()
	if firstErr != nil {
		return firstErr
	}
	fmt.Println(tid)
	return nil
}

func cliHistory(sink, bin string, poll, reopen, tail bool, r *rand.Rand, base string) ([]M, error) {
	dir, err := os.MkdirTemp(base, "c")
	if err != nil {
		return nil, err
	}
	defer os.RemoveAll(dir)
	path := filepath.Join(dir, "app.log")
	lineNo := 0
	mk := func(n int) []byte {
		var sb strings.Builder
		for i := 0; i < n; i++ {
			lineNo++
			fmt.Fprintf(&sb, "line-%04d\n", lineNo)
		}
		return []byte(sb.String())
	}
	init := mk(r.Intn(3))
	if err := os.WriteFile(path, init, 0o644); err != nil {
		return nil, err
	}
	var evs []M
	evs = append(evs, M{"event": "reset", "poll": poll, "reopen": reopen, "tail": tail, "init": B(init)})
	var s lineSink
	switch sink {
	case "batcher":
		names := make(chan string, 1)
		names <- path
		close(names)
		// batch size 1: the batcher flushes a partial batch only when a further line arrives, which
		// is not part of this property
		b := batchers.TailFilesToChan(names, 1, 1, reopen, poll, tail)
		bs := &batcherSink{}
		go func() {
			for batch := range b.BatchChan() {
				bs.mu.Lock()
				for _, l := range batch.Batch {
					bs.got = append(bs.got, string(l))
				}
				bs.mu.Unlock()
			}
		}()
		s = bs
		time.Sleep(150 * time.Millisecond) // the reader is opened (and drained with tail) asynchronously
	case "cli":
		// one worker: the extractor's worker pool does not keep batches in order (not this property)
		a := []string{"filter", "--batch", "1", "--workers", "1", "-m", ".*"}
		if reopen {
			a = append(a, "-F")
		} else {
			a = append(a, "-f")
		}
		if tail {
			a = append(a, "--tail")
		}
		a = append(a, path)
		cmd := exec.Command(bin, a...)
		stdout, err := cmd.StdoutPipe()
		if err != nil {
			return nil, err
		}
		if err := cmd.Start(); err != nil {
			return nil, err
		}
		cs := &cliSink{cmd: cmd}
		go func() {
			sc := bufio.NewScanner(stdout)
			for sc.Scan() {
				cs.mu.Lock()
				cs.got = append(cs.got, sc.Text())
				cs.mu.Unlock()
			}
		}()
		s = cs
		time.Sleep(400 * time.Millisecond) // process start, watcher registration, Drain
	}
	defer s.stop()
	seen := 0
	lastSeen := time.Now()
	// reports newly surfaced lines as read records; waits until `want` lines in total were seen
	collect := func(want int, deadline time.Duration) bool {
		end := time.Now().Add(deadline)
		for {
			ls := s.lines()
			if seen < len(ls) {
				lastSeen = time.Now()
			}
			for ; seen < len(ls); seen++ {
				evs = append(evs, M{"event": "read", "data": B([]byte(ls[seen] + "\n"))})
			}
			if seen >= want {
				return true
			}
			if time.Now().After(end) {
				return false
			}
			time.Sleep(5 * time.Millisecond)
		}
	}
	expectLines := 0
	if !tail {
		expectLines = lineNo
	}
	appendLines := func(n int) error {
		d := mk(n)
		evs = append(evs, M{"event": "append", "data": B(d)})
		f, err := os.OpenFile(path, os.O_APPEND|os.O_WRONLY, 0o644)
		if err != nil {
			return err
		}
		f.Write(d)
		f.Close()
		expectLines += n
		return nil
	}
	for i, k := 0, 1+r.Intn(3); i < k; i++ {
		if err := appendLines(1 + r.Intn(3)); err != nil {
			return nil, err
		}
		if r.Intn(2) == 0 {
			time.Sleep(time.Duration(r.Intn(30)) * time.Millisecond)
		}
	}
	if !collect(expectLines, 10*time.Second) {
		evs = append(evs, M{"event": "quiet"})
		return evs, nil
	}
	if poll {
		// timing relative to the poller's round, production parameters (5 read attempts, 250 ms): a delivery
		// restarts the round, so an append 4.5 delays after the last delivery lands between the last read
		// attempt of the round and the stat of the path (FollowPoll_Gen's phase k = ReadAttempts); the
		// file stays in place.  Timing steers coverage only - the expectation is the same wherever it lands.
		for i, k := 0, 1+r.Intn(2); i < k; i++ {
			if d := time.Until(lastSeen.Add(1125 * time.Millisecond)); d > 0 {
				time.Sleep(d)
			}
			if err := appendLines(1 + r.Intn(2)); err != nil {
				return nil, err
			}
			if !collect(expectLines, 10*time.Second) {
				evs = append(evs, M{"event": "quiet"})
				return evs, nil
			}
		}
	}
	if reopen && !poll && expectLines > 0 {
		evs = append(evs, M{"event": "remove"})
		os.Remove(path)
		if r.Intn(2) == 0 {
			time.Sleep(time.Duration(r.Intn(40)) * time.Millisecond)
		}
		evs = append(evs, M{"event": "create"})
		if f, err := os.OpenFile(path, os.O_CREATE|os.O_EXCL|os.O_WRONLY, 0o644); err == nil {
			f.Close()
		} else {
			return nil, err
		}
		if err := appendLines(1 + r.Intn(3)); err != nil {
			return nil, err
		}
		if !collect(expectLines, 10*time.Second) {
			evs = append(evs, M{"event": "quiet"})
			return evs, nil
		}
	}
	// nothing more may surface
	time.Sleep(400 * time.Millisecond)
	collect(expectLines, 0)
	evs = append(evs, M{"event": "quiet"})
	return evs, nil
}

package main

// C15, sub-command `phase`: TIMING of the environment relative to the poller's round (B1 + B2).
//
// spec/FollowPoll_Gen.tla enumerates histories in which every environment operation carries the
// phase of the polling reader's round at which it lands (r full rounds and k empty read attempts
// after the last sync point; k = ReadAttempts is the window between the last read attempt of a round
// and the stat of the path) together with the specification's expected stream.  The reader runs
// freely here (Read is called again as soon as it returned), PollDelay and ReadAttempts - public
// fields of PollingFollowReader - are set from the vector, and the harness realises the phases by
// timing: a delivery restarts the reader's round, so the moment of a delivery (or of the start) is the
// origin from which the operation is placed in the middle of the chosen sleep.
//
// Timing steers coverage only.  The expectation does not depend on whether a phase was hit, so a late
// wake-up under load can never produce a false alarm.  How often the planned schedule was realised is
// measured (re-opens of the path seen through inotify IN_OPEN vs. the model's count) and reported as
// a coverage number; it never contributes to the verdict.

import (
	"encoding/json"
	"flag"
	"fmt"
	"io"
	"math/rand"
	"os"
	"sort"
	"strings"
	"sync"
	"sync/atomic"
	"syscall"
	"time"
	"unsafe"

	"rare/pkg/followreader"

	"verifharness/vh"
)

type pstep struct {
	Op    string `json:"op"`
	Data  []int  `json:"data,omitempty"`
	Pre   bool   `json:"pre,omitempty"`
	R     int    `json:"r,omitempty"`
	K     int    `json:"k,omitempty"`
	Total int    `json:"total,omitempty"`
}

type pvector struct {
	Reopen   bool    `json:"reopen"`
	Tail     bool    `json:"tail"`
	Attempts int     `json:"attempts"`
	Buf      int     `json:"buf"`
	Init     []int   `json:"init"`
	Steps    []pstep `json:"steps"`
	Opens    int     `json:"opens"`
	Expect   []int   `json:"expect"`
	Eof      bool    `json:"eof"`
	Eofok    bool    `json:"eofok"`
}

func (v pvector) mode() string {
	s := "poll"
	if v.Reopen {
		s += ":reopen"
	} else {
		s += ":plain"
	}
	if v.Tail {
		s += ":tail"
	} else {
		s += ":start"
	}
	return s
}

// ---------------------------------------------------------------------------------------------
// one inotify instance for the whole sub-command: counts IN_OPEN on the followed name per directory

type openCounter struct {
	fd  int
	mu  sync.Mutex
	cnt map[int32]int
}

func newOpenCounter() *openCounter {
	fd, err := syscall.InotifyInit1(syscall.IN_CLOEXEC)
	if err != nil {
		return nil
	}
	c := &openCounter{fd: fd, cnt: map[int32]int{}}
	go func() {
		buf := make([]byte, 64*1024)
		for {
			n, err := syscall.Read(fd, buf)
			if err != nil || n <= 0 {
				if err == syscall.EINTR {
					continue
				}
				return
			}
			for off := 0; off+syscall.SizeofInotifyEvent <= n; {
				ev := (*syscall.InotifyEvent)(unsafe.Pointer(&buf[off]))
				name := strings.TrimRight(string(buf[off+syscall.SizeofInotifyEvent:off+syscall.SizeofInotifyEvent+int(ev.Len)]), "\x00")
				if ev.Mask&syscall.IN_OPEN != 0 && name == "followed.log" {
					c.mu.Lock()
					c.cnt[ev.Wd]++
					c.mu.Unlock()
				}
				off += syscall.SizeofInotifyEvent + int(ev.Len)
			}
		}
	}()
	return c
}

func (c *openCounter) watch(dir string) int32 {
	if c == nil {
		return -1
	}
	wd, err := syscall.InotifyAddWatch(c.fd, dir, syscall.IN_OPEN)
	if err != nil {
		return -1
	}
	return int32(wd)
}

// take ends the watch and returns the number of opens seen; events are handled asynchronously, so it
// waits (briefly) until at least the `atLeast` opens known to have happened have been counted
func (c *openCounter) take(wd int32, atLeast int) int {
	if c == nil || wd < 0 {
		return -1
	}
	for i := 0; ; i++ {
		c.mu.Lock()
		n := c.cnt[wd]
		c.mu.Unlock()
		if n >= atLeast || i >= 100 {
			break
		}
		time.Sleep(time.Millisecond)
	}
	time.Sleep(2 * time.Millisecond)
	syscall.InotifyRmWatch(c.fd, uint32(wd))
	c.mu.Lock()
	defer c.mu.Unlock()
	n := c.cnt[wd]
	delete(c.cnt, wd)
	if n < atLeast {
		return -1
	}
	return n
}

// ---------------------------------------------------------------------------------------------

type presult struct {
	data []byte
	err  error
	at   time.Time
}

type pexec struct {
	v        pvector
	pd       time.Duration
	deadline time.Duration
	pl       *place
	rng      *rand.Rand
	path     string
	r        *followreader.PollingFollowReader
	results  chan presult
	stop     int32
	done     chan struct{}
	started  bool
	sync     time.Time
	got      []byte
	want     []byte
	ended    bool
	events   []M
	exists   bool
	written  int
	myOpens  int
	removed  bool
	since    []string
}

func (e *pexec) log(m M) { e.events = append(e.events, m) }

func (e *pexec) absorb(res presult) string {
	if len(res.data) > 0 {
		e.got = append(e.got, res.data...)
		e.sync = res.at
		e.log(M{"event": "read", "data": B(res.data)})
	}
	if res.err == io.EOF {
		e.ended = true
		e.log(M{"event": "eof"})
	} else if res.err != nil {
		return "read error: " + res.err.Error()
	} else if len(res.data) == 0 {
		return "Read returned (0, nil)"
	}
	return ""
}

// waits until t (or, with until != nil, until it holds) while taking what the reader delivers;
// returns a non-empty kind on a disagreement
func (e *pexec) wait(t time.Time, until func() bool) (kind, detail string) {
	for {
		if !isPrefix(e.got, e.want) {
			return "content", "delivered bytes are not a prefix of the expected stream"
		}
		if e.ended && (e.v.Reopen || !e.removed) {
			return "early-eof", "Read returned io.EOF although the file exists / re-open follow never ends"
		}
		if until != nil && until() {
			return "", ""
		}
		d := time.Until(t)
		if d <= 0 {
			return "", ""
		}
		if e.ended { // nothing more will come
			if until != nil {
				return "", ""
			}
			time.Sleep(d)
			return "", ""
		}
		select {
		case res := <-e.results:
			if msg := e.absorb(res); msg != "" {
				return "error", msg
			}
		case <-time.After(d):
		}
	}
}

func (e *pexec) appendBytes(b []byte) error {
	f, err := os.OpenFile(e.pl.real, os.O_APPEND|os.O_WRONLY, 0o644)
	if err != nil {
		return err
	}
	e.myOpens++
	if _, err := f.Write(b); err != nil {
		f.Close()
		return err
	}
	e.written += len(b)
	return f.Close()
}

func (e *pexec) envOp(st pstep) error {
	// Follow!EnvOther may happen at any moment: sibling activity chosen by the harness around the operation
	if e.rng.Intn(3) == 0 {
		e.log(e.pl.noise(e.rng))
	}
	defer func() {
		if e.rng.Intn(3) == 0 {
			e.log(e.pl.noise(e.rng))
		}
	}()
	switch st.Op {
	case "append":
		e.log(M{"event": "append", "data": st.Data})
		return e.appendBytes(vh.FromInts(st.Data))
	case "remove":
		e.log(M{"event": "remove"})
		e.exists = false
		e.removed = true
		return os.Remove(e.pl.real)
	case "create":
		e.log(M{"event": "create"})
		f, err := os.OpenFile(e.pl.real, os.O_CREATE|os.O_EXCL|os.O_WRONLY, 0o644)
		if err != nil {
			return err
		}
		e.myOpens++
		e.exists = true
		return f.Close()
	}
	return fmt.Errorf("unknown op %q", st.Op)
}

func (e *pexec) startReader() {
	e.started = true
	e.sync = time.Now()
	limit := len(e.want) + 1<<16
	go func() {
		defer close(e.done)
		total := 0
		for atomic.LoadInt32(&e.stop) == 0 {
			buf := make([]byte, e.v.Buf)
			n, err := e.r.Read(buf)
			e.results <- presult{buf[:n], err, time.Now()}
			total += n
			if err != nil || n == 0 || total > limit {
				return
			}
		}
	}()
}

func (e *pexec) finish() {
	atomic.StoreInt32(&e.stop, 1)
	if e.started {
		kick := make([]byte, 4096+e.written)
		if !e.exists {
			os.WriteFile(e.pl.real, kick, 0o644)
		} else {
			e.appendBytes(kick)
		}
		round := time.Duration(e.v.Attempts+1) * e.pd
		t := time.After(1500*time.Millisecond + 3*round)
	loop:
		for {
			select {
			case <-e.done:
				break loop
			case <-e.results:
			case <-t:
				break loop
			}
		}
	}
	e.r.Close()
	os.RemoveAll(e.pl.dir)
}

type poutcome struct {
	Kind   string `json:"kind"`
	Step   int    `json:"step"`
	Shape  string `json:"shape"`
	Got    []int  `json:"got"`
	Want   []int  `json:"want"`
	Detail string `json:"detail"`
}

func (e *pexec) run() (out poutcome, infra error) {
	v := e.v
	e.log(M{"event": "reset", "poll": true, "reopen": v.Reopen, "tail": v.Tail, "init": v.Init, "path": e.pl.kind})
	fail := func(i int, kind, detail string) poutcome {
		if kind == "hang" || kind == "no-eof" {
			e.log(M{"event": "quiet"})
		}
		return poutcome{Kind: kind, Step: i, Shape: strings.Join(e.since, ","), Got: B(e.got), Want: B(e.want), Detail: detail}
	}
	for i, st := range v.Steps {
		switch st.Op {
		case "start":
			e.startReader()
		case "read":
			// barrier: the model's reader has delivered `total` bytes here; the delivery is the next sync point
			if k, d := e.wait(time.Now().Add(e.deadline), func() bool { return len(e.got) >= st.Total }); k != "" {
				return fail(i, k, d), nil
			}
			if len(e.got) < st.Total && e.ended {
				return fail(i, "content", "io.EOF before all expected bytes"), nil
			}
			if len(e.got) < st.Total {
				return fail(i, "hang", fmt.Sprintf("no data for %v with %d expected bytes outstanding", e.deadline, st.Total-len(e.got))), nil
			}
			e.since = nil
		default:
			where := "pre"
			if !st.Pre {
				where = "read"
				if st.K >= v.Attempts {
					where = "stat"
				}
				// middle of the sleep after the k-th empty read attempt of round r since the sync point
				target := e.sync.Add(time.Duration(st.R*v.Attempts+st.K)*e.pd - e.pd/2)
				if k, d := e.wait(target, nil); k != "" {
					return fail(i, k, d), nil
				}
			}
			e.since = append(e.since, st.Op+"@"+where)
			if err := e.envOp(st); err != nil {
				return out, err
			}
		}
	}
	if !e.started {
		return out, fmt.Errorf("history without start")
	}
	// everything the specification expects must come, the end of the stream where it is demanded
	n := len(v.Steps)
	if k, d := e.wait(time.Now().Add(e.deadline), func() bool {
		return len(e.got) >= len(e.want) && (!v.Eof || e.ended)
	}); k != "" {
		return fail(n, k, d), nil
	}
	if len(e.got) < len(e.want) && e.ended {
		return fail(n, "content", "io.EOF before all expected bytes"), nil
	}
	if len(e.got) < len(e.want) {
		return fail(n, "hang", fmt.Sprintf("no data for %v with %d expected bytes outstanding", e.deadline, len(e.want)-len(e.got))), nil
	}
	if v.Eof && !e.ended {
		return fail(n, "no-eof", fmt.Sprintf("Read did not end the stream within %v after the removal", e.deadline)), nil
	}
	// nothing more may come for a few idle rounds (a wrong count surfaces at the next stat)
	before := len(e.got)
	quiet := time.Duration(3*v.Attempts)*e.pd + 30*time.Millisecond
	if k, d := e.wait(time.Now().Add(quiet), nil); k != "" {
		if k == "content" && len(e.got) > len(e.want) {
			k, d = "extra", "bytes delivered after the whole expected stream"
		}
		return fail(n, k, d), nil
	}
	if len(e.got) != before {
		return fail(n, "extra", "bytes delivered after the whole expected stream"), nil
	}
	e.log(M{"event": "quiet"})
	return poutcome{}, nil
}

type pjob struct {
	idx  int
	v    pvector
	raw  json.RawMessage
	rep  int
	kind string
}

type pjobResult struct {
	job      pjob
	out      poutcome
	events   []M
	infra    error
	opens  int // re-opens of the path by the reader during the history (-1: not measured)
	kind   string
}

func pexecute(j pjob, pd, deadline time.Duration, base string, oc *openCounter) pjobResult {
	// the kind of path: the file's own name, or a symbolic link to it (Follow.tla knows no difference)
	kind := j.kind
	if kind == "" {
		kind = []string{"file", "link-same", "file", "link-other"}[(j.idx+j.rep)%4]
	}
	rng := rand.New(rand.NewSource(vh.Seed()*104729 + int64(j.idx)*31 + int64(j.rep)))
	pl, err := newPlace(base, kind, rng, vh.FromInts(j.v.Init), []string{"suf", "pre"})
	if err != nil {
		return pjobResult{job: j, infra: err}
	}
	e := &pexec{v: j.v, pd: pd, deadline: deadline, pl: pl, rng: rng, path: pl.path,
		results: make(chan presult, 4096), done: make(chan struct{}), want: vh.FromInts(j.v.Expect)}
	e.exists = true
	e.written = len(j.v.Init)
	wd := int32(-1)
	if kind == "file" { // the re-opens of a link are reported under the file's own name: not counted
		wd = oc.watch(pl.dir)
	}
	// the poller itself (its PollDelay / ReadAttempts fields are needed); the dispatch in followreader.New is
	// exercised by the replay, trace and cli sub-commands
	p, err := followreader.NewPolling(e.path, j.v.Reopen)
	if err != nil {
		return pjobResult{job: j, infra: fmt.Errorf("followreader.NewPolling: %w", err)}
	}
	p.PollDelay = pd
	p.ReadAttempts = j.v.Attempts
	if j.v.Tail {
		if err := p.Drain(); err != nil {
			return pjobResult{job: j, infra: fmt.Errorf("Drain: %w", err)}
		}
	}
	e.r = p
	out, infra := e.run()
	// counted before the reader is released (the release is an append, which may cause a further re-open);
	// minus NewPolling's own open and the harness's opens
	opens := oc.take(wd, 1+e.myOpens)
	if opens >= 0 {
		opens -= 1 + e.myOpens
	}
	e.finish()
	return pjobResult{job: j, out: out, events: e.events, infra: infra, opens: opens, kind: kind}
}

func prunJobs(jobs []pjob, pd, deadline time.Duration, hangs *int32, par int, base string, oc *openCounter) []pjobResult {
	res := make([]pjobResult, len(jobs))
	var wg sync.WaitGroup
	ch := make(chan int)
	for w := 0; w < par; w++ {
		wg.Add(1)
		go func() {
			defer wg.Done()
			for i := range ch {
				dl := deadline
				if hangs != nil && atomic.LoadInt32(hangs) >= 8 {
					dl = 2 * time.Second
				}
				res[i] = pexecute(jobs[i], pd, dl, base, oc)
				if k := res[i].out.Kind; hangs != nil && (k == "hang" || k == "no-eof") {
					atomic.AddInt32(hangs, 1)
				}
			}
		}()
	}
	for i := range jobs {
		ch <- i
	}
	close(ch)
	wg.Wait()
	return res
}

func c15Phase(args []string) error {
	fs := flag.NewFlagSet("c15-phase", flag.ExitOnError)
	in := fs.String("in", "", "vectors ndjson (FollowPoll_Gen)")
	out := fs.String("out", "", "result json")
	trace := fs.String("trace", "", "trace ndjson (B2)")
	reps := fs.Int("reps", 1, "executions per history")
	par := fs.Int("par", 32, "parallel executions")
	pdms := fs.Int("pd", 20, "PollDelay in ms")
	fs.Parse(args)
	pd := time.Duration(*pdms) * time.Millisecond
	deadline := 10 * time.Second
	base, err := os.MkdirTemp(".", "c15phase")
	if err != nil {
		return err
	}
	defer os.RemoveAll(base)
	oc := newOpenCounter()
	var jobs []pjob
	idx := 0
	if err := vh.ReadNd(*in, func(raw json.RawMessage) error {
		var v pvector
		if err := json.Unmarshal(raw, &v); err != nil {
			return err
		}
		if v.Attempts < 1 || v.Buf < 1 {
			return fmt.Errorf("bad vector %s", raw)
		}
		for r := 0; r < *reps; r++ {
			jobs = append(jobs, pjob{idx: idx, v: v, raw: raw, rep: r})
		}
		idx++
		return nil
	}); err != nil {
		return err
	}
	hangs := new(int32)
	results := prunJobs(jobs, pd, deadline, hangs, *par, base, oc)
	isLive := func(k string) bool { return k == "hang" || k == "no-eof" }
	// deadline overruns count only when they repeat on a re-run of the same history
	confirmed := map[int]bool{}
	chosen := map[int]bool{}
	var rj []pjob
	for _, r := range results {
		if r.infra == nil && isLive(r.out.Kind) && !chosen[r.job.idx] && len(chosen) < 8 {
			chosen[r.job.idx] = true
			for k := 0; k < 3; k++ {
				rj = append(rj, pjob{idx: r.job.idx, v: r.job.v, raw: r.job.raw, rep: 1000 + k, kind: r.kind})
			}
		}
	}
	for _, rr := range prunJobs(rj, pd, deadline, nil, 24, base, oc) {
		if rr.infra != nil {
			return fmt.Errorf("infrastructure: %w", rr.infra)
		}
		if isLive(rr.out.Kind) {
			confirmed[rr.job.idx] = true
		}
	}
	w, err := vh.NewNdWriter(*trace)
	if err != nil {
		return err
	}
	defer w.Close()
	type key struct {
		idx  int
		kind string
	}
	type pmismatch struct {
		Vector  json.RawMessage `json:"vector"`
		Mode    string          `json:"mode"`
		Outcome poutcome        `json:"outcome"`
		Seen    int             `json:"seen"`
		Runs    int             `json:"runs"`
	}
	agg := map[key]*pmismatch{}
	runsPer := map[int]int{}
	tid, flaky := 0, 0
	statPlanned, statRuns, measured, exact, inplaceHit := 0, 0, 0, 0, 0
	for _, r := range results {
		if r.infra != nil {
			return fmt.Errorf("infrastructure: %w", r.infra)
		}
		runsPer[r.job.idx]++
		if isLive(r.out.Kind) && !confirmed[r.job.idx] {
			flaky++
			continue
		}
		tid++
		for k, ev := range r.events {
			if k == 0 {
				ev["t"] = tid
			}
			w.Write(ev)
		}
		// schedule fidelity (coverage only): did the reader go through the re-open block as often as the model's?
		inplace := false // an append placed in the stat window while the file stays in place
		removed := false
		for _, s := range r.job.v.Steps {
			if s.Op == "remove" {
				removed = true
			}
			if s.Op == "append" && !s.Pre && s.K >= r.job.v.Attempts && !removed {
				inplace = true
			}
		}
		if inplace {
			statPlanned++
		}
		if r.job.v.Reopen && r.opens >= 0 && r.out.Kind == "" {
			measured++
			if r.opens == r.job.v.Opens {
				exact++
			}
			if inplace {
				statRuns++
				if r.opens >= 1 {
					inplaceHit++
				}
			}
		}
		if r.out.Kind != "" {
			k := key{r.job.idx, r.out.Kind}
			if agg[k] == nil {
				agg[k] = &pmismatch{Vector: r.job.raw, Mode: r.job.v.mode() + ":" + r.kind, Outcome: r.out}
			}
			agg[k].Seen++
		}
	}
	var mism []*pmismatch
	for k, m := range agg {
		m.Runs = runsPer[k.idx]
		mism = append(mism, m)
	}
	sort.Slice(mism, func(i, j int) bool {
		return string(mism[i].Vector)+mism[i].Outcome.Kind < string(mism[j].Vector)+mism[j].Outcome.Kind
	})
	vh.WriteJSON(*out, M{"histories": idx, "runs": len(results), "traces": tid, "flaky_timeouts": flaky,
		"stat_window_inplace_planned": statPlanned, "reopen_measured": measured, "reopen_count_as_model": exact,
		"stat_window_inplace_measured": statRuns, "stat_window_inplace_reopened": inplaceHit,
		"poll_delay_ms": *pdms, "mismatches": mism})
	return nil
}

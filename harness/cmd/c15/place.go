package main

// C15: where a followed path lives.
//
// Follow.tla does not say whether the followed path is the file's own name or a symbolic link to the
// file (`cur` is what the path leads to), and it declares everything that happens to OTHER entries of the
// directory invisible (EnvOther).  A place realises both on a real file system:
//
//   kind "file"        <dir>/followed.log is the file
//   kind "link-same"   <dir>/followed.log -> t          (relative link, same directory)
//   kind "link-other"  <dir>/followed.log -> d/t        (relative link, another directory)
//
// The link text is kept short (1..3 bytes) on purpose: the size of the LINK then is smaller than what a
// reader has delivered after a few bytes, so a reader that takes the link's size for the file's cannot
// hide.  Appends, removal and re-creation act on the file itself; the link stays.
//
// Siblings are named after the name classes of FollowNotify.tla relative to BOTH base names (the
// followed path's and, for a link, the file's own), each in the directory of that name:
//   suf  a name that ends with the base name        (xfollowed.log, old-followed.log)
//   pre  a name that begins with the base name      (followed.log.1, followed.logx, followed.log.bak)
//   oth  an unrelated name

import (
	"fmt"
	"math/rand"
	"os"
	"path/filepath"
)

type place struct {
	kind string
	dir  string
	path string            // the followed path
	real string            // the file itself
	sib  map[string][]string // class -> sibling paths (one per base name)
	has  map[string]bool   // class -> exists now
}

func sibName(class, base string, rng *rand.Rand) string {
	switch class {
	case "suf":
		return []string{"x", "old-", "web"}[rng.Intn(3)] + base
	case "pre":
		return base + []string{".1", "x", ".bak"}[rng.Intn(3)]
	}
	return []string{"zz.txt", "other.dat"}[rng.Intn(2)]
}

func newPlace(base, kind string, rng *rand.Rand, init []byte, sibs []string) (*place, error) {
	dir, err := os.MkdirTemp(base, "h")
	if err != nil {
		return nil, err
	}
	p := &place{kind: kind, dir: dir, path: filepath.Join(dir, "followed.log"), sib: map[string][]string{}, has: map[string]bool{}}
	p.real = p.path
	tbase := ""
	switch kind {
	case "file":
	case "link-same":
		tbase = []string{"t", "t", "tg"}[rng.Intn(3)]
		p.real = filepath.Join(dir, tbase)
		if err := os.Symlink(tbase, p.path); err != nil {
			return nil, err
		}
	case "link-other":
		tbase = "t"
		if err := os.Mkdir(filepath.Join(dir, "d"), 0o755); err != nil {
			return nil, err
		}
		p.real = filepath.Join(dir, "d", tbase)
		if err := os.Symlink("d/"+tbase, p.path); err != nil {
			return nil, err
		}
	default:
		return nil, fmt.Errorf("unknown path kind %q", kind)
	}
	if err := os.WriteFile(p.real, init, 0o644); err != nil {
		return nil, err
	}
	for _, c := range []string{"suf", "pre", "oth"} {
		p.sib[c] = []string{filepath.Join(dir, sibName(c, "followed.log", rng))}
		if tbase != "" && c != "oth" {
			p.sib[c] = append(p.sib[c], filepath.Join(filepath.Dir(p.real), sibName(c, tbase, rng)))
		}
	}
	for _, c := range sibs {
		if err := p.other("create", c, ""); err != nil {
			return nil, err
		}
	}
	return p, nil
}

// other performs an operation on the siblings of a name class
func (p *place) other(what, class, to string) error {
	for i, f := range p.sib[class] {
		if i > 0 && what != "create" {
			// the entry next to the file's own name may have left through a rename to a class without one
			if _, err := os.Lstat(f); err != nil {
				continue
			}
		}
		switch what {
		case "create":
			if err := os.WriteFile(f, []byte("sibling\n"), 0o644); err != nil {
				return err
			}
		case "append":
			h, err := os.OpenFile(f, os.O_APPEND|os.O_WRONLY, 0o644)
			if err != nil {
				return err
			}
			h.Write([]byte("more of the sibling\n"))
			h.Close()
		case "remove":
			if err := os.Remove(f); err != nil {
				return err
			}
		case "rename":
			if i >= len(p.sib[to]) {
				// the other class has no entry next to this base name: a rename out of sight
				if err := os.Rename(f, f+".moved"); err != nil {
					return err
				}
				os.Remove(f + ".moved")
				continue
			}
			if err := os.Rename(f, p.sib[to][i]); err != nil {
				return err
			}
		default:
			return fmt.Errorf("unknown sibling operation %q", what)
		}
	}
	switch what {
	case "create":
		p.has[class] = true
	case "remove":
		p.has[class] = false
	case "rename":
		p.has[class] = false
		p.has[to] = true
	}
	return nil
}

// noise performs one random valid sibling operation (harness-chosen: Follow!EnvOther may happen at any
// moment and changes no expectation) and returns the record to log
func (p *place) noise(rng *rand.Rand) M {
	classes := []string{"suf", "pre"}
	c := classes[rng.Intn(2)]
	what := "create"
	if p.has[c] {
		what = []string{"append", "remove", "append", "remove", "rename"}[rng.Intn(5)]
	}
	to := ""
	if what == "rename" {
		to = classes[0]
		if c == to {
			to = classes[1]
		}
		if p.has[to] {
			what = "remove"
			to = ""
		}
	}
	if err := p.other(what, c, to); err != nil {
		return M{"event": "other", "what": "failed:" + what, "name": c}
	}
	return M{"event": "other", "what": what, "name": c}
}

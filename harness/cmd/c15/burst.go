package main

// C15, sub-command `burst`: the END of the follow pipeline (B1 + B2).
//
// spec/FollowBatch_Gen.tla enumerates schedules of bursts of whole lines (each burst ONE write;
// `long`: the writer was quiet for longer than the flush interval before it) with what
// spec/FollowBatch.tla demands of a consumer that HOLDS every batch it receives and reads the batches
// later: the lines read are 1..k in order with k >= atleast after every burst, k = total after the end
// of the stream.  Here the consumer does exactly that: it takes the extractor.InputBatch values off the
// batch channel and keeps them (no copy), and at every point at which the reader goroutine is known to
// be blocked in Read it reads all of them again.
//
// Sinks:
//   hook  the real follow reader (followreader.New; notify or poll; the file's own name or a symbolic
//         link) under the real time-flushed reader loop (Batcher.syncReaderToBatcherWithTimeFlush through
//         the verification hook batchers.VerifOpenReaderToChan) with a short flush interval chosen HERE.
//         The follow reader is wrapped in a counter, so the harness knows when the loop is back in Read
//         with every appended byte delivered (FollowBatch's Idle): pauses are measured from there, and
//         `atleast` can be demanded without depending on the speed of the machine.
//   tail  batchers.TailFilesToChan as it is (production flush interval).  Only what does not depend on a
//         timer value is demanded: the views are exact prefixes, and complete after the end of the stream.
//   cli   `rare filter -f --batch N` (stdout = what the worker read out of the batches), same demands.

import (
	"bufio"
	"encoding/json"
	"flag"
	"fmt"
	"io"
	"math/rand"
	"os"
	"os/exec"
	"sort"
	"strings"
	"sync"
	"time"

	"rare/pkg/extractor"
	"rare/pkg/extractor/batchers"
	"rare/pkg/followreader"

	"verifharness/vh"
)

type bstep struct {
	Op      string `json:"op"`
	N       int    `json:"n,omitempty"`
	Long    bool   `json:"long,omitempty"`
	Atleast int    `json:"atleast,omitempty"`
}

type bvector struct {
	Batch int     `json:"batch"`
	Plain bool    `json:"plain"`
	Steps []bstep `json:"steps"`
	Total int     `json:"total"`
	Ended bool    `json:"ended"`
	Timer int     `json:"timer"`
}

// countingReader wraps the follow reader: how many bytes it has returned, and whether a Read call is
// outstanding (the reader loop has scanned everything it was given and asks for more)
type countingReader struct {
	r      io.ReadCloser
	mu     sync.Mutex
	n      int
	inRead bool
	eof    bool
	stop   bool // the harness is done: the next data is dropped and the stream ended
}

func (c *countingReader) Read(b []byte) (int, error) {
	c.mu.Lock()
	c.inRead = true
	c.mu.Unlock()
	n, err := c.r.Read(b)
	c.mu.Lock()
	if c.stop {
		c.mu.Unlock()
		return 0, io.EOF
	}
	c.inRead = false
	c.n += n
	if err != nil {
		c.eof = true
	}
	c.mu.Unlock()
	return n, err
}
func (c *countingReader) Close() error { return c.r.Close() }
func (c *countingReader) idleAt(written int) bool {
	c.mu.Lock()
	defer c.mu.Unlock()
	return c.inRead && c.n >= written
}

// holder keeps the batches as they came
type holder struct {
	mu     sync.Mutex
	held   []extractor.InputBatch
	out    []string // cli: stdout lines
	closed bool
}

func (h *holder) consume(c <-chan extractor.InputBatch) {
	for b := range c {
		h.mu.Lock()
		h.held = append(h.held, b)
		h.mu.Unlock()
	}
	h.mu.Lock()
	h.closed = true
	h.mu.Unlock()
}

// view reads every held batch NOW
func (h *holder) view() (lines []string, closed bool, batches int) {
	h.mu.Lock()
	defer h.mu.Unlock()
	if h.out != nil {
		return append([]string{}, h.out...), h.closed, 0
	}
	for _, b := range h.held {
		for _, l := range b.Batch {
			lines = append(lines, string(l))
		}
	}
	return lines, h.closed, len(h.held)
}

type boutcome struct {
	Kind   string   `json:"kind"` // "" | content | missing | hang | no-end | early-end
	Step   int      `json:"step"`
	Shape  string   `json:"shape"`
	Got    []string `json:"got"`
	Want   []string `json:"want"`
	Detail string   `json:"detail"`
}

type bjob struct {
	idx  int
	v    bvector
	raw  json.RawMessage
	sink string
	poll bool
	kind string
	iv   time.Duration
	rep  int
}

type bresult struct {
	job    bjob
	out    boutcome
	events []M
	infra  error
}

func lineText(k int) string { return fmt.Sprintf("line-%04d-%s", k, strings.Repeat(string(rune('a'+k%26)), 1+k%7)) }

func linesB(ls []string) [][]int {
	out := make([][]int, len(ls))
	for i, l := range ls {
		out[i] = B([]byte(l))
	}
	return out
}

func isLinePrefix(p, s []string) bool {
	if len(p) > len(s) {
		return false
	}
	for i := range p {
		if p[i] != s[i] {
			return false
		}
	}
	return true
}

func bexecute(j bjob, base, bin string, deadline time.Duration) (res bresult) {
	res.job = j
	rng := rand.New(rand.NewSource(vh.Seed()*15485863 + int64(j.idx)*97 + int64(j.rep)))
	pl, err := newPlace(base, j.kind, rng, nil, []string{"suf", "pre"})
	if err != nil {
		res.infra = err
		return
	}
	defer os.RemoveAll(pl.dir)
	var events []M
	log := func(m M) { events = append(events, m) }
	defer func() { res.events = events }()
	log(M{"event": "reset", "sink": j.sink, "batch": j.v.Batch, "plain": j.v.Plain, "poll": j.poll, "path": j.kind})
	h := &holder{}
	var cr *countingReader
	var closeAll func()
	switch j.sink {
	case "hook":
		r, err := followreader.New(pl.path, !j.v.Plain, j.poll)
		if err != nil {
			res.infra = err
			return
		}
		if p, ok := r.(*followreader.PollingFollowReader); ok {
			p.PollDelay = 2 * time.Millisecond
		}
		cr = &countingReader{r: r}
		b := batchers.VerifOpenReaderToChan(pl.path, cr, j.v.Batch, 64, j.iv)
		go h.consume(b.BatchChan())
		closeAll = func() {
			// release the reader loop: the next data ends the stream (nothing is looked at afterwards)
			cr.mu.Lock()
			cr.stop = true
			cr.mu.Unlock()
			if f, err := os.OpenFile(pl.real, os.O_APPEND|os.O_WRONLY, 0o644); err == nil {
				f.WriteString("released\n")
				f.Close()
				for k := 0; k < 1500; k++ {
					h.mu.Lock()
					c := h.closed
					h.mu.Unlock()
					if c {
						break
					}
					time.Sleep(time.Millisecond)
				}
			}
			r.Close()
		}
	case "tail":
		names := make(chan string, 1)
		names <- pl.path
		close(names)
		b := batchers.TailFilesToChan(names, j.v.Batch, 64, !j.v.Plain, j.poll, false)
		go h.consume(b.BatchChan())
		closeAll = func() {}
		time.Sleep(150 * time.Millisecond)
	case "cli":
		a := []string{"filter", "--batch", fmt.Sprint(j.v.Batch), "--workers", "1", "-m", ".*"}
		if j.v.Plain {
			a = append(a, "-f")
		} else {
			a = append(a, "-F")
		}
		if j.poll {
			a = append(a, "--poll")
		}
		cmd := exec.Command(bin, append(a, pl.path)...)
		stdout, err := cmd.StdoutPipe()
		if err != nil {
			res.infra = err
			return
		}
		if err := cmd.Start(); err != nil {
			res.infra = err
			return
		}
		h.out = []string{}
		go func() {
			sc := bufio.NewScanner(stdout)
			for sc.Scan() {
				h.mu.Lock()
				h.out = append(h.out, sc.Text())
				h.mu.Unlock()
			}
			h.mu.Lock()
			h.closed = true
			h.mu.Unlock()
		}()
		closeAll = func() { cmd.Process.Kill(); cmd.Wait() }
		time.Sleep(400 * time.Millisecond)
	}
	defer closeAll()

	var want []string
	written := 0
	var since []string
	fail := func(i int, kind, detail string, got []string) {
		res.out = boutcome{Kind: kind, Step: i, Shape: strings.Join(since, ","), Got: got, Want: append([]string{}, want...), Detail: detail}
	}
	// waits until the reader loop is back in Read with everything delivered (hook) / a moment (others)
	idle := func() bool {
		if cr == nil {
			time.Sleep(60 * time.Millisecond)
			return true
		}
		end := time.Now().Add(deadline)
		for !cr.idleAt(written) {
			if time.Now().After(end) {
				return false
			}
			time.Sleep(200 * time.Microsecond)
		}
		return true
	}
	// reads the held batches until at least `atleast` lines are there (or the deadline passes)
	look := func(atleast int, wantClosed bool, dl time.Duration) ([]string, bool) {
		end := time.Now().Add(dl)
		for {
			ls, closed, _ := h.view()
			if (len(ls) >= atleast && (!wantClosed || closed)) || !isLinePrefix(ls, want) || time.Now().After(end) {
				return ls, closed
			}
			time.Sleep(time.Millisecond)
		}
	}
	long := 3 * j.iv
	if !idle() {
		fail(0, "hang", "the reader loop never asked the follow reader for data", nil)
		return
	}
	for i, st := range j.v.Steps {
		if rng.Intn(4) == 0 {
			pl.noise(rng) // Follow!EnvOther: changes nothing
		}
		switch st.Op {
		case "burst":
			if st.Long {
				time.Sleep(long) // the loop is idle: lastBatchFlush lies before this moment
			}
			var sb strings.Builder
			var ls []string
			for k := 0; k < st.N; k++ {
				t := lineText(len(want) + 1)
				want = append(want, t)
				ls = append(ls, t)
				sb.WriteString(t + "\n")
			}
			log(M{"event": "burst", "lines": linesB(ls)})
			f, err := os.OpenFile(pl.real, os.O_APPEND|os.O_WRONLY, 0o644)
			if err != nil {
				res.infra = err
				return
			}
			f.WriteString(sb.String()) // one write
			f.Close()
			written += sb.Len()
			since = append(since, fmt.Sprintf("burst%d%s", st.N, map[bool]string{true: "-after-pause", false: ""}[st.Long]))
			if !idle() {
				ls, _, _ := h.view()
				fail(i, "hang", fmt.Sprintf("the follow reader did not deliver the appended bytes within %v", deadline), ls)
				log(M{"event": "view", "lines": linesB(ls)})
				return
			}
			atleast := 0
			if j.sink == "hook" {
				atleast = st.Atleast
			}
			got, closed := look(atleast, false, deadline)
			log(M{"event": "view", "lines": linesB(got)})
			switch {
			case !isLinePrefix(got, want):
				fail(i, "content", "the lines read out of the held batches are not the lines appended, in order", got)
				return
			case closed:
				fail(i, "early-end", "the batch channel was closed although the file exists", got)
				return
			case len(got) < atleast:
				fail(i, "missing", fmt.Sprintf("a line that arrived after a pause of %v (flush interval %v) did not surface: %d lines, the specification demands at least %d", long, j.iv, len(got), atleast), got)
				return
			}
		case "remove":
			log(M{"event": "remove"})
			if err := os.Remove(pl.real); err != nil {
				res.infra = err
				return
			}
			since = append(since, "remove")
			got, closed := look(len(want), true, deadline)
			if closed {
				log(M{"event": "closed"})
			}
			log(M{"event": "view", "lines": linesB(got)})
			switch {
			case !isLinePrefix(got, want):
				fail(i, "content", "the lines read out of the held batches are not the lines appended, in order", got)
				return
			case !closed:
				fail(i, "no-end", fmt.Sprintf("plain follow did not end the stream within %v after the removal", deadline), got)
				return
			case len(got) < len(want):
				fail(i, "content", "the stream ended without the last lines", got)
				return
			}
		}
	}
	// a last look after a moment: what was read once is read again
	time.Sleep(20 * time.Millisecond)
	got, _, _ := h.view()
	log(M{"event": "view", "lines": linesB(got)})
	if !isLinePrefix(got, want) {
		fail(len(j.v.Steps), "content", "the lines read out of the held batches are not the lines appended, in order", got)
	}
	return
}

func c15Burst(args []string) error {
	fs := flag.NewFlagSet("c15-burst", flag.ExitOnError)
	in := fs.String("in", "", "vectors ndjson (FollowBatch_Gen)")
	out := fs.String("out", "", "result json")
	trace := fs.String("trace", "", "trace ndjson (FollowBatch_Trace)")
	bin := fs.String("bin", "", "rare binary")
	par := fs.Int("par", 12, "parallel executions")
	ivms := fs.Int("iv", 40, "flush interval of the hook sink in ms")
	nprod := fs.Int("prod", 6, "executions with the production interval (tail, cli)")
	fs.Parse(args)
	base, err := os.MkdirTemp(".", "c15burst")
	if err != nil {
		return err
	}
	defer os.RemoveAll(base)
	iv := time.Duration(*ivms) * time.Millisecond
	var jobs []bjob
	idx := 0
	kinds := []string{"file", "link-same", "file", "link-other"}
	if err := vh.ReadNd(*in, func(raw json.RawMessage) error {
		var v bvector
		if err := json.Unmarshal(raw, &v); err != nil {
			return err
		}
		if v.Batch < 1 {
			return fmt.Errorf("bad vector %s", raw)
		}
		jobs = append(jobs, bjob{idx: idx, v: v, raw: raw, sink: "hook", poll: idx%2 == 1, kind: kinds[(idx/2)%4], iv: iv})
		idx++
		return nil
	}); err != nil {
		return err
	}
	// production interval: the histories with the most time-flushed partial batches, through TailFilesToChan and the CLI
	byTimer := append([]bjob{}, jobs...)
	sort.SliceStable(byTimer, func(a, b int) bool { return byTimer[a].v.Timer > byTimer[b].v.Timer })
	for k := 0; k < *nprod && k < len(byTimer); k++ {
		j := byTimer[k]
		j.iv = 250 * time.Millisecond
		j.sink = "tail"
		j.poll = false
		if k%2 == 1 && *bin != "" {
			j.sink = "cli"
		}
		jobs = append(jobs, j)
	}
	run := func(js []bjob, par int) []bresult {
		res := make([]bresult, len(js))
		var wg sync.WaitGroup
		ch := make(chan int)
		for w := 0; w < par; w++ {
			wg.Add(1)
			go func() {
				defer wg.Done()
				for i := range ch {
					res[i] = bexecute(js[i], base, *bin, 10*time.Second)
				}
			}()
		}
		for i := range js {
			ch <- i
		}
		close(ch)
		wg.Wait()
		return res
	}
	results := run(jobs, *par)
	// what depends on a deadline counts only when it repeats on a re-run of the same history
	isLive := func(k string) bool { return k == "hang" || k == "no-end" || k == "missing" }
	var rj []bjob
	chosen := map[int]bool{}
	for i, r := range results {
		if r.infra == nil && isLive(r.out.Kind) && len(chosen) < 8 {
			chosen[i] = true
			for k := 0; k < 2; k++ {
				j := r.job
				j.rep = 1000*(i+1) + k
				rj = append(rj, j)
			}
		}
	}
	confirmed := map[int]bool{}
	for _, rr := range run(rj, 4) {
		if rr.infra != nil {
			return fmt.Errorf("infrastructure: %w", rr.infra)
		}
		if isLive(rr.out.Kind) {
			confirmed[rr.job.rep/1000-1] = true
		}
	}
	w, err := vh.NewNdWriter(*trace)
	if err != nil {
		return err
	}
	defer w.Close()
	type bmismatch struct {
		Vector  json.RawMessage `json:"vector"`
		Mode    string          `json:"mode"`
		Outcome boutcome        `json:"outcome"`
	}
	var mism []bmismatch
	tid, flaky, timerRuns := 0, 0, 0
	for i, r := range results {
		if r.infra != nil {
			return fmt.Errorf("infrastructure: %w", r.infra)
		}
		if isLive(r.out.Kind) && !confirmed[i] {
			flaky++
			continue
		}
		tid++
		for k, ev := range r.events {
			if k == 0 {
				ev["t"] = tid
			}
			w.Write(ev)
		}
		if r.job.v.Timer > 0 {
			timerRuns++
		}
		if r.out.Kind != "" {
			mode := r.job.sink + ":" + map[bool]string{true: "poll", false: "notify"}[r.job.poll] + ":" +
				map[bool]string{true: "plain", false: "reopen"}[r.job.v.Plain] + ":" + r.job.kind
			mism = append(mism, bmismatch{Vector: r.job.raw, Mode: mode, Outcome: r.out})
		}
	}
	vh.WriteJSON(*out, M{"histories": idx, "runs": len(results), "traces": tid, "flaky_timeouts": flaky,
		"runs_with_timer_flush_followed_by_lines": timerRuns, "interval_ms": *ivms, "mismatches": mism})
	return nil
}

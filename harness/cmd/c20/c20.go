package main

// C20 - the live terminal shows the latest text of every line, within its width.
//
// The driver applies update histories to the REAL writers of rare/pkg/multiterm
// (multiterm.New(), the buffered writer handed out by cmd/helpers.BuildVTerm, and
// WriteLineNoWrap) and records, per call, the bytes that arrived on file descriptor 1.
// It contains no terminal emulator and no expectation: the recorded bytes are judged by
// TLC (spec/Term_Trace.tla: emulator of Term.tla + oracle of TermOracle.tla).
//
//   c20 replay -in vectors.ndjson -out trace.ndjson   B1: histories enumerated by TLC (TermWriter_Gen),
//                                                     the model's predicted screens are carried along as `exp`
//   c20 trace  -out trace.ndjson -n N ...             B2: seeded random histories, buffered writer, trim calls

import (
	"encoding/json"
	"flag"
	"fmt"
	"math/rand"
	"os"
	"strings"
	"syscall"

	"rare/cmd/helpers"
	"rare/pkg/multiterm"

	"verifharness/vh"
)

func main() {
	vh.Main(vh.Commands{"replay": c20Replay, "trace": c20Trace})
}

type M = vh.M

// ---------------------------------------------------------------- stdout capture (fd level)

// capture points file descriptor 1 (and os.Stdout) at a scratch file; take() returns what
// was written since the previous take().  Working at the descriptor level keeps the capture
// valid however the code under test reaches stdout (fmt.Print, os.Stdout.Write, a cached
// *os.File, a raw write to fd 1).
type capture struct {
	f   *os.File
	off int64
}

func newCapture() (*capture, error) {
	f, err := os.CreateTemp(".", "c20-stdout-*")
	if err != nil {
		return nil, err
	}
	os.Remove(f.Name()) // anonymous scratch file
	if err := syscall.Dup3(int(f.Fd()), 1, 0); err != nil {
		return nil, fmt.Errorf("dup3: %w", err)
	}
	return &capture{f: f}, nil
}

// toDevNull / restore: temporarily make fd 1 a character device (the capture file keeps its offset).
// Failures here are harness trouble, not behaviour of the code under test: exit (inconclusive).
func fatal(err error) {
	fmt.Fprintln(os.Stderr, "driver: stdout capture:", err)
	os.Exit(3)
}

func (c *capture) toDevNull() {
	dn, err := os.OpenFile(os.DevNull, os.O_WRONLY, 0)
	if err != nil {
		fatal(err)
	}
	defer dn.Close()
	if err := syscall.Dup3(int(dn.Fd()), 1, 0); err != nil {
		fatal(err)
	}
}

func (c *capture) restore() {
	if err := syscall.Dup3(int(c.f.Fd()), 1, 0); err != nil {
		fatal(err)
	}
}

func (c *capture) take() []byte {
	st, err := c.f.Stat()
	if err != nil {
		fatal(err)
	}
	n := st.Size() - c.off
	buf := make([]byte, n)
	if n > 0 {
		if _, err := c.f.ReadAt(buf, c.off); err != nil {
			fatal(err)
		}
	}
	c.off += n
	if c.off > 8<<20 { // keep the scratch file small
		c.f.Truncate(0)
		c.f.Seek(0, 0)
		c.off = 0
	}
	return buf
}

// ---------------------------------------------------------------- running histories on the real code

type update struct {
	Line int     `json:"line"`
	Text []int   `json:"text"`
	Exp  [][]int `json:"exp,omitempty"`
}

type recorder struct {
	w   *vh.NdWriter
	cap *capture
	t   int
}

func (r *recorder) reset(kind string, cols int, trim bool) {
	r.t++
	r.w.Write(M{"event": "reset", "t": r.t, "kind": kind, "cols": cols, "trim": trim})
	multiterm.VerifSetTermSize(200, cols)
	multiterm.AutoTrim = trim
	r.cap.take()
}

// guarded runs f on the real code; a panic becomes a `panic` event (judged by the spec).
func (r *recorder) guarded(f func()) (ok bool) {
	defer func() {
		if e := recover(); e != nil {
			r.cap.take()
			r.w.Write(M{"event": "panic", "msg": fmt.Sprint(e)})
			ok = false
		}
	}()
	f()
	return true
}

func rows(x [][]int) [][]int {
	if x == nil {
		return [][]int{}
	}
	for i := range x {
		if x[i] == nil {
			x[i] = []int{}
		}
	}
	return x
}

// runHistory applies the updates and Close to a fresh real writer.
func (r *recorder) runHistory(kind string, mk func() multiterm.MultilineTerm, cols int, trim bool,
	steps []update, closeExtra M) {
	r.reset(kind, cols, trim)
	var term multiterm.MultilineTerm
	if !r.guarded(func() { term = mk() }) { // anything the constructor prints belongs to the first event
		return
	}
	for k, u := range steps {
		text := vh.RunesFromInts(u.Text)
		write := func() { term.WriteForLine(u.Line, text) }
		if (k+r.t)%5 == 4 { // the formatting entry point of the same interface
			write = func() { term.WriteForLinef(u.Line, "%s%s", text, "") }
		}
		if !r.guarded(write) {
			return
		}
		ev := M{"event": "upd", "line": u.Line, "text": ints(u.Text), "out": vh.B(r.cap.take())}
		if u.Exp != nil {
			ev["exp"] = rows(u.Exp)
		}
		r.w.Write(ev)
	}
	if !r.guarded(func() { term.Close() }) {
		return
	}
	ev := M{"event": "close", "out": vh.B(r.cap.take())}
	for k, v := range closeExtra {
		ev[k] = v
	}
	r.w.Write(ev)
}

func ints(a []int) []int {
	if a == nil {
		return []int{}
	}
	return a
}

func liveWriter() multiterm.MultilineTerm { return multiterm.New() }

// ---------------------------------------------------------------- B1: replay of TLC-enumerated histories

type vector struct {
	Cols  int      `json:"cols"`
	Trim  bool     `json:"trim"`
	Steps []update `json:"steps"`
	Crow  int      `json:"crow"`
	Vis   bool     `json:"vis"`
	Exp   [][]int  `json:"exp"`
}

func c20Replay(args []string) error {
	fs := flag.NewFlagSet("replay", flag.ExitOnError)
	in := fs.String("in", "", "vectors (ndjson)")
	out := fs.String("out", "c20-b1-trace.ndjson", "trace output")
	stats := fs.String("stats", "c20-b1-stats.json", "statistics output")
	fs.Parse(args)
	w, err := vh.NewNdWriter(*out)
	if err != nil {
		return err
	}
	cp, err := newCapture()
	if err != nil {
		return err
	}
	rec := &recorder{w: w, cap: cp}
	nontrivial := 0
	var samples []interface{}
	err = vh.ReadNd(*in, func(raw json.RawMessage) error {
		var v vector
		if err := json.Unmarshal(raw, &v); err != nil {
			return err
		}
		for i := range v.Steps {
			if v.Steps[i].Exp == nil {
				v.Steps[i].Exp = [][]int{}
			}
		}
		rec.runHistory("live", liveWriter, v.Cols, v.Trim, v.Steps,
			M{"exp": rows(v.Exp), "crow": v.Crow, "vis": v.Vis})
		if isNontrivial(v.Steps) {
			nontrivial++
			if len(samples) < 2 && len(v.Steps[0].Text) > 0 && len(v.Steps[len(v.Steps)-1].Text) > 0 && rec.t%97 == 0 {
				samples = append(samples, M{"cols": v.Cols, "trim": v.Trim, "history": describe(v.Steps)})
			}
		}
		return nil
	})
	w.Close()
	if err != nil {
		return err
	}
	vh.WriteJSON(*stats, M{"runs": rec.t, "events": w.N, "distinct_nontrivial": nontrivial, "samples": samples})
	return nil
}

// a history is non-trivial when it moves the cursor up at least once and rewrites a line
func isNontrivial(steps []update) bool {
	up, rewrite := false, false
	seen := map[int]bool{}
	cur := 0
	for _, u := range steps {
		if u.Line < cur {
			up = true
		}
		if seen[u.Line] {
			rewrite = true
		}
		seen[u.Line] = true
		cur = u.Line
	}
	return up && rewrite
}

func describe(steps []update) []string {
	var out []string
	for i, u := range steps {
		if i >= 6 {
			out = append(out, fmt.Sprintf("... %d more", len(steps)-i))
			break
		}
		txt := vh.RunesFromInts(u.Text)
		if len(txt) > 28 {
			txt = txt[:28] + "..."
		}
		out = append(out, fmt.Sprintf("%d:%q", u.Line, txt))
	}
	return out
}

// ---------------------------------------------------------------- B2: random histories

var visibleRunes = []rune("abcdefgxyzmmm[[0123456789 ;:-_=#|" + "éñß→█▏│€λ" + "\U0001D11E")

var colours = []string{"\x1b[31m", "\x1b[0m", "\x1b[1;32m", "\x1b[38;5;208m", "\x1b[m", "\x1b[4m", "\x1b[0;1;7m"}

// Colour sequences have no maximal length (ESC [ (digit | ;)* m): 24-bit colours, stacked
// attributes, foreground + background.  None of them is produced by rare itself; they arrive
// in keys extracted from input coloured by other tools.
var longColours = []string{
	"\x1b[38;2;255;128;64m",                          // 24-bit foreground (18 runes)
	"\x1b[1;4;38;5;196m",                             // stacked attributes + 256 colour (15)
	"\x1b[48;2;0;0;0m",                               // 24-bit background (13)
	"\x1b[0;1;38;5;46m",                              // (14)
	"\x1b[38;2;255;255;255;48;2;100;100;100m",        // foreground + background (37)
	"\x1b[0;1;3;4;7;9;38;2;12;34;56;48;2;78;90;123m", // (42)
}

// sgrOfLen builds a complete colour sequence of exactly n runes (n >= 3) out of realistic
// parameters (numbers 0..255 separated by ';').
func sgrOfLen(r *rand.Rand, n int) string {
	var sb strings.Builder
	sb.WriteString("\x1b[")
	for sb.Len() < n-1 {
		if sb.Len() > 2 && r.Intn(6) != 0 {
			sb.WriteByte(';')
		}
		sb.WriteString(fmt.Sprint([]int{0, 1, 2, 4, 5, 7, 38, 48, 64, 128, 196, 255}[r.Intn(12)]))
	}
	return sb.String()[:n-1] + "m"
}

// longMode: probability that a colour sequence of the text being generated is a long one
// (set per history / call; 0 keeps the sequences rare itself emits).
var longMode float64

func pickColour(r *rand.Rand) string {
	if longMode > 0 && r.Float64() < longMode {
		if r.Intn(2) == 0 {
			return longColours[r.Intn(len(longColours))]
		}
		return sgrOfLen(r, 3+r.Intn(70))
	}
	return colours[r.Intn(len(colours))]
}

// genText builds a well-formed text with exactly vis visible runes; colour sequences are
// placed before, between and after them with probability pc per gap.
func genText(r *rand.Rand, vis int, pc float64) string {
	var sb strings.Builder
	gap := func() {
		for r.Float64() < pc {
			sb.WriteString(pickColour(r))
		}
	}
	for i := 0; i < vis; i++ {
		gap()
		if r.Intn(4) == 0 {
			sb.WriteRune(visibleRunes[r.Intn(len(visibleRunes))])
		} else {
			sb.WriteRune(visibleRunes[r.Intn(24)])
		}
	}
	gap()
	return sb.String()
}

func pickCols(r *rand.Rand) int {
	switch r.Intn(4) {
	case 0:
		return 1 + r.Intn(4)
	case 1:
		return 1 + r.Intn(12)
	case 2:
		return 20 + r.Intn(101)
	default:
		return 1 + r.Intn(120)
	}
}

// pickVis chooses a visible length around what matters for the width.
func pickVis(r *rand.Rand, cols int, trim bool) int {
	var v int
	switch r.Intn(6) {
	case 0:
		v = 0
	case 1:
		v = cols - 1 + r.Intn(3) // cols-1, cols, cols+1
	case 2:
		v = cols + r.Intn(cols+3)
	default:
		v = r.Intn(cols + 2)
	}
	if v < 0 {
		v = 0
	}
	if !trim && v > cols {
		v = r.Intn(cols + 1) // outside the property's domain otherwise (the text would wrap)
	}
	return v
}

func genHistory(r *rand.Rand, cols int, trim bool, n int, maxLine int) []update {
	steps := make([]update, 0, n)
	cur, top := 0, -1
	pc := []float64{0, 0.1, 0.35}[r.Intn(3)]
	longMode = []float64{0, 0, 0.3, 1}[r.Intn(4)]
	defer func() { longMode = 0 }()
	if longMode == 1 && pc > 0.1 {
		pc = 0.1 // keep the texts of a comparable size
	}
	for i := 0; i < n; i++ {
		var line int
		switch r.Intn(8) {
		case 0:
			line = cur // rewrite in place
		case 1:
			line = cur + 1
		case 2:
			line = top + 1 + r.Intn(4) // past the previous maximum, possibly leaving a gap
		case 3:
			if cur > 0 {
				line = cur - 1
			}
		case 4:
			line = 0
		default:
			line = r.Intn(top + 2)
		}
		if line > maxLine {
			line = r.Intn(maxLine + 1)
		}
		if line > top {
			top = line
		}
		cur = line
		text := genText(r, pickVis(r, cols, trim), pc)
		steps = append(steps, update{Line: line, Text: vh.R(text)})
	}
	return steps
}

func c20Trace(args []string) error {
	fs := flag.NewFlagSet("trace", flag.ExitOnError)
	out := fs.String("out", "c20-b2-trace.ndjson", "trace output")
	stats := fs.String("stats", "c20-b2-stats.json", "statistics output")
	n := fs.Int("n", 300, "number of random in-place histories")
	long := fs.Int("long", 4, "how many of them are long (up to -maxlen updates)")
	maxlen := fs.Int("maxlen", 200, "maximum history length")
	nbuf := fs.Int("buf", 100, "number of buffered-writer histories")
	ntrim := fs.Int("trim", 2000, "number of random WriteLineNoWrap calls")
	exh := fs.Int("exh", 4, "exhaustive WriteLineNoWrap: all texts of up to this many tokens, widths 1..5")
	sgr := fs.Int("sgr", 48, "WriteLineNoWrap with colour sequences of every length 3..sgr")
	fs.Parse(args)
	w, err := vh.NewNdWriter(*out)
	if err != nil {
		return err
	}
	cp, err := newCapture()
	if err != nil {
		return err
	}
	rec := &recorder{w: w, cap: cp}
	r := vh.NewRand(20)
	nontrivial, maxLen, maxTop := 0, 0, 0
	var samples []interface{}

	// in-place writer
	for i := 0; i < *n; i++ {
		cols := pickCols(r)
		trim := r.Intn(4) != 0
		hl := 1 + r.Intn(12)
		maxLine := 1 + r.Intn(10)
		if i < *long {
			hl = *maxlen/2 + r.Intn(*maxlen/2+1)
			maxLine = 5 + r.Intn(40)
		} else if r.Intn(5) == 0 {
			hl = 12 + r.Intn(30)
		}
		steps := genHistory(r, cols, trim, hl, maxLine)
		rec.runHistory("live", liveWriter, cols, trim, steps, nil)
		if isNontrivial(steps) {
			nontrivial++
			if len(samples) < 2 && hl < 8 {
				samples = append(samples, M{"cols": cols, "trim": trim, "history": describe(steps)})
			}
		}
		if hl > maxLen {
			maxLen = hl
		}
		for _, u := range steps {
			if u.Line > maxTop {
				maxTop = u.Line
			}
		}
	}
	nlive := rec.t

	// buffered writer, as wired for --snapshot / piped output (cmd/helpers.BuildVTerm)
	for i := 0; i < *nbuf; i++ {
		cols := pickCols(r)
		trim := r.Intn(2) == 0
		hl := r.Intn(14)
		if r.Intn(8) == 0 {
			hl = 20 + r.Intn(40)
		}
		steps := genHistory(r, cols, trim, hl, 1+r.Intn(14))
		if !trim { // a pipe has no width: long lines are in the domain
			for k := range steps {
				if r.Intn(3) == 0 {
					steps[k].Text = vh.R(genText(r, r.Intn(3*cols+4), 0.1))
				}
			}
		}
		var mk func() multiterm.MultilineTerm
		switch i % 3 {
		case 0:
			// --snapshot while stdout is a character device (as on a tty): fd 1 is pointed at
			// /dev/null just for the construction, so the choice of writer cannot hide behind
			// "stdout is not a tty anyway"; the capture is restored before the first update.
			mk = func() multiterm.MultilineTerm {
				cp.toDevNull()
				defer cp.restore()
				return helpers.BuildVTerm(true)
			}
		case 1:
			mk = func() multiterm.MultilineTerm { return helpers.BuildVTerm(false) } // stdout is not a tty here: piped output
		default:
			mk = func() multiterm.MultilineTerm { return multiterm.NewBufferedTerm() }
		}
		rec.runHistory("buf", mk, cols, trim, steps, nil)
		if isNontrivial(steps) {
			nontrivial++
		}
	}
	nbufDone := rec.t - nlive

	// WriteLineNoWrap directly
	rec.t++
	w.Write(M{"event": "reset", "t": rec.t, "kind": "trim", "cols": 1, "trim": true})
	ntrimDone := 0
	resetAt := map[int]bool{}
	trimCall := func(text string, cols int, on bool) {
		multiterm.VerifSetTermSize(200, cols)
		multiterm.AutoTrim = on
		var sb strings.Builder
		if ntrimDone > 0 && ntrimDone%2000 == 0 && !resetAt[ntrimDone] { // cut the log into traces of 2000 calls
			resetAt[ntrimDone] = true
			rec.t++
			w.Write(M{"event": "reset", "t": rec.t, "kind": "trim", "cols": 1, "trim": true})
		}
		if rec.guarded(func() { multiterm.WriteLineNoWrap(&sb, text) }) {
			w.Write(M{"event": "trim", "text": vh.R(text), "cols": cols, "on": on, "out": vh.BS(sb.String())})
			ntrimDone++
		}
	}
	tokens := []string{"a", "m", "é", "\x1b[31m", "\x1b[m"}
	var rec2 func(prefix string, depth int)
	rec2 = func(prefix string, depth int) {
		for c := 1; c <= 5; c++ {
			trimCall(prefix, c, true)
		}
		if depth == 0 {
			return
		}
		for _, t := range tokens {
			rec2(prefix+t, depth-1)
		}
	}
	rec2("", *exh)
	// every colour-sequence length 3..sgr: one sequence before / inside / after a little text,
	// and two sequences of different lengths, widths 1..5
	for n := 3; n <= *sgr; n++ {
		s1, s2 := sgrOfLen(r, n), sgrOfLen(r, 3+(n*7)%(*sgr-2))
		for _, pre := range []string{"", "a", "éb"} {
			for _, post := range []string{"", "m", "cde"} {
				for c := 1; c <= 5; c++ {
					trimCall(pre+s1+post, c, true)
				}
			}
		}
		for c := 1; c <= 5; c++ {
			trimCall("a"+s1+"b"+s2+"cd", c, true)
			trimCall(s2+s1+"→m"+s1, c, true)
		}
	}
	for i := 0; i < *ntrim; i++ {
		cols := pickCols(r)
		longMode = []float64{0, 0.3, 1}[r.Intn(3)]
		pc := []float64{0, 0.2, 0.5}[r.Intn(3)]
		if longMode == 1 && pc > 0.2 {
			pc = 0.2
		}
		text := genText(r, pickVis(r, cols, true), pc)
		trimCall(text, cols, r.Intn(8) != 0)
	}
	longMode = 0
	w.Close()
	vh.WriteJSON(*stats, M{"runs": rec.t, "live": nlive, "buffered": nbufDone, "trimcalls": ntrimDone,
		"events": w.N, "distinct_nontrivial": nontrivial, "max_history": maxLen, "max_line": maxTop, "samples": samples})
	return nil
}

module verifharness

go 1.23

require (
	github.com/araddon/dateparse v0.0.0-20210207001429-0eec95c9db7e
	rare v0.0.0
)

require (
	github.com/cpuguy83/go-md2man/v2 v2.0.2 // indirect
	github.com/fsnotify/fsnotify v1.4.9 // indirect
	github.com/russross/blackfriday/v2 v2.1.0 // indirect
	github.com/tidwall/gjson v1.14.1 // indirect
	github.com/tidwall/match v1.1.1 // indirect
	github.com/tidwall/pretty v1.2.0 // indirect
	github.com/urfave/cli/v2 v2.11.2 // indirect
	github.com/xrash/smetrics v0.0.0-20201216005158-039620a65673 // indirect
	golang.org/x/sys v0.1.0 // indirect
	golang.org/x/term v0.0.0-20210503060354-a79de5458b56 // indirect
)

replace rare => /repo

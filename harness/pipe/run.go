package pipe

import (
	"fmt"
	"io"
	"sort"
	"sync"
	"time"

	"rare/pkg/extractor"
	"rare/pkg/extractor/batchers"
)

// Scenario is one complete pipeline run.
type Scenario struct {
	ID      int
	Mode    string // "files" (real files and FIFOs through OpenFilesToChan) | "reader" (OpenReaderToChan, 250 ms flush) | "hook" (VerifOpenReaderToChan, FlushMs)
	Sources []Source
	Batch   int
	Workers int
	Readers int
	Buffer  int
	FlushMs int
	Matcher MatcherSpec
	Extract string
	Ignore  []string
	Log     string // "full": batch/proc/ign/recv/final events; "sum": one summary record
	// Gunzip is the -z flag of OpenFilesToChan (file mode): gzip sources are decoded, anything else is
	// read as a plain file from its first byte.
	Gunzip bool
	// Family is a free-form tag copied into the reset record (corpus family, for coverage accounting).
	Family string
	// ConsumerDelay is slept by the consumer before every receive (lets readChan fill up).
	ConsumerDelay time.Duration
	// Deadline after which the run is declared hung (default 60 s).
	Deadline time.Duration
	// LineFacts: the expressions may read {src} / {line}.  The reference facts of a line are then those
	// of the sequential reading (RefEval.EvalAt with the source name and the 1-based line number); all
	// lines of the scenario must be pairwise distinct (identity by content = identity by position).
	LineFacts bool
	// ProcGate, when set, is called by every worker before the matcher runs on a line.
	ProcGate func(worker int, line []byte)
}

// Outcome of a run.
type Outcome struct {
	Hung                   bool
	Read, Matched, Ignored uint64
	Errors                 int
	Batches                [][]int        // per source index: the batch lengths in arrival order
	Keys                   map[string]int // emitted key multiset
	Elapsed                time.Duration
	Instances              int
}

func b2i(b bool) int {
	if b {
		return 1
	}
	return 0
}

func vals(v []string) [][]int {
	out := make([][]int, len(v))
	for i, s := range v {
		out[i] = Val(s)
	}
	return out
}

// WriteHeader writes the reset / cls / file records of a scenario and returns the dictionary.
// mode overrides s.Mode in the record when non-empty (CLI runs).
func WriteHeader(log *EventLog, s *Scenario, mode string) (*Dict, error) {
	ref, err := NewRefEval(s.Matcher, s.Extract, s.Ignore)
	if err != nil {
		return nil, err
	}
	if mode == "" {
		mode = s.Mode
	}
	tf := b2i(s.Mode == "reader" || s.Mode == "hook")
	logKind := s.Log
	if logKind == "" {
		logKind = "full"
	}
	log.Write(M{"event": "reset", "t": s.ID, "mode": mode, "batch": s.Batch, "workers": s.Workers,
		"readers": s.Readers, "buf": s.Buffer, "tf": tf, "nign": len(s.Ignore), "log": logKind,
		"nfiles": len(s.Sources), "gunzip": b2i(s.Gunzip), "family": s.Family, "linefacts": b2i(s.LineFacts)})
	d := NewDict()
	files := make([][]int, len(s.Sources))
	for f := range s.Sources {
		files[f] = make([]int, len(s.Sources[f].Lines))
		for i, l := range s.Sources[f].Lines {
			n := d.Len()
			id := d.Add(l)
			files[f][i] = id
			if s.LineFacts && d.Len() == n {
				return nil, fmt.Errorf("LineFacts scenario %d: line %d of source %d repeats an earlier line", s.ID, i+1, f+1)
			}
			if d.Len() > n { // new content: reference facts
				fc := ref.Eval(l)
				if s.LineFacts {
					fc = ref.EvalAt(l, s.Sources[f].Name, i+1)
				}
				for _, v := range fc.Ignore {
					if len(v) > 4000 {
						return nil, fmt.Errorf("ignore value too long for the trace (%d bytes)", len(v))
					}
				}
				ig := make([][]int, len(fc.Ignore))
				for k, v := range fc.Ignore {
					ig[k] = Ints([]byte(v))
				}
				log.Write(M{"event": "cls", "cid": id, "m": b2i(fc.Matched), "ig": ig, "key": Val(fc.Key)})
			}
		}
	}
	for f := range files {
		log.Write(M{"event": "file", "f": f + 1, "lines": files[f], "kind": s.Sources[f].Kind(), "size": len(s.Sources[f].Raw)})
	}
	return d, nil
}

// Run executes the scenario on the real pipeline and writes its events.
func Run(s *Scenario, log *EventLog) (*Outcome, error) {
	d, err := WriteHeader(log, s, "")
	if err != nil {
		return nil, err
	}
	full := s.Log != "sum"
	srcIndex := map[string]int{}
	for i := range s.Sources {
		srcIndex[s.Sources[i].Name] = i + 1
	}
	inner, err := s.Matcher.Build()
	if err != nil {
		return nil, err
	}
	out := &Outcome{Batches: make([][]int, len(s.Sources)), Keys: map[string]int{}}
	var omu sync.Mutex

	rec := &RecFactory{Inner: inner, Gate: s.ProcGate}
	if full {
		rec.OnProc = func(w int, line []byte, idx []int) {
			log.Write(M{"event": "proc", "w": w, "cid": d.ID(line), "m": b2i(len(idx) > 0)})
		}
	}
	ign, err := NewIgnoreWrap(rec, s.Extract, s.Ignore)
	if err != nil {
		return nil, err
	}
	if full {
		ign.On = func(w int, line []byte, known bool, v []string, res bool, key string) {
			cid := -1
			if known {
				cid = d.ID(line)
			}
			complete := true
			for _, x := range v {
				if len(x) > 4000 { // oversized: drop the values, the record then binds only the key
					v, complete = nil, false
					break
				}
			}
			igv := make([][]int, len(v))
			for k, x := range v {
				igv[k] = Ints([]byte(x))
			}
			log.Write(M{"event": "ign", "w": w, "cid": cid, "vals": igv, "res": b2i(res), "key": Val(key),
				"full": b2i(complete)})
		}
	}

	// ---- inputs
	abort := make(chan struct{})
	var batcher *batchers.Batcher
	var sr *ScriptedReader
	switch s.Mode {
	case "files":
		names := make(chan string, len(s.Sources))
		for i := range s.Sources {
			names <- s.Sources[i].Name
			if s.Sources[i].FIFO {
				go FeedFIFO(&s.Sources[i], abort)
			}
		}
		close(names)
		batcher = batchers.OpenFilesToChan(names, s.Gunzip, s.Readers, s.Batch, s.Buffer)
	case "reader":
		sr = NewScriptedReader(&s.Sources[0])
		var rc io.ReadCloser = sr
		if s.Sources[0].Reader != nil {
			rc = s.Sources[0].Reader
		}
		batcher = batchers.OpenReaderToChan(s.Sources[0].Name, rc, s.Batch, s.Buffer)
	case "hook":
		sr = NewScriptedReader(&s.Sources[0])
		var rc io.ReadCloser = sr
		if s.Sources[0].Reader != nil {
			rc = s.Sources[0].Reader
		}
		batcher = batchers.VerifOpenReaderToChan(s.Sources[0].Name, rc, s.Batch, s.Buffer,
			time.Duration(s.FlushMs)*time.Millisecond)
	default:
		return nil, fmt.Errorf("unknown mode %q", s.Mode)
	}

	// ---- forwarder between the batcher and the extractor
	fwd := Forward(batcher.BatchChan(), func(b extractor.InputBatch) {
		f := srcIndex[b.Source]
		if f > 0 {
			omu.Lock()
			out.Batches[f-1] = append(out.Batches[f-1], len(b.Batch))
			omu.Unlock()
		}
		if full {
			ids := make([]int, len(b.Batch))
			for i, l := range b.Batch {
				ids[i] = d.ID(l)
			}
			log.Write(M{"event": "batch", "f": f, "start": int(b.BatchStart), "lines": ids})
		}
	})

	ex, err := extractor.New(fwd, &extractor.Config{Matcher: rec, Extract: s.Extract, Workers: s.Workers, Ignore: ign})
	if err != nil {
		return nil, err
	}

	// ---- consumer
	t0 := time.Now()
	done := make(chan struct{})
	go func() {
		defer close(done)
		Consume(ex, func(ms []extractor.Match) {
			if s.ConsumerDelay > 0 {
				time.Sleep(s.ConsumerDelay)
			}
			omu.Lock()
			for _, m := range ms {
				out.Keys[m.Extracted]++
			}
			omu.Unlock()
			if full {
				recs := make([]M, len(ms))
				for i, m := range ms {
					recs[i] = M{"f": srcIndex[m.Source], "no": int(m.LineNumber), "cid": d.ID([]byte(m.Line)), "key": Val(m.Extracted)}
				}
				log.Write(M{"event": "recv", "ms": recs})
			}
		})
	}()
	deadline := s.Deadline
	if deadline == 0 {
		deadline = 60 * time.Second
	}
	select {
	case <-done:
	case <-time.After(deadline):
		close(abort)
		out.Hung = true
		out.Elapsed = time.Since(t0)
		log.Write(M{"event": "hang", "read": int(ex.ReadLines()), "matched": int(ex.MatchedLines()), "ignored": int(ex.IgnoredLines())})
		return out, nil
	}
	out.Elapsed = time.Since(t0)
	out.Read, out.Matched, out.Ignored = ex.ReadLines(), ex.MatchedLines(), ex.IgnoredLines()
	out.Errors = batcher.ReadErrors()
	out.Instances = rec.Instances()
	if full {
		log.Write(M{"event": "final", "read": int(out.Read), "matched": int(out.Matched), "ignored": int(out.Ignored), "errors": out.Errors})
	} else {
		log.Write(SumRecord(int(out.Read), int(out.Matched), int(out.Ignored), out.Errors, out.Keys))
	}
	return out, nil
}

// SumRecord builds the summary record: totals and the emitted key multiset.
func SumRecord(read, matched, ignored, errors int, keys map[string]int) M {
	ks := make([]string, 0, len(keys))
	for k := range keys {
		ks = append(ks, k)
	}
	sort.Strings(ks)
	outp := make([]interface{}, len(ks))
	for i, k := range ks {
		outp[i] = M{"k": Val(k), "n": keys[k]}
	}
	return M{"event": "sum", "read": read, "matched": matched, "ignored": ignored, "errors": errors, "out": outp}
}

package pipe

import (
	"bytes"
	"compress/gzip"
	"io"
	"math/rand"
	"os"
	"sync"
	"syscall"
	"time"
)

// Chunk is one delivery step of a Source: wait DelayMs, then deliver the next N bytes of Raw.
// Gate, when non-nil, is received from before the delivery (schedule replay).
type Chunk struct {
	N       int
	DelayMs int
}

// Source is one input of the pipeline.
type Source struct {
	Name   string   // source name seen by the pipeline (file path, or the name given to OpenReaderToChan)
	Lines  [][]byte // the true lines, without terminators (known by construction)
	Raw    []byte   // the byte stream
	Chunks []Chunk  // delivery script; if empty the stream is delivered at once
	FIFO   bool     // file mode only: the path is a named pipe fed by FeedFIFO
	Gz     bool     // file mode only: the file on disk holds gzip(Raw) (read with Scenario.Gunzip)
	// GzSplit, when 0 < GzSplit < len(Raw), makes the gzip file a concatenation of two members
	// (gzip(Raw[:GzSplit]) ++ gzip(Raw[GzSplit:])), which decodes to Raw (RFC 1952, `cat a.gz b.gz`).
	GzSplit int
	// Reader, when set, replaces the ScriptedReader of the stream modes ("reader", "hook"): the caller
	// scripts the Read results itself (e.g. data returned together with an error, PipelineRead.tla).
	Reader io.ReadCloser
}

// Kind names the way the source is opened: "fifo", "gz", "plain" (regular file) or "stream" (no name).
func (s *Source) Kind() string {
	switch {
	case s.FIFO:
		return "fifo"
	case s.Gz:
		return "gz"
	case len(s.Name) > 0 && s.Name[0] == '/':
		return "plain"
	}
	return "stream"
}

// DiskBytes returns what WriteFile puts on disk: Raw, or a gzip stream of Raw when Gz is set.
func (s *Source) DiskBytes() ([]byte, error) {
	if !s.Gz {
		return s.Raw, nil
	}
	var buf bytes.Buffer
	parts := [][]byte{s.Raw}
	if s.GzSplit > 0 && s.GzSplit < len(s.Raw) {
		parts = [][]byte{s.Raw[:s.GzSplit], s.Raw[s.GzSplit:]}
	}
	for _, part := range parts {
		zw := gzip.NewWriter(&buf)
		if _, err := zw.Write(part); err != nil {
			return nil, err
		}
		if err := zw.Close(); err != nil {
			return nil, err
		}
	}
	return buf.Bytes(), nil
}

// WriteFile materialises a regular-file source at Name.
func (s *Source) WriteFile() error {
	b, err := s.DiskBytes()
	if err != nil {
		return err
	}
	return os.WriteFile(s.Name, b, 0o600)
}

// ContentOpts controls BuildRaw.
type ContentOpts struct {
	CRLF          float64 // probability that a line is terminated by CR LF instead of LF
	NoFinalNL     bool    // the last line has no terminator (only honoured when that line is non-empty)
	MaxChunks     int     // upper bound on the number of chunks (0 = single chunk)
	MaxDelayMs    int     // pauses are drawn from 0..MaxDelayMs (most are 0)
	DelayFraction float64 // fraction of chunks that pause
}

// BuildRaw joins lines into a byte stream.  Lines must not contain LF and must not end in CR
// (a terminated line's trailing CR is dropped by the scanner, C04); the caller guarantees that.
func BuildRaw(rng *rand.Rand, lines [][]byte, o ContentOpts) []byte {
	var raw []byte
	for i, l := range lines {
		raw = append(raw, l...)
		last := i == len(lines)-1
		if last && o.NoFinalNL && len(l) > 0 {
			break
		}
		if rng.Float64() < o.CRLF {
			raw = append(raw, '\r')
		}
		raw = append(raw, '\n')
	}
	return raw
}

// RandomChunks cuts n bytes into at most maxChunks pieces with occasional pauses.
func RandomChunks(rng *rand.Rand, n int, o ContentOpts) []Chunk {
	if n == 0 {
		return nil
	}
	k := 1
	if o.MaxChunks > 1 {
		k = 1 + rng.Intn(o.MaxChunks)
	}
	if k > n {
		k = n
	}
	cuts := map[int]bool{}
	for len(cuts) < k-1 {
		cuts[1+rng.Intn(n-1)] = true
	}
	var out []Chunk
	prev := 0
	for i := 1; i <= n; i++ {
		if cuts[i] || i == n {
			c := Chunk{N: i - prev}
			if o.MaxDelayMs > 0 && rng.Float64() < o.DelayFraction {
				c.DelayMs = 1 + rng.Intn(o.MaxDelayMs)
			}
			out = append(out, c)
			prev = i
		}
	}
	return out
}

// ScriptedReader delivers a Source chunk by chunk; a chunk larger than the caller's buffer is
// delivered in pieces.  Close is recorded.
type ScriptedReader struct {
	src    *Source
	ci     int // current chunk
	left   int // bytes left in the current chunk (0 = chunk not started)
	off    int
	Closed bool
	Reads  int
	mu     sync.Mutex
}

func NewScriptedReader(src *Source) *ScriptedReader { return &ScriptedReader{src: src} }

func (s *ScriptedReader) Read(p []byte) (int, error) {
	s.mu.Lock()
	defer s.mu.Unlock()
	s.Reads++
	if s.off >= len(s.src.Raw) {
		return 0, io.EOF
	}
	if s.left == 0 {
		if s.ci < len(s.src.Chunks) {
			c := s.src.Chunks[s.ci]
			s.ci++
			if c.DelayMs > 0 {
				time.Sleep(time.Duration(c.DelayMs) * time.Millisecond)
			}
			s.left = c.N
		} else {
			s.left = len(s.src.Raw) - s.off
		}
	}
	n := s.left
	if n > len(p) {
		n = len(p)
	}
	if n > len(s.src.Raw)-s.off {
		n = len(s.src.Raw) - s.off
	}
	copy(p, s.src.Raw[s.off:s.off+n])
	s.off += n
	s.left -= n
	return n, nil
}

func (s *ScriptedReader) Close() error {
	s.mu.Lock()
	s.Closed = true
	s.mu.Unlock()
	return nil
}

// MakeFIFO creates a named pipe.
func MakeFIFO(path string) error { return syscall.Mkfifo(path, 0o600) }

// FeedFIFO opens the named pipe for writing (blocks until the pipeline opens it for reading) and
// writes the source chunk by chunk.  abort, when closed, makes the feeder give up between chunks.
func FeedFIFO(src *Source, abort <-chan struct{}) error {
	f, err := os.OpenFile(src.Name, os.O_WRONLY, 0)
	if err != nil {
		return err
	}
	defer f.Close()
	chunks := src.Chunks
	raw := src.Raw
	if src.Gz { // the pipe carries the gzip stream; the chunk script (sizes of Raw) does not apply
		if raw, err = src.DiskBytes(); err != nil {
			return err
		}
		chunks = nil
	}
	if len(chunks) == 0 && len(raw) > 0 {
		chunks = []Chunk{{N: len(raw)}}
	}
	off := 0
	for _, c := range chunks {
		if c.DelayMs > 0 {
			select {
			case <-abort:
				return nil
			case <-time.After(time.Duration(c.DelayMs) * time.Millisecond):
			}
		}
		if _, err := f.Write(raw[off : off+c.N]); err != nil {
			return err
		}
		off += c.N
	}
	return nil
}

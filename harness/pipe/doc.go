// Package pipe assembles rare's real extraction pipeline
//
//	inputs -> batchers.OpenFilesToChan / OpenReaderToChan -> [Forwarder] -> extractor.New -> [Consumer]
//
// around scripted inputs and records what happens at the observable points as ndjson events, so that
// a TLA+ trace specification (spec/Pipeline_Trace.tla) can validate the run.  It is shared by the
// drivers of C01 (exactly-once / classification / totals), C02 (line numbers, captures) and C05.
//
// Pieces (each usable on its own):
//
//	Source, Chunk         one input: its true lines (known by construction), the raw byte stream and
//	                      how the stream is delivered (chunk sizes and pauses)
//	ScriptedReader        io.ReadCloser that delivers a Source chunk by chunk (stdin path)
//	FeedFIFO              writes a Source into a named pipe chunk by chunk (file path: the pipeline
//	                      opens the FIFO itself through OpenFilesToChan)
//	Dict                  content dictionary: line bytes -> small integer "cid" (equal lines are
//	                      indistinguishable to every observer, so identity is by content)
//	Forward               goroutine between the batcher's channel and the extractor's input channel;
//	                      calls a hook for every InputBatch that passes
//	RecFactory            matchers.Factory wrapper: every worker's matcher instance reports
//	                      (worker, line, indices) when the worker processes a line
//	IgnoreWrap            extractor.IgnoreSet wrapper: delegates to the real ignore set and reports
//	                      the individual expression values and the key evaluated on the same context
//	Consume               drains Extractor.ReadChan(), calling a hook per received batch
//	EventLog              ndjson writer serialised by a mutex (the "sequence lock": the order of
//	                      lines in the file is a linearisation of the hooks)
//	RefEval               sequential one-line-at-a-time reference evaluation of (matcher, ignore
//	                      expressions, extract expression) on an independent context
//	Run                   puts everything together for one Scenario and returns the Outcome
//
// Event schema written by Run (see Pipeline_Trace.tla), byte strings are JSON arrays of integers:
//
//	{"event":"reset","t":id,"mode":"files|fifo|reader|hook","batch":B,"workers":W,"readers":R,
//	 "buf":C,"tf":0|1,"nign":n,"log":"full|sum","gunzip":0|1,"family":tag}
//	{"event":"cls","cid":c,"m":0|1,"ig":[[..]..],"key":[..]}      reference facts of one content
//	{"event":"file","f":i,"lines":[cid..],"kind":"plain|gz|fifo|stream","size":bytes}
//	                                                               true (decoded) content of input i and how it is opened
//	{"event":"batch","f":i,"start":n,"lines":[cid..]}              a batch passed the forwarder
//	{"event":"proc","w":k,"cid":c,"m":0|1}                         worker k ran the matcher on a line
//	{"event":"ign","w":k,"cid":c,"vals":[[..]..],"res":0|1,"key":[..],"full":0|1}  ignore set consulted
//	{"event":"recv","ms":[{"f":i,"no":n,"cid":c,"key":[..]}..]}     consumer received a batch
//	{"event":"final","read":r,"matched":m,"ignored":i,"errors":e}  totals after the channel closed
//	{"event":"sum","read":r,"matched":m,"ignored":i,"errors":e,"out":[{"k":[..],"n":count}..]}
//	                                                               summary form (big runs, CLI)
package pipe

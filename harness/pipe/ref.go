package pipe

import (
	"fmt"
	"strconv"

	"rare/pkg/expressions"
	"rare/pkg/expressions/funclib"
	"rare/pkg/matchers"
	"rare/pkg/matchers/dissect"
	"rare/pkg/matchers/fastregex"
)

// MatcherSpec names a matcher the way the CLI does.
type MatcherSpec struct {
	Kind       string `json:"kind"` // "always" | "regex" | "dissect"
	Expr       string `json:"expr"`
	IgnoreCase bool   `json:"icase"`
}

// Build compiles the matcher exactly as cmd/helpers.BuildMatcherFromArguments does.
func (m MatcherSpec) Build() (matchers.Factory, error) {
	switch m.Kind {
	case "always", "":
		return &matchers.AlwaysMatch{}, nil
	case "regex":
		e := m.Expr
		if m.IgnoreCase {
			e = "(?i)" + e
		}
		r, err := fastregex.CompileEx(e, false)
		if err != nil {
			return nil, err
		}
		return matchers.ToFactory(r), nil
	case "dissect":
		d, err := dissect.CompileEx(m.Expr, m.IgnoreCase)
		if err != nil {
			return nil, err
		}
		return matchers.ToFactory(d), nil
	}
	return nil, fmt.Errorf("unknown matcher kind %q", m.Kind)
}

// CLIArgs gives the command line flags selecting this matcher.
func (m MatcherSpec) CLIArgs() []string {
	var a []string
	switch m.Kind {
	case "regex":
		a = append(a, "-m", m.Expr)
	case "dissect":
		a = append(a, "-d", m.Expr)
	}
	if m.IgnoreCase && m.Kind != "always" && m.Kind != "" {
		a = append(a, "-I")
	}
	return a
}

// Facts are the class-deciding facts of one line content.
type Facts struct {
	Matched bool
	Ignore  []string // value of every ignore expression (only evaluated when Matched)
	Key     string   // value of the extract expression (only evaluated when Matched)
}

// RefEval is the sequential one-line-at-a-time reference: a private matcher instance, privately
// compiled expressions and an independent context (expressions.KeyBuilderContextArray built from the
// match indices: group i = line[idx[2i]:idx[2i+1]], absent groups empty, named groups by name).
// Expressions must not use the JSON/array specials; {src} and {line} are facts of the line, not of its
// content: they are answered only by EvalAt (scenarios with Scenario.LineFacts, whose lines are
// pairwise distinct, so that identity by content is identity by position).
type RefEval struct {
	m     matchers.Matcher
	names map[string]int
	ign   []*expressions.CompiledKeyBuilder
	key   *expressions.CompiledKeyBuilder
}

func NewRefEval(ms MatcherSpec, extract string, ignore []string) (*RefEval, error) {
	f, err := ms.Build()
	if err != nil {
		return nil, err
	}
	r := &RefEval{m: f.CreateInstance()}
	r.names = r.m.SubexpNameTable()
	for _, e := range ignore {
		c, cerr := funclib.NewKeyBuilder().Compile(e)
		if cerr != nil {
			return nil, cerr
		}
		r.ign = append(r.ign, c)
	}
	k, kerr := funclib.NewKeyBuilder().Compile(extract)
	if kerr != nil {
		return nil, kerr
	}
	r.key = k
	return r, nil
}

func (r *RefEval) Eval(line []byte) Facts { return r.eval(line, nil) }

// EvalAt evaluates the line as line number lineNo (1-based) of the input named src: the context of
// the sequential one-line-at-a-time reading ({src} = src, {line} = lineNo).
func (r *RefEval) EvalAt(line []byte, src string, lineNo int) Facts {
	return r.eval(line, map[string]string{"src": src, "line": strconv.Itoa(lineNo)})
}

func (r *RefEval) eval(line []byte, lineFacts map[string]string) Facts {
	cp := append([]byte(nil), line...)
	idx := r.m.FindSubmatchIndex(cp)
	if len(idx) == 0 {
		return Facts{}
	}
	ctx := &expressions.KeyBuilderContextArray{Keys: map[string]string{}}
	for i := 0; i+1 < len(idx); i += 2 {
		if idx[i] < 0 || idx[i+1] < 0 {
			ctx.Elements = append(ctx.Elements, "")
		} else {
			ctx.Elements = append(ctx.Elements, string(cp[idx[i]:idx[i+1]]))
		}
	}
	for k, v := range lineFacts {
		ctx.Keys[k] = v
	}
	for name, gi := range r.names {
		if gi >= 0 && gi < len(ctx.Elements) {
			ctx.Keys[name] = ctx.Elements[gi]
		}
	}
	f := Facts{Matched: true, Ignore: make([]string, len(r.ign))}
	for i, e := range r.ign {
		f.Ignore[i] = e.BuildKey(ctx)
	}
	f.Key = r.key.BuildKey(ctx)
	return f
}

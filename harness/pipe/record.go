package pipe

import (
	"bufio"
	"bytes"
	"encoding/json"
	"os"
	"runtime"
	"strconv"
	"sync"

	"rare/pkg/expressions"
	"rare/pkg/expressions/funclib"
	"rare/pkg/extractor"
	"rare/pkg/matchers"
)

// M is one ndjson record.
type M = map[string]interface{}

// Ints is the byte-array encoding used on the TLA+ side (never null).
func Ints(b []byte) []int {
	out := make([]int, len(b))
	for i, c := range b {
		out[i] = int(c)
	}
	return out
}

// MaxValueLen is the longest key / ignore value written out in full; longer values are written as
// their first 24 bytes followed by three integers > 255 (length and two hash words), which keeps
// emptiness and (with overwhelming probability) equality - all the trace specification needs of a key.
const MaxValueLen = 96

// Val encodes an expression value for the trace.
func Val(s string) []int {
	if len(s) <= MaxValueLen {
		return Ints([]byte(s))
	}
	out := Ints([]byte(s[:24]))
	var h uint64 = 1469598103934665603
	for i := 0; i < len(s); i++ {
		h ^= uint64(s[i])
		h *= 1099511628211
	}
	return append(out, 256+len(s)%1000000, 256+int(h%1000003), 256+int((h>>32)%1000003))
}

// EventLog is an ndjson writer whose lines are serialised by a mutex: the order of the records is a
// linearisation of the hooks that wrote them.
type EventLog struct {
	mu sync.Mutex
	f  *os.File
	w  *bufio.Writer
	N  int
}

func NewEventLog(path string) (*EventLog, error) {
	f, err := os.Create(path)
	if err != nil {
		return nil, err
	}
	return &EventLog{f: f, w: bufio.NewWriterSize(f, 1<<20)}, nil
}

func (l *EventLog) Write(rec M) {
	b, err := json.Marshal(rec)
	if err != nil {
		panic(err)
	}
	l.mu.Lock()
	l.w.Write(b)
	l.w.WriteByte('\n')
	l.N++
	l.mu.Unlock()
}

func (l *EventLog) Flush() {
	l.mu.Lock()
	l.w.Flush()
	l.mu.Unlock()
}

func (l *EventLog) Close() {
	l.mu.Lock()
	l.w.Flush()
	l.f.Close()
	l.mu.Unlock()
}

// Dict maps line content to a small integer.  Content that was never registered (a line the
// pipeline invented, split or corrupted) gets an id >= UnknownBase.
type Dict struct {
	mu      sync.Mutex
	ids     map[string]int
	byID    [][]byte
	unknown map[string]int
}

const UnknownBase = 1000000

func NewDict() *Dict { return &Dict{ids: map[string]int{}, unknown: map[string]int{}} }

// Add registers content and returns its id (1-based).
func (d *Dict) Add(b []byte) int {
	d.mu.Lock()
	defer d.mu.Unlock()
	if id, ok := d.ids[string(b)]; ok {
		return id
	}
	cp := append([]byte(nil), b...)
	d.byID = append(d.byID, cp)
	d.ids[string(cp)] = len(d.byID)
	return len(d.byID)
}

// ID looks content up.
func (d *Dict) ID(b []byte) int {
	d.mu.Lock()
	defer d.mu.Unlock()
	if id, ok := d.ids[string(b)]; ok {
		return id
	}
	if id, ok := d.unknown[string(b)]; ok {
		return id
	}
	id := UnknownBase + len(d.unknown)
	d.unknown[string(b)] = id
	return id
}

func (d *Dict) Len() int              { return len(d.byID) }
func (d *Dict) Content(id int) []byte { return d.byID[id-1] }

// Forward copies batches from in to the returned channel (capacity 0: the batcher's own channel
// keeps its configured depth), calling on for every batch before it is handed to the extractor.
func Forward(in <-chan extractor.InputBatch, on func(extractor.InputBatch)) <-chan extractor.InputBatch {
	out := make(chan extractor.InputBatch)
	go func() {
		for b := range in {
			if on != nil {
				on(b)
			}
			out <- b
		}
		close(out)
	}()
	return out
}

// goroutine id of the caller (used only to correlate the matcher call and the ignore-set call that
// processLineSync makes for the same line; when the correlation fails the ignore record carries cid -1)
func gid() int64 {
	var buf [64]byte
	n := runtime.Stack(buf[:], false)
	f := bytes.Fields(buf[:n])
	if len(f) < 2 {
		return -1
	}
	id, err := strconv.ParseInt(string(f[1]), 10, 64)
	if err != nil {
		return -1
	}
	return id
}

// RecFactory wraps a matcher factory.  Every instance (one per worker goroutine) calls OnProc when
// the worker runs the matcher on a line, with the 1-based number of the instance.  Gate, when set,
// is called before the matcher runs (schedule control).
type RecFactory struct {
	Inner  matchers.Factory
	OnProc func(worker int, line []byte, indices []int)
	Gate   func(worker int, line []byte)

	mu  sync.Mutex
	n   int
	cur sync.Map // gid -> *curLine
}

type curLine struct {
	worker int
	line   []byte
}

func (f *RecFactory) Instances() int {
	f.mu.Lock()
	defer f.mu.Unlock()
	return f.n
}

func (f *RecFactory) CreateInstance() matchers.Matcher {
	f.mu.Lock()
	f.n++
	w := f.n
	f.mu.Unlock()
	return &recMatcher{f: f, w: w, inner: f.Inner.CreateInstance()}
}

// current returns the (worker, line) the calling goroutine last ran a matcher on.
func (f *RecFactory) current() (int, []byte, bool) {
	v, ok := f.cur.Load(gid())
	if !ok {
		return 0, nil, false
	}
	c := v.(*curLine)
	return c.worker, c.line, true
}

type recMatcher struct {
	f     *RecFactory
	w     int
	inner matchers.Matcher
	slot  *curLine
}

func (m *recMatcher) FindSubmatchIndex(b []byte) []int {
	if m.f.Gate != nil {
		m.f.Gate(m.w, b)
	}
	if m.slot == nil {
		m.slot = &curLine{worker: m.w}
		m.f.cur.Store(gid(), m.slot)
	}
	m.slot.line = b
	idx := m.inner.FindSubmatchIndex(b)
	if m.f.OnProc != nil {
		m.f.OnProc(m.w, b, idx)
	}
	return idx
}

func (m *recMatcher) SubexpNameTable() map[string]int { return m.inner.SubexpNameTable() }

// IgnoreWrap delegates to the real ignore set built from Exprs and reports, for every consultation,
// the value of every ignore expression and of the extract expression evaluated (with separately
// compiled builders) on the very context the worker passed.
type IgnoreWrap struct {
	Inner extractor.IgnoreSet // may be nil when there are no ignore expressions
	exprs []*expressions.CompiledKeyBuilder
	key   *expressions.CompiledKeyBuilder
	Rec   *RecFactory
	On    func(worker int, line []byte, known bool, vals []string, res bool, key string)
}

func NewIgnoreWrap(rec *RecFactory, extract string, ignore []string) (*IgnoreWrap, error) {
	w := &IgnoreWrap{Rec: rec}
	if len(ignore) > 0 {
		inner, err := extractor.NewIgnoreExpressions(ignore...)
		if err != nil {
			return nil, err
		}
		w.Inner = inner
	}
	for _, e := range ignore {
		c, cerr := funclib.NewKeyBuilder().Compile(e)
		if cerr != nil {
			return nil, cerr
		}
		w.exprs = append(w.exprs, c)
	}
	k, kerr := funclib.NewKeyBuilder().Compile(extract)
	if kerr != nil {
		return nil, kerr
	}
	w.key = k
	return w, nil
}

func (s *IgnoreWrap) IgnoreMatch(ctx expressions.KeyBuilderContext) bool {
	res := false
	if s.Inner != nil {
		res = s.Inner.IgnoreMatch(ctx)
	}
	if s.On != nil {
		vals := make([]string, len(s.exprs))
		for i, e := range s.exprs {
			vals[i] = e.BuildKey(ctx)
		}
		key := s.key.BuildKey(ctx)
		w, line, ok := 0, []byte(nil), false
		if s.Rec != nil {
			w, line, ok = s.Rec.current()
		}
		s.On(w, line, ok, vals, res, key)
	}
	return res
}

// Consume drains the extractor's output channel, calling on for every received batch, and returns
// when the channel has been closed.
func Consume(ex *extractor.Extractor, on func([]extractor.Match)) {
	for ms := range ex.ReadChan() {
		if on != nil {
			on(ms)
		}
	}
}
